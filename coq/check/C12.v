(* Correspondence check for C12: a history of heartbeat events on a real
   topology.Topology, with a snapshot of EVERY node's counters, volumes and EC shards
   (read through the verif hook) after every event. *)
From Coq Require Import String List ZArith NArith Bool.
From SW Require Export base.Verdict model.TopoPlace model.TopoCount.
Import ListNotations.

Record case := {
  ops : list op;
  obs : list state   (* obs[i] = the implementation's tree after ops[i] *) }.

(* short constructors for the harness output (arguments get their scopes from the types) *)
Definition P0 : path := [].
Definition P1 (a : string) : path := [a].
Definition P2 (a b : string) : path := [a; b].
Definition P3 (a b c : string) : path := [a; b; c].
Definition P4 (a b c d : string) : path := [a; b; c; d].
Definition U (k : string) (vol remote active ec max : Z) : string * counts :=
  (k, mkCounts vol remote active ec max).
Definition E (p : path) (u : usages) (vs : list vinfo) (es : list ecinfo) : path * ninfo := (p, mkI u vs es).
Definition M (k : string) (v : Z) : string * Z := (k, v).
Definition S (id : N) (disk : string) : vshort := (id, disk).

(* Follow the implementation step by step: after each event the observed tree must be one of
   the model's successor states.  Go map orders are not observable: the order [] is tried first
   and, only when it does not reproduce the observation, every order (step_all, which is exactly
   the set of states reachable under some order: c12_step_all_iff_some_order). *)
Definition step_match (st : state) (o : op) (s : state) : option state :=
  let s0 := step [] st o in
  if state_eqb s0 s then Some s0
  else match o with
       | AdjustMax _ _ | FullEc _ _ => find (fun s' => state_eqb s' s) (step_all st o)
       | _ => None
       end.

Fixpoint replay (st : state) (os : list op) (ob : list state) : bool :=
  match os, ob with
  | [], [] => true
  | o :: os', s :: ob' =>
      match step_match st o s with
      | Some s' => replay s' os' ob'
      | None => false
      end
  | _, _ => false
  end.

(* Property oracle, evaluated on the OBSERVED trees only (pre-state = previous observation).
   Per event:
     never : clauses no finding excuses -- volume, remote-volume and max-volume counters exact
             (at every level, max also against the reported counts); an event outside finding 0
             changes no node's EC drift (UnRegisterDataNode takes the node's drift off its
             ancestors, new nodes start at 0); a full heartbeat outside its finding leaves exactly
             the reported set registered;
     full  : the whole property -- every counter exact, free slots exact, registration clause;
     hit   : the finding this event actually exhibits (trigger on AND the clause it excuses broken).
   Verdict: never fails -> code 2 (no trigger can excuse it); full fails -> 10+k with k the FIRST
   event that exhibits a finding. *)
Fixpoint walk (s : state) (r : ref_state) (os : list op) (ob : list state) : bool * bool * option N :=
  match os, ob with
  | o :: os', s' :: ob' =>
      let r' := ref_step r o in
      let k0 := step_k0 s o in
      let k1 := step_k1 s o in
      let drift_same := drift_step_ok o s s' in
      let regok := step_reg_ok s s' o in
      let never := exact_noec_b s' r' && (k0 || drift_same) && (k0 || k1 || regok) in
      let full := exact_b s' r' && free_exact_b s' r' && regok in
      let hit := if k0 && negb (drift_same && regok) then Some 0%N
                 else if k1 && negb regok then Some 1%N else None in
      let '(n2, f2, h2) := walk s' r' os' ob' in
      (never && n2, full && f2, match hit with Some k => Some k | None => h2 end)
  | _, _ => (true, true, None)
  end.

Definition has_payload (s : state) : bool :=
  existsb (fun e => match i_vols (snd e), i_ecs (snd e) with [], [] => false | _, _ => true end) s.

Definition check (c : case) : outcome :=
  let '(never, full, hit) := walk init_state [] (ops c) (obs c) in
  {| o_corr := replay init_state (ops c) (obs c) && forallb wf_op (ops c);
     o_prop := never && full;
     o_trig := if never then hit else None;
     o_nontrivial := existsb has_payload (obs c) |}.

Definition summarize_cases (l : list case) : summary := summarize check l.
