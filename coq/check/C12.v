(* Correspondence check for C12: a history of heartbeat events on a real
   topology.Topology, with a snapshot of EVERY node's counters, volumes and EC shards
   (read through the verif hook) after every event. *)
From Coq Require Import String List ZArith NArith Bool.
From SW Require Export base.Verdict model.TopoPlace model.TopoCount.
Import ListNotations.

Record case := {
  ops : list op;
  obs : list state   (* obs[i] = the implementation's tree after ops[i] *) }.

(* short constructors for the harness output (arguments get their scopes from the types) *)
Definition P0 : path := [].
Definition P1 (a : string) : path := [a].
Definition P2 (a b : string) : path := [a; b].
Definition P3 (a b c : string) : path := [a; b; c].
Definition P4 (a b c d : string) : path := [a; b; c; d].
Definition U (k : string) (vol remote active ec max : Z) : string * counts :=
  (k, mkCounts vol remote active ec max).
Definition E (p : path) (u : usages) (vs : list vinfo) (es : list ecinfo) : path * ninfo := (p, mkI u vs es).
Definition M (k : string) (v : Z) : string * Z := (k, v).
Definition S (id : N) (disk : string) : vshort := (id, disk).

(* Follow the implementation step by step: after each event the observed tree must be one of
   the model's successor states (Go map orders are not observable, so all orders are tried).
   Returns (model agrees at every step, first known-finding trigger met on the way). *)
Fixpoint replay (st : state) (os : list op) (ob : list state) (trig : option N) : bool * option N :=
  match os, ob with
  | [], [] => (true, trig)
  | o :: os', s :: ob' =>
      let trig' := match trig with Some k => Some k | None => trigger st o end in
      match find (fun s' => state_eqb s' s) (step_all st o) with
      | Some s' => replay s' os' ob' trig'
      | None => (false, trig')
      end
  | _, _ => (false, trig)
  end.

(* property oracle: every observed tree is exact w.r.t. what is registered in it and the
   max counts reported so far *)
Fixpoint prop_all (r : ref_state) (os : list op) (ob : list state) : bool :=
  match os, ob with
  | o :: os', s :: ob' => let r' := ref_step r o in exact_b s r' && prop_all r' os' ob'
  | _, _ => true
  end.

Definition has_payload (s : state) : bool :=
  existsb (fun e => match i_vols (snd e), i_ecs (snd e) with [], [] => false | _, _ => true end) s.

Definition check (c : case) : outcome :=
  let '(corr, trig) := replay init_state (ops c) (obs c) None in
  {| o_corr := corr && forallb wf_op (ops c);
     o_prop := prop_all [] (ops c) (obs c);
     o_trig := trig;
     o_nontrivial := existsb has_payload (obs c) |}.

Definition summarize_cases (l : list case) : summary := summarize check l.
