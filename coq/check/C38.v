(* Correspondence check for C38: histories recorded from real goroutines calling
   Store.WriteVolumeNeedle / ReadVolumeNeedle / DeleteVolumeNeedle on one volume (immediate and
   batched write paths), each call with the stamps of its Inv and Res on a global atomic counter
   and the result it got; after the run: one read per key and cookie, the .dat size, the .dat
   records in file order and the needle-map entries. *)
From Coq Require Import List NArith ZArith Bool.
From SW Require Export base.Verdict model.Volume model.VolumeConc.
Import ListNotations.
Local Open Scope N_scope.

(* short constructors used by the generated cases; the clock reading of every call is 0: no
   needle carries a TTL, so no result depends on it *)
Definition nd (id cookie : N) (data : bytes) (flags : N) (name mime : bytes) (lastmod : N) : needle :=
  {| n_id := id; n_cookie := cookie; n_data := data; n_flags := flags; n_name := name; n_mime := mime;
     n_pairs := []; n_lastmod := lastmod; n_ttl := (0, 0) |}.
Definition vw (cookie size : N) (data : bytes) (flags : N) (name mime : bytes) (lastmod : N) : view :=
  {| v_cookie := cookie; v_size := size; v_data := data; v_flags := flags; v_name := name; v_mime := mime;
     v_pairs := []; v_lastmod := lastmod; v_ttl := (0, 0) |}.
Definition bv (cookie : N) : view := blank_view cookie.

Definition Wr (id inv res : N) (n : needle) (e : err) (unchanged : bool) (size : N) : orec event out :=
  mk_orec id inv res (0, Write n) (OWrite e unchanged size).
Definition Rd (id inv res key cookie : N) (rd : bool) (e : err) (count : Z) (v : view) : orec event out :=
  mk_orec id inv res (0, RawRead key cookie rd) (ORead e count v).
Definition Dl (id inv res key cookie : N) (e : err) (size : Z) : orec event out :=
  mk_orec id inv res (0, RawDelete key cookie) (ODelete e size).
Definition Fr (key cookie : N) (e : err) (count : Z) (v : view) : N * N * out := (key, cookie, ORead e count v).

Definition Rs (off id cookie size : N) : rsig := (off, id, cookie, size).

Record case := {
  ro : bool * bool;                      (* noWriteOrDelete, noWriteCanDelete of the volume before the run *)
  calls : hist;                          (* at most 10 calls *)
  fin : fin_obs                          (* after the run: .dat size, the .dat records in file order
                                            (ScanVolumeFile), the needle-map entry of every key, a read
                                            of every key with every cookie *)
}.

(* the largest number of calls open at the same time *)
Definition open_at (h : hist) (t : N) : nat := length (filter (fun a => (o_inv a <=? t) && (t <? o_res a)) h).
Definition max_overlap (h : hist) : nat := fold_right (fun a m => Nat.max (open_at h (o_inv a)) m) O h.

Definition served (a : orec event out) : bool :=
  match o_out a with ORead ENone _ v => 0 <? blen (v_data v) | _ => false end.

Definition check (c : case) : outcome :=
  let '(a, b) := ro c in
  let evs := map o_op (calls c) in
  {| (* admits: the recorded history with its exact results (error class, unchanged flag, sizes,
        every field read back) and the final observables is one that the model's machine can
        produce, i.e. it is linearizable w.r.t. the sequential volume model *)
     o_corr := lin_check_vol a b (fin c) (calls c);
     (* the property: linearizable w.r.t. the register specification with every answer field, and
        the reads made afterwards are those of the register state of that order; needles
        representable (outside: no statement, so the case counts as failing) *)
     o_prop := wf_history evs && lin_check_reg a b (fo_reads (fin c)) (calls c);
     (* C01's findings seen through the concurrent API: the history contains an empty-payload write
        (0) or a metadata-only rewrite (1) AND every call on every key that no such write touches
        still answers per specification (per-key check); otherwise no trigger *)
     o_trig := match conc_finding evs with
               | Some k => if wf_history evs && lin_check_pk a b (fo_reads (fin c)) (calls c) then Some k else None
               | None => None
               end;
     o_nontrivial := Nat.leb 3 (max_overlap (calls c)) && existsb served (calls c) |}.

Definition summarize_cases (l : list case) : summary := summarize check l.
