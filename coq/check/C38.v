(* Correspondence check for C38: histories recorded from real goroutines calling
   Store.WriteVolumeNeedle / ReadVolumeNeedle / DeleteVolumeNeedle on one volume (immediate and
   batched write paths), each call with the stamps of its Inv and Res on a global atomic counter
   and the result it got; after the run: one read per key and cookie, the .dat size and the
   needle-map entries. *)
From Coq Require Import List NArith ZArith Bool.
From SW Require Export base.Verdict model.Volume model.VolumeConc.
Import ListNotations.
Local Open Scope N_scope.

(* short constructors used by the generated cases; the clock reading of every call is 0: no
   needle carries a TTL, so no result depends on it *)
Definition nd (id cookie : N) (data : bytes) (flags : N) (name mime : bytes) (lastmod : N) : needle :=
  {| n_id := id; n_cookie := cookie; n_data := data; n_flags := flags; n_name := name; n_mime := mime;
     n_pairs := []; n_lastmod := lastmod; n_ttl := (0, 0) |}.
Definition vw (cookie size : N) (data : bytes) (flags : N) (name mime : bytes) (lastmod : N) : view :=
  {| v_cookie := cookie; v_size := size; v_data := data; v_flags := flags; v_name := name; v_mime := mime;
     v_pairs := []; v_lastmod := lastmod; v_ttl := (0, 0) |}.
Definition bv (cookie : N) : view := blank_view cookie.

Definition Wr (id inv res : N) (n : needle) (e : err) (unchanged : bool) (size : N) : orec event out :=
  mk_orec id inv res (0, Write n) (OWrite e unchanged size).
Definition Rd (id inv res key cookie : N) (rd : bool) (e : err) (count : Z) (v : view) : orec event out :=
  mk_orec id inv res (0, RawRead key cookie rd) (ORead e count v).
Definition Dl (id inv res key cookie : N) (e : err) (size : Z) : orec event out :=
  mk_orec id inv res (0, RawDelete key cookie) (ODelete e size).
Definition Fr (key cookie : N) (e : err) (count : Z) (v : view) : N * N * out := (key, cookie, ORead e count v).

Record case := {
  calls : hist;                          (* at most 10 calls *)
  fin_reads : final_reads;               (* a read of every key with every cookie after the run *)
  fin_dat : N;                           (* size of the .dat file after the run *)
  fin_nm : list (N * option (N * Z))     (* needle-map entry (offset, size) of every key *)
}.

(* two calls overlap in real time *)
Definition overlaps (h : hist) : bool :=
  existsb (fun a => existsb (fun b => negb (o_id a =? o_id b) && (o_inv a <? o_res b) && (o_inv b <? o_res a)) h) h.

Definition served (a : orec event out) : bool :=
  match o_out a with ORead ENone _ v => 0 <? blen (v_data v) | _ => false end.

Definition check (c : case) : outcome :=
  {| (* admits: the recorded history with its exact results (error class, unchanged flag, sizes,
        every field read back) and the final .dat size / needle map is one that the model's
        machine can produce, i.e. it is linearizable w.r.t. the sequential volume model *)
     o_corr := lin_check_vol (fin_dat c) (fin_nm c) (calls c);
     (* the property: linearizable w.r.t. the register specification id -> (cookie, last written
        needle), and the reads made afterwards are those of the register state of that order *)
     o_prop := lin_check_reg (fin_reads c) (calls c);
     o_trig := None;
     o_nontrivial := overlaps (calls c) && existsb served (calls c) |}.

Definition summarize_cases (l : list case) : summary := summarize check l.
