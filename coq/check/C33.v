(* Correspondence check for C33.  Two kinds of cases:
   CU  operation.UploadData against an in-process volume server that runs the real
       PostHandler / GetOrHeadHandler, then a raw GET and util.ReadUrlAsStream,
       util.ReadUrl and util.ReadUrlAsReaderCloser (full and ranged, under recover);
   CD  a malformed stream into util.DecompressData / MaybeDecompressData under recover.
   The gzip / AES-GCM / content-sniffing oracles are finite tables the harness
   fills by calling the Go standard library directly on the inputs of the case. *)
From Coq Require Import List NArith Bool String.
From SW Require Export base.Verdict model.UploadCodec.
Import ListNotations.
Local Open Scope N_scope.

(* large inputs are written as repetitions *)
Definition rep (pat : bytes) (k : N) : bytes := N.iter k (fun acc => pat ++ acc) [].

(* bytes written as lower-case hex text (Coq parses a string much faster than a list of numbers) *)
Definition hexv (c : Ascii.ascii) : N := let n := Ascii.N_of_ascii c in if n <? 58 then n - 48 else n - 87.
Fixpoint hb (s : string) : bytes :=
  match s with
  | String a (String b r) => (hexv a * 16 + hexv b) :: hb r
  | _ => []
  end.

Fixpoint beqb (a b : bytes) : bool :=
  match a, b with
  | [], [] => true
  | x :: a', y :: b' => (x =? y) && beqb a' b'
  | _, _ => false
  end.

Fixpoint lookup {K V} (eqb : K -> K -> bool) (k : K) (l : list (K * V)) (dflt : V) : V :=
  match l with
  | [] => dflt
  | (k', v) :: l' => if eqb k k' then v else lookup eqb k l' dflt
  end.

Definition key3_eqb (a b : bytes * bytes * bytes) : bool :=
  beqb (fst (fst a)) (fst (fst b)) && beqb (snd (fst a)) (snd (fst b)) && beqb (snd a) (snd b).

Record tables := {
  t_gzip : list (bytes * bytes);                       (* gzip BestSpeed of the input *)
  t_gunzip : list (bytes * gz_result bytes);            (* gzip.NewReader + ReadAll *)
  t_detect : list (bytes * string);                     (* http.DetectContentType *)
  t_seal : list ((bytes * bytes * bytes) * bytes);      (* (key, nonce, plain) -> gcm.Seal *)
  t_open : list ((bytes * bytes * bytes) * option bytes) (* (key, nonce, sealed) -> gcm.Open *)
}.

(* a query the harness did not anticipate gets an answer that cannot match the implementation *)
Definition oracle_of (t : tables) : oracle :=
  {| o_gzip := fun x => lookup beqb x (t_gzip t) [];
     o_gunzip := fun x => lookup beqb x (t_gunzip t) GzHdrErr;
     o_detect := fun x => lookup beqb x (t_detect t) "?"%string;
     o_seal := fun k n p => lookup key3_eqb (k, n, p) (t_seal t) [];
     o_open := fun k n c => lookup key3_eqb (k, n, c) (t_open t) None |}.

Record ucase := {
  uc_in : upload_in;          (* u_key: the key the client generated; u_nonce: first 12 stored bytes *)
  uc_tab : tables;
  uc_off : N; uc_size : N;    (* the request (ranged; also passed to the full fetches) *)
  uc_buf : N;                 (* len(buf) handed to util.ReadUrl *)
  (* implementation *)
  ui_size : N; ui_gzip : bool; ui_has_key : bool; ui_mime : string (* "" unless encrypted *);
  ui_raw_status : N; ui_raw_ce : bool; ui_raw_body : bytes;   (* GET, Accept-Encoding: gzip, body as sent *)
  (* util.ReadUrlAsStream with (key, gzip flag) of the upload result *)
  ui_full : fres;             (* full chunk, (0, result size) *)
  ui_full_at : fres;          (* full chunk, (uc_off, uc_size) *)
  ui_ranged : fres;           (* not full, (uc_off, uc_size) *)
  ui_handed_full : bytes; ui_handed_ranged : bytes;   (* bytes handed to fn, also when an error follows *)
  ui_retry : bool;            (* some fetch said "retryable" *)
  (* the same with the isContentGzipped argument NEGATED *)
  ui_flip_full_at : fres; ui_flip_ranged : fres;
  (* util.ReadUrl into a buffer of uc_buf bytes *)
  ui_url_full : fres; ui_url_ranged : fres;
  (* util.ReadUrlAsReaderCloser(url, "" / "bytes=off-(off+size-1)") + ReadAll (never decrypts) *)
  ui_rc_full : fres; ui_rc_ranged : fres }.

Record dcase := {
  dc_input : bytes;
  dc_gunzip : gz_result bytes;     (* the standard library on this input *)
  di_decompress : dres bytes; di_maybe : mres bytes }.

Inductive case := CU (c : ucase) | CD (c : dcase).

Definition fres_eqb (a b : fres) : bool :=
  match a, b with
  | FOk x, FOk y => beqb x y
  | FErr, FErr => true
  | FPanic, FPanic => true
  | _, _ => false
  end.
Definition dres_eqb (a b : dres bytes) : bool :=
  match a, b with
  | DOk x, DOk y => beqb x y
  | DErr x u, DErr y v => beqb x y && Bool.eqb u v
  | DPanic, DPanic => true
  | _, _ => false
  end.
Definition mres_eqb (a b : mres bytes) : bool :=
  match a, b with
  | MVal x, MVal y => beqb x y
  | MPanic, MPanic => true
  | _, _ => false
  end.

Definition is_panic (f : fres) : bool := match f with FPanic => true | _ => false end.

Definition fres_is (f : fres) (x : bytes) : bool := fres_eqb f (FOk x).

Definition check_upload (c : ucase) : outcome :=
  let O := oracle_of (uc_tab c) in
  let u := uc_in c in
  let '(w, r) := upload O u in
  let n := server_store w in
  let off := uc_off c in let size := uc_size c in
  let raw := server_get O n {| g_accept_gzip := true; g_range := None |} in
  let k := r_key r in let gz := r_gzip r in
  let rng := Some (off, size) in
  (* the bytes the caller means (None = inside known finding 0) *)
  let clear := if u_ic u then
                 if is_gzipped_content (glib O) (u_data u) then
                   match o_gunzip O (u_data u) with GzOk x => Some x | _ => None end
                 else Some (u_data u)
               else Some (u_data u) in
  let impl_all := [ui_full c; ui_full_at c; ui_ranged c; ui_flip_full_at c; ui_flip_ranged c;
                   ui_url_full c; ui_url_ranged c; ui_rc_full c; ui_rc_ranged c] in
  {| o_corr :=
       (r_size r =? ui_size c) && Bool.eqb (r_gzip r) (ui_gzip c) &&
       Bool.eqb (match r_key r with Some _ => true | None => false end) (ui_has_key c) &&
       String.eqb (r_mime r) (ui_mime c) &&
       (rs_status raw =? ui_raw_status c) && Bool.eqb (rs_ce_gzip raw) (ui_raw_ce c) &&
       beqb (rs_body raw) (ui_raw_body c) &&
       fres_eqb (fetch O n k gz true 0 (r_size r)) (ui_full c) &&
       fres_eqb (fetch O n k gz true off size) (ui_full_at c) &&
       fres_eqb (fetch O n k gz false off size) (ui_ranged c) &&
       beqb (fetch_handed O n k gz true 0 (r_size r)) (ui_handed_full c) &&
       beqb (fetch_handed O n k gz false off size) (ui_handed_ranged c) &&
       (* the modelled server answers 200 / 206 / 416 only: retryable (status >= 500) never *)
       negb (ui_retry c) &&
       fres_eqb (fetch O n k (negb gz) true off size) (ui_flip_full_at c) &&
       fres_eqb (fetch O n k (negb gz) false off size) (ui_flip_ranged c) &&
       fres_eqb (read_url true O n k gz true 0 (r_size r) (uc_buf c)) (ui_url_full c) &&
       fres_eqb (read_url true O n k gz false off size (uc_buf c)) (ui_url_ranged c) &&
       fres_eqb (read_closer true O n None) (ui_rc_full c) &&
       fres_eqb (read_closer true O n rng) (ui_rc_ranged c);
     o_prop :=
       negb (existsb is_panic impl_all) &&
       match clear with
       | Some x =>
           let inr := (0 <? size) && (off + size <=? len x) in
           let sl := slice off size x in
           let plain := negb (u_cipher u) in
           (ui_size c =? len x) && fres_is (ui_full c) x && beqb (ui_handed_full c) x &&
           fres_is (ui_url_full c) (firstn (N.to_nat (uc_buf c)) x) &&
           (if plain then fres_is (ui_rc_full c) x else true) &&
           (if off + size <=? len x then fres_is (ui_full_at c) x else true) &&
           (if inr
            then fres_is (ui_ranged c) sl && beqb (ui_handed_ranged c) sl &&
                 fres_is (ui_url_ranged c) (firstn (N.to_nat (uc_buf c)) sl) &&
                 (if plain then fres_is (ui_rc_ranged c) sl else true)
            else match ui_ranged c with
                 | FOk y => beqb y sl   (* clamped to the end *)
                 | _ => true
                 end)
       | None =>
           (* the upload was accepted although the promised gzip stream is none: the
              least a transparent path could do is hand the bytes back as they are *)
           fres_is (ui_full c) (u_data u)
       end;
     o_trig := if false_gzip_promise O u then Some 0 else None;
     o_nontrivial := match ui_full c with FOk (_ :: _) => true | _ => false end |}.

Definition check_decompress (c : dcase) : outcome :=
  let L := glib {| o_gzip := fun x => x; o_gunzip := fun _ => dc_gunzip c; o_detect := fun _ => ""%string;
                   o_seal := fun _ _ x => x; o_open := fun _ _ _ => None |} in
  {| o_corr := dres_eqb (decompress_data true L (dc_input c)) (di_decompress c) &&
               mres_eqb (maybe_decompress_data true L (dc_input c)) (di_maybe c);
     o_prop := match di_decompress c with DPanic => false | _ => true end &&
               match di_maybe c with MPanic => false | _ => true end;
     o_trig := None;
     o_nontrivial := is_gzipped_content L (dc_input c) |}.

Definition check (c : case) : outcome :=
  match c with CU u => check_upload u | CD d => check_decompress d end.

Definition summarize_cases (l : list case) : summary := summarize check l.
