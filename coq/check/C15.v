(* Correspondence check for C15: plans recorded from the real planners (dry-run)
   on random topology snapshots.  Trace acceptance against the model's transition
   relation, the property oracle on every step of the IMPLEMENTATION's plan. *)
From Coq Require Import List NArith ZArith Bool Arith.
From SW Require Export base.Verdict model.VolPlanner.
Import ListNotations.

Inductive run :=
| RBalance (limit : N) (colls : list (option N)) (dts : list N) (trace : list step)
           (final_reps : list (N * list loc)) (* planner's volumeReplicas afterwards: vid -> (dc, rack, server) *)
| REvac (this : N) (skip : bool) (evs : list eevent)
| RFix (retry : nat) (evs : list fevent)
| RGoodMove (b : N) (reps : list loc) (src tgt : loc) (impl : bool)
| RSatisfy (b : N) (reps : list loc) (c : loc) (impl : bool)
| RPlacement (b : N) (x y z copies : nat).

Record case := { c_snap : snapshot; c_run : run }.

Fixpoint list_N_eqb (a b : list N) : bool :=
  match a, b with
  | [], [] => true
  | x :: a', y :: b' => (x =? y)%N && list_N_eqb a' b'
  | _, _ => false
  end.

Fixpoint list_loc_eqb (a b : list loc) : bool :=
  match a, b with
  | [], [] => true
  | x :: a', y :: b' => loc_eqb x y && list_loc_eqb a' b'
  | _, _ => false
  end.

(* the planner's replica-location bookkeeping (data center and rack included) must be the
   model's, which is the real cluster after the plan *)
Definition reps_agree (w : world) (obs : list (N * list loc)) : bool :=
  forallb (fun p => list_loc_eqb (locs (w_reps w (fst p))) (snd p)) obs.

(* every failing clause must be explained by an active trigger of a finding about that clause *)
Definition explain (fails : list (bool * list (N * bool))) : option N :=
  let active (c : list (N * bool)) := filter (fun kb : N * bool => snd kb) c in
  if forallb (fun f : bool * list (N * bool) =>
                negb (fst f) || match active (snd f) with [] => false | _ => true end) fails then
    match flat_map (fun f : bool * list (N * bool) => if fst f then active (snd f) else []) fails with
    | [] => None
    | (k, _) :: _ => Some k
    end
  else None.

Definition outcome_of (corr : bool) (v : verdict4) (expl : verdict4 -> option N) (nontr : bool) : outcome :=
  {| o_corr := corr; o_prop := v4_all v; o_trig := if v4_all v then None else expl v; o_nontrivial := nontr |}.

Definition check (c : case) : outcome :=
  let s := c_snap c in
  match c_run c with
  | RBalance limit colls dts tr obs =>
      let v := prop_trace s (init_world s) tr in
      outcome_of
        (match balance_accepts limit s colls dts tr with
         | Some w => reps_agree w obs | None => false end)
        v
        (fun v => explain
           [ (negb (ok_coloc v), []);
             (negb (ok_cap v), [(0%N, trig_balance_cap limit s (phases_of colls dts) (init_world s) tr)]);
             (negb (ok_pres v), [(2%N, trig_rp_xy s)]);
             (negb (ok_repair v), []) ])
        (match tr with [] => false | _ => true end)
  | REvac this skip evs =>
      let tr := evac_steps this evs in
      let v := prop_trace s (init_world s) tr in
      outcome_of (evac_accepts s this skip evs) v
        (fun v => explain
           [ (negb (ok_coloc v), []);
             (negb (ok_cap v), [(1%N, trig_evac_cap s this)]);
             (negb (ok_pres v), [(2%N, trig_rp_xy s)]);
             (negb (ok_repair v), []) ])
        (match tr with [] => false | _ => true end)
  | RFix retry evs =>
      let tr := fix_steps evs in
      let v := prop_trace s (init_world s) tr in
      outcome_of (fix_accepts s retry evs) v
        (fun v => explain
           [ (negb (ok_coloc v), []);
             (negb (ok_cap v), []);
             (negb (ok_pres v), []);
             (negb (ok_repair v), []) ])
        (match tr with [] => false | _ => true end)
  | RGoodMove b reps src tgt impl =>
      outcome_of (Bool.eqb (is_good_move (rp_of_byte b) reps src tgt) impl) v4_true (fun _ => None) impl
  | RSatisfy b reps c0 impl =>
      (* oracle: a copy the real satisfyReplicaPlacement admits keeps a completable set completable *)
      outcome_of (Bool.eqb (satisfy (rp_of_byte b) reps c0) impl)
        {| ok_coloc := true; ok_cap := true; ok_pres := true;
           ok_repair := implb (impl && sub_placement (rp_of_byte b) reps) (sub_placement (rp_of_byte b) (c0 :: reps)) |}
        (fun _ => None) impl
  | RPlacement b x y z copies =>
      let p := rp_of_byte b in
      outcome_of (Nat.eqb (rp_dc p) x && Nat.eqb (rp_rack p) y && Nat.eqb (rp_same p) z && Nat.eqb (copy_count p) copies)
        v4_true (fun _ => None) true
  end.

Definition summarize_cases (l : list case) : summary := summarize check l.
