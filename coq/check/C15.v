(* Correspondence check for C15: plans recorded from the real planners (dry-run)
   on random topology snapshots.  Trace acceptance against the model's transition
   relation, the property oracle on every step of the IMPLEMENTATION's plan; a failing
   clause is excused only when EVERY failing step lies in the trigger set of a known finding
   evaluated for that step alone ([excused] / [balance_cap_excused] of the model). *)
From Coq Require Import List NArith ZArith Bool Arith.
From SW Require Export base.Verdict model.VolPlanner.
Import ListNotations.

Inductive run :=
| RBalance (limit : N) (colls : list (option N)) (dts : list N) (trace : list step)
           (final_reps : list (N * list loc)) (* planner's volumeReplicas afterwards: vid -> (dc, rack, server) *)
| REvac (this : N) (skip : bool) (notfound : bool) (evs : list eevent)
        (* notfound: the run ended with "<server> is not found in this cluster" *)
| RFix (retry : nat) (evs : list fevent)
       (final_counts : list (N * N * Z))   (* DiskInfo.VolumeCount afterwards: (server, disk type, count) *)
       (final_reps : list (N * list N))    (* volumeReplicas afterwards: vid -> servers, bookkeeping order *)
| REvacEc (es : list ecnode)            (* EC half of evacuate: servers with the free EC slots the real code computed *)
          (raw : list (N * Z * Z))      (* server, MaxVolumeCount, ActiveVolumeCount of the hard-drive disk *)
          (this : N) (skip notfound : bool) (evs : list ecevent)
| RGoodMove (b : N) (reps : list loc) (src tgt : loc) (impl : bool)
| RSatisfy (b : N) (reps : list loc) (c : loc) (impl : bool)
| RPlacement (b : N) (x y z copies : nat).

Record case := { c_snap : snapshot; c_run : run }.

Fixpoint list_N_eqb (a b : list N) : bool :=
  match a, b with
  | [], [] => true
  | x :: a', y :: b' => (x =? y)%N && list_N_eqb a' b'
  | _, _ => false
  end.

Fixpoint list_loc_eqb (a b : list loc) : bool :=
  match a, b with
  | [], [] => true
  | x :: a', y :: b' => loc_eqb x y && list_loc_eqb a' b'
  | _, _ => false
  end.

(* the planner's replica-location bookkeeping (data center and rack included) must be the
   model's, which is the real cluster after the plan *)
Definition reps_agree (w : world) (obs : list (N * list loc)) : bool :=
  forallb (fun p => list_loc_eqb (locs (w_reps w (fst p))) (snd p)) obs.

(* volume.fix.replication in dry-run changes no replica list (pickOneReplicaToDelete only
   sorts one in place) and counts every planned copy in the target disk's VolumeCount *)
Definition fix_state_agrees (s : snapshot) (evs : list fevent)
  (counts : list (N * N * Z)) (reps : list (N * list N)) : bool :=
  Nat.eqb (length counts) (length (flat_map n_disks s)) &&
  forallb (fun c => match c with (id, dt, n) =>
                      match fix_final_count s evs id dt with Some m => (m =? n)%Z | None => false end end) counts &&
  Nat.eqb (length reps) (length (all_vids s)) &&
  forallb (fun p => is_perm_N (snd p) (map (fun r => l_node (r_loc r)) (reps_of s (fst p)))) reps.

(* [cl]: (clause holds on the whole plan, Some (k, every failing step is in the trigger set of finding k)) *)
Definition explain (cl : list (bool * option (N * bool))) : option N :=
  if forallb (fun c : bool * option (N * bool) =>
                fst c || match snd c with Some (_, true) => true | _ => false end) cl then
    match filter (fun c : bool * option (N * bool) => negb (fst c)) cl with
    | (_, Some (k, _)) :: _ => Some k
    | _ => None
    end
  else None.

Definition outcome_of (corr : bool) (v : verdict4) (expl : option N) (nontr : bool) : outcome :=
  {| o_corr := corr; o_prop := v4_all v; o_trig := if v4_all v then None else expl; o_nontrivial := nontr |}.

Definition check (c : case) : outcome :=
  let s := c_snap c in
  let w0 := init_world s in
  match c_run c with
  | RBalance limit colls dts tr obs =>
      let v := prop_trace s w0 tr in
      outcome_of
        (match balance_accepts limit s colls dts tr with
         | Some w => reps_agree w obs | None => false end)
        v
        (explain
           [ (ok_coloc v, None);
             (ok_cap v, Some (0%N, balance_cap_excused limit s (phases_of colls dts) w0 tr));
             (ok_pres v, Some (2%N, excused ok_pres step_rp_trig s w0 tr));
             (ok_repair v, None) ])
        (match tr with [] => false | _ => true end)
  | REvac this skip notfound evs =>
      let tr := evac_steps this evs in
      let v := prop_trace s w0 tr in
      outcome_of
        (match find_node s this with
         | None => notfound && match evs with [] => true | _ => false end
         | Some _ => negb notfound && evac_accepts s this skip evs
         end)
        v
        (explain
           [ (ok_coloc v, None);
             (ok_cap v, Some (1%N, excused ok_cap (step_evac_trig s this) s w0 tr));
             (ok_pres v, Some (2%N, excused ok_pres step_rp_trig s w0 tr));
             (ok_repair v, None) ])
        (match tr with [] => false | _ => true end)
  | RFix retry evs counts reps =>
      let tr := fix_steps evs in
      let v := prop_trace s w0 tr in
      outcome_of (fix_accepts s retry evs && fix_state_agrees s evs counts reps) v
        (explain
           [ (ok_coloc v, None);
             (ok_cap v, None);
             (ok_pres v && all_steps purge_count_ok s w0 tr, Some (3%N, excused ok_pres step_delete_trig s w0 tr && all_steps purge_count_ok s w0 tr));
             (ok_repair v, None) ])
        (match tr with [] => false | _ => true end)
  | REvacEc es raw this skip notfound evs =>
      let others := ec_others es this in
      let cap := ec_ok_cap others evs in
      outcome_of
        (match ec_find es this with
         | None => notfound && match evs with [] => true | _ => false end
         | Some _ => negb notfound && ec_evac_accepts es this skip evs
         end &&
         (* countFreeShardSlots: (MaxVolumeCount - ActiveVolumeCount) * DataShardsCount - shards *)
         Nat.eqb (length raw) (length es) &&
         forallb (fun r => match r with (id, mx, act) =>
                    match ec_find es id with
                    | Some n => (e_free n =? (mx - act) * 10 - ec_total (e_vols n))%Z
                    | None => false end end) raw)
        {| ok_coloc := true; ok_cap := cap; ok_pres := true; ok_repair := true |}
        (explain [ (cap, Some (4%N, ec_cap_steps (ec_cap_trig es this) others evs)) ])
        (existsb (fun e => match e with EcMove _ _ _ => true | _ => false end) evs)
  | RGoodMove b reps src tgt impl =>
      (* oracle on the REAL isGoodMove's answer: never onto a holder; a valid layout stays valid
         (unless x >= 1 and y >= 2, finding 2) *)
      let p := rp_of_byte b in
      let pres := implb (impl && valid_placement p reps && existsb (loc_eqb src) reps)
                        (valid_placement p (relocate_loc src tgt reps)) in
      outcome_of (Bool.eqb (is_good_move p reps src tgt) impl)
        {| ok_coloc := implb impl (negb (existsb (fun r => (l_node r =? l_node tgt)%N) reps));
           ok_cap := true; ok_pres := pres; ok_repair := true |}
        (explain [ (implb impl (negb (existsb (fun r => (l_node r =? l_node tgt)%N) reps)), None);
                   (pres, Some (2%N, rp_trig p)) ])
        impl
  | RSatisfy b reps c0 impl =>
      (* oracle: a copy the real satisfyReplicaPlacement admits goes to a server without the
         volume, keeps a completable set completable, and is refused for a satisfied volume *)
      let p := rp_of_byte b in
      outcome_of (Bool.eqb (satisfy p reps c0) impl)
        {| ok_coloc := implb impl (negb (existsb (fun r => (l_node r =? l_node c0)%N) reps));
           ok_cap := true;
           ok_pres := implb impl (negb (valid_placement p reps));
           ok_repair := implb (impl && sub_placement p reps) (sub_placement p (c0 :: reps)) |}
        None impl
  | RPlacement b x y z copies =>
      let p := rp_of_byte b in
      outcome_of (Nat.eqb (rp_dc p) x && Nat.eqb (rp_rack p) y && Nat.eqb (rp_same p) z && Nat.eqb (copy_count p) copies)
        v4_true None true
  end.

Definition summarize_cases (l : list case) : summary := summarize check l.
