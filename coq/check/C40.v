(* Correspondence check for C40: one upload (and optionally a delete) of a fresh file
   id through the primary's real PostHandler / DeleteHandler, replicated by the real
   ReplicatedWrite / ReplicatedDelete to real replica volume servers; observed: the
   client-visible statuses and the needle every listed real server reads back. *)
From Coq Require Import List NArith Bool String.
From SW Require Export base.Verdict model.ReplWrite.
Import ListNotations.
Local Open Scope N_scope.

Record case := {
  c_put : bool; c_name : string; c_ctype : string;
  c_enc : N;                       (* 0 plain, 1 gzip stream of the clear bytes, 2 labelled gzip but not gzip *)
  c_pairs : pairs; c_ts : N; c_ttl_set : bool; c_ttl : N * N; c_cm : bool;
  c_body_len : N; c_clear_len : N; c_clear_crc : N; c_body_crc : N;
  c_detect : string; c_gz128 : bool; c_ext_types : list (string * string);
  c_nrepl : N; c_fault : N; c_delete : bool;
  i_status : N; i_after : list view; i_del_status : N; i_after_del : list view
}.

Definition upload_of (c : case) : upload :=
  {| u_req := {| q_put := c_put c; q_name := c_name c; q_ctype := c_ctype c;
                 q_gzip := negb (c_enc c =? 0);
                 q_pairs := c_pairs c; q_ts := c_ts c; q_ttl_set := c_ttl_set c; q_ttl := c_ttl c;
                 q_cm := c_cm c;
                 q_body := if c_enc c =? 1 then {| b_len := c_clear_len c; b_crc := c_clear_crc c; b_gz := true |}
                           else {| b_len := c_body_len c; b_crc := c_body_crc c; b_gz := false |} |};
     u_oracles := {| o_detect := c_detect c; o_gz128 := c_gz128 c; o_ext_types := c_ext_types c |};
     u_nrepl := c_nrepl c; u_fault := c_fault c; u_delete := c_delete c |}.

Definition view_eqb (a b : view) : bool := same_outcome a b && (so_flags a =? so_flags b).

Fixpoint all2 {A} (f : A -> A -> bool) (l1 l2 : list A) : bool :=
  match l1, l2 with
  | [], [] => true
  | x :: l1', y :: l2' => f x y && all2 f l1' l2'
  | _, _ => false
  end.

Definition check (c : case) : outcome :=
  let u := upload_of c in
  {| o_corr :=
       (i_status c =? upload_status u) && all2 view_eqb (views_after_upload u) (i_after c)
       && (if c_delete c
           then (i_del_status c =? delete_status u) && all2 view_eqb (views_after_delete u) (i_after_del c)
           else true);
     (* the property on the implementation's answers: an acknowledged upload leaves every
        listed replica with the primary's outcome, an acknowledged delete leaves the file
        deleted everywhere, and an injected replica failure is reported *)
     o_prop :=
       upload_consistent (i_status c) (i_after c)
       && (if c_delete c then delete_consistent (i_del_status c) (i_after_del c) else true)
       && (if (c_fault c =? 1) || (c_fault c =? 2) || (c_fault c =? 3) then negb (success (i_status c)) else true)
       && (if ((c_fault c =? 1) || (c_fault c =? 2)) && c_delete c then negb (success (i_del_status c)) else true);
     o_trig := trigger u;
     o_nontrivial := success (i_status c) && existsb (fun v => so_state v =? 0) (tl (i_after c)) |}.

Definition summarize_cases (l : list case) : summary := summarize check l.
