(* Correspondence check for C40: short histories of uploads (fresh, identical retry, same
   bytes under other metadata, other bytes, other cookie) and deletes on a few file ids,
   sent to the primary's real PostHandler / DeleteHandler and replicated by the real
   ReplicatedWrite / ReplicatedDelete to real replica volume servers whose answers can
   be made to fail for one step; observed after EVERY step: the client-visible status
   and the needle every listed real server reads back for every file id of the case. *)
From Coq Require Import List NArith Bool String.
From SW Require Export base.Verdict model.ReplWrite.
Import ListNotations.
Local Open Scope N_scope.

(* ---------- compact constructors used by the generated cases ---------- *)

(* an upload: the client's request and the library oracles on it *)
Definition U (put : bool) (name ctype : string)
  (enc : N)                        (* 0 plain, 1 gzip stream of the clear bytes, 2 labelled gzip but not gzip *)
  (prs : pairs) (ts : N) (ttl_set : bool) (tc tu : N) (cm : bool)
  (body_len clear_len clear_crc body_crc : N)
  (detect : string) (gz128 : bool) (ext_types : list (string * string)) : op :=
  Up {| o_detect := detect; o_gz128 := gz128; o_ext_types := ext_types |}
     {| q_put := put; q_name := name; q_ctype := ctype;
        q_gzip := negb (enc =? 0);
        q_pairs := prs; q_ts := ts; q_ttl_set := ttl_set; q_ttl := (tc, tu);
        q_cm := cm;
        q_body := if enc =? 1 then {| b_len := clear_len; b_crc := clear_crc; b_gz := true |}
                  else {| b_len := body_len; b_crc := body_crc; b_gz := false |} |}.

(* a served needle *)
Definition V (flags : N) (name mime : string) (prs : pairs) (lastmod tc tu : N) (dec_ok : bool) (len crc : N) : view :=
  {| so_state := 0; so_flags := flags; so_name := name; so_mime := mime; so_pairs := prs;
     so_lastmod := lastmod; so_ttl := (tc, tu); so_dec_ok := dec_ok; so_len := len; so_crc := crc |}.
(* nothing served: 0 the Size = 0 record, 1 not found, 2 deleted, 3 the server does not hold the volume *)
Definition B (state : N) : view := blank state (state =? 0).

Record hstep := {
  h_key : N; h_ck : N; h_op : op;
  h_faults : list N;               (* per listed replica, for this step only *)
  i_status : N;                    (* what the client was answered *)
  i_views : list (list view)       (* after the step: per file id of the case, primary first then every listed real server *)
}.

Record case := {
  c_nrepl : N;                     (* locations other than the primary the master lists *)
  c_lost : bool;                   (* they are volume servers that do not hold the volume *)
  c_nolookup : bool;               (* the master answers the lookup with an error, or lists fewer locations than the copy count *)
  c_keys : list N;
  c_hist : list hstep
}.

Definition step_of (h : hstep) : step :=
  {| s_key := h_key h; s_ck := h_ck h; s_op := h_op h; s_faults := h_faults h |}.

Definition view_eqb (a b : view) : bool := same_outcome a b && (so_flags a =? so_flags b).

Fixpoint all2 {A} (f : A -> A -> bool) (l1 l2 : list A) : bool :=
  match l1, l2 with
  | [], [] => true
  | x :: l1', y :: l2' => f x y && all2 f l1' l2'
  | _, _ => false
  end.

Fixpoint lookup_views (keys : list N) (vs : list (list view)) (k : N) : list view :=
  match keys, vs with
  | k' :: keys', v :: vs' => if k' =? k then v else lookup_views keys' vs' k
  | _, _ => []
  end.

Definition is_upload (s : step) : bool := match s_op s with Up _ _ => true | Del => false end.

Record verdict1 := { v_corr : bool; v_prop : bool; v_resid : bool; v_trig : option N; v_nontrivial : bool }.

(* one verdict per step: the model's status and views against the implementation's, the
   property on the implementation's answers, the trigger on the model's state *)
Fixpoint walk (c : case) (sy : sys) (h : list hstep) : list verdict1 :=
  match h with
  | [] => []
  | x :: h' =>
      let s := step_of x in
      let r := do_step sy s in
      let kv := lookup_views (c_keys c) (i_views x) (h_key x) in
      {| v_corr := (i_status x =? snd r)
                   && all2 (all2 view_eqb) (map (key_views (fst r)) (c_keys c)) (i_views x);
         (* an acknowledged upload leaves every listed server with the primary's outcome,
            an acknowledged delete leaves the file served nowhere, and a replica that did
            not answer this step (or cannot hold the file) is reported *)
         v_prop := step_consistent s (i_status x) kv
                   && (Nat.eqb (List.length kv) (S (N.to_nat (c_nrepl c))))
                   && (if step_blocked s (N.to_nat (c_nrepl c)) || (is_upload s && c_lost c && (0 <? c_nrepl c)) || c_nolookup c
                       then negb (success (i_status x)) else true);
         (* what must hold on the implementation's answers even inside the step's trigger:
            everything but the mime type (trigger 0), the decoded content (triggers 1, 2),
            only empty records survive an acknowledged delete *)
         v_resid := step_residual s (step_trigger sy s) (i_status x) kv;
         v_trig := step_trigger sy s;
         v_nontrivial := is_upload s && success (i_status x) && existsb (fun v => so_state v =? 0) (tl kv) |}
      :: walk c (fst r) h'
  end.

Definition failing (l : list verdict1) : list verdict1 := filter (fun v => negb (v_prop v)) l.

Definition check (c : case) : outcome :=
  let vs := walk c (init (c_nrepl c) (c_lost c) (c_nolookup c)) (c_hist c) in
  {| o_corr := forallb v_corr vs;
     o_prop := forallb v_prop vs;
     (* per step: a known finding only when EVERY step on which the property fails is
        inside a trigger evaluated on that step and the state it starts from, and the rest
        of the property holds on that step *)
     o_trig := match failing vs with
               | [] => None
               | v :: _ => if forallb (fun w => match v_trig w with Some _ => v_resid w | None => false end) (failing vs)
                           then v_trig v else None
               end;
     o_nontrivial := existsb v_nontrivial vs |}.

Definition summarize_cases (l : list case) : summary := summarize check l.
