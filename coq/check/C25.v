(* Correspondence check for C25: one write request through the real filer write
   handlers, with the entries stored under the two candidate paths (URL path, URL
   path + "/" + file name) before and after it, the chunks handed to DeleteChunks,
   the chunks left unreferenced, and a full + ranged GET through the real read handler.

   Small cases carry every byte (chunk sizes of a few bytes, entered through the
   verif hook); Big cases went through the real autoChunk (chunk sizes are
   multiples of 1 MiB) and carry lengths, offsets and CRC32s only. *)
From Coq Require Import List NArith ZArith Bool.
From SW Require Export base.Verdict model.FilerWrite.
Import ListNotations.
Local Open Scope N_scope.

(* ---------- equality tests ---------- *)
Fixpoint list_eqb {A} (f : A -> A -> bool) (l1 l2 : list A) : bool :=
  match l1, l2 with
  | [], [] => true
  | x :: l1', y :: l2' => f x y && list_eqb f l1' l2'
  | _, _ => false
  end.
Definition opt_eqb {A} (f : A -> A -> bool) (a b : option A) : bool :=
  match a, b with
  | Some x, Some y => f x y
  | None, None => true
  | _, _ => false
  end.
Definition bytes_eqb := list_eqb N.eqb.
Definition chunk_eqb (a b : chunk) : bool :=
  (ck_off a =? ck_off b) && (ck_size a =? ck_size b) && bytes_eqb (ck_data a) (ck_data b).
Definition entry_eqb (a b : entry) : bool :=
  (e_size a =? e_size b) && bytes_eqb (e_content a) (e_content b) &&
  list_eqb chunk_eqb (e_chunks a) (e_chunks b) && opt_eqb N.eqb (e_md5 a) (e_md5 b).
Definition status_eqb (a b : status) : bool :=
  match a, b with
  | Created, Created | Failed, Failed | Other, Other => true
  | _, _ => false
  end.

(* ================= Small cases ================= *)

Definition node_eqb (a b : node) : bool :=
  match a, b with
  | NMissing, NMissing => true
  | NFile x, NFile y => entry_eqb x y
  | NDir x, NDir y => entry_eqb x y
  | _, _ => false
  end.

(* multiset equality of byte strings (order of completion of concurrent uploads is not observable) *)
Fixpoint count_occ_b (x : list N) (l : list (list N)) : nat :=
  match l with
  | [] => O
  | y :: l' => (if bytes_eqb x y then 1 else 0) + count_occ_b x l'
  end.
Definition multiset_eqb (a b : list (list N)) : bool :=
  Nat.eqb (length a) (length b) && forallb (fun x => Nat.eqb (count_occ_b x a) (count_occ_b x b)) a.

Record scase := {
  sc_method : method; sc_append : bool; sc_etc : bool;
  sc_cs : Z; sc_limit : Z;
  sc_body : list N; sc_end : ending;
  sc_upfail : list bool;          (* per chunk index: its upload fails after all retries *)
  sc_md5tab : list N;             (* nth n = tag of md5(body[:n]), n = 0..len *)
  sc_slash : bool;                (* the URL path ends with "/" *)
  sc_hasname : bool;              (* the file name (PUT: last path element; POST: part file name) is not empty *)
  sc_parent_file : bool;          (* an ancestor of the URL path is a regular file *)
  sc_a : node;                    (* stored under the URL path before the request *)
  sc_b : node;                    (* stored under URL path + "/" + file name before the request *)
  sc_range : N * N;               (* a byte range [from, from+len) for the ranged GET *)
  (* implementation *)
  si_status : status;
  si_upfail_hit : bool;           (* the stand-ins really served a scripted permanent failure *)
  si_a : node; si_b : node;       (* the same two paths after the request *)
  si_deleted : list (list N);     (* contents of this request's uploads that were handed to DeleteChunks *)
  si_leaked : list (list N);      (* contents of this request's uploads referenced by no entry and not deleted *)
  si_replaced : N;                (* how many chunks of the entries stored before were handed to DeleteChunks *)
  si_get : option (list N);       (* body of a real GET of the resolved path after a 201 (None: not 200) *)
  si_get_range : option (list N)  (* body of a real GET with Range: bytes=from-(from+len-1) (None: not 206) *)
}.

Definition sc_request (c : scase) : request :=
  {| rq_method := sc_method c; rq_append := sc_append c; rq_etc := sc_etc c;
     rq_cs := sc_cs c; rq_limit := sc_limit c; rq_body := sc_body c; rq_end := sc_end c;
     rq_upfail := sc_upfail c |}.
Definition sc_fsreq (c : scase) : fsreq :=
  {| fr_rq := sc_request c; fr_slash := sc_slash c; fr_hasname := sc_hasname c;
     fr_parent_file := sc_parent_file c |}.
Definition sc_state (c : scase) : fsstate := {| fs_a := sc_a c; fs_b := sc_b c |}.

(* md5 oracle: only ever asked about prefixes of the body *)
Definition md5_of_tab (tab : list N) (l : list N) : N := nth (length l) tab 0.

(* ---- the property, judged on what the implementation did (independent of handle_write_fs) ---- *)

(* documented path rule: a URL path that names an existing directory receives the file name *)
Definition spec_redirect (c : scase) : bool :=
  negb (sc_slash c) && sc_hasname c && match sc_a c with NDir _ => true | _ => false end.

Definition slice (from len : N) (l : list N) : list N :=
  firstn (N.to_nat len) (skipn (N.to_nat from) l).

Definition spec_small (c : scase) : bool :=
  let must_fail := is_err (sc_end c) || si_upfail_hit c in
  let red := spec_redirect c in
  let pre_t := if red then sc_b c else sc_a c in
  let post_t := if red then si_b c else si_a c in
  let pre_o := if red then sc_a c else sc_b c in
  let post_o := if red then si_a c else si_b c in
  match si_status c with
  | Other => false
  | Failed => node_eqb (si_a c) (sc_a c) && node_eqb (si_b c) (sc_b c)       (* nothing committed *)
  | Created =>
      negb must_fail && node_eqb post_o pre_o &&
      match post_t with
      | NFile e =>
          let expected :=
            match (if sc_append c then pre_t else NMissing) with
            | NFile e0 => Some (read_entry e0 ++ sc_body c)     (* immediately after the current end *)
            | NMissing => Some (sc_body c)
            | NDir _ => None
            end in
          match expected with
          | None => false
          | Some ex =>
              bytes_eqb (read_entry e) ex && (e_size e =? N.of_nat (length ex)) &&
              opt_eqb bytes_eqb (si_get c) (Some ex) &&
              (let '(from, len) := sc_range c in
               if (len =? 0) || (N.of_nat (length ex) <? from + len) then true
               else opt_eqb bytes_eqb (si_get_range c) (Some (slice from len ex)))
          end
      | _ => false       (* 201, but no file holds the bytes *)
      end
  end.

Definition check_small (c : scase) : outcome :=
  let r := handle_write_fs (md5_of_tab (sc_md5tab c)) (sc_fsreq c) (sc_state c) in
  {| o_corr := status_eqb (fo_status r) (si_status c) &&
               node_eqb (fs_a (fo_state r)) (si_a c) && node_eqb (fs_b (fo_state r)) (si_b c) &&
               multiset_eqb (map ck_data (fo_deleted r)) (si_deleted c) &&
               multiset_eqb (map ck_data (fo_leaked r)) (si_leaked c) &&
               (N.of_nat (length (fo_replaced r)) =? si_replaced c) &&
               Bool.eqb (match sc_method c with
                         | PostRaw => false          (* the upload loop is never entered *)
                         | _ => ur_err (upload_of (sc_request c))
                         end) (si_upfail_hit c);
     o_prop := spec_small c;
     o_trig := None;     (* no known finding left (former finding 0, append onto a directory, is repaired) *)
     o_nontrivial := status_eqb (si_status c) Created && negb (is_nil (sc_body c)) |}.

(* ================= Big cases ================= *)

(* entry summary: FileSize, inline (length, crc32), chunks (offset, size, crc32), md5 tag *)
Record sentry := { s_size : N; s_inline : option (N * N); s_chunks : list (N * N * N); s_md5 : option N }.

Record bcase := {
  bc_method : method; bc_append : bool; bc_etc : bool;
  bc_maxmb_q : Z;                 (* maxMB query parameter, 0 = absent *)
  bc_maxmb_opt : Z;               (* option.MaxMB *)
  bc_limit : Z;
  bc_len : N; bc_end : ending;
  bc_upfail : list bool;
  bc_slices : list (N * N * N);   (* (a, b, crc32(body[a:b])) for all cut points a<b in {0, k MiB, len} *)
  bc_md5tab : list (N * N);       (* (n, tag of md5(body[:n])) for the cut points *)
  bc_parent_file : bool;          (* the parent directory of the path is a regular file (and the path is missing) *)
  bc_pre : option sentry;
  bc_pre_dir : bool;              (* bc_pre is a DIRECTORY entry (only generated without a file name: no redirection) *)
  bi_status : status;
  bi_code : N;                    (* the HTTP status code written by filerHandler/autoChunk *)
  bi_upfail_hit : bool;
  bi_post : option sentry;
  bi_post_dir : bool }.

Definition pair_eqb (a b : N * N) : bool := (fst a =? fst b) && (snd a =? snd b).
Definition triple_eqb (a b : N * N * N) : bool :=
  pair_eqb (fst a) (fst b) && (snd a =? snd b).
Definition sentry_eqb (a b : sentry) : bool :=
  (s_size a =? s_size b) && opt_eqb pair_eqb (s_inline a) (s_inline b) &&
  list_eqb triple_eqb (s_chunks a) (s_chunks b) && opt_eqb N.eqb (s_md5 a) (s_md5 b).

(* crc32 of body[a:b]; an unknown slice gets a value no crc32 can take *)
Definition slice_crc (tab : list (N * N * N)) (a b : N) : N :=
  match find (fun t => pair_eqb (fst t) (a, b)) tab with
  | Some t => snd t
  | None => 4294967296 + a
  end.
Definition md5_at (tab : list (N * N)) (n : N) : N :=
  match find (fun t => fst t =? n) tab with
  | Some t => snd t
  | None => 4294967296 + n
  end.

Definition s_extent (cks : list (N * N * N)) : N :=
  fold_left (fun m c => N.max m (fst (fst c) + snd (fst c))) cks 0.

(* handle_write on summaries: autoChunk's chunk size (None = 400), the plan
   (lengths) of the upload loop, then saveMetaData *)
Definition big_expected (b : bcase) : status * option sentry * bool :=
  match auto_chunk_size (bc_maxmb_q b) (bc_maxmb_opt b), bc_method b with
  | None, _ => (Failed, bc_pre b, false)
  | Some _, PostRaw => (Failed, bc_pre b, false)
  | Some cs, _ =>
    let p := plan_upload cs (bc_limit b) (negb (bc_append b)) (bc_etc b)
                         (bc_len b) (bc_end b) (bc_upfail b) in
    if pl_err p || pl_rerr p then (Failed, bc_pre b, pl_err p)
    else
      match (if bc_append b then bc_pre b else None) with
      | Some e =>
          if bc_pre_dir b then (Failed, bc_pre b, false)         (* saveMetaData: "... is a directory" *)
          else
          match s_inline e with
          | Some _ => (Failed, bc_pre b, false)
          | None =>
            let at_ := N.max (s_extent (s_chunks e)) (s_size e) in   (* entry.Size() *)
            (Created,
             Some {| s_size := at_ + pl_off p; s_inline := None;
                     s_chunks := s_chunks e ++
                       map (fun c => (fst c + at_, snd c,
                                      slice_crc (bc_slices b) (fst c) (fst c + snd c))) (pl_chunks p);
                     s_md5 := None |}, false)
          end
      | None =>
          if bc_parent_file b then (Failed, bc_pre b, false)     (* CreateEntry: "... is a file" *)
          else if bc_pre_dir b then (Failed, bc_pre b, false)    (* CreateEntry: "existing ... is a directory" *)
          else
          (Created,
           Some {| s_size := pl_off p;
                   s_inline := if pl_small p =? 0 then None
                               else Some (pl_small p, slice_crc (bc_slices b) 0 (pl_small p));
                   s_chunks := map (fun c => (fst c, snd c,
                                      slice_crc (bc_slices b) (fst c) (fst c + snd c))) (pl_chunks p);
                   s_md5 := Some (md5_at (bc_md5tab b) (pl_hashed p)) |}, false)
      end
  end.

(* the status code autoChunk answers with: 400 bad maxMB; 500 not multipart / upload
   failure / append to inline content / append onto a directory ("... is a directory") /
   file over a directory; 499 "read input: ..."; 409 "... is a file"; 201 *)
Definition big_code (b : bcase) : N :=
  match auto_chunk_size (bc_maxmb_q b) (bc_maxmb_opt b), bc_method b with
  | None, _ => 400
  | Some _, PostRaw => 500
  | Some cs, _ =>
    let p := plan_upload cs (bc_limit b) (negb (bc_append b)) (bc_etc b)
                         (bc_len b) (bc_end b) (bc_upfail b) in
    if pl_err p then 500 else if pl_rerr p then 499
    else match (if bc_append b then bc_pre b else None) with
         | Some e => if bc_pre_dir b then 500
                     else match s_inline e with Some _ => 500 | None => 201 end
         | None => if bc_parent_file b then 409 else if bc_pre_dir b then 500 else 201
         end
  end.

(* the chunks tile [base+from, base+len) in order, each holding the body bytes of its own position *)
Fixpoint tiles_ok (tab : list (N * N * N)) (base from len : N) (cks : list (N * N * N)) : bool :=
  match cks with
  | [] => from =? len
  | (o, sz, crc) :: cks' =>
      (o =? base + from) && (0 <? sz) && (from + sz <=? len) &&
      (crc =? slice_crc tab from (from + sz)) && tiles_ok tab base (from + sz) len cks'
  end.

Fixpoint drop_prefix (pre l : list (N * N * N)) : option (list (N * N * N)) :=
  match pre, l with
  | [], _ => Some l
  | x :: pre', y :: l' => if triple_eqb x y then drop_prefix pre' l' else None
  | _ :: _, [] => None
  end.

Definition spec_big (b : bcase) : bool :=
  let must_fail := is_err (bc_end b) || bi_upfail_hit b in
  match bi_status b with
  | Other => false
  | Failed => opt_eqb sentry_eqb (bi_post b) (bc_pre b) && Bool.eqb (bi_post_dir b) (bc_pre_dir b)
  | Created =>
      negb must_fail && negb (bi_post_dir b) && negb (bc_append b && bc_pre_dir b) &&
      match bi_post b with
      | None => false
      | Some e =>
          match (if bc_append b then bc_pre b else None) with
          | Some e0 =>
              (* the old pieces are kept and the new ones tile [END, END+len) *)
              let END := N.max (s_size e0) (s_extent (s_chunks e0)) in
              match s_inline e0, s_inline e, drop_prefix (s_chunks e0) (s_chunks e) with
              | None, None, Some new =>
                  (s_size e =? END + bc_len b) && tiles_ok (bc_slices b) END 0 (bc_len b) new
              | _, _, _ => false
              end
          | None =>
              (s_size e =? bc_len b) &&
              match s_inline e with
              | Some (l, crc) => (l =? bc_len b) && (crc =? slice_crc (bc_slices b) 0 (bc_len b)) &&
                                 is_nil (s_chunks e)
              | None => tiles_ok (bc_slices b) 0 0 (bc_len b) (s_chunks e)
              end
          end
      end
  end.

Definition check_big (b : bcase) : outcome :=
  let '(st, post, uerr) := big_expected b in
  {| o_corr := status_eqb st (bi_status b) && opt_eqb sentry_eqb post (bi_post b) &&
               Bool.eqb (bi_post_dir b) (match st with Created => false | _ => bc_pre_dir b end) &&
               Bool.eqb uerr (bi_upfail_hit b) && (big_code b =? bi_code b);
     o_prop := spec_big b;
     o_trig := None;
     o_nontrivial := status_eqb (bi_status b) Created && (0 <? bc_len b) |}.

(* ================= cases ================= *)

Inductive case := Small (c : scase) | Big (b : bcase).

Definition check (c : case) : outcome :=
  match c with
  | Small s => check_small s
  | Big b => check_big b
  end.

Definition summarize_cases (l : list case) : summary := summarize check l.
