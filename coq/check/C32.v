(* Correspondence check for C32.  Two kinds of cases:
   CGet   one GET/HEAD of a stored blob on the real volume server handler (GetOrHeadHandler
          over a real Store), with the Range and Accept-Encoding headers, against
          get_or_head of model/HttpRange.v;
   CParse one call of the real parseRange (text, size) for sizes up to 2^63-1 against
          parse_range. *)
From Coq Require Import List NArith ZArith Bool String Ascii.
From Coq Require Export Uint63.   (* exported: cases.v uses %uint63 literals *)
From SW Require Export base.Verdict model.HttpRange.
Import ListNotations.

(* ---- compact byte strings: 7 bytes per primitive integer, below a leading 1 ---- *)
Definition byte_of_int (x : Uint63.int) : N := Z.to_N (Uint63.to_Z x).
Fixpoint unchunk (fuel : nat) (x : Uint63.int) (acc : list N) : list N :=
  match fuel with
  | O => acc
  | S f => if Uint63.leb x 1%uint63 then acc   (* the leading "1" *)
           else unchunk f (Uint63.lsr x 8%uint63) (byte_of_int (Uint63.land x 255%uint63) :: acc)
  end.
Definition unpack (cs : list Uint63.int) : list N := flat_map (fun c => unchunk 8 c []) cs.
(* header values that are not printable ASCII are given as bytes *)
Definition str_of_bytes (l : list N) : string :=
  fold_right (fun n s => String (ascii_of_N n) s) EmptyString l.
(* the blobs of sizes 0..6 are "abcdef" prefixes *)
Definition letters (n : nat) : blob := map (fun i => (97 + N.of_nat i)%N) (seq 0 n).

Record get_case := {
  c_head : bool;                    (* HEAD instead of GET *)
  c_dl : bool;                      (* ?dl=true *)
  c_flag : bool;                    (* needle stored with the IsCompressed flag *)
  c_data : blob;                    (* needle data as stored *)
  c_plain : option blob;            (* Some p: what util.DecompressData returns on c_data (None: not asked, = c_data) *)
  c_gzok : bool;                    (* util.DecompressData returned no error *)
  c_name : string;                  (* needle name *)
  c_mime : string;                  (* needle mime *)
  c_extmime : string;               (* mime.TypeByExtension(filepath.Ext(name)) *)
  c_ae : string;                    (* Accept-Encoding header, "" = absent *)
  c_range : string;                 (* Range header, "" = absent *)
  c_items : option (list item);     (* Some l when c_range is the spelling l of a structured header *)
  (* implementation observables: the headers the handler set when it wrote the status line, and the body *)
  i_status : N;
  i_ct : string;                    (* Content-Type (multipart: media type only) *)
  i_cdisp : string;                 (* Content-Disposition *)
  i_ar : bool;                      (* Accept-Ranges: bytes *)
  i_cr : option crange;             (* Content-Range header *)
  i_cl : option Z;                  (* Content-Length header *)
  i_body : body;
  i_gzip : bool                     (* Content-Encoding: gzip *)
}.

Record parse_case := {
  p_range : string;
  p_size : Z;
  p_items : option (list item);
  p_res : option (list range)       (* what parseRange returned; None = error *)
}.

Inductive case := CGet (g : get_case) | CParse (p : parse_case).

Definition stored_of (c : get_case) : stored :=
  {| st_flag := c_flag c; st_data := c_data c;
     st_plain := match c_plain c with Some p => p | None => c_data c end;
     st_gzok := c_gzok c; st_name := c_name c; st_mime := c_mime c; st_extmime := c_extmime c |}.
Definition impl_of (c : get_case) : response :=
  {| r_status := i_status c; r_ct := i_ct c; r_cr := i_cr c; r_cl := i_cl c; r_body := i_body c |}.

Definition nonempty_body (r : response) : bool :=
  match r_body r with
  | Plain b _ => negb (is_nil b)
  | Multipart _ ps _ _ => existsb (fun p => negb (is_nil (snd p))) ps
  end.

(* the structured reading of the header is accepted only if it really spells the header *)
Definition items_match (its : option (list item)) (hdr : string) : bool :=
  match its with
  | Some l => items_ok l && String.eqb (render_header l) hdr
  | None => true
  end.

Definition check_get (c : get_case) : outcome :=
  let s := stored_of c in
  let m := get_or_head (c_head c) (c_dl c) s (c_ae c) (c_range c) in
  let impl := impl_of c in
  (* property side: the representation is determined by the encoding the implementation chose *)
  let rep := representation s (i_gzip c) in
  (* trigger side: input only (the model's negotiation gives the size the ranges refer to) *)
  let size := blen (fst (negotiate s (c_ae c))) in
  let range_trig :=
    if c_head c || str_empty (c_range c) then None
    else match c_items c with
         | Some its => trig_specs (specs_of its) size
         | None => trig_parsed (parse_range (c_range c) size) size
         end in
  {| o_corr := response_eqb (f_resp m) impl && Bool.eqb (f_gzip m) (i_gzip c)
               && String.eqb (f_cdisp m) (i_cdisp c) && Bool.eqb (f_ar m) (i_ar c)
               && items_match (c_items c) (c_range c)
               (* the declared assumption about the framing arithmetic holds on every generated case *)
               && mp_fits_hdr (c_range c) (fst (negotiate s (c_ae c))) (mime_of s);
     o_prop := gzip_ok s (c_ae c) (i_gzip c) && rep_ok s (i_gzip c)
               && (if c_head c then head_ok rep impl
                   else if str_empty (c_range c) then full_200 rep impl
                   else match c_items c with
                        | Some its => spec_ok rep (specs_of its) impl
                        | None => self_consistent rep impl
                        end);
     o_trig := match range_trig with
               | Some k => Some k
               | None => if trig_gzip s (c_ae c) then Some 5%N
                         else if trig_corrupt s (c_ae c) then Some 7%N else None
               end;
     o_nontrivial := ((i_status c =? 200)%N || (i_status c =? 206)%N) && nonempty_body impl |}.

Definition oranges_eqb (a b : option (list range)) : bool :=
  match a, b with
  | Some x, Some y => ranges_eqb x y
  | None, None => true
  | _, _ => false
  end.

Definition check_parse (p : parse_case) : outcome :=
  let m := parse_range (p_range p) (p_size p) in
  {| o_corr := oranges_eqb m (p_res p) && items_match (p_items p) (p_range p)
               && (0 <=? p_size p)%Z && (p_size p <=? int64_max)%Z;
     o_prop := match p_items p with
               | Some its => parse_spec_ok (specs_of its) (p_size p) (p_res p)
               | None => parse_raw_ok (p_size p) (p_res p)
               end;
     o_trig := match p_items p with
               | Some its => trig_parse_specs (specs_of its) (p_size p)
               | None => trig_parse_raw m
               end;
     o_nontrivial := match p_res p with Some (_ :: _) => true | _ => false end |}.

Definition check (c : case) : outcome :=
  match c with
  | CGet g => check_get g
  | CParse p => check_parse p
  end.

Definition summarize_cases (l : list case) : summary := summarize check l.
