(* Correspondence check for C32: one GET/HEAD of a stored blob on the real
   volume server handler (GetOrHeadHandler over a real Store), with the Range
   and Accept-Encoding headers, against the model of model/HttpRange.v. *)
From Coq Require Import List NArith ZArith Bool String.
From SW Require Export base.Verdict model.HttpRange.
Import ListNotations.

Record case := {
  c_head : bool;                    (* HEAD instead of GET *)
  c_flag : bool;                    (* needle stored with the IsCompressed flag *)
  c_data : blob;                    (* needle data as stored *)
  c_plain : blob;                   (* what the harness compressed (= c_data when not gzip) *)
  c_ae : string;                    (* Accept-Encoding header, "" = absent *)
  c_range : string;                 (* Range header, "" = absent *)
  c_specs : option (list rspec);    (* Some l when c_range was printed from l *)
  (* implementation observables *)
  i_status : N;
  i_cr : option crange;             (* Content-Range header *)
  i_cl : option Z;                  (* Content-Length header (multipart: header minus encoded body size) *)
  i_body : body;                    (* 416 bodies projected to empty *)
  i_gzip : bool                     (* Content-Encoding: gzip *)
}.

Definition stored_of (c : case) : stored :=
  {| st_flag := c_flag c; st_data := c_data c; st_plain := c_plain c |}.
Definition impl_of (c : case) : response :=
  {| r_status := i_status c; r_cr := i_cr c; r_cl := i_cl c; r_body := i_body c |}.

Definition nonempty_body (r : response) : bool :=
  match r_body r with
  | Plain b _ => negb (match b with [] => true | _ => false end)
  | Multipart ps => existsb (fun p => negb (match snd p with [] => true | _ => false end)) ps
  end.

Definition check (c : case) : outcome :=
  let s := stored_of c in
  let m := get_or_head (c_head c) s (c_ae c) (c_range c) in
  let impl := impl_of c in
  (* property side: the representation is determined by the encoding the implementation chose *)
  let rep := representation s (i_gzip c) in
  (* trigger side: input only (the model's negotiation gives the size the ranges refer to) *)
  let size := blen (fst (negotiate s (c_ae c))) in
  let range_trig :=
    if c_head c || str_empty (c_range c) then None
    else match c_specs c with
         | Some sps => trig_specs sps size
         | None => trig_parsed (parse_range (c_range c) size) size
         end in
  {| o_corr := response_eqb (f_resp m) impl && Bool.eqb (f_gzip m) (i_gzip c)
               && match c_specs c with
                  | Some sps => String.eqb (print_header sps) (c_range c)
                  | None => true
                  end;
     o_prop := gzip_ok s (c_ae c) (i_gzip c)
               && (if c_head c then head_ok rep impl
                   else if str_empty (c_range c) then full_200 rep impl
                   else match c_specs c with
                        | Some sps => spec_ok rep sps impl
                        | None => self_consistent rep impl
                        end);
     o_trig := match range_trig with
               | Some k => Some k
               | None => if trig_gzip s (c_ae c) then Some 5%N else None
               end;
     o_nontrivial := ((i_status c =? 200)%N || (i_status c =? 206)%N) && nonempty_body impl |}.

Definition summarize_cases (l : list case) : summary := summarize check l.
