(* Correspondence check for C26.
   ReqCase: one HTTP request + identity configuration + how the harness signed it;
            observables of the REAL code: getRequestAuthType, iam.Auth(recorder, a) for the
            five actions, the route of the real mux table that matched, the response of
            the real router, whether the filer stand-in saw an operation, the identity
            headers Auth left on the request, and the (handler, ACTION constant) pairs extracted
            from the text of s3api_server.go, and the buckets the filer stand-in was asked to GET from.
   PolCase: one IAM policy document + prior actions; observables: iamapi.GetActions,
            the user's actions after PutUserPolicy, Identity.canDo on a grid. *)
From Coq Require Import List NArith Bool String.
From SW Require Export base.Verdict model.S3Auth.
Import ListNotations.
Local Open Scope string_scope.
Local Open Scope list_scope.

Inductive dec_obs :=
| DRun (name : string) (admin : bool)        (* the wrapped handler ran; identity headers it saw *)
| DReject (status : N) (code : string).      (* Auth answered itself *)

Record req_case := {
  c_ids : list identity;
  c_req : request;
  c_claim : claim;
  c_env : env;                               (* upload known to the filer stand-in, POST body, client-sent identity headers *)
  i_type : auth_type;
  i_direct : list dec_obs;                   (* for s3_actions, in that order *)
  i_route : option N;
  i_resp : N * string;
  i_filer : bool;                            (* the filer stand-in saw any operation (lookup, mkdir, upload ...) *)
  i_fwrite : bool;                           (* ... a data upload (putToFiler) *)
  i_fread : list string;                     (* buckets (first segment under BucketsPath) the filer stand-in was asked to GET
                                                an object of over HTTP, sorted, without repetition *)
  i_idhdr : string * bool;
  i_route_actions : list (string * string)
}.

Record pol_case := {
  p_doc : list statement;
  p_prior : list string;
  p_impl_actions : list string;
  p_impl_after : list string;
  p_impl_grants : list bool                  (* s3_actions x grid_buckets, row-major *)
}.

Inductive case := ReqCase (c : req_case) | PolCase (c : pol_case).

(* Abbreviations the harness may use when it prints a case (they only shorten
   cases.v; comparisons are on the strings they stand for).  [H i] is the name the
   harness expects for the i-th Auth-wrapped handler; a name found in the source
   that differs from it is printed literally. *)
Definition H (i : N) : string := nth (N.to_nat i) (map rt_name route_table) "".
Definition SHA_EMPTY : string := "e3b0c44298fc1c149afbf4c8996fb92427ae41e4649b934ca495991b7852b855".
Definition SHA_STREAMING : string := streamingContentSHA256.
Definition mkid (name ak sk : string) (acts : list string) : identity :=
  {| id_name := name; id_creds := match ak with EmptyString => [] | _ => [(ak, sk)] end; id_actions := acts |}.

(* ---------- small equalities ---------- *)
Definition auth_type_eqb (a b : auth_type) : bool :=
  match a, b with
  | Unknown, Unknown | Anonymous, Anonymous | Presigned, Presigned | PresignedV2, PresignedV2
  | PostPolicy, PostPolicy | StreamingSigned, StreamingSigned | Signed, Signed | SignedV2, SignedV2
  | JWT, JWT => true
  | _, _ => false
  end.

Definition resp_eqb (a b : N * string) : bool := N.eqb (fst a) (fst b) && String.eqb (snd a) (snd b).
Definition idhdr_eqb (a b : string * bool) : bool := String.eqb (fst a) (fst b) && Bool.eqb (snd a) (snd b).
Definition opt_n_eqb (a b : option N) : bool :=
  match a, b with Some x, Some y => N.eqb x y | None, None => true | _, _ => false end.

Fixpoint list_eqb {A B} (f : A -> B -> bool) (l1 : list A) (l2 : list B) : bool :=
  match l1, l2 with
  | [], [] => true
  | x :: l1', y :: l2' => f x y && list_eqb f l1' l2'
  | _, _ => false
  end.

Definition pair_str_eqb (a b : string * string) : bool := String.eqb (fst a) (fst b) && String.eqb (snd a) (snd b).

(* model decision vs observed decision of a direct Auth call *)
Definition dec_matches (e : env) (d : decision) (o : dec_obs) : bool :=
  match d, o with
  | Run w, DRun name admin => idhdr_eqb (seen_id_header (Run w) e) (name, admin)
  | Reject e, DReject st code => resp_eqb (api_error e) (st, code)
  | _, _ => false
  end.

(* responses Auth itself produces *)
Definition auth_reject_responses : list (N * string) :=
  map api_error [ErrAccessDenied; ErrNotImplemented; ErrInvalidAccessKeyID; ErrSignatureDoesNotMatch;
                 ErrExpiredPresignRequest; ErrMissingFields; ErrInvalidQueryParams].
Definition is_auth_reject (r : N * string) : bool := existsb (resp_eqb r) auth_reject_responses.

(* ---------- request cases ---------- *)
Definition req_corr (c : req_case) : bool :=
  let r := c_req c in
  (* 1. classification *)
  auth_type_eqb (get_request_auth_type r) (i_type c) &&
  (* 2. the Auth wrapper for every action *)
  list_eqb (dec_matches (c_env c)) (map (auth (c_ids c) r (c_claim c)) s3_actions) (i_direct c) &&
  (* 3. the mux table: which route matches *)
  opt_n_eqb (route_match r) (i_route c) &&
  (* 4. handler -> action as written in the source text *)
  list_eqb pair_str_eqb (map (fun rt => (rt_name rt, rt_action rt)) route_table) (i_route_actions c) &&
  (* 5. the request through the real router: Auth answered itself (fixed response, filer
        untouched, identity headers as the client sent them) or let the handler run (identity
        headers as set by Auth on top of the client's);
     6. the handler's own verification (PutObject / PutObjectPart / PostPolicy): when the model
        says the handler refuses, the response is that refusal, no upload reached the filer and
        (except PutObjectPart's lookup, which precedes the verification) the filer saw nothing *)
  match route_match r with
  | None => negb (i_filer c) && idhdr_eqb (i_idhdr c) (e_client_idhdr (c_env c))
  | Some i =>
      match route_decision (c_ids c) r (c_claim c) i with
      | Reject e => resp_eqb (api_error e) (i_resp c) && negb (i_filer c) &&
                    idhdr_eqb (i_idhdr c) (e_client_idhdr (c_env c))
      | Run w =>
          if N.eqb i list_buckets_index
          then i_filer c && idhdr_eqb (i_idhdr c) (e_client_idhdr (c_env c))     (* authUser sets no header; the handler lists *)
          else idhdr_eqb (i_idhdr c) (seen_id_header (Run w) (c_env c)) &&
               match handler_gate (c_ids c) r (c_claim c) (c_env c) i w with
               | GReject h => resp_eqb (herr_resp h) (i_resp c) && negb (i_fwrite c) &&
                              (N.eqb i PUT_OBJECT_PART_IDX || negb (i_filer c))
               | GPass _ =>
                   (* 7. copy routes: which bucket the handler downloads the source from *)
                   negb (N.eqb i COPY_OBJECT_IDX || N.eqb i COPY_OBJECT_PART_IDX) ||
                   list_eqb String.eqb (match copy_reads_source r (c_env c) i with Some sb => [sb] | None => [] end) (i_fread c)
               end
      end
  end.

(* property oracle, evaluated on the implementation's observables only *)
Definition obs_ran (o : dec_obs) : bool := match o with DRun _ _ => true | DReject _ _ => false end.

Fixpoint direct_ok (c : req_case) (acts : list string) (obs : list dec_obs) : bool :=
  match acts, obs with
  | a :: acts', o :: obs' =>
      (negb (obs_ran o) ||
       authorized_spec (c_ids c) (i_type c) (c_claim c) a (rq_bucket (c_req c))) && direct_ok c acts' obs'
  | _, _ => true
  end.

(* evidence that the handler behind Auth ran *)
Definition router_ran (c : req_case) : bool :=
  i_filer c || negb (idhdr_eqb (i_idhdr c) (e_client_idhdr (c_env c))) || negb (is_auth_reject (i_resp c)).

Definition is_streaming (t : auth_type) : bool := match t with StreamingSigned => true | _ => false end.
Definition is_post_policy (t : auth_type) : bool := match t with PostPolicy => true | _ => false end.

(* "takes effect": for the routes whose handler verifies a bypass type itself the request
   takes effect when it reaches the filer; everywhere else when the handler runs *)
Definition effect (c : req_case) (i : N) : bool :=
  if bypass_type (i_type c) && (N.eqb i PUT_OBJECT_IDX || N.eqb i PUT_OBJECT_PART_IDX || N.eqb i POST_POLICY_IDX)
  then i_filer c else router_ran c.

(* the property's right-hand side on the implementation's classification and the route
   actions read from the source: header / presigned signature, anonymous, V4 streaming seed
   (PutObject, PutObjectPart), POST policy (PostPolicyBucket) *)
Definition effect_spec_obs (c : req_case) (i : N) : bool :=
  let t := i_type c in
  match nth_error (i_route_actions c) (N.to_nat i) with
  | Some (_, action) =>
      (authorized_spec (c_ids c) t (c_claim c) action (rq_bucket (c_req c)) ||
      (is_streaming t && (N.eqb i PUT_OBJECT_IDX || N.eqb i PUT_OBJECT_PART_IDX) &&
       seed_spec (c_ids c) (c_req c) (c_claim c)) ||
      (is_post_policy t && N.eqb i POST_POLICY_IDX && policy_spec (c_ids c) (c_req c) (e_form (c_env c))))
      (* ... and whatever bucket the filer was asked to hand an object of (GetObject: the URL's
         bucket; copies: the SOURCE bucket): the signer may Read it *)
      && forallb (fun b => authorized_spec (c_ids c) t (c_claim c) ACTION_READ b) (i_fread c)
  | None => authenticated_spec (c_ids c) t (c_claim c)          (* ListBuckets *)
  end.

(* the identity context a handler may see: name / admin flag of the identity whose
   signature is valid (or of the anonymous identity) and nothing else *)
Definition expected_idhdr (c : req_case) : string * bool :=
  let t := i_type c in
  let of_id (id : identity) := if String.eqb (id_name id) "" then ("", false) else (id_name id, is_admin (id_actions id)) in
  if is_sig_type t then
    match find_cred_spec (c_ids c) (cl_ak (c_claim c)) with Some (id, _, _) => of_id id | None => ("", false) end
  else match t with
       | Anonymous => match find (fun i => String.eqb (id_name i) "anonymous") (c_ids c) with
                      | Some id => of_id id | None => ("", false) end
       | _ => ("", false)
       end.

Fixpoint direct_hdr_ok (c : req_case) (obs : list dec_obs) : bool :=
  match obs with
  | DRun name admin :: obs' => idhdr_eqb (name, admin) (expected_idhdr c) && direct_hdr_ok c obs'
  | _ :: obs' => direct_hdr_ok c obs'
  | [] => true
  end.

(* authorisation part of the oracle *)
Definition req_prop_authz (c : req_case) : bool :=
  match c_ids c with
  | [] => true                                  (* no identities configured: the property does not apply *)
  | _ =>
      (* the wrapper alone: for the two types it hands to the handlers unchecked the
         obligation moves to the router level below *)
      (bypass_type (i_type c) || direct_ok c s3_actions (i_direct c)) &&
      match i_route c with
      | None => negb (i_filer c)
      | Some i => negb (effect c i) || effect_spec_obs c i
      end
  end.

(* identity-context part of the oracle *)
Definition req_prop_hdr (c : req_case) : bool :=
  match c_ids c with
  | [] => true
  | _ =>
      direct_hdr_ok c (i_direct c) &&
      match i_route c with
      | None => true
      | Some i => N.eqb i list_buckets_index || negb (router_ran c) || negb (effect c i) ||
                  idhdr_eqb (i_idhdr c) (expected_idhdr c)
      end
  end.

Definition req_prop (c : req_case) : bool := req_prop_authz c && req_prop_hdr c.

Definition client_sent_idhdr (c : req_case) : bool := negb (idhdr_eqb (e_client_idhdr (c_env c)) ("", false)).

(* finding 2 is reported only when the authorisation part holds, so that no authorisation
   failure can hide behind a client-sent identity header *)
Definition req_trig (c : req_case) : option N :=
  let t2 := if client_sent_idhdr c && req_prop_authz c then Some 2%N else None in
  match route_match (c_req c) with
  | Some i =>
      if trigger1 (c_ids c) (c_req c) (c_env c) i then Some 1%N
      else if trigger0 (c_ids c) (c_req c) (c_claim c) i then Some 0%N
      else if trigger3 (c_ids c) (c_req c) (c_claim c) (c_env c) i then Some 3%N
      else t2
  | None => t2
  end.

Definition req_check (c : req_case) : outcome :=
  {| o_corr := req_corr c;
     o_prop := req_prop c;
     o_trig := req_trig c;
     o_nontrivial := existsb obs_ran (i_direct c) || i_filer c |}.

(* ---------- policy cases ---------- *)
Definition grid_buckets : list string := [""; "b1"; "b2"; "c3"; "b"].
Definition grid : list (string * string) :=
  flat_map (fun a => map (fun b => (a, b)) grid_buckets) s3_actions.

Definition pol_corr (c : pol_case) : bool :=
  list_eqb String.eqb (get_actions (p_doc c)) (p_impl_actions c) &&
  list_eqb String.eqb (put_user_policy (p_prior c) (p_doc c)) (p_impl_after c) &&
  list_eqb Bool.eqb (map (fun ab => can_do (p_impl_after c) (fst ab) (snd ab)) grid) (p_impl_grants c).

Fixpoint grants_ok (c : pol_case) (g : list (string * string)) (obs : list bool) : bool :=
  match g, obs with
  | (a, b) :: g', o :: obs' =>
      (negb o || allows (p_prior c) a b || named (p_doc c) a b) && grants_ok c g' obs'
  | [], [] => true
  | _, _ => false
  end.

Definition pol_check (c : pol_case) : outcome :=
  {| o_corr := pol_corr c;
     o_prop := grants_ok c grid (p_impl_grants c);
     o_trig := None;
     o_nontrivial := existsb (fun b => b) (p_impl_grants c) |}.

Definition check (c : case) : outcome :=
  match c with
  | ReqCase c => req_check c
  | PolCase c => pol_check c
  end.

Definition summarize_cases (l : list case) : summary := summarize check l.
