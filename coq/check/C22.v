(* Correspondence check for C22: sequential schedules on the real log_buffer.LogBuffer
   (flush function captured = the persisted log) with, for every step, the state
   projection / the events a read delivered / the subscriber's state.

   Cases are written with primitive 63-bit integers and explicit constructors ([ic]/[inil],
   [cons]) because parsing Z literals and list notations dominates the run time otherwise;
   they are converted to the model's types ([op], [obs], Z, N) before anything is checked.
   All numbers in a case are non-negative and below 2^62; [zero_time] stands for time.Time{}. *)
From Coq Require Import List ZArith NArith Bool.
From Coq Require Export Uint63.
From SW Require Export base.Verdict model.LogBuf.
Import ListNotations.
Local Open Scope Z_scope.

Definition zero_time : int := 4611686018427387903%uint63.
Definition ic (x : int) (l : list int) : list int := x :: l.
Definition inil : list int := [].

Inductive rop :=
| RAdd (ev len id : int) | RSeal | RFlushWrite | RFlushMark
| RRead (t : int) | RLoop (t : int) | RDiskRead (t : int) | RSubStep | RSubLoop.

Inductive robs :=
| RState (v : list int)
| RFlush (v : int)
| RRes (cls : int) (evs : list int) (last : int)          (* evs = ts1, id1, ts2, id2, ... *)
| RDisk (evs : list int) (processed : int)
| RSub (lastr : int) (ondisk : bool) (err : int) (newly : list int).

(* one concurrent reader: kind 0 = subscriber loop (persisted log / LoopProcessLogData
   alternation) run in its own goroutine, kind 1 = one LoopProcessLogData(t0) call made
   while the others run; [complete] = it was run to quiescence after all appenders had
   finished and everything was flushed *)
Inductive rhist := RH (kind : int) (t0 : int) (complete : bool) (got : list int).

Record case := {
  c_cap : int;          (* buffer size in bytes (BufferSize) *)
  c_iv : int;           (* flushInterval, ns *)
  c_hf : bool;          (* flushFn != nil *)
  c_t0 : int;           (* the subscriber's SinceNs *)
  c_ops : list rop;
  c_impl : list robs;   (* what the implementation showed after each op *)
  (* --- histories recorded from real goroutines (c_mode <> 0) --- *)
  c_mode : int;         (* 0 sequential schedule (everything above, fields below empty);
                           1 paced concurrent history: c_ops/c_impl = the mutators' calls
                             (AddToBuffer / interval seal) in the order in which they ran
                             (they are serialised by a harness mutex and wait while two sealed
                             buffers are unflushed, so the history stays outside finding 0);
                             lastFlushTime in the state projections is masked (the flush
                             goroutine runs freely); readers run concurrently;
                           2 free-running stress on NewLogBuffer (real loopInterval, Shutdown
                             during reads): only order/no-duplicate/no-invention is required *)
  c_segs : list (list int);   (* what flushFn was handed, call by call: ts1, id1, ts2, id2 ... *)
  c_readers : list rhist
}.

Definition zi (i : int) : Z := if PrimInt63.eqb i zero_time then zeroT else Uint63.to_Z i.
Definition ni (i : int) : N := Z.to_N (Uint63.to_Z i).
Fixpoint evs_of (l : list int) : list (Z * N) :=
  match l with
  | a :: b :: r => (zi a, ni b) :: evs_of r
  | _ => []
  end.
Definition op_of (r : rop) : op :=
  match r with
  | RAdd ev len id => Add (zi ev) (zi len) (ni id)
  | RSeal => Seal | RFlushWrite => FlushWrite | RFlushMark => FlushMark
  | RRead t => Read (zi t) | RLoop t => Loop (zi t) | RDiskRead t => DiskRead (zi t)
  | RSubStep => SubStep | RSubLoop => SubLoop
  end.
Definition obs_of (r : robs) : obs :=
  match r with
  | RState v => OState (map zi v)
  | RFlush v => OFlush (zi v)
  | RRes c l t => ORead (ni c) (evs_of l) (zi t)
  | RDisk l p => ODisk (evs_of l) (zi p)
  | RSub t d e g => OSub (zi t) d (ni e) (evs_of g)
  end.

Fixpoint zlist_eqb (a b : list Z) : bool :=
  match a, b with
  | [], [] => true
  | x :: a', y :: b' => (x =? y) && zlist_eqb a' b'
  | _, _ => false
  end.
Fixpoint evs_eqb (a b : list (Z * N)) : bool :=
  match a, b with
  | [], [] => true
  | (x, i) :: a', (y, j) :: b' => (x =? y) && (i =? j)%N && evs_eqb a' b'
  | _, _ => false
  end.
Definition obs_eqb (a b : obs) : bool :=
  match a, b with
  | OState v, OState w => zlist_eqb v w
  | OFlush v, OFlush w => v =? w
  | ORead c l t, ORead c' l' t' => (c =? c')%N && evs_eqb l l' && (t =? t')
  | ODisk l p, ODisk l' p' => evs_eqb l l' && (p =? p')
  | OSub t d e g, OSub t' d' e' g' => (t =? t') && Bool.eqb d d' && (e =? e')%N && evs_eqb g g'
  | _, _ => false
  end.
Fixpoint all2 {A} (f : A -> A -> bool) (l1 l2 : list A) : bool :=
  match l1, l2 with
  | [], [] => true
  | x :: l1', y :: l2' => f x y && all2 f l1' l2'
  | _, _ => false
  end.

(* ---- the property's oracle, on the implementation's observables only ----
   [evs] = the events appended so far with the timestamps the implementation assigned
   (LastTsNs after each AddToBuffer).  A reader that asked for "after t" and received
   the list l must have received exactly the appended events with t < ts <= (ts of the
   last one received), in append order: nothing twice, nothing out of order, nothing
   skipped. *)
Definition range_of (evs : list (Z * N)) (t hi : Z) : list (Z * N) :=
  filter (fun e => (t <? fst e) && (fst e <=? hi)) evs.
Definition last_of (l : list (Z * N)) (d : Z) : Z := fst (last l (d, 0%N)).
Definition contiguous (evs : list (Z * N)) (t : Z) (l : list (Z * N)) : bool :=
  evs_eqb l (range_of evs t (last_of l t)).
Fixpoint strictly_inc (prev : Z) (l : list (Z * N)) : bool :=
  match l with
  | [] => true
  | e :: l' => (prev <? fst e) && strictly_inc (fst e) l'
  end.

(* walks ops and implementation observables together; returns (ok, events, subscriber's list) *)
Fixpoint prop_walk (t0 : Z) (ops : list op) (impl : list obs) (evs : list (Z * N))
         (subgot : list (Z * N)) (ok : bool) : bool * list (Z * N) * list (Z * N) :=
  match ops, impl with
  | o :: ops', i :: impl' =>
    match o, i with
    | Add _ _ id, OState v =>
      let ts := nth 5 v 0 in
      prop_walk t0 ops' impl' (evs ++ [(ts, id)]) subgot (ok && (last_of evs 0 <? ts))
    | Read t, ORead _ l _ | Loop t, ORead _ l _ | DiskRead t, ODisk l _ =>
      prop_walk t0 ops' impl' evs subgot (ok && contiguous evs t l)
    | SubStep, OSub _ _ _ g | SubLoop, OSub _ _ _ g =>
      let g' := subgot ++ g in prop_walk t0 ops' impl' evs g' (ok && contiguous evs t0 g')
    | _, _ => prop_walk t0 ops' impl' evs subgot ok
    end
  | _, _ => (ok, evs, subgot)
  end.

Fixpoint last_sub_parked (impl : list obs) (acc : bool) : bool :=
  match impl with
  | [] => acc
  | OSub _ d e _ :: impl' => last_sub_parked impl' (d && (e =? 1)%N)
  | _ :: impl' => last_sub_parked impl' acc
  end.

Definition prop_ok (hf : bool) (t0 : Z) (ops : list op) (impl : list obs) : bool :=
  let '(ok, evs, g) := prop_walk t0 ops impl [] [] true in
  ok && strictly_inc 0 evs &&
  (* every case ends with a drain: with a flush function, everything later than t0 has arrived;
     without one (nothing is ever persisted by this buffer) the subscriber has either received
     everything or ended parked on the persisted log after a ResumeFromDiskError (it is behind
     the last seal: c22_nil_flush_liveness_refuted) -- a silent trailing skip is neither *)
  (evs_eqb g (filter (fun e => t0 <? fst e) evs) || (negb hf && last_sub_parked impl false)).

(* ---- concurrent histories ---- *)
Definition mask_flush (o : obs) : obs :=
  match o with
  | OState (a :: b :: c :: d :: e :: f :: _ :: r) => OState (a :: b :: c :: d :: e :: f :: 0 :: r)
  | o => o
  end.
Definition seg_obs (c : Z) (iv : Z) (ops : list op) : list (list (Z * N)) :=
  (* model: the mutators' schedule without any flush step, then Shutdown's copyToFlush:
     the flush queue holds the sealed buffers in seal order *)
  let y := run iv true {| buf := init c; subs := sub_init 0 |} ops in
  map (fun g => ev_obs (g_data g)) (queue (seal true (buf y))).
Fixpoint segs_eqb (a b : list (list (Z * N))) : bool :=
  match a, b with
  | [], [] => true
  | x :: a', y :: b' => evs_eqb x y && segs_eqb a' b'
  | _, _ => false
  end.
Fixpoint mem_ev (e : Z * N) (l : list (Z * N)) : bool :=
  match l with
  | [] => false
  | x :: l' => ((fst e =? fst x) && (snd e =? snd x)%N) || mem_ev e l'
  end.
Definition reader_ok (mode : int) (evs : list (Z * N)) (r : rhist) : bool :=
  match r with
  | RH _ t0 complete got =>
    let g := evs_of got in
    let t := zi t0 in
    strictly_inc t g && forallb (fun e => mem_ev e evs) g &&
    (if PrimInt63.eqb mode 2 then true
     else contiguous evs t g &&
          (if complete then evs_eqb g (filter (fun e => t <? fst e) evs) else true))
  end.
Definition added_ids (ops : list op) : list N :=
  flat_map (fun o => match o with Add _ _ id => [id] | _ => [] end) ops.
Fixpoint nlist_eqb (a b : list N) : bool :=
  match a, b with
  | [], [] => true
  | x :: a', y :: b' => (x =? y)%N && nlist_eqb a' b'
  | _, _ => false
  end.

Definition sealed_once (i : obs) : bool :=
  match i with OState v => 0 <? nth 16 v 0 | _ => false end.
Definition sub_got_some (i : obs) : bool :=
  match i with OSub _ _ _ (_ :: _) => true | _ => false end.

Definition check_seq (c : case) : outcome :=
  let ops := map op_of (c_ops c) in
  let impl := map obs_of (c_impl c) in
  let y0 := {| buf := init (zi (c_cap c)); subs := sub_init (zi (c_t0 c)) |} in
  {| o_corr := all2 obs_eqb (run_obs (zi (c_iv c)) (c_hf c) y0 ops) impl;
     o_prop := prop_ok (c_hf c) (zi (c_t0 c)) ops impl;
     o_trig := run_trig (zi (c_iv c)) (c_hf c) y0 ops;
     o_nontrivial := existsb sealed_once impl && existsb sub_got_some impl |}.

(* histories from real goroutines.  The events are what flushFn was handed (after Shutdown
   that is every appended record, in buffer order).
   mode 1: o_corr = the mutators' schedule replayed on the model gives the same state
   projections (lastFlushTime masked) and the same flushed buffers; o_prop = flushed data
   strictly increasing and = the appended records in call order, every reader received a
   strictly increasing, contiguous range starting after its t0, readers run to quiescence
   received everything.  mode 2: flushed data strictly increasing, every id exactly once
   is NOT required of the readers (the ring may evict, finding 0): they must be strictly
   increasing and receive only appended events. *)
Definition check_conc (c : case) : outcome :=
  let ops := map op_of (c_ops c) in
  let impl := map obs_of (c_impl c) in
  let y0 := {| buf := init (zi (c_cap c)); subs := sub_init 0 |} in
  let segs := map evs_of (c_segs c) in
  let evs := concat segs in
  let m1 := PrimInt63.eqb (c_mode c) 1 in
  {| o_corr := if m1 then
                 all2 obs_eqb (map mask_flush (run_obs (zi (c_iv c)) true y0 ops)) (map mask_flush impl)
                 && segs_eqb (seg_obs (zi (c_cap c)) (zi (c_iv c)) ops) segs
               else true;
     o_prop := strictly_inc 0 evs
               && (if m1 then nlist_eqb (map snd evs) (added_ids ops)
                              && fst (fst (prop_walk 0 ops impl [] [] true))
                              && evs_eqb (snd (fst (prop_walk 0 ops impl [] [] true))) evs
                   else true)
               && forallb (reader_ok (c_mode c) evs) (c_readers c);
     o_trig := None;
     o_nontrivial := (1 <? Z.of_nat (length segs))
                     && existsb (fun r => match r with RH _ _ _ (_ :: _) => true | _ => false end) (c_readers c) |}.

Definition check (c : case) : outcome :=
  if PrimInt63.eqb (c_mode c) 0 then check_seq c else check_conc c.

Definition summarize_cases (l : list case) : summary := summarize check l.
