(* Correspondence check for C24: a sequence of entries written through the real
   FilerStoreWrapper (InsertEntry or UpdateEntry; sibling names, overwrites, a
   subdirectory) on leveldb / leveldb2 / leveldb3, then every name read back by
   FindEntry, by the wrapper's ListDirectoryEntries (whole directory and one page) and
   by ListDirectoryPrefixedEntries (prefix, start name, inclusive, limit: the
   filer's production listing path).  The harness reports WHICH fields of each
   read-back entry differ from the entry last written under that name (codes
   below), the read-back file id strings, and the raw FileId/SourceFileId fields of
   the prefixed listing. *)
From Coq Require Import List NArith ZArith Bool String.
From SW Require Export base.Verdict model.UploadCodec model.EntryCodec.
Import ListNotations.
Local Open Scope N_scope.

(* bytes written as lower-case hex text (Coq parses a string much faster than a list of numbers) *)
Definition hexv (c : Ascii.ascii) : N := let n := Ascii.N_of_ascii c in if n <? 58 then n - 48 else n - 87.
Fixpoint hb (s : string) : bytes :=
  match s with
  | String a (String b r) => (hexv a * 16 + hexv b) :: hb r
  | _ => []
  end.

(* positional constructors keep the case terms short *)
Definition mkf (v k c : N) : fid := {| f_vid := v; f_key := k; f_cookie := c |}.
Definition mkc (id : fidstr) (off : Z) (size : N) (mtime : Z) (etag : string) (src : fidstr)
               (f sf : option fid) (ck : bytes) (comp man : bool) : chunk :=
  {| c_file_id := id; c_offset := off; c_size := size; c_mtime := mtime; c_etag := etag;
     c_source_file_id := src; c_fid := f; c_source_fid := sf; c_cipher_key := ck;
     c_is_compressed := comp; c_is_manifest := man |}.
Definition mka (mtime : Z) (mtime_ns : N) (crtime : Z) (crtime_ns : N) (mode uid gid : N) (mime repl coll : string) (ttl : Z)
               (disk user : string) (groups : list string) (symlink : string) (md5 : bytes) (fsize : N) : attr :=
  {| a_mtime := mtime; a_mtime_ns := mtime_ns; a_crtime := crtime; a_crtime_ns := crtime_ns; a_mode := mode; a_uid := uid; a_gid := gid; a_mime := mime;
     a_replication := repl; a_collection := coll; a_ttl_sec := ttl; a_disk_type := disk;
     a_user_name := user; a_group_names := groups; a_symlink_target := symlink; a_md5 := md5;
     a_file_size := fsize |}.
Definition mkr (t s : Z) (etag : string) : remote := {| rm_last_modified_at := t; rm_size := s; rm_etag := etag |}.
Definition mke (a : attr) (ext : list (string * bytes)) (cs : list chunk) (hl : bytes) (hlc : Z)
               (content : bytes) (r : option remote) : entry :=
  {| e_attr := a; e_extended := ext; e_chunks := cs; e_hard_link_id := hl; e_hard_link_counter := hlc;
     e_content := content; e_remote := r |}.

(* one InsertEntry / UpdateEntry *)
Record wr := {
  w_dir : string; w_name : string;
  w_update : bool;       (* written with UpdateEntry *)
  w_ent : entry;         (* as written; extended attributes sorted by key *)
  (* measurements of the real protobuf / gzip on the marshalled entry (read from the raw stored value) *)
  w_head : list N;       (* its first two bytes *)
  w_blen : N; w_glen : N;
  w_ok : bool            (* no error returned *)
}.
Definition mkw d n u e h bl gl ok : wr :=
  {| w_dir := d; w_name := n; w_update := u; w_ent := e; w_head := h; w_blen := bl; w_glen := gl; w_ok := ok |}.

(* one entry as read back: differing fields against the entry last written under that
   name (ascending codes), per chunk (file id, source file id) as a reader sees them *)
Record rb := { b_name : string; b_diff : list N; b_ids : list (fidstr * fidstr) }.
Definition mkb n d i : rb := {| b_name := n; b_diff := d; b_ids := i |}.

Record case := {
  store : N;             (* 0 leveldb, 1 leveldb2, 2 leveldb3 *)
  dir : string;          (* the directory that is read back *)
  writes : list wr;      (* in order; into dir, or into a subdirectory of it *)
  q_start : string; q_incl : bool; q_limit : N; q_prefix : string;   (* the paged / prefixed listing *)
  (* implementation observables *)
  i_names : list string;                (* distinct names written into dir, ascending byte order (Go sort.Strings) *)
  i_stored_gz : list (option bool);     (* per name: the raw stored value carries the gzip magic *)
  i_find : list rb;                     (* per name: FilerStoreWrapper.FindEntry *)
  i_wlist : list rb;                    (* wrapper.ListDirectoryEntries(dir, "", true, 1000), in the order returned *)
  i_wpage : list string;                (* names from wrapper.ListDirectoryEntries(dir, start, incl, limit) *)
  i_plist : list rb;                    (* wrapper.ListDirectoryPrefixedEntries(dir, start, incl, limit, prefix) *)
  i_plist_raw : list (list (fidstr * fidstr))   (* ... the raw FileId / SourceFileId fields of its chunks *)
}.

(* ---- equality of field values ---- *)
Fixpoint list_eqb {A} (f : A -> A -> bool) (a b : list A) : bool :=
  match a, b with
  | [], [] => true
  | x :: a', y :: b' => f x y && list_eqb f a' b'
  | _, _ => false
  end.
Definition remote_eqb (a b : option remote) : bool :=
  match a, b with
  | Some x, Some y => Z.eqb (rm_last_modified_at x) (rm_last_modified_at y) && Z.eqb (rm_size x) (rm_size y) &&
                      String.eqb (rm_etag x) (rm_etag y)
  | None, None => true
  | _, _ => false
  end.
Definition ext_eqb (a b : list (string * bytes)) : bool :=
  list_eqb (fun x y => String.eqb (fst x) (fst y) && bytes_eqb (snd x) (snd y)) a b.
Definition chunk_other_eqb (a b : chunk) : bool :=
  Z.eqb (c_offset a) (c_offset b) && (c_size a =? c_size b) && Z.eqb (c_mtime a) (c_mtime b) &&
  String.eqb (c_etag a) (c_etag b) && bytes_eqb (c_cipher_key a) (c_cipher_key b) &&
  Bool.eqb (c_is_compressed a) (c_is_compressed b) && Bool.eqb (c_is_manifest a) (c_is_manifest b).

(* positional comparison over the common prefix (the count has its own code) *)
Fixpoint all2p {A} (f : A -> A -> bool) (a b : list A) : bool :=
  match a, b with
  | x :: a', y :: b' => f x y && all2p f a' b'
  | _, _ => true
  end.

(* field codes:
   0 Mtime 1 Crtime 2 Mode 3 Uid 4 Gid 5 Mime 6 Replication 7 Collection 8 TtlSec 9 DiskType
   10 UserName 11 GroupNames 12 SymlinkTarget 13 Md5 14 FileSize 15 Extended 16 chunk count
   17 chunk file id 18 chunk source file id 19 other chunk fields 20 HardLinkId
   21 HardLinkCounter 22 Content 23 Remote 24 Mtime nanoseconds 25 Crtime nanoseconds *)
Definition diff_entry (w r : entry) : list N :=
  let a := e_attr w in let b := e_attr r in
  let cw := map view_chunk (e_chunks w) in let cr := map view_chunk (e_chunks r) in
  flat_map (fun p : N * bool => if snd p then [] else [fst p])
    [(0, Z.eqb (a_mtime a) (a_mtime b)); (1, Z.eqb (a_crtime a) (a_crtime b)); (2, a_mode a =? a_mode b);
     (3, a_uid a =? a_uid b); (4, a_gid a =? a_gid b); (5, String.eqb (a_mime a) (a_mime b));
     (6, String.eqb (a_replication a) (a_replication b)); (7, String.eqb (a_collection a) (a_collection b));
     (8, Z.eqb (a_ttl_sec a) (a_ttl_sec b)); (9, String.eqb (a_disk_type a) (a_disk_type b));
     (10, String.eqb (a_user_name a) (a_user_name b)); (11, list_eqb String.eqb (a_group_names a) (a_group_names b));
     (12, String.eqb (a_symlink_target a) (a_symlink_target b)); (13, bytes_eqb (a_md5 a) (a_md5 b));
     (14, a_file_size a =? a_file_size b); (15, ext_eqb (e_extended w) (e_extended r));
     (16, Nat.eqb (List.length cw) (List.length cr));
     (17, all2p (fun x y => bytes_eqb (c_file_id x) (c_file_id y)) cw cr);
     (18, all2p (fun x y => bytes_eqb (c_source_file_id x) (c_source_file_id y)) cw cr);
     (19, all2p chunk_other_eqb cw cr);
     (20, bytes_eqb (e_hard_link_id w) (e_hard_link_id r));
     (21, Z.eqb (e_hard_link_counter w) (e_hard_link_counter r));
     (22, bytes_eqb (e_content w) (e_content r)); (23, remote_eqb (e_remote w) (e_remote r));
     (24, a_mtime_ns a =? a_mtime_ns b); (25, a_crtime_ns a =? a_crtime_ns b)].

Definition ids_of (e : entry) : list (fidstr * fidstr) :=
  map (fun c => (c_file_id (view_chunk c), c_source_file_id (view_chunk c))) (e_chunks e).
Definition raw_ids_of (e : entry) : list (fidstr * fidstr) :=
  map (fun c => (c_file_id c, c_source_file_id c)) (e_chunks e).

Definition pair_ids_eqb (x y : fidstr * fidstr) : bool := bytes_eqb (fst x) (fst y) && bytes_eqb (snd x) (snd y).
Definition ids_eqb (a b : list (fidstr * fidstr)) : bool := list_eqb pair_ids_eqb a b.
Definition nlist_eqb (a b : list N) : bool := list_eqb N.eqb a b.
Definition rb_eqb (a b : rb) : bool :=
  String.eqb (b_name a) (b_name b) && nlist_eqb (b_diff a) (b_diff b) && ids_eqb (b_ids a) (b_ids b).

(* ---- the model run ---- *)
(* every write is run with the oracle lengths measured on ITS blob; the state type does not
   depend on them *)
Definition run_writes (ws : list wr) : option (state sblob) :=
  fold_left (fun st w =>
    match st with
    | Some s => wrapper_insert (sym_codec (w_blen w) (w_glen w)) s (w_dir w, w_name w) (w_ent w)
    | None => None
    end) ws (Some empty_state).

Definition last_written (c : case) (n : string) : option entry :=
  fold_left (fun acc w => if String.eqb (w_dir w) (dir c) && String.eqb (w_name w) n then Some (w_ent w) else acc)
            (writes c) None.

Definition C0 : codec sblob := sym_codec 0 0.   (* reading never consults the lengths *)

Definition mk_rb (c : case) (ne : string * option entry) : rb :=
  {| b_name := fst ne;
     b_diff := match snd ne, last_written c (fst ne) with Some r, Some w => diff_entry w r | _, _ => [99] end;
     b_ids := match snd ne with Some r => ids_of r | None => [] end |}.

Record model_out := {
  mo_names : list string; mo_gz : list bool; mo_find : list rb; mo_wlist : list rb;
  mo_wpage : list string; mo_plist : list rb; mo_plist_raw : list (list (fidstr * fidstr)) }.

Definition run_model (c : case) : option model_out :=
  match run_writes (writes c) with
  | None => None
  | Some st =>
      let names := sort_names (names_in st (dir c)) in
      let lim := N.to_nat (q_limit c) in
      let pl := wrapper_list_prefixed C0 st (dir c) (q_start c) (q_incl c) lim (q_prefix c) in
      Some {| mo_names := names;
              mo_gz := map (fun n => match aget path_eqb (dir c, n) (st_entries st) with Some (SGz _) => true | _ => false end) names;
              mo_find := map (fun n => mk_rb c (n, match wrapper_find C0 st (dir c, n) with SOk e => Some e | _ => None end)) names;
              mo_wlist := map (mk_rb c) (wrapper_list C0 st (dir c) "" true 1000);
              mo_wpage := map fst (wrapper_list C0 st (dir c) (q_start c) (q_incl c) lim);
              mo_plist := map (mk_rb c) pl;
              mo_plist_raw := map (fun ne => match snd ne with Some r => raw_ids_of r | None => [] end) pl |}
  end.

(* ---- the property's oracle, on what the implementation returned ---- *)
(* the read-back id is canonical and denotes the written id; an id that does not
   parse comes back verbatim *)
Definition ref_same_fid (w r : fidstr) : bool :=
  match parse_fid w with
  | Some f => match parse_fid r with Some f' => fid_eqb f f' | None => false end && fidstr_canonical r
  | None => bytes_eqb w r
  end.

Definition ids_ok (w r : list (fidstr * fidstr)) : bool :=
  Nat.eqb (List.length w) (List.length r) &&
  all2p (fun x y => ref_same_fid (fst x) (fst y) && ref_same_fid (snd x) (snd y)) w r.

(* only the TEXT of a file id may change *)
Definition only_id_text (d : list N) : bool := forallb (fun k => (k =? 17) || (k =? 18)) d.

Definition looks_gzip (h : list N) : bool := match h with 31 :: 139 :: _ => true | _ => false end.

(* one read-back entry against what was last written under its name *)
Definition rb_ok (c : case) (b : rb) : bool :=
  match last_written c (b_name b) with
  | Some w => only_id_text (b_diff b) && ids_ok (ids_of w) (b_ids b)
  | None => false
  end.

Definition names_eqb (a b : list string) : bool := list_eqb String.eqb a b.

Fixpoint opt_gz_ok (i : list (option bool)) (m : list bool) : bool :=
  match i, m with
  | [], [] => true
  | x :: i', y :: m' => match x with Some g => Bool.eqb g y | None => true end && opt_gz_ok i' m'
  | _, _ => false
  end.

Definition first_byte_ok (w : wr) : bool :=
  match pb_first_byte (to_pb (prepare (w_ent w))), w_head w with
  | Some a, b :: _ => a =? b
  | None, [] => true
  | _, _ => false
  end.

Definition final_entries (c : case) : list entry :=
  flat_map (fun n => match last_written c n with Some e => [e] | None => [] end) (i_names c).

Definition check (c : case) : outcome :=
  let all_ok := forallb w_ok (writes c) in
  let lim := N.to_nat (q_limit c) in
  {| o_corr :=
       match run_model c with
       | None => negb all_ok
       | Some m =>
           all_ok && names_eqb (mo_names m) (i_names c) && opt_gz_ok (i_stored_gz c) (mo_gz m) &&
           list_eqb rb_eqb (mo_find m) (i_find c) && list_eqb rb_eqb (mo_wlist m) (i_wlist c) &&
           names_eqb (mo_wpage m) (i_wpage c) && list_eqb rb_eqb (mo_plist m) (i_plist c) &&
           list_eqb ids_eqb (mo_plist_raw m) (i_plist_raw c)
       end &&
       (* the first-byte law of the protobuf oracle, on every written entry *)
       forallb first_byte_ok (writes c);
     o_prop :=
       all_ok &&
       (* lookup: every name, equal up to the text of the file ids *)
       names_eqb (map b_name (i_find c)) (i_names c) && forallb (rb_ok c) (i_find c) &&
       (* the whole directory: exactly the names written, ascending, each equal *)
       names_eqb (map b_name (i_wlist c)) (i_names c) && forallb (rb_ok c) (i_wlist c) &&
       (* a page / a prefixed page: the first `limit` of the names that pass the filter *)
       names_eqb (i_wpage c) (firstn lim (filter (list_filter (q_start c) (q_incl c) "") (i_names c))) &&
       names_eqb (map b_name (i_plist c)) (firstn lim (filter (list_filter (q_start c) (q_incl c) (q_prefix c)) (i_names c))) &&
       forallb (rb_ok c) (i_plist c) &&
       forallb (fun w => negb (looks_gzip (w_head w))) (writes c);
     o_trig := if existsb trigger_octet (final_entries c) then Some 0
               else if existsb trigger_subsec (final_entries c) then Some 2 else None;
     o_nontrivial := all_ok && existsb (fun e => nonempty (e_chunks e) || nonempty (e_content e)) (final_entries c) |}.

Definition summarize_cases (l : list case) : summary := summarize check l.
