(* Correspondence check for C24: one entry written through the real
   FilerStoreWrapper (InsertEntry or UpdateEntry, possibly over an older version)
   on leveldb / leveldb2 / leveldb3, read back by FindEntry and by
   ListDirectoryEntries.  The harness reports WHICH fields of the read-back entry
   differ from the written one (codes below) and the read-back file id strings. *)
From Coq Require Import List NArith ZArith Bool String.
From SW Require Export base.Verdict model.UploadCodec model.EntryCodec.
Import ListNotations.
Local Open Scope N_scope.

(* bytes written as lower-case hex text (Coq parses a string much faster than a list of numbers) *)
Definition hexv (c : Ascii.ascii) : N := let n := Ascii.N_of_ascii c in if n <? 58 then n - 48 else n - 87.
Fixpoint hb (s : string) : bytes :=
  match s with
  | String a (String b r) => (hexv a * 16 + hexv b) :: hb r
  | _ => []
  end.

(* positional constructors keep the case terms short *)
Definition mkf (v k c : N) : fid := {| f_vid := v; f_key := k; f_cookie := c |}.
Definition mkc (id : fidstr) (off : Z) (size : N) (mtime : Z) (etag : string) (src : fidstr)
               (f sf : option fid) (ck : bytes) (comp man : bool) : chunk :=
  {| c_file_id := id; c_offset := off; c_size := size; c_mtime := mtime; c_etag := etag;
     c_source_file_id := src; c_fid := f; c_source_fid := sf; c_cipher_key := ck;
     c_is_compressed := comp; c_is_manifest := man |}.
Definition mka (mtime crtime : Z) (mode uid gid : N) (mime repl coll : string) (ttl : Z)
               (disk user : string) (groups : list string) (symlink : string) (md5 : bytes) (fsize : N) : attr :=
  {| a_mtime := mtime; a_crtime := crtime; a_mode := mode; a_uid := uid; a_gid := gid; a_mime := mime;
     a_replication := repl; a_collection := coll; a_ttl_sec := ttl; a_disk_type := disk;
     a_user_name := user; a_group_names := groups; a_symlink_target := symlink; a_md5 := md5;
     a_file_size := fsize |}.
Definition mkr (t s : Z) (etag : string) : remote := {| rm_last_modified_at := t; rm_size := s; rm_etag := etag |}.
Definition mke (a : attr) (ext : list (string * bytes)) (cs : list chunk) (hl : bytes) (hlc : Z)
               (content : bytes) (r : option remote) : entry :=
  {| e_attr := a; e_extended := ext; e_chunks := cs; e_hard_link_id := hl; e_hard_link_counter := hlc;
     e_content := content; e_remote := r |}.

Record case := {
  store : N;             (* 0 leveldb, 1 leveldb2, 2 leveldb3 *)
  via_update : bool;     (* written with UpdateEntry *)
  had_previous : bool;   (* an older, different entry was inserted at the same path first *)
  dir : string; name : string;
  ent : entry;           (* as written; extended attributes sorted by key *)
  (* measurements of the real protobuf / gzip on the marshalled entry *)
  blob_head : list N;    (* its first two bytes *)
  blob_len : N; gzip_len : N;
  (* implementation observables *)
  i_insert_ok : bool;
  i_stored_gz : option bool;          (* the raw stored value carries the gzip magic (leveldb, leveldb3) *)
  i_find_diff : list N; i_list_diff : list N;          (* differing fields, ascending codes *)
  i_find_ids : list (fidstr * fidstr); i_list_ids : list (fidstr * fidstr);  (* per chunk: file id, source file id *)
  i_list_names : N                    (* names in the directory listing *)
}.

(* ---- equality of field values ---- *)
Fixpoint list_eqb {A} (f : A -> A -> bool) (a b : list A) : bool :=
  match a, b with
  | [], [] => true
  | x :: a', y :: b' => f x y && list_eqb f a' b'
  | _, _ => false
  end.
Definition remote_eqb (a b : option remote) : bool :=
  match a, b with
  | Some x, Some y => Z.eqb (rm_last_modified_at x) (rm_last_modified_at y) && Z.eqb (rm_size x) (rm_size y) &&
                      String.eqb (rm_etag x) (rm_etag y)
  | None, None => true
  | _, _ => false
  end.
Definition ext_eqb (a b : list (string * bytes)) : bool :=
  list_eqb (fun x y => String.eqb (fst x) (fst y) && bytes_eqb (snd x) (snd y)) a b.
Definition chunk_other_eqb (a b : chunk) : bool :=
  Z.eqb (c_offset a) (c_offset b) && (c_size a =? c_size b) && Z.eqb (c_mtime a) (c_mtime b) &&
  String.eqb (c_etag a) (c_etag b) && bytes_eqb (c_cipher_key a) (c_cipher_key b) &&
  Bool.eqb (c_is_compressed a) (c_is_compressed b) && Bool.eqb (c_is_manifest a) (c_is_manifest b).

(* positional comparison over the common prefix (the count has its own code) *)
Fixpoint all2p {A} (f : A -> A -> bool) (a b : list A) : bool :=
  match a, b with
  | x :: a', y :: b' => f x y && all2p f a' b'
  | _, _ => true
  end.

(* field codes:
   0 Mtime 1 Crtime 2 Mode 3 Uid 4 Gid 5 Mime 6 Replication 7 Collection 8 TtlSec 9 DiskType
   10 UserName 11 GroupNames 12 SymlinkTarget 13 Md5 14 FileSize 15 Extended 16 chunk count
   17 chunk file id 18 chunk source file id 19 other chunk fields 20 HardLinkId
   21 HardLinkCounter 22 Content 23 Remote *)
Definition diff_entry (w r : entry) : list N :=
  let a := e_attr w in let b := e_attr r in
  let cw := map view_chunk (e_chunks w) in let cr := map view_chunk (e_chunks r) in
  flat_map (fun p : N * bool => if snd p then [] else [fst p])
    [(0, Z.eqb (a_mtime a) (a_mtime b)); (1, Z.eqb (a_crtime a) (a_crtime b)); (2, a_mode a =? a_mode b);
     (3, a_uid a =? a_uid b); (4, a_gid a =? a_gid b); (5, String.eqb (a_mime a) (a_mime b));
     (6, String.eqb (a_replication a) (a_replication b)); (7, String.eqb (a_collection a) (a_collection b));
     (8, Z.eqb (a_ttl_sec a) (a_ttl_sec b)); (9, String.eqb (a_disk_type a) (a_disk_type b));
     (10, String.eqb (a_user_name a) (a_user_name b)); (11, list_eqb String.eqb (a_group_names a) (a_group_names b));
     (12, String.eqb (a_symlink_target a) (a_symlink_target b)); (13, bytes_eqb (a_md5 a) (a_md5 b));
     (14, a_file_size a =? a_file_size b); (15, ext_eqb (e_extended w) (e_extended r));
     (16, Nat.eqb (List.length cw) (List.length cr));
     (17, all2p (fun x y => bytes_eqb (c_file_id x) (c_file_id y)) cw cr);
     (18, all2p (fun x y => bytes_eqb (c_source_file_id x) (c_source_file_id y)) cw cr);
     (19, all2p chunk_other_eqb cw cr);
     (20, bytes_eqb (e_hard_link_id w) (e_hard_link_id r));
     (21, Z.eqb (e_hard_link_counter w) (e_hard_link_counter r));
     (22, bytes_eqb (e_content w) (e_content r)); (23, remote_eqb (e_remote w) (e_remote r))].

Definition ids_of (e : entry) : list (fidstr * fidstr) :=
  map (fun c => (c_file_id (view_chunk c), c_source_file_id (view_chunk c))) (e_chunks e).

Definition ids_eqb (a b : list (fidstr * fidstr)) : bool :=
  list_eqb (fun x y => bytes_eqb (fst x) (fst y) && bytes_eqb (snd x) (snd y)) a b.

Definition nlist_eqb (a b : list N) : bool := list_eqb N.eqb a b.

(* ---- the model run ---- *)
Record model_out := {
  mo_insert_ok : bool; mo_stored_gz : bool;
  mo_find_diff : list N; mo_list_diff : list N;
  mo_find_ids : list (fidstr * fidstr); mo_list_ids : list (fidstr * fidstr);
  mo_list_names : N }.

Definition bad_out : model_out :=
  {| mo_insert_ok := false; mo_stored_gz := false; mo_find_diff := [99]; mo_list_diff := [99];
     mo_find_ids := []; mo_list_ids := []; mo_list_names := 0 |}.

(* any earlier contents of the store do not matter (c24_roundtrip is for every
   prior state), so the model runs from the empty store *)
Definition run_model (c : case) : model_out :=
  let C := sym_codec (blob_len c) (gzip_len c) in
  let p := (dir c, name c) in
  match wrapper_insert C empty_state p (ent c) with
  | None => bad_out
  | Some st =>
      let gz := match aget path_eqb p (st_entries st) with Some (SGz _) => true | _ => false end in
      let listing := wrapper_list C st (dir c) in
      match wrapper_find C st p, aget String.eqb (name c) listing with
      | SOk f, Some (Some l) =>
          {| mo_insert_ok := true; mo_stored_gz := gz;
             mo_find_diff := diff_entry (ent c) f; mo_list_diff := diff_entry (ent c) l;
             mo_find_ids := ids_of f; mo_list_ids := ids_of l; mo_list_names := len listing |}
      | _, _ => bad_out
      end
  end.

(* ---- the property's oracle, on what the implementation returned ---- *)
(* the read-back id is canonical and denotes the written id; an id that does not
   parse comes back verbatim *)
Definition ref_same_fid (w r : fidstr) : bool :=
  match parse_fid w with
  | Some f => match parse_fid r with Some f' => fid_eqb f f' | None => false end && fidstr_canonical r
  | None => bytes_eqb w r
  end.

Definition ids_ok (w r : list (fidstr * fidstr)) : bool :=
  Nat.eqb (List.length w) (List.length r) &&
  all2p (fun x y => ref_same_fid (fst x) (fst y) && ref_same_fid (snd x) (snd y)) w r.

(* only the TEXT of a file id may change *)
Definition only_id_text (d : list N) : bool := forallb (fun k => (k =? 17) || (k =? 18)) d.

Definition looks_gzip (h : list N) : bool := match h with 31 :: 139 :: _ => true | _ => false end.

Definition check (c : case) : outcome :=
  let m := run_model c in
  let first := match blob_head c with a :: _ => Some a | [] => None end in
  {| o_corr :=
       Bool.eqb (mo_insert_ok m) (i_insert_ok c) &&
       match i_stored_gz c with Some g => Bool.eqb g (mo_stored_gz m) | None => true end &&
       nlist_eqb (mo_find_diff m) (i_find_diff c) && nlist_eqb (mo_list_diff m) (i_list_diff c) &&
       ids_eqb (mo_find_ids m) (i_find_ids c) && ids_eqb (mo_list_ids m) (i_list_ids c) &&
       (mo_list_names m =? i_list_names c) &&
       (* the first-byte law of the protobuf oracle, on this entry *)
       match pb_first_byte (to_pb (prepare (ent c))), first with
       | Some a, Some b => a =? b
       | None, None => true
       | _, _ => false
       end;
     o_prop :=
       i_insert_ok c && only_id_text (i_find_diff c) && only_id_text (i_list_diff c) &&
       ids_ok (ids_of (ent c)) (i_find_ids c) && ids_ok (ids_of (ent c)) (i_list_ids c) &&
       negb (looks_gzip (blob_head c));
     o_trig := if trigger_octet (ent c) then Some 0
               else if trigger_key_zero (ent c) then Some 1 else None;
     o_nontrivial := i_insert_ok c && (nonempty (e_chunks (ent c)) || nonempty (e_content (ent c))) |}.

Definition summarize_cases (l : list case) : summary := summarize check l.
