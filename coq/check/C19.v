(* Correspondence check for C19: one case = one directory on one store with one
   (prefix, pattern, exclude) triple; the real Filer answered every
   (start, inclusive, limit) of a grid through ListDirectoryEntries and through
   StreamListDirectoryEntries (the directory is restored before every call), and
   was paginated by following the last returned name. *)
From Coq Require Import List NArith Bool String Ascii Arith.
From SW Require Export base.Verdict model.Listing.
Import ListNotations.
Local Open Scope string_scope.
Local Open Scope list_scope.
Local Notation length := List.length.

(* what one call returned.  ob_err: 0 none, 1 the listing did not terminate (the
   reference store's call budget was exceeded), 2 any other error *)
Record obs := { ob_names : list string; ob_more : bool; ob_last : string; ob_err : N; ob_after : list string }.

(* Compact coding of the implementation's answers (cases.v would otherwise be
   dominated by string literals).  Names are coded by their 1-based position in
   the case's directory (0 = "", 15 = a name that is NOT a child of the directory);
   a list of names is the base-16 number with these digits, first name most
   significant; a set of names is the bit mask over positions (bit 15 = foreign). *)
(* List: names, hasMore (0/1), error class, directory afterwards;
   Stream: names, lastFileName, error class, directory afterwards *)
Inductive rcode := R (ln lm le la sn sl se sa : N).

(* pagination from the beginning with page size pg_limit; None = an error, or more than 40 pages;
   every page is a coded list of names *)
Record pg := { pg_limit : nat; pg_list : option (list N); pg_stream : option (list N) }.

(* StreamListDirectoryEntries with a callback that answers from sq_ans (true once exhausted) *)
Record stopreq := { sq_start : string; sq_incl : bool; sq_limit : nat; sq_ans : list bool;
                    sq_names : N; sq_last : N; sq_err : N; sq_after : N }.
(* the loop of FilerServer.ListEntries with overall limit gq_limit and page size gq_pag *)
Record grpcreq := { gq_limit : nat; gq_pag : nat; gq_pages : option (list N) }.

Record case := {
  kind : store;
  dir : dirst;
  prefix : string; pat : string; excl : string;
  split : string * string;                   (* the implementation's splitPattern(pat) *)
  globs : list (string * string * bool);     (* filepath.Match(pattern, name) for the pairs the case uses *)
  starts : list string; limits : list nat;
  res : list rcode;                          (* per start, per inclusive in [false; true], per limit *)
  pages : list pg;
  stops : list stopreq;
  grpcs : list grpcreq;
  splits : list (string * (string * string)) }. (* the implementation's splitPattern on fixed probes *)

Definition foreign : string := "<not a child>".
Definition nth_name (tbl : list string) (i : N) : string :=
  if N.eqb i 0 then "" else if N.eqb i 15 then foreign else nth (N.to_nat (i - 1)) tbl foreign.
Fixpoint dec_names (fuel : nat) (tbl : list string) (n : N) (acc : list string) : list string :=
  match fuel with
  | O => acc
  | S f => if N.eqb n 0 then acc else dec_names f tbl (N.div n 16) (nth_name tbl (N.modulo n 16) :: acc)
  end.
Definition names_of (tbl : list string) (n : N) : list string := dec_names 2000 tbl n [].
Fixpoint dec_set (tbl : list string) (i : N) (mask : N) : list string :=
  match tbl with
  | [] => if N.testbit mask 15 then [foreign] else []
  | x :: tbl' => if N.testbit mask i then x :: dec_set tbl' (i + 1) mask else dec_set tbl' (i + 1) mask
  end.
Definition decode (tbl : list string) (r : rcode) : obs * obs :=
  let 'R ln lm le la sn sl se sa := r in
  ({| ob_names := names_of tbl ln; ob_more := N.eqb lm 1; ob_last := ""; ob_err := le; ob_after := dec_set tbl 0 la |},
   {| ob_names := names_of tbl sn; ob_more := false; ob_last := nth_name tbl sl; ob_err := se; ob_after := dec_set tbl 0 sa |}).

Fixpoint list_eqb {A} (f : A -> A -> bool) (l1 l2 : list A) : bool :=
  match l1, l2 with
  | [], [] => true
  | x :: l1', y :: l2' => f x y && list_eqb f l1' l2'
  | _, _ => false
  end.
Definition strs_eqb := list_eqb String.eqb.
Definition pages_eqb := list_eqb strs_eqb.
Definition opages_eqb (a b : option (list (list string))) : bool :=
  match a, b with Some x, Some y => pages_eqb x y | None, None => true | _, _ => false end.

Definition obs_eqb (m i : obs) : bool :=
  if N.eqb (ob_err m) 1 || N.eqb (ob_err i) 1 then N.eqb (ob_err m) (ob_err i)
  else strs_eqb (ob_names m) (ob_names i) && Bool.eqb (ob_more m) (ob_more i) &&
       String.eqb (ob_last m) (ob_last i) && N.eqb (ob_err m) (ob_err i) &&
       strs_eqb (ob_after m) (ob_after i).

Definition hang_obs : obs := {| ob_names := []; ob_more := false; ob_last := ""; ob_err := 1; ob_after := [] |}.

(* finding 0: prefix and pattern given together, narrowed to the requests not proved exact *)
Definition trig (prefix pat : string) : option N :=
  if trig_narrow prefix pat then Some 0%N else None.


(* one request: (corr, prop, trigger) *)
Definition req_result := (bool * bool * option N)%type.

Definition subset_strs (a b : list string) : bool :=
  forallb (fun x => existsb (String.eqb x) b) a.

Definition live_kept (d : dirst) (after : list string) : bool :=
  subset_strs (map ename (filter elive d)) after && subset_strs after (map ename d).

Definition check_req (c : case) (start : string) (incl : bool) (limit : nat) (io : obs * obs) : list req_result :=
  let s := kind c in
  let M := spec_names (dir c) start incl (prefix c) (pat c) (excl c) in
  let t := trig (prefix c) (pat c) in
  (* Filer.ListDirectoryEntries *)
  let ml :=
    match list_entries s (dir c) start incl limit (prefix c) (pat c) (excl c) with
    | None => hang_obs
    | Some (names, more, r) =>
        {| ob_names := names; ob_more := more; ob_last := ""; ob_err := 0; ob_after := map ename (r_dir r) |}
    end in
  let il := fst io in
  let pl := N.eqb (ob_err il) 0 && strs_eqb (ob_names il) (firstn limit M) &&
            Bool.eqb (ob_more il) (Nat.ltb limit (length M)) && live_kept (dir c) (ob_after il) in
  (* Filer.StreamListDirectoryEntries *)
  let ms :=
    match stream_list s (dir c) start incl limit (prefix c) (pat c) (excl c) with
    | None => hang_obs
    | Some r =>
        {| ob_names := r_names r; ob_more := false; ob_last := r_last r; ob_err := 0; ob_after := map ename (r_dir r) |}
    end in
  let is_ := snd io in
  let ps := N.eqb (ob_err is_) 0 && strs_eqb (ob_names is_) (firstn limit M) && live_kept (dir c) (ob_after is_) in
  [ (obs_eqb ml il, pl, t); (obs_eqb ms is_, ps, t) ].

(* the grid in the harness' order *)
Fixpoint zip_grid (c : case) (grid : list (string * bool * nat)) (rs : list rcode) : option (list req_result) :=
  match grid, rs with
  | [], [] => Some []
  | (st, inc, lim) :: g', io :: rs' =>
      match zip_grid c g' rs' with
      | Some l => Some (check_req c st inc lim (decode (map ename (dir c)) io) ++ l)
      | None => None
      end
  | _, _ => None
  end.

Definition grid_of (starts : list string) (limits : list nat) : list (string * bool * nat) :=
  flat_map (fun st => flat_map (fun inc => map (fun lim => (st, inc, lim)) limits) [false; true]) starts.

Definition all_within (limit : nat) (pages : list (list string)) : bool :=
  forallb (fun p => Nat.leb (length p) limit) pages.

Definition check_pg (c : case) (p : pg) : list req_result :=
  let s := kind c in
  let t := trig (prefix c) (pat c) in
  let M := spec_names (dir c) "" false (prefix c) (pat c) (excl c) in
  let ml := paginate 40 s (dir c) "" false (pg_limit p) (prefix c) (pat c) (excl c) in
  let tbl := map ename (dir c) in
  let il := option_map (map (names_of tbl)) (pg_list p) in
  let is_ := option_map (map (names_of tbl)) (pg_stream p) in
  let pl := match il with
            | Some pgs => strs_eqb (List.concat pgs) M && all_within (pg_limit p) pgs
            | None => false
            end in
  (* gRPC-style: prefix only (the server passes no patterns) *)
  let M0 := spec_names (dir c) "" false (prefix c) "" "" in
  let ms := paginate_stream 40 s (dir c) "" false (pg_limit p) (prefix c) in
  let ps := match is_ with
            | Some pgs => strs_eqb (List.concat pgs) M0 && all_within (pg_limit p) pgs
            | None => false
            end in
  [ (opages_eqb ml il, pl, t); (opages_eqb ms is_, ps, None) ].

(* a callback that stops: the entries up to and including the one it refused, at most limit *)
Definition check_stop (c : case) (q : stopreq) : list req_result :=
  let tbl := map ename (dir c) in
  let M := spec_names (dir c) (sq_start q) (sq_incl q) (prefix c) (pat c) (excl c) in
  let m := match stream_list_s (kind c) (dir c) (sq_start q) (sq_incl q) (sq_limit q) (prefix c) (pat c) (excl c) (sq_ans q) with
           | None => hang_obs
           | Some r => {| ob_names := s_names r; ob_more := false; ob_last := s_last r; ob_err := 0; ob_after := map ename (s_dir r) |}
           end in
  let i := {| ob_names := names_of tbl (sq_names q); ob_more := false; ob_last := nth_name tbl (sq_last q);
              ob_err := sq_err q; ob_after := dec_set tbl 0 (sq_after q) |} in
  let want := match first_false (sq_ans q) with
              | Some k => Nat.min (sq_limit q) (S k)
              | None => sq_limit q
              end in
  let p := N.eqb (ob_err i) 0 && strs_eqb (ob_names i) (firstn want M) && stop_respected (sq_ans q) (ob_names i) &&
           live_kept (dir c) (ob_after i) in
  (* (a stopped callback that is called again was finding 1; repaired, no trigger left) *)
  [ (obs_eqb m i, p, trig (prefix c) (pat c)) ].

(* the gRPC loop sends exactly the first gq_limit matches of the prefix listing *)
Definition check_grpc (c : case) (g : grpcreq) : list req_result :=
  let tbl := map ename (dir c) in
  let M0 := spec_names (dir c) "" false (prefix c) "" "" in
  let m := grpc_list 40 (kind c) (dir c) "" false (gq_limit g) (gq_pag g) (prefix c) in
  let i := option_map (map (names_of tbl)) (gq_pages g) in
  let p := match i with
           | Some pgs => strs_eqb (List.concat pgs) (firstn (gq_limit g) M0) && all_within (gq_pag g) pgs
           | None => false
           end in
  [ (opages_eqb m i, p, None) ].

Definition split_ok (x : string * (string * string)) : bool :=
  let '(p, (a, b)) := x in
  String.eqb (fst (split_pattern p)) a && String.eqb (snd (split_pattern p)) b.

Definition glob_ok (g : string * string * bool) : bool :=
  let '(p, n, b) := g in Bool.eqb (glob p n) b.

Definition check (c : case) : outcome :=
  let pre := wfb (dir c) && forallb glob_ok (globs c) && forallb split_ok (splits c) &&
             plain_pattern (pat c) && plain_pattern (excl c) &&
             String.eqb (fst (split_pattern (pat c))) (fst (split c)) &&
             String.eqb (snd (split_pattern (pat c))) (snd (split c)) in
  match zip_grid c (grid_of (starts c) (limits c)) (res c) with
  | None => {| o_corr := false; o_prop := true; o_trig := None; o_nontrivial := false |}
  | Some rq =>
      let all := rq ++ flat_map (check_pg c) (pages c) ++ flat_map (check_stop c) (stops c) ++
                 flat_map (check_grpc c) (grpcs c) in
      let failing := filter (fun r => negb (snd (fst r))) all in
      {| o_corr := pre && forallb (fun r => fst (fst r)) all;
         o_prop := is_nil failing;
         (* a case is a known finding only if EVERY failing request is inside a trigger set *)
         o_trig := if forallb (fun r => match snd r with Some _ => true | None => false end) failing
                   then match failing with r :: _ => snd r | [] => None end else None;
         o_nontrivial := existsb (fun r => let 'R ln _ le _ _ _ _ _ := r in N.eqb le 0 && negb (N.eqb ln 0)) (res c) ||
                         existsb (fun q => N.eqb (sq_err q) 0 && negb (N.eqb (sq_names q) 0)) (stops c) ||
                         existsb (fun g => match gq_pages g with Some (_ :: _) => true | _ => false end) (grpcs c) |}
  end.

Definition summarize_cases (l : list case) : summary := summarize check l.
