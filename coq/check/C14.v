(* Correspondence check for C14: the real vacuumOneVolumeLayout driven against
   in-process fake volume servers (gRPC) with a scripted outcome per replica and
   phase.  The layout and the registered state are built by real heartbeats
   ([k_setup], the C11 events); observed: the RPCs every replica received, in
   order, and the writables before / after the round. *)
From Coq Require Import List NArith Bool.
From SW Require Export base.Verdict model.TopoLayout model.Vacuum.
Import ListNotations.
Local Open Scope N_scope.

Record case := {
  k_cfg : cfg;
  k_setup : list event;
  k_scripts : scripts;
  k_vids : list N;                       (* the vids of the case *)
  k_nodes : list N;                      (* the data nodes of the case *)
  k_before : list N;                     (* impl: sorted writables before the round *)
  k_after : list N;                      (* impl: sorted writables after the round *)
  k_look : list (N * list N);            (* impl: sorted Lookup per vid after the round *)
  k_reg : regs;                          (* impl: registered state after the round *)
  k_log : list ((N * N) * list rpc)      (* impl: for every (vid, node) of the case, the RPCs received in order *)
}.

Definition look_eqb := list_eqb (fun a b : N * list N => (fst a =? fst b) && nl_eqb (snd a) (snd b)).
Definition log_eqb :=
  list_eqb (fun a b : (N * N) * list rpc =>
    (fst (fst a) =? fst (fst b)) && (snd (fst a) =? snd (fst b)) && list_eqb rpc_eqb (snd a) (snd b)).

Definition pairs (vs ns : list N) : list (N * N) :=
  flat_map (fun v => map (fun n => (v, n)) ns) vs.

Definition has_rpc (r : rpc) (l : list rpc) : bool := existsb (rpc_eqb r) l.

(* property, clause 2, on the implementation's log: a replica that received a
   commit had received a compact that succeeded, and so had every replica that
   received a compact for that volume *)
Definition o_commit_after_compact (k : case) : bool :=
  forallb (fun e : (N * N) * list rpc =>
    let v := fst (fst e) in
    if has_rpc RCommit (snd e) then
      has_rpc RCompact (snd e) && negb (has_rpc RCleanup (snd e)) &&
      forallb (fun e' : (N * N) * list rpc =>
                 if (fst (fst e') =? v) && has_rpc RCompact (snd e')
                 then is_cp_ok (sget (k_scripts k) v (snd (fst e'))) else true) (k_log k)
    else true) (k_log k).

(* property, clause 3, on the implementation's observables: if the writable set
   agreed with the criterion (recomputed from the registered state) before the
   round, it agrees after it *)
Definition o_writable_iff (k : case) : bool :=
  forallb (fun v =>
    let cr := r_crit (k_cfg k) (k_reg k) v in
    if Bool.eqb (mem v (k_before k)) cr then Bool.eqb (mem v (k_after k)) cr else true) (k_vids k).

Definition check (k : case) : outcome :=
  let s0 := run (k_cfg k) init (k_setup k) in
  let r := vacuum_layout (k_cfg k) (s_nodes s0) (k_scripts k) (s_lay s0) in
  {| o_corr :=
       nl_eqb (nsort (l_writ (s_lay s0))) (k_before k) &&
       nl_eqb (nsort (l_writ (r_lay r))) (k_after k) &&
       look_eqb (map (fun v => (v, nsort (loc (r_lay r) v))) (k_vids k)) (k_look k) &&
       reg_eqb (reg_of (s_nodes s0)) (k_reg k) &&
       log_eqb (map (fun p => (p, log_of (r_log r) (fst p) (snd p))) (pairs (k_vids k) (k_nodes k))) (k_log k);
     o_prop := o_commit_after_compact k && o_writable_iff k;
     o_trig :=
       if existsb (trigger_stuck (k_scripts k) (s_lay s0)) (k_vids k) then Some 0
       else if existsb (trigger_readmit (k_cfg k) (s_nodes s0) (k_scripts k) (s_lay s0)) (k_vids k) then Some 1
       else None;
     o_nontrivial := existsb (fun e : (N * N) * list rpc => has_rpc RCompact (snd e)) (k_log k) |}.

Definition summarize_cases (l : list case) : summary := summarize check l.
