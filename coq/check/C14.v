(* Correspondence check for C14: the real Topology.Vacuum driven against
   in-process fake volume servers (gRPC) with a scripted outcome per replica and
   phase, one or more passes per case, with real heartbeats / collector sweeps /
   disconnects before the passes and (from inside a fake Compact handler) while the
   replicas compact.  A second, real master gets the same events at the same
   times and never vacuums (the property's reference).  Observed per pass: the RPCs
   every replica received, in order; writables, lookups, readonly / oversized
   sets, registered state; whether the call returned; whether it panicked. *)
From Coq Require Import List NArith Bool.
From SW Require Export base.Verdict model.TopoLayout model.Vacuum.
Import ListNotations.
Local Open Scope N_scope.

Record obs := {
  ob_writ : list N;                      (* impl: sorted writables after the pass *)
  ob_look : list (N * list N);           (* impl: sorted Lookup per vid after the pass *)
  ob_ro : list N;                        (* impl: sorted vids with readonlyVolumes.IsTrue *)
  ob_os : list N;                        (* impl: sorted vids with oversizedVolumes.IsTrue *)
  ob_reg : regs;                         (* impl: registered state after the pass *)
  ob_log : list ((N * N) * list rpc);    (* impl: for every (vid, node) of the case, the RPCs received during the pass *)
  ob_hung : bool;                        (* impl: a Topology.Vacuum call has not returned (guard held) *)
  ob_panic : bool;                       (* impl: Topology.Vacuum panicked (in this or an earlier pass) *)
  ob_ctrl : list N;                      (* impl: sorted writables of the master that never vacuums *)
  ob_ctrl_look : list (N * list N)       (* impl: its Lookup per vid *)
}.

Record case := {
  k_cfg : cfg;
  k_setup : list event;
  k_passes : list pass;
  k_vids : list N;                       (* the vids of the case *)
  k_nodes : list N;                      (* the data nodes of the case *)
  k_before : list N;                     (* impl: sorted writables before the first pass *)
  k_obs : list obs                       (* one per pass *)
}.

Definition look_eqb := list_eqb (fun a b : N * list N => (fst a =? fst b) && nl_eqb (snd a) (snd b)).
Definition log_eqb :=
  list_eqb (fun a b : (N * N) * list rpc =>
    (fst (fst a) =? fst (fst b)) && (snd (fst a) =? snd (fst b)) && list_eqb rpc_eqb (snd a) (snd b)).

Definition pairs (vs ns : list N) : list (N * N) :=
  flat_map (fun v => map (fun n => (v, n)) ns) vs.

Definition has_rpc (r : rpc) (l : list rpc) : bool := existsb (rpc_eqb r) l.

(* property, clause 2, on the implementation's log of one pass: a replica that
   received a commit had received a compact that succeeded, and so had every
   replica that received a compact for that volume *)
Definition o_commit_after_compact (scs : scripts) (log : list ((N * N) * list rpc)) : bool :=
  forallb (fun e : (N * N) * list rpc =>
    let v := fst (fst e) in
    if has_rpc RCommit (snd e) then
      has_rpc RCompact (snd e) && negb (has_rpc RCleanup (snd e)) &&
      forallb (fun e' : (N * N) * list rpc =>
                 if (fst (fst e') =? v) && has_rpc RCompact (snd e')
                 then is_cp_ok (sget scs v (snd (fst e'))) else true) log
    else true) log.

(* property, clause 3, on the implementation's observables only: after every pass
   the vacuuming master has the writable set of the master that never vacuumed,
   the call returned and did not panic *)
Definition o_pass (p : pass) (o : obs) : bool :=
  o_commit_after_compact (p_scs p) (ob_log o) &&
  nl_eqb (ob_writ o) (ob_ctrl o) && negb (ob_hung o) && negb (ob_panic o).

Fixpoint forallb2 {A B} (f : A -> B -> bool) (l1 : list A) (l2 : list B) : bool :=
  match l1, l2 with
  | [], [] => true
  | x :: l1', y :: l2' => f x y && forallb2 f l1' l2'
  | _, _ => false
  end.

Definition keys (m : list (N * list N)) : list N := nsort (map fst m).
Definition looks (s : state) (vids : list N) := map (fun v => (v, nsort (lookup s v))) vids.

(* model state after a pass and model reference state == observables of the pass *)
Definition corr_pass (k : case) (qu : pstate * state) (o : obs) : bool :=
  let '(q, u) := qu in
  let s := q_st q in
  nl_eqb (nsort (l_writ (s_lay s))) (ob_writ o) &&
  look_eqb (looks s (k_vids k)) (ob_look o) &&
  nl_eqb (keys (l_ro (s_lay s))) (ob_ro o) && nl_eqb (keys (l_os (s_lay s))) (ob_os o) &&
  reg_eqb (reg_of (s_nodes s)) (ob_reg o) &&
  log_eqb (map (fun p => (p, log_of (q_log q) (fst p) (snd p))) (pairs (k_vids k) (k_nodes k))) (ob_log o) &&
  Bool.eqb (q_hung q) (ob_hung o) && Bool.eqb (q_panic q) (ob_panic o) &&
  nl_eqb (nsort (l_writ (s_lay u))) (ob_ctrl o) && look_eqb (looks u (k_vids k)) (ob_ctrl_look o).

(* which known finding the model's outcome of a pass falls under, per volume:
   3 panic, 2 hang; writable where the unvacuumed master is not: 4 if the lookup
   lists a server that is not registered, else 1; not writable where it is: 0 *)
Definition round_class (vids : list N) (qu : pstate * state) : option N :=
  let '(q, u) := qu in
  if q_panic q then Some 3
  else if q_hung q then Some 2
  else
    let s := q_st q in
    let cls := map (fun v =>
      match writable s v, writable u v with
      | true, false =>
          if existsb (fun n => match aget n (s_nodes s) with None => true | Some _ => false end) (lookup s v)
          then Some 4 else Some 1
      | false, true => Some 0
      | _, _ => None
      end) vids in
    match filter (fun x : option N => match x with Some _ => true | None => false end) cls with
    | x :: _ => x
    | [] => None
    end.

(* for passes without master-side events the outcome class must coincide with the
   input-defined triggers of model/Vacuum.v on the state before the pass
   (c14_stuck_exact / c14_readmit_exact / c14_hang_exact, checked per case) *)
Definition triggers_agree (c : cfg) (vids : list N) (s0 : state) (p : pass) (qu : pstate * state) (prev_ok : bool) : bool :=
  match p_mid p, prev_ok with
  | [], true =>
      let s := run c s0 (p_pre p) in
      let l := s_lay s in
      let t :=
        if existsb (trigger_hang (p_scs p) l) vids then Some 2
        else match filter (fun v => trigger_stuck (p_scs p) l v || trigger_readmit c (s_nodes s) (p_scs p) l v) vids with
             | v :: _ => if trigger_stuck (p_scs p) l v then Some 0 else Some 1
             | [] => None
             end in
      match t, round_class vids qu with
      | Some 2, Some 2 => true
      | Some 2, _ => false
      | Some a, Some b => a =? b
      | None, None => true
      | _, _ => false
      end
  | _, _ => true
  end.

Definition check (k : case) : outcome :=
  let c := k_cfg k in
  let s0 := run c init (k_setup k) in
  let qs := passes c (pstart s0) (k_passes k) in
  let us := unvacuumed c s0 qs in
  let qus := combine qs us in
  {| o_corr :=
       nl_eqb (nsort (l_writ (s_lay s0))) (k_before k) &&
       forallb2 (corr_pass k) qus (k_obs k) &&
       (* only the first pass is compared with the input-defined triggers: later
          passes start from a state the vacuum itself produced *)
       match k_passes k, qus with
       | p :: _, qu :: _ => triggers_agree c (k_vids k) s0 p qu true
       | _, _ => true
       end;
     o_prop := forallb2 o_pass (k_passes k) (k_obs k);
     o_trig :=
       match filter (fun x : option N => match x with Some _ => true | None => false end)
                    (map (round_class (k_vids k)) qus) with
       | x :: _ => x
       | [] => None
       end;
     o_nontrivial :=
       existsb (fun o => existsb (fun e : (N * N) * list rpc => has_rpc RCompact (snd e)) (ob_log o)) (k_obs k) |}.

Definition summarize_cases (l : list case) : summary := summarize check l.
