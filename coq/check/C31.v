(* Correspondence check for C31: histories of SetChunk / GetChunk / GetChunkSlice /
   restart on the real TieredChunkCache, with the bytes every lookup returned
   (one answer per operation; [] for stores, restarts and misses).  At a restart
   the harness fixes the file timestamps that decide the segment order and whether
   the leveldb index is rebuilt, and passes them in the Restart operation. *)
From Coq Require Import List NArith Bool String Ascii.
From SW Require Export base.Verdict model.ChunkCache.
Import ListNotations.

(* chunk contents are printable ASCII in the cases (the cache never looks at the
   contents); a string literal is much cheaper to parse than a list of numbers *)
Definition B (s : string) : bytes := map N_of_ascii (list_ascii_of_string s).

Record case := { prm : params; ops : list op; impl : list bytes }.

Fixpoint any_hit (ops : list op) (impl : list bytes) : bool :=
  match ops, impl with
  | o :: ops', r :: impl' => (is_lookup o && negb (is_empty r)) || any_hit ops' impl'
  | _, _ => false
  end.

Definition check (c : case) : outcome :=
  {| (* the model admits every answer: the memory tier may have evicted anything,
        the disk tiers are deterministic given the timestamps *)
     o_corr := admitted_all (ops c) (run (prm c) init_state (ops c)) (impl c) &&
               Nat.eqb (List.length (ops c)) (List.length (impl c));
     (* the property on the implementation's answers: empty, or allowed by an
        earlier store for the same file id *)
     o_prop := impl_transparent [] (ops c) (impl c);
     o_trig := if keys_unique (ops c) then None else Some 0%N;
     o_nontrivial := any_hit (ops c) (impl c) |}.

Definition summarize_cases (l : list case) : summary := summarize check l.
