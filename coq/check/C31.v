(* Correspondence check for C31: histories of SetChunk / GetChunk / GetChunkSlice /
   restart on the real TieredChunkCache, with the bytes every lookup returned
   (one answer per operation; [] for stores, restarts and misses).  At a restart
   the harness either fixes the file timestamps that decide the segment order and,
   per segment, whether the leveldb index is rebuilt, or leaves them as the file
   system set them and reads them before re-opening (natural restart, crash
   re-open of a copy of the directory); the Restart operation carries them. *)
From Coq Require Import List NArith Bool String Ascii.
From SW Require Export base.Verdict model.ChunkCache.
Import ListNotations.

(* chunk contents are printable ASCII in the cases (the cache never looks at the
   contents); a string literal is much cheaper to parse than a list of numbers *)
Definition B (s : string) : bytes := map N_of_ascii (list_ascii_of_string s).

(* [geom]: what the real NewTieredChunkCache computed for these parameters (hook
   VerifGeometry): tier limits 0 and 1, segment count and per-segment size limit of
   the three disk tiers, and types.NeedlePaddingSize.  Ties the literals of the
   model (factors 4, /8, /4+/8, /2, segment counts 2/3/2, padding 8). *)
Record case := { prm : params; geom : list N; ops : list op; impl : list bytes }.

Definition model_geom (p : params) : list N :=
  [limit0 p; limit1 p;
   N.of_nat (List.length (l0 init_state)); N.of_nat (List.length (l1 init_state)); N.of_nat (List.length (l2 init_state));
   seg_limit0 p; seg_limit1 p; seg_limit2 p;
   pad8 1].

Fixpoint any_hit (ops : list op) (impl : list bytes) : bool :=
  match ops, impl with
  | o :: ops', r :: impl' => (is_lookup o && negb (is_empty r)) || any_hit ops' impl'
  | _, _ => false
  end.

Definition check (c : case) : outcome :=
  {| (* the model admits every answer: the memory tier may have evicted anything,
        the disk tiers are deterministic given the timestamps *)
     o_corr := admitted_all (ops c) (run (prm c) init_state (ops c)) (impl c) &&
               Nat.eqb (List.length (ops c)) (List.length (impl c)) && hist_ok (ops c) &&
               bytes_eqb (model_geom (prm c)) (geom c);
     (* the property on the implementation's answers: empty, or allowed by an
        earlier store for the same file id *)
     o_prop := impl_transparent [] (ops c) (impl c);
     (* finding 0 only when EVERY failing answer is explained, at its own lookup,
        by a store for another file id with the same needle key (props:
        c31_trigger_total); never 1 or 2 (repaired; c31_trigger_only_zero) *)
     o_trig := trigger (ops c) (impl c);
     o_nontrivial := any_hit (ops c) (impl c) |}.

Definition summarize_cases (l : list case) : summary := summarize check l.
