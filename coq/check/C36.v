(* Correspondence check for C36.
   CRec:   one event through the real Replicator.Replicate / genProcessFunction
           with a recording sink (scripted UpdateEntry answer), or through the real
           doSubscribeFilerMetaChanges + FilerSink against in-process gRPC filers
           (ViaGrpc: the target answers every lookup with "not found"; observed are
           the mutating RPCs).
   CLocal: a stream of events through genProcessFunction into a real LocalSink
           in a scratch directory; observed are the final tree and the error flags. *)
From Coq Require Import List NArith ZArith Bool String.
From SW Require Export base.Verdict model.Repl.
Import ListNotations.

Inductive via := ViaReplicate | ViaSync | ViaGrpc.

Record rcase := {
  rc_via : via; rc_cfg : config; rc_key : string; rc_ev : event; rc_found : bool;
  rc_ops : list sinkop;       (* calls the sink saw *)
  rc_panic : bool;            (* the event function panicked *)
  rc_sigs_ok : bool           (* every call carried message.Signatures unchanged *)
}.

Record lcase := {
  lc_cfg : config; lc_evs : list event;
  lc_tree : list (string * bool);   (* final scratch tree, (path, is directory) *)
  lc_errs : list bool               (* per event: the event function returned an error *)
}.

Inductive case := CRec (r : rcase) | CLocal (l : lcase).

Definition entry_eqb (a b : entry) : bool :=
  String.eqb (e_name a) (e_name b) && Bool.eqb (e_isdir a) (e_isdir b) && String.eqb (e_date a) (e_date b).

Definition op_eqb (a b : sinkop) : bool :=
  match a, b with
  | Create k e, Create k' e' => String.eqb k k' && entry_eqb e e'
  | Delete k d c, Delete k' d' c' => String.eqb k k' && Bool.eqb d d' && Bool.eqb c c'
  | Update k p e c, Update k' p' e' c' => String.eqb k k' && String.eqb p p' && entry_eqb e e' && Bool.eqb c c'
  | _, _ => false
  end.

Fixpoint all2 {A} (f : A -> A -> bool) (l1 l2 : list A) : bool :=
  match l1, l2 with
  | [], [] => true
  | x :: l1', y :: l2' => f x y && all2 f l1' l2'
  | _, _ => false
  end.

Definition op_key (o : sinkop) : string :=
  match o with Create k _ => k | Delete k _ _ => k | Update k _ _ _ => k end.

(* what the target filer sees of an operation: kind and key *)
Definition rpc_eqb (a b : sinkop) : bool :=
  match a, b with
  | Create k e, Create k' e' => String.eqb k k' && Bool.eqb (e_isdir e) (e_isdir e')
  | Delete k _ c, Delete k' _ c' => String.eqb k k' && Bool.eqb c c'
  | _, _ => false
  end.
Definition is_update (o : sinkop) : bool := match o with Update _ _ _ _ => true | _ => false end.
Definition rpcs (l : list sinkop) : list sinkop := filter (fun o => negb (is_update o)) l.

Definition model_plan (r : rcase) : plan :=
  match rc_via r with
  | ViaReplicate => replicate (rc_cfg r) (rc_key r) (rc_ev r)
  | ViaSync => sync_process (rc_cfg r) (rc_ev r)
  | ViaGrpc => sync_filtered (rc_cfg r) (rc_ev r)
  end.

Definition ops_match (v : via) (found : bool) (p : plan) (impl : list sinkop) : bool :=
  match v with
  | ViaGrpc => all2 rpc_eqb (rpcs (run_rec false p)) impl
  | _ => all2 op_eqb (run_rec found p) impl
  end.

(* the property's reference, independent of the string-level model *)
Definition is_echo (r : rcase) : bool :=
  match rc_via r with
  | ViaReplicate => ev_from_other (rc_ev r) && sink_is_filer (rc_cfg r)
  | ViaSync => false
  | ViaGrpc => existsb (Z.eqb (target_sig (rc_cfg r))) (ev_sigs (rc_ev r)) &&
               negb (Z.eqb (target_sig (rc_cfg r)) 0)
  end.

Definition key_under_target (c : config) (o : sinkop) : bool := lprefix (tgt_segs c) (segs (op_key o)).

Definition rec_prop (r : rcase) : bool :=
  let c := rc_cfg r in let ev := rc_ev r in
  if negb (wf_config c && wf_event ev) then true else
  if is_echo r then (match rc_ops r with [] => true | _ => false end) && negb (rc_panic r) else
  if all_outside c ev then (match rc_ops r with [] => true | _ => false end) && negb (rc_panic r) else
  if touches_root c ev then true else
  if incremental c then forallb (key_under_target c) (rc_ops r) && negb (rc_panic r)
  else ops_match (rc_via r) (rc_found r) (mirror_spec c ev) (rc_ops r) && negb (rc_panic r).

Definition rec_trig (r : rcase) : option N :=
  if incremental (rc_cfg r) then None else
  match rc_via r with
  | ViaReplicate => if replicate_unsafe (rc_cfg r) (rc_ev r) then Some 0%N else None
  | _ => None
  end.

Definition check_rec (r : rcase) : outcome :=
  let p := model_plan r in
  {| o_corr := ops_match (rc_via r) (rc_found r) p (rc_ops r) && Bool.eqb (is_panic p) (rc_panic r) && rc_sigs_ok r;
     o_prop := rec_prop r;
     o_trig := rec_trig r;
     o_nontrivial := match rc_ops r with [] => false | _ => true end |}.

(* ----- LocalSink ----- *)
Definition tree_entry_eqb (a b : string * bool) : bool :=
  String.eqb (fst a) (fst b) && Bool.eqb (snd a) (snd b).
Definition subset {A} (f : A -> A -> bool) (a b : list A) : bool :=
  forallb (fun x => existsb (f x) b) a.
Definition set_eqb {A} (f : A -> A -> bool) (a b : list A) : bool :=
  subset f a b && subset f b a && Nat.eqb (List.length a) (List.length b).

Definition check_local (l : lcase) : outcome :=
  let '(t, errs) := run_local (lc_cfg l) [] (lc_evs l) in
  {| o_corr := set_eqb tree_entry_eqb t (lc_tree l) && all2 Bool.eqb errs (lc_errs l);
     o_prop := set_eqb String.eqb (files_of (lc_tree l)) (spec_files (lc_cfg l) (lc_evs l));
     o_trig := None;
     o_nontrivial := match lc_tree l with [] => false | _ => true end |}.

Definition check (c : case) : outcome :=
  match c with CRec r => check_rec r | CLocal l => check_local l end.

Definition summarize_cases (l : list case) : summary := summarize check l.
