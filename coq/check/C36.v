(* Correspondence check for C36.
   CRec:   one event through the real Replicator.Replicate / genProcessFunction
           with a recording sink (scripted UpdateEntry answer), or through the real
           doSubscribeFilerMetaChanges + FilerSink against in-process gRPC filers
           (ViaGrpc: the target answers every lookup with "not found"; observed are
           the mutating RPCs).
   CLocal: a stream of events through genProcessFunction into a real LocalSink
           in a scratch directory; observed are the final tree and the error flags. *)
From Coq Require Import List NArith ZArith Bool String.
From SW Require Export base.Verdict model.Repl.
Import ListNotations.

Inductive via := ViaReplicate | ViaSync | ViaGrpc.

Record rcase := {
  rc_via : via; rc_cfg : config; rc_key : string; rc_ev : event; rc_found : bool;
  rc_real : bool;             (* event and queue key were captured from a real in-process filer *)
  rc_ops : list sinkop;       (* calls the sink saw *)
  rc_panic : bool;            (* the event function panicked *)
  rc_sigs_ok : bool           (* every call / mutating RPC carried message.Signatures unchanged
                                 (ViaGrpc: and IsFromOtherCluster = true) *)
}.

Record lcase := {
  lc_cfg : config; lc_evs : list event;
  lc_tree : list (string * bool);   (* final scratch tree, (path, is directory) *)
  lc_data : list (string * list N); (* the bytes of every file of the scratch tree *)
  lc_errs : list bool               (* per event: the event function returned an error *)
}.

Inductive case := CRec (r : rcase) | CLocal (l : lcase) | CEmit (op : emit_op).

Fixpoint all2 {A} (f : A -> A -> bool) (l1 l2 : list A) : bool :=
  match l1, l2 with
  | [], [] => true
  | x :: l1', y :: l2' => f x y && all2 f l1' l2'
  | _, _ => false
  end.

Definition entry_eqb (a b : entry) : bool :=
  String.eqb (e_name a) (e_name b) && Bool.eqb (e_isdir a) (e_isdir b) && String.eqb (e_date a) (e_date b) &&
  all2 N.eqb (e_data a) (e_data b).

Definition op_eqb (a b : sinkop) : bool :=
  match a, b with
  | Create k e, Create k' e' => String.eqb k k' && entry_eqb e e'
  | Delete k d c, Delete k' d' c' => String.eqb k k' && Bool.eqb d d' && Bool.eqb c c'
  | Update k p e c, Update k' p' e' c' => String.eqb k k' && String.eqb p p' && entry_eqb e e' && Bool.eqb c c'
  | _, _ => false
  end.


Definition op_key (o : sinkop) : string :=
  match o with Create k _ => k | Delete k _ _ => k | Update k _ _ _ => k end.

(* what the target filer sees of an operation: kind and key *)
Definition rpc_eqb (a b : sinkop) : bool :=
  match a, b with
  | Create k e, Create k' e' => String.eqb k k' && Bool.eqb (e_isdir e) (e_isdir e')
  | Delete k _ c, Delete k' _ c' => String.eqb k k' && Bool.eqb c c'
  | Update k p _ _, Update k' p' _ _ => String.eqb k k' && String.eqb p p'
  | _, _ => false
  end.
(* FilerSink (weed/replication/sink/filersink/filer_sink.go) against a target filer
   that answers every lookup with "not found" ([found] = false) or with an older
   chunkless entry of the looked-up name ([found] = true):
     CreateEntry  found: same ETag => "already replicated", no RPC; else CreateEntry RPC
     UpdateEntry  not found: no RPC, answers (false, lookup error): the caller goes on to delete + create;
                  found: UpdateEntry RPC {Directory: newParentPath, Entry: the EXISTING entry},
                  i.e. at newParentPath/<old name>
     DeleteEntry  DeleteEntry RPC *)
Definition last_seg (k : string) : string := last (segs k) EmptyString.
Definition rpc_view (found : bool) (o : sinkop) : list sinkop :=
  match o with
  | Create k e => if found then [] else [o]
  | Delete _ _ _ => [o]
  | Update k np e dc => if found then [Update (join [np; last_seg k]) np e dc] else []
  end.
(* the mutating RPCs of a plan: with [found] the UpdateOr stops after the update *)
Definition rpcs (found : bool) (p : plan) : list sinkop :=
  match p with
  | Nothing | Panic => []
  | Do o => rpc_view found o
  | UpdateOr u d c => if found then rpc_view found u else rpc_view found d ++ rpc_view found c
  end.

Definition model_plan (r : rcase) : plan :=
  match rc_via r with
  | ViaReplicate => replicate (rc_cfg r) (rc_key r) (rc_ev r)
  | ViaSync => sync_process (rc_cfg r) (rc_ev r)
  | ViaGrpc => sync_filtered (rc_cfg r) (rc_ev r)
  end.

Definition ops_match (v : via) (found : bool) (p : plan) (impl : list sinkop) : bool :=
  match v with
  | ViaGrpc => all2 rpc_eqb (rpcs found p) impl
  | _ => all2 op_eqb (run_rec found p) impl
  end.

(* the property's reference, independent of the string-level model *)
Definition is_echo (r : rcase) : bool :=
  match rc_via r with
  | ViaReplicate => ev_from_other (rc_ev r) && sink_is_filer (rc_cfg r)
  | ViaSync => false
  | ViaGrpc => existsb (Z.eqb (target_sig (rc_cfg r))) (ev_sigs (rc_ev r)) &&
               negb (Z.eqb (target_sig (rc_cfg r)) 0)
  end.

Definition key_under_target (c : config) (o : sinkop) : bool := lprefix (tgt_segs c) (segs (op_key o)).

Definition rec_prop (r : rcase) : bool :=
  let c := rc_cfg r in let ev := rc_ev r in
  if negb (wf_config c && wf_event ev) then true else
  if is_echo r then (match rc_ops r with [] => true | _ => false end) && negb (rc_panic r) else
  if all_outside c ev then (match rc_ops r with [] => true | _ => false end) && negb (rc_panic r) else
  if touches_root c ev then true else
  if incremental c then
    forallb (key_under_target c) (rc_ops r) && negb (rc_panic r) &&
    (* genProcessFunction into an incremental sink: the date-folder reference *)
    match rc_via r with
    | ViaReplicate => true
    | _ => negb (plain (date_key ev)) || ops_match (rc_via r) (rc_found r) (mirror_spec_inc c ev) (rc_ops r)
    end
  else ops_match (rc_via r) (rc_found r) (mirror_spec c ev) (rc_ops r) && negb (rc_panic r).

Definition rec_trig (r : rcase) : option N :=
  if incremental (rc_cfg r) then None else
  match rc_via r with
  | ViaReplicate => if replicate_unsafe (rc_cfg r) (rc_ev r) then Some 0%N else None
  | _ => None
  end.

Definition check_rec (r : rcase) : outcome :=
  let p := model_plan r in
  {| o_corr := ops_match (rc_via r) (rc_found r) p (rc_ops r) && Bool.eqb (is_panic p) (rc_panic r) && rc_sigs_ok r &&
               (* the queue key the real filer used is the model's event_key *)
               (negb (rc_real r) || String.eqb (rc_key r) (event_key (rc_ev r)));
     (* ... and every applied change carries the event's signatures on (and, towards a filer, the
        replicated mark): the next filer's echo filter depends on it *)
     o_prop := rec_prop r && rc_sigs_ok r;
     o_trig := rec_trig r;
     o_nontrivial := match rc_ops r with [] => false | _ => true end |}.

(* ----- LocalSink ----- *)
Definition tree_entry_eqb (a b : string * bool) : bool :=
  String.eqb (fst a) (fst b) && Bool.eqb (snd a) (snd b).
Definition subset {A} (f : A -> A -> bool) (a b : list A) : bool :=
  forallb (fun x => existsb (f x) b) a.
Definition set_eqb {A} (f : A -> A -> bool) (a b : list A) : bool :=
  subset f a b && subset f b a && Nat.eqb (List.length a) (List.length b).

Definition check_local (l : lcase) : outcome :=
  let '(t, errs) := run_local (lc_cfg l) [] (lc_evs l) in
  let data_eqb := fun a b : string * list N => String.eqb (fst a) (fst b) && all2 N.eqb (snd a) (snd b) in
  {| o_corr := set_eqb tree_entry_eqb t (lc_tree l) && all2 Bool.eqb errs (lc_errs l) &&
               set_eqb data_eqb (snd (run_local_data (lc_cfg l) ([], []) (lc_evs l))) (lc_data l);
     (* the reference file set, for histories inside the hypotheses of c36_local_mirror *)
     o_prop := negb (wf_config (lc_cfg l) && forallb wf_event (lc_evs l)) ||
               existsb (touches_root (lc_cfg l)) (lc_evs l) ||
               local_clash (lc_cfg l) [] (lc_evs l) ||
               (set_eqb String.eqb (files_of (lc_tree l)) (spec_files (lc_cfg l) (lc_evs l)) &&
                (* and every file holds the bytes of the last new entry at that path *)
                set_eqb data_eqb (lc_data l) (spec_data (lc_cfg l) (lc_evs l)));
     o_trig := None;
     o_nontrivial := match lc_tree l with [] => false | _ => true end &&
                     negb (local_clash (lc_cfg l) [] (lc_evs l)) |}.

(* ----- the labels of emitted events ----- *)
Definition zlist_eqb (a b : list Z) : bool := all2 Z.eqb a b.
Definition check_emit (op : emit_op) : outcome :=
  {| o_corr := forallb (fun m => let '(sg, fl) := emit_label op m in
                                 zlist_eqb sg (m_sigs m) && Bool.eqb fl (m_from_other m)) (em_evs op);
     o_prop := forallb (fun m => emit_ok op (m_sigs m) (m_from_other m)) (em_evs op);
     o_trig := if emit_unsafe op then Some 1%N else None;
     o_nontrivial := match em_evs op with _ :: _ :: _ => true | _ => false end |}.

Definition check (c : case) : outcome :=
  match c with CRec r => check_rec r | CLocal l => check_local l | CEmit op => check_emit op end.

Definition summarize_cases (l : list case) : summary := summarize check l.
