(* Correspondence check for C29.  Two kinds of cases:
   CReq   one S3 request with hostile key / upload id / copy source / batch keys sent
          as a RAW request target through the real gateway router; observed: the
          filer-facing calls (gRPC interceptor + HTTP wrapper in front of the filer's
          ServeMux), every FilerStore call (recording store), the status class, whether
          anything outside the bucket changed, whether foreign content came back;
   CClean one path string through Go's path.Clean / filepath.Join / ServeMux /
          FullPath.DirAndName / filepath.Base / filepath.Dir. *)
From Coq Require Import List NArith Bool String.
From SW Require Export base.Verdict model.S3List model.S3Paths.
Import ListNotations.
Local Open Scope list_scope.
Local Open Scope string_scope.

(* ---- short forms used by the harness printer (string literals parse slowly) ---- *)
Definition J (segs : list string) : string := join_slash segs.
Definition s_ : string := "".
Definition sbuckets : string := "buckets".
Definition sb : string := "b".
Definition sother : string := "other".
Definition sobj : string := "obj".
Definition skeep : string := "keep".
Definition sx : string := "x".
Definition sy : string := "y".
Definition snew : string := "new".
Definition sdd : string := "..".
Definition sd1 : string := ".".
Definition sup : string := ".uploads".
Definition su1 : string := "u1".
Definition su2 : string := "u2".
Definition setc : string := "etc".
Definition ssecret : string := "secret".
Definition sp1 : string := "0001.part".
Definition sp2 : string := "0002.part".
Definition suuid : string := "UUID".
Definition spdd : string := "%2e%2e".
Definition sk : string := "k".

(* the fixture every request runs against (the harness builds exactly this) *)
Definition fx0 : fixture :=
  [ ("/", true);
    ("/buckets", true);
    ("/buckets/b", true);
    ("/buckets/b/obj", false);
    ("/buckets/b/x", true);
    ("/buckets/b/x/y", false);
    ("/buckets/b/.uploads", true);
    ("/buckets/b/.uploads/u1", true);
    ("/buckets/b/.uploads/u1/0001.part", false);
    ("/buckets/other", true);
    ("/buckets/other/obj", false);
    ("/buckets/other/keep", false);
    ("/buckets/other/.uploads", true);
    ("/buckets/other/.uploads/u2", true);
    ("/buckets/other/.uploads/u2/0001.part", false);
    ("/etc", true);
    ("/etc/secret", false) ].

Inductive sop := SFind | SList | SInsert | SUpdate | SDelete | SDelChildren.

Inductive case :=
| CReq (q : req)
       (i_calls : list fcall)             (* filer-facing calls, in arrival order *)
       (i_store : list (sop * string))    (* FilerStore calls *)
       (i_status : N)                     (* 2,3,4,5 = status class; 9 = handler panic *)
       (i_outside_changed : bool)         (* an entry outside /buckets/<bucket> changed *)
       (i_leak : bool)                    (* the response carried another bucket's / the filer's data *)
| CClean (p dir name : string)
         (g_clean : string)               (* path.Clean(p) *)
         (g_mux : string)                 (* what the real ServeMux serves / redirects p to *)
         (g_join : string)                (* util.JoinPath(dir, name) *)
         (g_dn : string * string)         (* util.FullPath(p).DirAndName() *)
         (g_base g_dir : string).         (* filepath.Base(p), filepath.Dir(p) *)

Definition meth_eqb (a b : meth) : bool :=
  match a, b with
  | MGet, MGet | MHead, MHead | MPut, MPut | MDelete, MDelete => true
  | _, _ => false
  end.

Definition fcall_eqb (a b : fcall) : bool :=
  match a, b with
  | Http m p, Http m' p' => meth_eqb m m' && (p =? p')
  | GLookup d n, GLookup d' n' => (d =? d') && (n =? n')
  | GList d, GList d' => d =? d'
  | GCreate d n i, GCreate d' n' i' => (d =? d') && (n =? n') && Bool.eqb i i'
  | GUpdate d n, GUpdate d' n' => (d =? d') && (n =? n')
  | GDelete d n r, GDelete d' n' r' => (d =? d') && (n =? n') && Bool.eqb r r'
  | _, _ => false
  end.

(* the implementation's calls = the model's calls, followed (batch delete only) by
   purge calls that all belong to the model's candidate set *)
Fixpoint calls_match (model impl cand : list fcall) : bool :=
  match model, impl with
  | [], rest => forallb (fun c => existsb (fcall_eqb c) cand) rest
  | m :: model', i :: impl' => fcall_eqb m i && calls_match model' impl' cand
  | _ :: _, [] => false
  end.

(* the buckets a request may legitimately touch: its own, and the one its copy source names *)
Definition allowed (q : req) : list string :=
  q_bucket q ::
  match q_route q with
  | RCopy _ | RCopyPart =>
      let sb := fst (src_bucket_object (dec1 (q_src q))) in
      if bad_bucket sb then [] else [sb]
  | _ => []
  end.

Definition outside_all (al : list string) (p : string) : bool :=
  forallb (fun a => negb (contained a p)) al.

Definition related (a b : string) : bool := inside a b || inside b a.

(* the path a call makes the STORE act on: the filer answers a lookup / delete of "/"
   from its static root entry without a store call *)
Definition store_effective (c : fcall) : option string :=
  match c, effective c with
  | GLookup _ _, Some e | GDelete _ _ _, Some e => if clean e =? "/" then None else Some e
  | _, r => r
  end.

Definition check (c : case) : outcome :=
  match c with
  | CReq q i_calls i_store i_status i_changed i_leak =>
      let m_calls := map snd (calls fx0 q) in
      let cand := purge_candidates (q_bucket q) (q_keys q) in
      let eff := flat_map (fun c => match c, effective c with
                                    | GCreate _ _ _, Some e => clean e :: map clean (create_parents e)
                                    | _, Some e => [clean e]
                                    | _, None => []
                                    end)
                          (i_calls ++ cand)%list in
      let spaths := map (fun sp => clean (snd sp)) i_store in
      let al := allowed q in
      let m_outside := existsb (outside_all al) (flat_map (fun c => match store_effective c with Some e => [e] | None => [] end) i_calls) in
      let i_outside := existsb (outside_all al) spaths in
      (* an object route addressed the multipart area: a store path inside some
         <bucket>/.uploads that is not merely swept up by a recursive delete that started
         above the area *)
      let in_up := fun p => existsb (fun a => inside (clean (uploads_dir a)) p) al in
      let del_eff := flat_map (fun c => match c, effective c with
                                        | Http MDelete _, Some e | GDelete _ _ true, Some e => [clean e]
                                        | _, _ => []
                                        end) i_calls in
      let obj_uploads := object_route (q_route q) &&
                         existsb (fun p => in_up p && negb (existsb (fun e => inside e p && negb (in_up e)) del_eff)) spaths in
      {| o_corr :=
           calls_match m_calls i_calls cand &&
           (* every store path is explained by a call: it is the call's effective path,
              one of its ancestors (parent lookups / creation) or descendants (recursive delete) *)
           forallb (fun p => existsb (related p) eff) spaths &&
           (* every effective path of a call the model predicts is really touched *)
           forallb (fun c => match effective c with
                             | Some e => (clean e =? "/") || existsb (String.eqb (clean e)) spaths
                             | None => true
                             end) m_calls &&
           Bool.eqb m_outside i_outside &&
           Bool.eqb (negb (uploads_hidden fx0 q)) obj_uploads;
         o_prop := negb i_outside && negb i_changed && negb i_leak && negb obj_uploads;
         o_trig := if req_dotdot q then Some 0%N
                   else if req_uploads_seg q then Some 1%N
                   else None;
         o_nontrivial := (i_status =? 2)%N |}
  | CClean p dir name g_clean g_mux g_join g_dn g_base g_dir =>
      {| o_corr := (clean p =? g_clean) && (mux_clean p =? g_mux) && (join_path dir name =? g_join) &&
                   (fst (dir_and_name p) =? fst g_dn) && (snd (dir_and_name p) =? snd g_dn) &&
                   (path_base p =? g_base) && (path_dir p =? g_dir);
         (* what cleaning promises, on Go's answers: a cleaned rooted path has no "", "."
            or ".." segment and cleaning is idempotent *)
         o_prop := (if starts_with_slash g_clean
                    then (g_clean =? "/") ||
                         forallb (fun s => negb ((s =? "") || (s =? ".") || (s =? "..")))
                                 (tl (split_slash g_clean))
                    else true) && (clean g_clean =? g_clean);
         o_trig := None;
         o_nontrivial := negb (g_clean =? p) |}
  end.

Definition summarize_cases (l : list case) : summary := summarize check l.
