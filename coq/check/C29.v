(* Correspondence check for C29.  Three kinds of cases:
   CFix   the store as the harness built it for one of the fixtures (= fx_of id);
   CReq   one S3 request with hostile bucket / key / upload id / copy source / batch keys /
          listing prefix and marker sent
          as a RAW request target through the real gateway router; observed: the
          filer-facing calls (gRPC interceptor + HTTP wrapper in front of the filer's
          ServeMux), every FilerStore call (recording store), the status class, whether
          anything outside the bucket changed, whether foreign content came back;
   CClean one path string through Go's path.Clean / filepath.Join / ServeMux /
          FullPath.DirAndName / filepath.Base / filepath.Dir. *)
From Coq Require Import List NArith Bool String.
From SW Require Export base.Verdict model.S3List model.S3Paths.
Import ListNotations.
Local Open Scope list_scope.
Local Open Scope string_scope.

(* ---- short forms used by the harness printer (string literals parse slowly) ---- *)
Definition J (segs : list string) : string := join_slash segs.
Definition s_ : string := "".
Definition sbuckets : string := "buckets".
Definition sb : string := "b".
Definition sother : string := "other".
Definition sobj : string := "obj".
Definition skeep : string := "keep".
Definition sx : string := "x".
Definition sy : string := "y".
Definition snew : string := "new".
Definition sdd : string := "..".
Definition sd1 : string := ".".
Definition sup : string := ".uploads".
Definition su1 : string := "u1".
Definition su2 : string := "u2".
Definition setc : string := "etc".
Definition ssecret : string := "secret".
Definition sp1 : string := "0001.part".
Definition sp2 : string := "0002.part".
Definition suuid : string := "UUID".
Definition spdd : string := "%2e%2e".
Definition sk : string := "k".

Definition sbb : string := "bb".
Definition snb : string := "nb".
Definition soth : string := "oth".
Definition se : string := "e".
Definition sa : string := "a".
Definition spct2f : string := "%2f".
Definition spdd2 : string := "%252e%252e".
Definition sp62 : string := "%62".

(* the fixtures a request runs against (the harness builds exactly these and proves it
   with a CFix case per fixture in every shard: its snapshot of the store) *)
Definition fx0 : fixture :=
  [ ("/", true);
    ("/buckets", true);
    ("/buckets/b", true);
    ("/buckets/b/.uploads", true);
    ("/buckets/b/.uploads/u1", true);
    ("/buckets/b/.uploads/u1/0001.part", false);
    ("/buckets/b/obj", false);
    ("/buckets/b/x", true);
    ("/buckets/b/x/y", false);
    ("/buckets/other", true);
    ("/buckets/other/.uploads", true);
    ("/buckets/other/.uploads/u2", true);
    ("/buckets/other/.uploads/u2/0001.part", false);
    ("/buckets/other/keep", false);
    ("/buckets/other/obj", false);
    ("/etc", true);
    ("/etc/secret", false) ].

(* the upload id is a file, obj is a directory, x is a file, an empty folder, a bucket
   whose name extends "b", the other bucket has an upload with the same id *)
Definition fx1 : fixture :=
  [ ("/", true);
    ("/buckets", true);
    ("/buckets/b", true);
    ("/buckets/b/.uploads", true);
    ("/buckets/b/.uploads/u1", false);
    ("/buckets/b/e", true);
    ("/buckets/b/obj", true);
    ("/buckets/b/obj/k", false);
    ("/buckets/b/x", false);
    ("/buckets/bb", true);
    ("/buckets/bb/obj", false);
    ("/buckets/other", true);
    ("/buckets/other/.uploads", true);
    ("/buckets/other/.uploads/u1", true);
    ("/buckets/other/.uploads/u1/0001.part", false);
    ("/buckets/other/obj", false);
    ("/etc", true);
    ("/etc/secret", false) ].

(* an empty bucket, a bucket named ".uploads", a bucket named "%62" (which decodes to "b")
   with an upload, entries of the same names at the root *)
Definition fx2 : fixture :=
  [ ("/", true);
    ("/b", true);
    ("/b/obj", false);
    ("/buckets", true);
    ("/buckets/%62", true);
    ("/buckets/%62/.uploads", true);
    ("/buckets/%62/.uploads/u1", true);
    ("/buckets/%62/.uploads/u1/0001.part", false);
    ("/buckets/.uploads", true);
    ("/buckets/.uploads/u1", true);
    ("/buckets/.uploads/u1/0001.part", false);
    ("/buckets/b", true);
    ("/buckets/other", true);
    ("/buckets/other/new", false);
    ("/buckets/other/x", true);
    ("/buckets/other/x/y", false);
    ("/obj", false) ].

Definition fx_of (id : N) : fixture :=
  match id with 0%N => fx0 | 1%N => fx1 | _ => fx2 end.

Inductive sop := SFind | SList | SInsert | SUpdate | SDelete | SDelChildren.

Inductive case :=
| CReq (fxid : N)                         (* the fixture the request ran against: fx_of fxid *)
       (q : req)
       (i_calls : list fcall)             (* filer-facing calls, in arrival order *)
       (i_store : list (sop * string))    (* FilerStore calls *)
       (i_status : N)                     (* 2,3,4,5 = status class; 9 = handler panic *)
       (i_outside_changed : bool)         (* an entry outside /buckets/<bucket> changed (snapshot diff) *)
       (i_leak : bool)                    (* the response carried the content of a file outside /buckets/<bucket> *)
| CFix (fxid : N) (snap : fixture)        (* the store as the harness built it for fixture fxid, without "/" *)
| CClean (p dir name : string)
         (g_clean : string)               (* path.Clean(p) *)
         (g_mux : string)                 (* what the real ServeMux serves / redirects p to *)
         (g_join : string)                (* util.JoinPath(dir, name) *)
         (g_dn : string * string)         (* util.FullPath(p).DirAndName() *)
         (g_base g_dir : string).         (* filepath.Base(p), filepath.Dir(p) *)

Definition meth_eqb (a b : meth) : bool :=
  match a, b with
  | MGet, MGet | MHead, MHead | MPut, MPut | MDelete, MDelete => true
  | _, _ => false
  end.

Definition fcall_eqb (a b : fcall) : bool :=
  match a, b with
  | Http m p, Http m' p' => meth_eqb m m' && (p =? p')
  | GLookup d n, GLookup d' n' => (d =? d') && (n =? n')
  | GList d, GList d' => d =? d'
  | GCreate d n i, GCreate d' n' i' => (d =? d') && (n =? n') && Bool.eqb i i'
  | GUpdate d n, GUpdate d' n' => (d =? d') && (n =? n')
  | GDelete d n r, GDelete d' n' r' => (d =? d') && (n =? n') && Bool.eqb r r'
  | _, _ => false
  end.

(* the purge tail: every call is a candidate, and a purge delete is always directly
   preceded by the lookup of the same (dir, name) (doDeleteEmptyDirectories: exists, then
   delete) *)
Fixpoint purge_tail_ok (cand rest : list fcall) (prev : option fcall) : bool :=
  match rest with
  | [] => true
  | c :: rest' =>
      existsb (fcall_eqb c) cand &&
      match c with
      | GDelete d n _ => match prev with Some (GLookup d' n') => (d =? d') && (n =? n') | _ => false end
      | _ => true
      end && purge_tail_ok cand rest' (Some c)
  end.

(* the implementation's calls = the model's calls, followed (batch delete only) by
   purge calls that all belong to the model's candidate set *)
Fixpoint calls_match (model impl cand : list fcall) : bool :=
  match model, impl with
  | [], rest => purge_tail_ok cand rest None
  | m :: model', i :: impl' => fcall_eqb m i && calls_match model' impl' cand
  | _ :: _, [] => false
  end.

(* listings: the model's heads occur in this order; every call in between or behind is
   a candidate (a directory below a head that the fixture really has, or the bucket check) *)
Fixpoint heads_match (heads impl cand : list fcall) : bool :=
  match impl with
  | [] => match heads with [] => true | _ :: _ => false end
  | c :: impl' =>
      match heads with
      | h :: heads' =>
          if fcall_eqb h c then heads_match heads' impl' cand
          else existsb (fcall_eqb c) cand && heads_match heads impl' cand
      | [] => existsb (fcall_eqb c) cand && heads_match [] impl' cand
      end
  end.

Definition is_list_route (r : route) : bool := match r with RList _ _ _ _ => true | _ => false end.

(* the buckets a request may legitimately touch: its own (by its LITERAL name, also when
   that has a "%"), and the one its copy source names; a request whose bucket name the
   router must refuse ("", ".", "..") may touch nothing *)
Definition allowed (q : req) : list string :=
  if router_refuses (q_bucket q) then []
  else
  q_bucket q ::
  match q_route q with
  | RCopy _ | RCopyPart =>
      let sb := fst (src_bucket_object (dec1 (q_src q))) in
      if bad_bucket sb then [] else [sb]
  | _ => []
  end.

Definition outside_all (al : list string) (p : string) : bool :=
  forallb (fun a => negb (contained a p)) al.

Definition related (a b : string) : bool := inside a b || inside b a.

(* the path a call makes the STORE act on: the filer answers a lookup / delete of "/"
   from its static root entry without a store call *)
Definition store_effective (c : fcall) : option string :=
  match c, effective c with
  | GLookup _ _, Some e | GDelete _ _ _, Some e => if clean e =? "/" then None else Some e
  | _, r => r
  end.

Definition mutating (o : sop) : bool :=
  match o with SInsert | SUpdate | SDelete | SDelChildren => true | SFind | SList => false end.

Fixpoint fixture_eqb (a b : fixture) : bool :=
  match a, b with
  | [], [] => true
  | (p, d) :: a', (p', d') :: b' => (p =? p') && Bool.eqb d d' && fixture_eqb a' b'
  | _, _ => false
  end.

Definition check (c : case) : outcome :=
  match c with
  | CReq fxid q i_calls i_store i_status i_changed i_leak =>
      let fx := fx_of fxid in
      let b := q_bucket q in
      let badb := router_refuses b in
      let m_calls := map snd (calls fx q) in
      let cand := candidates fx q in
      let eff := flat_map (fun c => match c, effective c with
                                    | GCreate _ _ _, Some e => clean e :: map clean (create_parents e)
                                    | _, Some e => [clean e]
                                    | _, None => []
                                    end)
                          (i_calls ++ cand)%list in
      let spaths := map (fun sp => clean (snd sp)) i_store in
      let al := allowed q in
      let m_outside := existsb (outside_all al) (flat_map (fun c => match store_effective c with Some e => [e] | None => [] end) i_calls) in
      (* a store path outside every allowed bucket directory; the filer's parent walk of a
         create (and its path resolution) looks up the ancestors of the bucket directory:
         a Find of a proper ancestor that no call addresses itself is not an access *)
      let call_eff := flat_map (fun c => match effective c with Some e => [clean e] | None => [] end) i_calls in
      let above_bucket := fun p => (p =? "/") || existsb (fun a => negb (p =? clean (bucket_dir a)) && inside p (clean (bucket_dir a))) al in
      let i_outside := existsb (fun sp => let p := clean (snd sp) in
                                          outside_all al p &&
                                          negb (match fst sp with SFind => true | _ => false end &&
                                                above_bucket p && negb (existsb (String.eqb p) call_eff))) i_store in
      (* an object route addressed the multipart area: a store path inside some
         <bucket>/.uploads that is not merely swept up by a recursive delete that started
         above the area *)
      let in_up := fun p => existsb (fun a => inside (clean (uploads_dir a)) p) al in
      let del_eff := flat_map (fun c => match c, effective c with
                                        | Http MDelete _, Some e | GDelete _ _ true, Some e => [clean e]
                                        | _, _ => []
                                        end) i_calls in
      let obj_uploads := object_route (q_route q) &&
                         existsb (fun p => in_up p && negb (existsb (fun e => inside e p && negb (in_up e)) del_eff)) spaths in
      (* the model's view of the same: a call of `calls` in the area (then it must be seen),
         or a purge candidate in it (then it may be seen) *)
      let m_up_calls := negb (uploads_hidden fx q) in
      let m_up_cand := object_route (q_route q) && existsb (fun c => call_in_uploads (b, c)) cand in
      (* the two observables the harness computes itself, cross-checked against the store
         log: a change outside the bucket needs a mutating store call outside it, foreign
         content in the answer needs a read outside it *)
      let own := fun p => negb badb && contained b p in
      let chg_explained := negb i_changed || existsb (fun sp => mutating (fst sp) && negb (own (clean (snd sp)))) i_store in
      let leak_explained := negb i_leak || existsb (fun sp => negb (mutating (fst sp)) && negb (own (clean (snd sp)))) i_store in
      let need0 := i_outside || i_changed || i_leak in
      let need1 := obj_uploads in
      {| o_corr :=
           (if is_list_route (q_route q) then heads_match m_calls i_calls cand
            else calls_match m_calls i_calls cand) &&
           (* every store path is explained by a call: it is the call's effective path,
              one of its ancestors (parent lookups / creation) or descendants (recursive delete) *)
           forallb (fun p => existsb (related p) eff) spaths &&
           (* every effective path of a call the model predicts is really touched *)
           forallb (fun c => match effective c with
                             | Some e => (clean e =? "/") || existsb (String.eqb (clean e)) spaths
                             | None => true
                             end) m_calls &&
           Bool.eqb m_outside i_outside &&
           (* (a "%" bucket: the HTTP side acts under the DECODED name, which a copy source may
              name as well, so the attribution of an upload area to a bucket is not compared) *)
           (odd_bucket b || Bool.eqb (m_up_calls || (m_up_cand && obj_uploads)) obj_uploads) &&
           chg_explained && leak_explained;
         o_prop := negb i_outside && negb i_changed && negb i_leak && negb obj_uploads;
         (* each failing part must lie in the trigger set of ITS finding: an escape needs a
            climbing request, a touched upload area needs a walk through ".uploads"; when
            both fail, both triggers are required and finding 0 is reported; what these two
            do not explain is finding 2's when the bucket name has a "%" and the route puts
            it into a filer URL (odd_request; the gRPC-only routes use the literal name and
            must stay inside /buckets/<literal name>) *)
         o_trig := if (negb need0 || req_climbs q) && (negb need1 || req_enters_uploads q) && (need0 || need1)
                   then (if need0 then Some 0%N else Some 1%N)
                   else if odd_request q then Some 2%N else None;
         o_nontrivial := (i_status =? 2)%N |}
  | CFix fxid snap =>
      {| o_corr := fixture_eqb (tl (fx_of fxid)) snap;
         o_prop := fx_plain snap;
         o_trig := None;
         o_nontrivial := true |}
  | CClean p dir name g_clean g_mux g_join g_dn g_base g_dir =>
      {| o_corr := (clean p =? g_clean) && (mux_clean p =? g_mux) && (join_path dir name =? g_join) &&
                   (fst (dir_and_name p) =? fst g_dn) && (snd (dir_and_name p) =? snd g_dn) &&
                   (path_base p =? g_base) && (path_dir p =? g_dir);
         (* what cleaning promises, on Go's answers: a cleaned rooted path has no "", "."
            or ".." segment and cleaning is idempotent *)
         o_prop := (if starts_with_slash g_clean
                    then (g_clean =? "/") ||
                         forallb (fun s => negb ((s =? "") || (s =? ".") || (s =? "..")))
                                 (tl (split_slash g_clean))
                    else true) && (clean g_clean =? g_clean);
         o_trig := None;
         o_nontrivial := negb (g_clean =? p) |}
  end.

Definition summarize_cases (l : list case) : summary := summarize check l.
