(* Correspondence check for C35: histories of location updates and lookups on a
   real wdclient.MasterClient (its embedded vidMap).  Updates arrive either
   directly (addLocation/deleteLocation through the verif hook) or as
   VolumeLocation messages over a real in-process gRPC KeepConnected stream
   (including leader hints, disconnects, masters that cannot be reached).  Readers
   take slices with GetLocations, HOLD them across later updates and re-read them.
   Concurrent cases add reader GOROUTINES that run while the updates are applied;
   each of their answers carries the window [lo, hi] of update indices it may
   belong to and is judged by [window_ok].

   Locations come from a 6 urls x 3 data-center universe written as [K Ux Dy]
   (parsing string literals is slow); Dc0 is the empty data center. *)
From Coq Require Import String List NArith ZArith Bool.
From SW Require Export base.Verdict model.VidMap.
Import ListNotations.
Local Open Scope string_scope.
Local Open Scope list_scope.

Inductive U := U1 | U2 | U3 | U4 | U5 | U6.
Inductive D := Dc0 | Dc1 | Dc2.
Definition ustr (u : U) : string :=
  match u with U1 => "u1:8080" | U2 => "u2:8080" | U3 => "u3:8080" | U4 => "u4:8080"
             | U5 => "u5:8080" | U6 => "u6:8080" end.
Definition dstr (d : D) : string := match d with Dc0 => "" | Dc1 => "dc1" | Dc2 => "dc2" end.
(* the PublicUrl records which notification created the entry *)
Definition K (u : U) (d : D) : loc :=
  {| url := ustr u; public_url := "pub-" ++ ustr u ++ "-" ++ dstr d; dc := dstr d |}.
Definition all_urls : list string := map ustr [U1; U2; U3; U4; U5; U6].

(* message: leader hint present?, location, NewVids, DeletedVids *)
Definition G (leader : bool) (l : loc) (nw dl : list N) : msg :=
  {| m_leader := if leader then "leader" else ""; m_loc := l; m_new := nw; m_del := dl |}.

(* one-token names for the harness (Coq parses big terms slowly): LuD = K Uu DcD *)
Definition L10 := K U1 Dc0. Definition L11 := K U1 Dc1. Definition L12 := K U1 Dc2.
Definition L20 := K U2 Dc0. Definition L21 := K U2 Dc1. Definition L22 := K U2 Dc2.
Definition L30 := K U3 Dc0. Definition L31 := K U3 Dc1. Definition L32 := K U3 Dc2.
Definition L40 := K U4 Dc0. Definition L41 := K U4 Dc1. Definition L42 := K U4 Dc2.
Definition L50 := K U5 Dc0. Definition L51 := K U5 Dc1. Definition L52 := K U5 Dc2.
Definition L60 := K U6 Dc0. Definition L61 := K U6 Dc1. Definition L62 := K U6 Dc2.
Definition v1 : N := 1%N. Definition v2 : N := 2%N. Definition v3 : N := 3%N. Definition v9 : N := 9%N.
Definition c1 : nat := 1. Definition c2 : nat := 2. Definition c4 : nat := 4. Definition c8 : nat := 8.

(* GetLocations of one volume: not found, or content and capacity of the slice;
   [Same] in an OSt abbreviates "exactly what the previous OSt showed for this volume" *)
Inductive vst := NF | Fd (ls : list loc) (cap : nat) | Same.

Inductive cop :=
| CEv (e : ev)                (* one addLocation / deleteLocation call *)
| CMsg (g : msg)              (* one VolumeLocation message over the stream *)
| CDisc                       (* a stream ends or a master cannot be reached: tryAllMasters resets the cache *)
| CLookupUrl (s : string)     (* LookupVolumeServerUrl *)
| CLookupFid (s : string)     (* LookupFileId *)
| CGetVidLocs (s : string)    (* GetVidLocations *)
| CSnap (v : N)               (* GetLocations(v); the returned slice is kept *)
| CReread (k : nat).          (* read the k-th kept slice again *)

Inductive cobs :=
| ONone                                   (* update not observed (stream mode, before the sync message) *)
| OSt (s1 s2 s3 : vst) (d : D)            (* volumes 1,2,3 and vidMap.DataCenter after the update *)
| OUrls (r : res (list string))
| OLocs (r : res (list loc))
| OSnap (s : vst)
| ORead (ls : list loc).

Definition A (v : N) (l : loc) : cop := CEv (EvAdd v l).
Definition Dl (v : N) (l : loc) : cop := CEv (EvDel v l).

(* one answer a reader goroutine got while updates were running *)
Inductive rq :=
| QGet (v : N) (s : vst)                       (* GetLocations(v): content and capacity *)
| QUrl (s : string) (r : res (list string))    (* LookupVolumeServerUrl *)
| QLocs (s : string) (r : res (list loc))      (* GetVidLocations *)
| QHeld (taken now : list loc).                (* a slice kept by the goroutine: what it showed when taken / shows now *)
(* [RO lo hi q]: when the call began, lo atomic updates had completed; when it
   returned, hi had begun (lo <= hi; counted in events, see [events_of_op]) *)
Inductive robs := RO (lo hi : nat) (q : rq).

Record case := { client_dc : D; ops : list cop; impl : list cobs; conc : list robs }.

Definition uvids : list N := [1; 2; 3]%N.

(* ---- equality ---- *)
Definition loc_eqb (a b : loc) : bool :=
  String.eqb (url a) (url b) && String.eqb (public_url a) (public_url b) && String.eqb (dc a) (dc b).
Fixpoint list_eqb {A} (f : A -> A -> bool) (l1 l2 : list A) : bool :=
  match l1, l2 with
  | [], [] => true
  | x :: l1', y :: l2' => f x y && list_eqb f l1' l2'
  | _, _ => false
  end.
Definition err_eqb (a b : err) : bool :=
  match a, b with
  | ErrParse, ErrParse | ErrNotFound, ErrNotFound | ErrInvalidFileId, ErrInvalidFileId => true
  | _, _ => false
  end.
Definition res_eqb {A} (f : A -> A -> bool) (a b : res A) : bool :=
  match a, b with
  | Ok x, Ok y => f x y
  | Err x, Err y => err_eqb x y
  | _, _ => false
  end.
Definition vst_eqb (a b : vst) : bool :=
  match a, b with
  | NF, NF => true
  | Fd l1 k1, Fd l2 k2 => list_eqb loc_eqb l1 l2 && Nat.eqb k1 k2
  | _, _ => false      (* an unresolved [Same] equals nothing *)
  end.

(* replace [Same] by the previous observation of the same volume *)
Fixpoint resolve (prev cur : list vst) : list vst :=
  match prev, cur with
  | p :: prev', Same :: cur' => p :: resolve prev' cur'
  | _ :: prev', c :: cur' => c :: resolve prev' cur'
  | [], cur' => cur'
  | _, [] => []
  end.

(* ---- the model's observables ---- *)
Definition model_vst (m : vmap) (v : N) : vst :=
  match get_locations m v with
  | None => NF
  | Some s => Fd (cells (heap m) s) (s_cap s)
  end.

(* ---- the property's oracle, from the history of updates alone ---- *)
(* the locations currently added for v *)
Definition live_locs (v : N) (hist : list ev) : list loc :=
  flat_map (fun u => match live v u hist with Some l => [l] | None => [] end) all_urls.

Definition mem_loc (l : loc) (ls : list loc) : bool := existsb (loc_eqb l) ls.
Fixpoint nodup_urls (ls : list loc) : bool :=
  match ls with
  | [] => true
  | l :: ls' => negb (has_url (url l) ls') && nodup_urls ls'
  end.
(* exactly the live locations, each once — and at least one: a volume without a
   live location must be answered not-found, never "found, no locations" *)
Definition exact_set (v : N) (hist : list ev) (ls : list loc) : bool :=
  let lv := live_locs v hist in
  match ls with [] => false | _ =>
  nodup_urls ls && Nat.eqb (length ls) (length lv) && forallb (fun l => mem_loc l ls) lv end.
Definition state_ok (v : N) (hist : list ev) (s : vst) : bool :=
  match s with
  | NF => match live_locs v hist with [] => true | _ => false end
  | Fd ls _ => exact_set v hist ls
  | Same => false
  end.

(* same data center first: no own-DC location after a foreign one *)
Fixpoint dc_first (d : string) (ls : list loc) (seen_other : bool) : bool :=
  match ls with
  | [] => true
  | l :: ls' => if same_dc d l then negb seen_other && dc_first d ls' seen_other
                else dc_first d ls' true
  end.

(* the live location a url string names *)
Definition loc_of_url (v : N) (hist : list ev) (u : string) : option loc := live v u hist.
Fixpoint opt_all {A} (l : list (option A)) : option (list A) :=
  match l with
  | [] => Some []
  | Some x :: l' => option_map (cons x) (opt_all l')
  | None :: _ => None
  end.


(* verdict of one property check (C35 has no known findings left: the five
   confirmed defects were repaired in the tree) *)
Inductive pv := Pass | Fail.

(* lookup by volume-id string: [Some us] = the urls returned, [None] = an error.
   A string that does not spell a uint32 volume id must not be answered. *)
Definition urls_ok (d : string) (hist : list ev) (s : string) (out : option (list string)) : pv :=
  match parse_uint32 s with
  | None => match out with None => Pass | Some _ => Fail end
  | Some v =>
      match out with
      | None => match live_locs v hist with [] => Pass | _ => Fail end
      | Some us =>
          match opt_all (map (loc_of_url v hist) us) with
          | None => Fail                                   (* a url that is not currently added *)
          | Some ls => if exact_set v hist ls && dc_first d ls false then Pass else Fail
          end
      end
  end.

Definition fid_prefix : string := "http://".
(* undo "http://" ++ u ++ "/" ++ fid *)
Definition strip_fid (fid r : string) : option string :=
  let n := String.length r in
  let k := String.length fid_prefix in
  let t := S (String.length fid) in
  if Nat.leb (k + t) n then
    if String.eqb (substring 0 k r) fid_prefix && String.eqb (substring (n - t) t r) ("/" ++ fid)
    then Some (substring k (n - t - k) r) else None
  else None.

Definition fid_ok (d : string) (hist : list ev) (fid : string) (out : option (list string)) : pv :=
  if Nat.eqb (count_commas fid) 1 then
    match out with
    | None => urls_ok d hist (before_comma fid) None
    | Some rs => match opt_all (map (strip_fid fid) rs) with
                 | Some us => urls_ok d hist (before_comma fid) (Some us)
                 | None => Fail
                 end
    end
  else match out with None => Pass | Some _ => Fail end.

Definition locs_ok (hist : list ev) (s : string) (out : option (list loc)) : pv :=
  match parse_uint32 s with
  | None => match out with None => Pass | Some _ => Fail end
  | Some v =>
      match out with
      | None => match live_locs v hist with [] => Pass | _ => Fail end
      | Some ls => if exact_set v hist ls then Pass else Fail
      end
  end.

Definition res_opt {A} (r : res A) : option A := match r with Ok a => Some a | Err _ => None end.

(* ---- running a case ---- *)
Record st := {
  s_m : vmap;
  s_hist : list ev;                       (* every atomic update so far *)
  s_snaps : list (N * slice * list loc);  (* kept slices: volume, header, the list the IMPLEMENTATION showed when it was taken *)
  s_corr : bool;
  s_pv : list pv;
  s_nontriv : bool;
  s_last : list vst }.                    (* the previous OSt, to expand [Same] *)

Definition pv_of_bool (b : bool) : pv := if b then Pass else Fail.
Definition nonempty (s : vst) : bool := match s with Fd (_ :: _) _ => true | _ => false end.

Definition update (x : st) (es : list ev) (ob : cobs) : st :=
  let m' := run (s_m x) es in
  let hist' := s_hist x ++ es in
  match ob with
  | ONone =>
      {| s_m := m'; s_hist := hist'; s_snaps := s_snaps x;
         s_corr := s_corr x; s_pv := s_pv x; s_nontriv := s_nontriv x; s_last := s_last x |}
  | OSt a b c d =>
      let sts := resolve (s_last x) [a; b; c] in
      {| s_m := m'; s_hist := hist'; s_snaps := s_snaps x;
         s_corr := s_corr x && list_eqb vst_eqb (map (model_vst m') uvids) sts
                           && String.eqb (data_center m') (dstr d);
         s_pv := s_pv x ++ map (fun vs => pv_of_bool (state_ok (fst vs) hist' (snd vs))) (combine uvids sts);
         s_nontriv := s_nontriv x || existsb nonempty sts; s_last := sts |}
  | _ =>
      {| s_m := m'; s_hist := hist'; s_snaps := s_snaps x;
         s_corr := false; s_pv := s_pv x; s_nontriv := s_nontriv x; s_last := s_last x |}
  end.

Definition observe (x : st) (corr : bool) (p : pv) : st :=
  {| s_m := s_m x; s_hist := s_hist x; s_snaps := s_snaps x;
     s_corr := s_corr x && corr; s_pv := s_pv x ++ [p]; s_nontriv := s_nontriv x; s_last := s_last x |}.

Definition step1 (d : string) (x : st) (o : cop) (ob : cobs) : st :=
  match o with
  | CEv e => update x [e] ob
  | CMsg g => update x (events_of_op (Msg g)) ob
  | CDisc => update x (events_of_op Disconnect) ob
  | CLookupUrl s =>
      match ob with
      | OUrls r => observe x (res_eqb (list_eqb String.eqb) (lookup_volume_server_url (s_m x) s) r)
                             (urls_ok d (s_hist x) s (res_opt r))
      | _ => observe x false Pass
      end
  | CLookupFid s =>
      match ob with
      | OUrls r => observe x (res_eqb (list_eqb String.eqb) (lookup_file_id (s_m x) s) r)
                             (fid_ok d (s_hist x) s (res_opt r))
      | _ => observe x false Pass
      end
  | CGetVidLocs s =>
      match ob with
      | OLocs r =>
          let mr := match get_vid_locations (s_m x) s with
                    | Ok hd => Ok (cells (heap (s_m x)) hd)
                    | Err e => Err e
                    end in
          observe x (res_eqb (list_eqb loc_eqb) mr r) (locs_ok (s_hist x) s (res_opt r))
      | _ => observe x false Pass
      end
  | CSnap v =>
      match ob with
      | OSnap s =>
          let x' := observe x (vst_eqb (model_vst (s_m x) v) s) (pv_of_bool (state_ok v (s_hist x) s)) in
          {| s_m := s_m x'; s_hist := s_hist x';
             (* the harness keeps a slice iff the implementation said "found" *)
             s_snaps := match s with
                        | Fd ls _ => s_snaps x ++ [(v, match get_locations (s_m x) v with
                                                       | Some hd => hd
                                                       | None => {| s_arr := 0; s_len := 0; s_cap := 0 |}
                                                       end, ls)]
                        | _ => s_snaps x
                        end;
             s_corr := s_corr x'; s_pv := s_pv x'; s_nontriv := s_nontriv x'; s_last := s_last x' |}
      | _ => observe x false Pass
      end
  | CReread k =>
      match ob, nth_error (s_snaps x) k with
      | ORead ls, Some (v, hd, taken) =>
          (* the held slice must still show exactly what it showed when it was taken *)
          observe x (list_eqb loc_eqb (cells (heap (s_m x)) hd) ls)
                    (pv_of_bool (list_eqb loc_eqb taken ls))
      | _, _ => observe x false Pass
      end
  end.

Fixpoint steps (d : string) (x : st) (os : list cop) (obs_ : list cobs) : st :=
  match os, obs_ with
  | [], [] => x
  | o :: os', ob :: obs' => steps d (step1 d x o ob) os' obs'
  | _, _ => observe x false Pass
  end.

Definition start (d : string) : st :=
  {| s_m := init d; s_hist := []; s_snaps := []; s_corr := true; s_pv := [];
     s_nontriv := false; s_last := [NF; NF; NF] |}.

Definition is_pass (p : pv) : bool := match p with Pass => true | _ => false end.

(* ---- answers of concurrent readers ---- *)
(* the states after 0, 1, 2, ... of the events *)
Fixpoint states_from (m : vmap) (evs : list ev) : list vmap :=
  m :: match evs with [] => [] | e :: evs' => states_from (apply m e) evs' end.

(* the model's answer in state m equals the observed one *)
Definition rq_model (m : vmap) (q : rq) : bool :=
  match q with
  | QGet v s => vst_eqb (model_vst m v) s
  | QUrl s r => res_eqb (list_eqb String.eqb) (lookup_volume_server_url m s) r
  | QLocs s r => res_eqb (list_eqb loc_eqb)
                   (match get_vid_locations m s with Ok hd => Ok (cells (heap m) hd) | Err e => Err e end) r
  | QHeld a b => list_eqb loc_eqb a b          (* snapshot_stable: whatever the state *)
  end.
(* the property's oracle on the observed answer against the history prefix *)
Definition rq_prop (d : string) (hist : list ev) (q : rq) : bool :=
  match q with
  | QGet v s => state_ok v hist s
  | QUrl s r => is_pass (urls_ok d hist s (res_opt r))
  | QLocs s r => is_pass (locs_ok hist s (res_opt r))
  | QHeld a b => list_eqb loc_eqb a b
  end.

Definition robs_corr (sts : list vmap) (n : nat) (o : robs) : bool :=
  match o with RO lo hi q =>
    Nat.leb lo hi && Nat.leb hi n &&
    window_ok (fun j => match nth_error sts j with Some m => rq_model m q | None => false end) lo hi
  end.
Definition robs_prop (d : string) (hist : list ev) (o : robs) : bool :=
  match o with RO lo hi q => window_ok (fun j => rq_prop d (firstn j hist) q) lo hi end.

Definition check (c : case) : outcome :=
  let d := dstr (client_dc c) in
  let x := steps d (start d) (ops c) (impl c) in
  let hist := s_hist x in
  let sts := states_from (init d) hist in
  {| o_corr := s_corr x && forallb (robs_corr sts (length hist)) (conc c);
     o_prop := forallb is_pass (s_pv x) && forallb (robs_prop d hist) (conc c);
     o_trig := None;
     o_nontrivial := s_nontriv x |}.

Definition summarize_cases (l : list case) : summary := summarize check l.
