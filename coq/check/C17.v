(* Correspondence check for C17: the real NonOverlappingVisibleIntervals,
   ViewFromChunks, ChunkReadAt.ReadAt, CompactFileChunks and doMaybeManifestize
   (with the real mergeIntoManifest) on a generated chunk list, against model/Chunks.v;
   the property oracle is the last-writer-wins reference [winner] over the
   generator's own list of leaf data chunks, applied to the implementation's outputs. *)
From Coq Require Import List NArith ZArith Bool.
From SW Require Export base.Verdict model.Chunks model.ChunksSeq.
Import ListNotations.
Local Open Scope N_scope.

Record view_case := W { vw_off : N; vw_size : N; vw_views : list chunk_view }.
Record read_case := R {
  rd_off : N;
  rd_len : N; rd_fill : N;   (* the caller's buffer before the call: rd_len cells pre-dirtied with rd_fill *)
  rd_out : list N;       (* ... after the call *)
  rd_n : N;
  rd_eof : bool          (* err == io.EOF (otherwise nil) *)
}.
Definition rd_buf (rc : read_case) : list N := repeat (rd_fill rc) (N.to_nat (rd_len rc)).
(* StreamContent(chunks, st_off, st_size) wrote st_out (and returned nil) *)
Record stream_case := St { st_off : N; st_size : N; st_out : list N }.

(* one ChunkStreamReader (NewChunkStreamReaderFromFiler) and the calls made on it, in order *)
Inductive csr_op := OpRead (n : nat) | OpSeek (off : Z) (whence : N).
Inductive csr_obs := ObsRead (out : list N) (eof : bool) | ObsSeek (pos : Z) (err : bool) | ObsPanic.
Record csr_case := Cs { cq_ops : list csr_op; cq_obs : list csr_obs }.

(* one ChunkReadAt (over the views of the whole file, with its own chunk cache: sq_memo = it keeps what
   SetChunk gives it, sq_slices = it answers GetChunkSlice for what it holds) and the ReadAt calls made on
   it, in order; during call i the fetches (volume lookup / HTTP download) of the file ids so_failing fail *)
Record sq_op := SqOp { so_close : bool; so_failing : list N; so_off : N; so_len : N; so_fill : N }.
Record sq_ob := SqObs {
  sb_out : list N;       (* the caller's buffer after the call *)
  sb_n : N;
  sb_eof : bool;         (* err == io.EOF *)
  sb_err : N             (* 0: nil or io.EOF; 1: another error; 2: panic *)
}.
Record seq_case := Sq { sq_memo : bool; sq_slices : bool; sq_ops : list sq_op; sq_obs : list sq_ob }.
Definition so_buf (o : sq_op) : list N := repeat (so_fill o) (N.to_nat (so_len o)).

Record case := {
  k_ms : mstore;                  (* content of the manifest chunks of the input *)
  k_chunks : list chunk;          (* entry.Chunks *)
  k_flat : list chunk;            (* generator ground truth: every data chunk at the leaves *)
  k_fuel : nat;                   (* manifest nesting depth + 1 *)
  k_store : list (N * list N);    (* data chunk contents by file key *)
  k_file_size : N;
  k_factor : nat; k_next : N; k_mt : N;   (* mergeFactor, saveFunc's first key, saveFunc's Mtime *)
  (* implementation observables *)
  i_vis : list visible_interval;  (* NonOverlappingVisibleIntervals(chunks, 0, MaxInt64) *)
  i_err : bool;
  i_views : list view_case;       (* ViewFromChunks(chunks, off, size) *)
  i_reads : list read_case;       (* NewChunkReaderAtFromClient(ViewFromChunks(chunks,0,MaxInt64), fileSize).ReadAt *)
  i_streams : list stream_case;   (* StreamContent(chunks, off, size) into a bytes.Buffer *)
  i_xviews : list view_case;      (* ViewFromChunks on windows whose offset+size exceeds MaxInt64 *)
  i_readall : list N;             (* ReadAll(masterClient, chunks) *)
  i_csr : list csr_case;          (* ChunkStreamReader call sequences *)
  i_seqs : list seq_case;         (* ReadAt call sequences with failing chunk fetches *)
  i_compacted : list chunk;       (* CompactFileChunks(nonManifestChunks of chunks) *)
  i_garbage : list chunk;
  i_call_keep : list chunk;       (* CompactFileChunks(chunks), manifest chunks included *)
  i_call_garb : list chunk;
  i_man_chunks : list chunk;      (* doMaybeManifestize(chunks, factor, mergeIntoManifest) *)
  i_man_saved : mstore;           (* what saveFunc was given, decoded *)
  i_man_vis : list visible_interval  (* NonOverlappingVisibleIntervals of the manifestized list *)
}.

(* ---------- equality tests ---------- *)
Fixpoint all2 {A} (f : A -> A -> bool) (l1 l2 : list A) : bool :=
  match l1, l2 with
  | [], [] => true
  | x :: l1', y :: l2' => f x y && all2 f l1' l2'
  | _, _ => false
  end.
Fixpoint all2h {A B} (f : A -> B -> bool) (l1 : list A) (l2 : list B) : bool :=
  match l1, l2 with
  | [], [] => true
  | x :: l1', y :: l2' => f x y && all2h f l1' l2'
  | _, _ => false
  end.
Definition chunk_eqb (a b : chunk) : bool :=
  (c_fid a =? c_fid b) && (c_off a =? c_off b) && (c_size a =? c_size b) &&
  (c_mtime a =? c_mtime b) && Bool.eqb (c_manifest a) (c_manifest b).
Definition vis_eqb (a b : visible_interval) : bool :=
  (v_start a =? v_start b) && (v_stop a =? v_stop b) && (v_mtime a =? v_mtime b) &&
  (v_fid a =? v_fid b) && (v_coff a =? v_coff b) && (v_csize a =? v_csize b).
Definition view_eqb (a b : chunk_view) : bool :=
  (cv_fid a =? cv_fid b) && (cv_off a =? cv_off b) && (cv_size a =? cv_size b) &&
  (cv_logic a =? cv_logic b) && (cv_csize a =? cv_csize b).
Definition ms_eqb (a b : mstore) : bool :=
  all2 (fun x y => (fst x =? fst y) && all2 chunk_eqb (snd x) (snd y)) a b.
Definition osrc_eqb (a b : option (N * N)) : bool :=
  match a, b with
  | Some (f, i), Some (g, j) => (f =? g) && (i =? j)
  | None, None => true
  | _, _ => false
  end.

Definition source_of (store : list (N * list N)) : chunk_source :=
  fun f => match find (fun e => fst e =? f) store with Some e => snd e | None => [] end.

Definition positions (n : N) : list N := map N.of_nat (seq 0 (N.to_nat n)).

(* ---------- ChunkStreamReader: the model run and the ideal reader ---------- *)
Definition obs_eqb (a b : csr_obs) : bool :=
  match a, b with
  | ObsRead o e, ObsRead o' e' => all2 N.eqb o o' && Bool.eqb e e'
  | ObsSeek p e, ObsSeek p' e' => (p =? p')%Z && Bool.eqb e e'
  | ObsPanic, ObsPanic => true
  | _, _ => false
  end.
(* the harness stops a sequence at the first panic *)
Fixpoint csr_model (src : chunk_source) (views : list chunk_view) (ops : list csr_op) (s : csr) : list csr_obs :=
  match ops with
  | [] => []
  | OpRead n :: r => match csr_read src views s n with
                     | CsrOk o e s' => ObsRead o e :: csr_model src views r s'
                     | CsrPanic => [ObsPanic]
                     end
  | OpSeek off wh :: r => let '(pos, err, s') := csr_seek src views s off wh in
                          ObsSeek pos err :: csr_model src views r s'
  end.
(* an io.ReadSeeker over [content]: Read returns the next bytes and io.EOF when fewer than asked are
   left; Seek moves the position and fails beyond the end *)
Definition seek_target (total pos off : Z) (wh : N) : Z :=
  match wh with 0 => off | 1 => (pos + off)%Z | _ => (total + off)%Z end.
Fixpoint csr_ideal (content : list N) (ops : list csr_op) (pos : Z) : list csr_obs :=
  match ops with
  | [] => []
  | OpRead n :: r =>
      let out := firstn n (skipn (Z.to_nat pos) content) in
      ObsRead out (Nat.ltb (length out) n) :: csr_ideal content r (pos + Z.of_nat (length out))%Z
  | OpSeek off wh :: r =>
      let t := seek_target (Z.of_nat (length content)) pos off wh in
      ObsSeek t (Z.of_nat (length content) <? t)%Z :: csr_ideal content r t
  end.
(* finding 1: the sequence seeks to the end of the content or beyond *)
Fixpoint csr_seeks_end (total : Z) (ops : list csr_op) (pos : Z) : bool :=
  match ops with
  | [] => false
  | OpRead n :: r => csr_seeks_end total r (Z.min total (pos + Z.of_nat n))
  | OpSeek off wh :: r => let t := seek_target total pos off wh in (total <=? t)%Z || csr_seeks_end total r t
  end.

(* ---------- ReadAt call sequences: the state-machine model ---------- *)
Definition seq_model (src : chunk_source) (views : list chunk_view) (fs : N) (q : seq_case) : list ra_res :=
  ra_run src (sq_memo q) (sq_slices q) views fs
         (map (fun o => RaOp (so_close o) (so_failing o) (so_buf o) (so_off o)) (sq_ops q)) ra_new.
Definition seq_obs_eqb (r : ra_res) (b : sq_ob) : bool :=
  all2 N.eqb (rs_buf r) (sb_out b) && (rs_n r =? sb_n b) && Bool.eqb (rs_eof r) (sb_eof b) &&
  (sb_err b =? (if rs_err r then 1 else 0)).

(* ---------- model side ---------- *)
Definition data_chunks (l : list chunk) : list chunk := filter (fun c => negb (c_manifest c)) l.

Definition corr (c : case) : bool :=
  let '(vis, err) := non_overlapping_visible_intervals (k_fuel c) (k_ms c) (k_chunks c) 0 max_int64 in
  all2 vis_eqb vis (i_vis c) && Bool.eqb err (i_err c) &&
  (if i_err c then true else
   let full := view_from_visibles vis 0 max_int64 in
   let src := source_of (k_store c) in
   forallb (fun vc => all2 view_eqb (view_from_chunks_w (k_fuel c) (k_ms c) (k_chunks c) (vw_off vc) (vw_size vc))
                           (vw_views vc)) (i_views c ++ i_xviews c) &&
   all2 N.eqb (read_all src (k_fuel c) (k_ms c) (k_chunks c)) (i_readall c) &&
   forallb (fun q => all2 obs_eqb (csr_model src full (cq_ops q) csr_new) (cq_obs q)) (i_csr c) &&
   forallb (fun q => all2h seq_obs_eqb (seq_model src full (k_file_size c) q) (sq_obs q)) (i_seqs c) &&
   (let '(keep, garb) := compact_file_chunks (k_fuel c) (k_ms c) (k_chunks c) in
    all2 chunk_eqb keep (i_call_keep c) && all2 chunk_eqb garb (i_call_garb c)) &&
   forallb (fun rc => let r := read_at src full (k_file_size c) (rd_buf rc) (rd_off rc) in
                      all2 N.eqb (rr_buf r) (rd_out rc) && (rr_n r =? rd_n rc) && Bool.eqb (rr_eof r) (rd_eof rc))
           (i_reads c) &&
   forallb (fun sc => all2 N.eqb (stream_content_w src (k_fuel c) (k_ms c) (k_chunks c) (st_off sc) (st_size sc))
                           (st_out sc)) (i_streams c) &&
   (let '(keep, garb) := compact_file_chunks 1 [] (data_chunks (k_chunks c)) in
    all2 chunk_eqb keep (i_compacted c) && all2 chunk_eqb garb (i_garbage c)) &&
   (let '(mc, saved) := maybe_manifestize (k_factor c) (k_next c) (k_mt c) (k_chunks c) in
    all2 chunk_eqb mc (i_man_chunks c) && ms_eqb saved (i_man_saved c) &&
    (let '(mvis, merr) := non_overlapping_visible_intervals (S (k_fuel c)) (saved ++ k_ms c) mc 0 max_int64 in
     all2 vis_eqb mvis (i_man_vis c) && negb merr))).

(* ---------- property oracle on the implementation's observables ---------- *)
Fixpoint vis_sorted (prev : N) (vs : list visible_interval) : bool :=
  match vs with
  | [] => true
  | v :: r => (prev <=? v_start v) && (v_start v <? v_stop v) && vis_sorted (v_stop v) r
  end.
Fixpoint views_sorted (prev : N) (ws : list chunk_view) : bool :=
  match ws with
  | [] => true
  | w :: r => (prev <=? cv_logic w) && (0 <? cv_size w) && views_sorted (cv_logic w + cv_size w) r
  end.

Definition in_chunks (c : chunk) (l : list chunk) : bool := existsb (chunk_eqb c) l.

(* everything except the two calls with a known finding *)
Definition prop_base (c : case) : bool :=
  if i_err c then true else
  let flat := k_flat c in
  let fs := k_file_size c in
  let ps := positions (fs + 2) in
  let src := source_of (k_store c) in
  (* visible intervals: sorted, disjoint, non-empty; lookup = last writer *)
  vis_sorted 0 (i_vis c) &&
  forallb (fun p => osrc_eqb (src_of_visibles (i_vis c) p) (overlay_src flat p)) ps &&
  (* views tile exactly the covered bytes of the window (windows beyond MaxInt64 included) *)
  forallb (fun vc =>
    views_sorted 0 (vw_views vc) &&
    forallb (fun p => osrc_eqb (src_of_views (vw_views vc) p)
                        (if (vw_off vc <=? p) && (p <? vw_off vc + vw_size vc) then overlay_src flat p else None)) ps)
    (i_views c ++ i_xviews c) &&
  (* reads: bytes = overlay, zeros in holes up to the file size, nothing else touched *)
  forallb (fun rc =>
    let len := N.of_nat (length (rd_buf rc)) in
    let n := N.min len (fs - rd_off rc) in
    (rd_n rc =? n) && Nat.eqb (length (rd_out rc)) (length (rd_buf rc)) &&
    Bool.eqb (rd_eof rc) (fs <=? rd_off rc + len) &&
    forallb (fun i => nth (N.to_nat i) (rd_out rc) 0 =?
                      (if i <? n then overlay src flat (rd_off rc + i) else nth (N.to_nat i) (rd_buf rc) 0))
            (positions len))
    (i_reads c) &&
  (* call sequences on one reader with failing fetches: a call that returns no fetch error delivers
     exactly what a fresh failure-free reader delivers (n, overlay bytes with zeros in holes, EOF,
     nothing else touched) whatever happened in the calls before it; a fetch error is returned only by
     a call during which some fetch was made to fail (so a retry without failures succeeds), and then
     the first n cells still hold the overlay and nothing else is touched; no call panics *)
  forallb (fun q =>
    Nat.eqb (length (sq_obs q)) (length (sq_ops q)) &&
    all2h (fun o b =>
      let len := so_len o in
      let full_n := N.min len (fs - so_off o) in
      Nat.eqb (length (sb_out b)) (N.to_nat len) &&
      (match sb_err b with
       | 0 => (sb_n b =? full_n) && Bool.eqb (sb_eof b) (fs <=? so_off o + len)
       | 1 => negb (match so_failing o with [] => true | _ => false end) && (sb_n b <=? full_n) && negb (sb_eof b)
       | _ => false
       end) &&
      forallb (fun i => nth (N.to_nat i) (sb_out b) 0 =?
                        (if i <? sb_n b then overlay src flat (so_off o + i) else so_fill o))
              (positions len))
      (sq_ops q) (sq_obs q))
    (i_seqs c) &&
  (* streams: exactly the requested range, byte for byte the overlay, zeros in holes; a size of
     MaxInt64 or a range that ends beyond MaxInt64 means "to the end" *)
  forallb (fun sc =>
    let stop := if (st_size sc =? max_int64) || (max_int64 <? st_off sc + st_size sc)
                then total_size (k_chunks c) else st_off sc + st_size sc in
    all2 N.eqb (st_out sc)
         (map (fun i => overlay src flat (st_off sc + i)) (positions (stop - st_off sc))))
    (i_streams c) &&
  (* ReadAll: the overlay from 0 to the end of the content, nothing after it *)
  (let e := N.of_nat (length (i_readall c)) in
   all2 N.eqb (i_readall c) (map (overlay src flat) (positions e)) &&
   forallb (fun p => (p <? e) || osrc_eqb (overlay_src flat p) None) ps) &&
  (* compaction (manifests separated first, as the callers do) keeps the content and loses no chunk *)
  (let d := data_chunks (k_chunks c) in
   Nat.eqb (length (i_compacted c) + length (i_garbage c)) (length d) &&
   forallb (fun x => in_chunks x (i_compacted c) || in_chunks x (i_garbage c)) d &&
   forallb (fun x => in_chunks x d) (i_compacted c ++ i_garbage c) &&
   forallb (fun p => osrc_eqb (overlay_src (i_compacted c) p) (overlay_src d p)) ps) &&
  (* manifest conversion keeps the content *)
  forallb (fun p => osrc_eqb (src_of_visibles (i_man_vis c) p) (overlay_src flat p)) ps.

(* a ChunkStreamReader behaves like an io.ReadSeeker over the overlay of [0, TotalSize) *)
Definition content_of (c : case) : list N :=
  map (overlay (source_of (k_store c)) (k_flat c)) (positions (total_size (k_flat c))).
Definition csr_ok (c : case) (q : csr_case) : bool :=
  all2 obs_eqb (cq_obs q) (csr_ideal (content_of c) (cq_ops q) 0%Z).
(* the garbage of CompactFileChunks(whole list) holds nothing that is visible: no manifest chunk, and no
   data chunk that wins a position *)
Definition call_ok (c : case) : bool :=
  forallb (fun g => negb (c_manifest g)) (i_call_garb c) &&
  forallb (fun p => match overlay_src (k_flat c) p with
                    | Some (f, _) => negb (existsb (fun g => c_fid g =? f) (i_call_garb c))
                    | None => true
                    end) (positions (k_file_size c + 2)).

(* the finding a failing call falls under (None: not explained).  Finding 0: the views do not tile
   [0, TotalSize) — a hole before, between or after them (the latter only with a zero-size chunk
   beyond the last data byte) *)
Definition full_views (c : case) : list chunk_view :=
  view_from_chunks_w (k_fuel c) (k_ms c) (k_chunks c) 0 max_int64.
Definition csr_excuse (c : case) (q : csr_case) : option N :=
  if negb (views_gapless 0 (full_views c) && (csr_total (full_views c) =? total_size (k_flat c))) then Some 0
  else if csr_seeks_end (Z.of_N (total_size (k_flat c))) (cq_ops q) 0%Z then Some 1
  else None.
Definition call_excuse (c : case) : option N :=
  if existsb c_manifest (k_chunks c) then Some 2 else None.

Definition failing (c : case) : list (option N) :=
  if i_err c then [] else
  map (csr_excuse c) (filter (fun q => negb (csr_ok c q)) (i_csr c)) ++
  (if call_ok c then [] else [call_excuse c]).

Definition prop (c : case) : bool :=
  prop_base c && match failing c with [] => true | _ => false end.

(* Some k only when the base oracles hold and EVERY failing call is explained by a finding *)
Definition trig (c : case) : option N :=
  if negb (prop_base c) then None else
  match failing c with
  | [] => None
  | x :: r => if forallb (fun y => match y with Some _ => true | None => false end) (x :: r) then x else None
  end.

Definition check (c : case) : outcome :=
  {| o_corr := corr c;
     o_prop := prop c;
     o_trig := trig c;
     o_nontrivial := negb (i_err c) && (1 <? N.of_nat (length (i_vis c))) |}.

Definition summarize_cases (l : list case) : summary := summarize check l.

(* ---------- short names for the harness printer: numerals and list notation are slow to
   elaborate (about 0.6 ms per literal), identifiers and explicit cons are not ---------- *)
 Definition n0 : N := 0. Definition n1 : N := 1. Definition n2 : N := 2. Definition n3 : N := 3. Definition n4 : N := 4. Definition n5 : N := 5. Definition n6 : N := 6. Definition n7 : N := 7. Definition n8 : N := 8. Definition n9 : N := 9. Definition n10 : N := 10. Definition n11 : N := 11. Definition n12 : N := 12. Definition n13 : N := 13. Definition n14 : N := 14. Definition n15 : N := 15.
 Definition n16 : N := 16. Definition n17 : N := 17. Definition n18 : N := 18. Definition n19 : N := 19. Definition n20 : N := 20. Definition n21 : N := 21. Definition n22 : N := 22. Definition n23 : N := 23. Definition n24 : N := 24. Definition n25 : N := 25. Definition n26 : N := 26. Definition n27 : N := 27. Definition n28 : N := 28. Definition n29 : N := 29. Definition n30 : N := 30. Definition n31 : N := 31.
 Definition n32 : N := 32. Definition n33 : N := 33. Definition n34 : N := 34. Definition n35 : N := 35. Definition n36 : N := 36. Definition n37 : N := 37. Definition n38 : N := 38. Definition n39 : N := 39. Definition n40 : N := 40. Definition n41 : N := 41. Definition n42 : N := 42. Definition n43 : N := 43. Definition n44 : N := 44. Definition n45 : N := 45. Definition n46 : N := 46. Definition n47 : N := 47.
 Definition n48 : N := 48. Definition n49 : N := 49. Definition n50 : N := 50. Definition n51 : N := 51. Definition n52 : N := 52. Definition n53 : N := 53. Definition n54 : N := 54. Definition n55 : N := 55. Definition n56 : N := 56. Definition n57 : N := 57. Definition n58 : N := 58. Definition n59 : N := 59. Definition n60 : N := 60. Definition n61 : N := 61. Definition n62 : N := 62. Definition n63 : N := 63.
 Definition n64 : N := 64. Definition n65 : N := 65. Definition n66 : N := 66. Definition n67 : N := 67. Definition n68 : N := 68. Definition n69 : N := 69. Definition n70 : N := 70. Definition n71 : N := 71. Definition n72 : N := 72. Definition n73 : N := 73. Definition n74 : N := 74. Definition n75 : N := 75. Definition n76 : N := 76. Definition n77 : N := 77. Definition n78 : N := 78. Definition n79 : N := 79.
 Definition n80 : N := 80. Definition n81 : N := 81. Definition n82 : N := 82. Definition n83 : N := 83. Definition n84 : N := 84. Definition n85 : N := 85. Definition n86 : N := 86. Definition n87 : N := 87. Definition n88 : N := 88. Definition n89 : N := 89. Definition n90 : N := 90. Definition n91 : N := 91. Definition n92 : N := 92. Definition n93 : N := 93. Definition n94 : N := 94. Definition n95 : N := 95.
 Definition n96 : N := 96. Definition n97 : N := 97. Definition n98 : N := 98. Definition n99 : N := 99. Definition n100 : N := 100. Definition n101 : N := 101. Definition n102 : N := 102. Definition n103 : N := 103. Definition n104 : N := 104. Definition n105 : N := 105. Definition n106 : N := 106. Definition n107 : N := 107. Definition n108 : N := 108. Definition n109 : N := 109. Definition n110 : N := 110. Definition n111 : N := 111.
 Definition n112 : N := 112. Definition n113 : N := 113. Definition n114 : N := 114. Definition n115 : N := 115. Definition n116 : N := 116. Definition n117 : N := 117. Definition n118 : N := 118. Definition n119 : N := 119. Definition n120 : N := 120. Definition n121 : N := 121. Definition n122 : N := 122. Definition n123 : N := 123. Definition n124 : N := 124. Definition n125 : N := 125. Definition n126 : N := 126. Definition n127 : N := 127.
 Definition n128 : N := 128. Definition n129 : N := 129. Definition n130 : N := 130. Definition n131 : N := 131. Definition n132 : N := 132. Definition n133 : N := 133. Definition n134 : N := 134. Definition n135 : N := 135. Definition n136 : N := 136. Definition n137 : N := 137. Definition n138 : N := 138. Definition n139 : N := 139. Definition n140 : N := 140. Definition n141 : N := 141. Definition n142 : N := 142. Definition n143 : N := 143.
 Definition n144 : N := 144. Definition n145 : N := 145. Definition n146 : N := 146. Definition n147 : N := 147. Definition n148 : N := 148. Definition n149 : N := 149. Definition n150 : N := 150. Definition n151 : N := 151. Definition n152 : N := 152. Definition n153 : N := 153. Definition n154 : N := 154. Definition n155 : N := 155. Definition n156 : N := 156. Definition n157 : N := 157. Definition n158 : N := 158. Definition n159 : N := 159.
 Definition n160 : N := 160. Definition n161 : N := 161. Definition n162 : N := 162. Definition n163 : N := 163. Definition n164 : N := 164. Definition n165 : N := 165. Definition n166 : N := 166. Definition n167 : N := 167. Definition n168 : N := 168. Definition n169 : N := 169. Definition n170 : N := 170. Definition n171 : N := 171. Definition n172 : N := 172. Definition n173 : N := 173. Definition n174 : N := 174. Definition n175 : N := 175.
 Definition n176 : N := 176. Definition n177 : N := 177. Definition n178 : N := 178. Definition n179 : N := 179. Definition n180 : N := 180. Definition n181 : N := 181. Definition n182 : N := 182. Definition n183 : N := 183. Definition n184 : N := 184. Definition n185 : N := 185. Definition n186 : N := 186. Definition n187 : N := 187. Definition n188 : N := 188. Definition n189 : N := 189. Definition n190 : N := 190. Definition n191 : N := 191.
 Definition n192 : N := 192. Definition n193 : N := 193. Definition n194 : N := 194. Definition n195 : N := 195. Definition n196 : N := 196. Definition n197 : N := 197. Definition n198 : N := 198. Definition n199 : N := 199. Definition n200 : N := 200. Definition n201 : N := 201. Definition n202 : N := 202. Definition n203 : N := 203. Definition n204 : N := 204. Definition n205 : N := 205. Definition n206 : N := 206. Definition n207 : N := 207.
 Definition n208 : N := 208. Definition n209 : N := 209. Definition n210 : N := 210. Definition n211 : N := 211. Definition n212 : N := 212. Definition n213 : N := 213. Definition n214 : N := 214. Definition n215 : N := 215. Definition n216 : N := 216. Definition n217 : N := 217. Definition n218 : N := 218. Definition n219 : N := 219. Definition n220 : N := 220. Definition n221 : N := 221. Definition n222 : N := 222. Definition n223 : N := 223.
 Definition n224 : N := 224. Definition n225 : N := 225. Definition n226 : N := 226. Definition n227 : N := 227. Definition n228 : N := 228. Definition n229 : N := 229. Definition n230 : N := 230. Definition n231 : N := 231. Definition n232 : N := 232. Definition n233 : N := 233. Definition n234 : N := 234. Definition n235 : N := 235. Definition n236 : N := 236. Definition n237 : N := 237. Definition n238 : N := 238. Definition n239 : N := 239.
 Definition n240 : N := 240. Definition n241 : N := 241. Definition n242 : N := 242. Definition n243 : N := 243. Definition n244 : N := 244. Definition n245 : N := 245. Definition n246 : N := 246. Definition n247 : N := 247. Definition n248 : N := 248. Definition n249 : N := 249. Definition n250 : N := 250. Definition n251 : N := 251. Definition n252 : N := 252. Definition n253 : N := 253. Definition n254 : N := 254. Definition n255 : N := 255.
