(* Correspondence check for C03: a history run on a real volume (Store API, needle version 3,
   in-memory needle map), the files closed and copied, then for every crash point of the case
   (bytes kept of the .dat, bytes kept of the .idx) the truncated copies mounted again with the
   real Store.MountVolume and observed in three stages: (1) load outcome, read-only flag, file
   sizes after the load, a read of every key; (2) further operations on the reopened volume --
   overwrites, rewrites of deleted keys, deletes, refused and repeated writes on the keys of the
   history and a write of a fresh key -- with their answers, a read of every key and the file sizes
   afterwards; (3) a second stop (the .idx short of its last 0..25 bytes) and a second mount with
   the same observations. *)
From Coq Require Import List NArith ZArith Bool.
From Coq Require Export Uint63.   (* exported: cases.v uses %uint63 literals *)
From SW Require Export base.Verdict model.Needle model.VolumeCrash.
Import ListNotations.
Local Open Scope N_scope.

(* byte strings arrive packed: each chunk is a primitive 63-bit integer whose base-256 digits
   are 1 followed by up to 7 bytes (cheapest literal for coqc to read; same trick as check/C02.v) *)
Definition byte_of_int (x : Uint63.int) : N := Z.to_N (Uint63.to_Z x).
Fixpoint unchunk (fuel : nat) (x : Uint63.int) (acc : list N) : list N :=
  match fuel with
  | O => acc
  | S f => if Uint63.leb x 1%uint63 then acc   (* the leading "1" *)
           else unchunk f (Uint63.lsr x 8%uint63) (byte_of_int (Uint63.land x 255%uint63) :: acc)
  end.
Definition unpack (cs : list Uint63.int) : list N := flat_map (fun c => unchunk 8 c []) cs.

(* one crash point and what the implementation did with it *)
Record cut := { c_dcut : N; c_icut : N; c_drop2 : N; c_obs : obs }.

Record case := {
  c_ops : list op;                  (* Write needles carry Checksum = NewCRC(Data) and, when the
                                       operation appended a record, the AppendAtNs found in the file *)
  c_keys : list N;                  (* keys read after every reopen (the fresh key among them) *)
  c_post : list op;                 (* the operations on every reopened volume *)
  c_cuts : list cut;
  i_dat : list N;                   (* the .dat file after the history *)
  i_idx : list (N * N * Z);         (* the .idx file after the history: key, offset/8, size *)
  i_appended : list bool            (* per operation: did the .dat grow? *)
}.

(* ---------- CRC oracle: the table of NewCRC values of the byte strings of the case ---------- *)
Fixpoint lookup (tbl : list (list N * N)) (dflt : N) (d : list N) : N :=
  match tbl with
  | [] => dflt
  | (k, c) :: tbl' => if bytes_eqb k d then c else lookup tbl' dflt d
  end.

Definition op_needles (ops : list op) : list needle :=
  flat_map (fun o => match o with Write n => [n] | Delete _ _ _ => [] end) ops.

Definition crc_of (c : case) : list N -> N :=
  lookup (map (fun n => (data n, checksum n)) (op_needles (c_post c ++ c_ops c))) 0.

(* ---------- comparison helpers ---------- *)
Fixpoint all2 {A B} (f : A -> B -> bool) (l1 : list A) (l2 : list B) : bool :=
  match l1, l2 with
  | [], [] => true
  | x :: l1', y :: l2' => f x y && all2 f l1' l2'
  | _, _ => false
  end.

Definition proj_eqb (a b : N * N * list N) : bool :=
  let '(a1, a2, a3) := a in let '(b1, b2, b3) := b in (a1 =? b1) && (a2 =? b2) && bytes_eqb a3 b3.

Definition ans_eqb (a b : N * Z) : bool := (fst a =? fst b) && (snd a =? snd b)%Z.

Definition obs_eqb (a b : obs) : bool :=
  (o_load a =? o_load b) && Bool.eqb (o_readonly a) (o_readonly b)
  && (o_dat_len a =? o_dat_len b) && (o_idx_len a =? o_idx_len b)
  && all2 proj_eqb (o_reads a) (o_reads b)
  && all2 ans_eqb (o_post a) (o_post b)
  && all2 proj_eqb (o_reads2 a) (o_reads2 b)
  && (o_dat_len2 a =? o_dat_len2 b) && (o_idx_len2 a =? o_idx_len2 b)
  && (o_load3 a =? o_load3 b) && Bool.eqb (o_readonly3 a) (o_readonly3 b)
  && all2 proj_eqb (o_reads3 a) (o_reads3 b)
  && (o_dat_len3 a =? o_dat_len3 b) && (o_idx_len3 a =? o_idx_len3 b).

Definition entry_eqb (e : entry) (t : N * N * Z) : bool :=
  let '(k, o, s) := t in (e_key e =? k) && (e_off e =? o) && (e_size e =? s)%Z.

(* ---------- the property's oracle ---------- *)
(* the specification [s_step] / [s_read] / [s_res] of model/VolumeCrash.v (an association list
   key -> cookie, last stored needle or deleted), evaluated on the operations; it does not look at
   files or needle maps.  Which operations reached the files at a stop is read off the
   IMPLEMENTATION's own answers (did the .dat grow / what did the operation answer), and those
   answers are checked against the specification.  [dirty] = the keys exempt under finding 0. *)

(* was (cookie, data) ever written for key k? *)
Definition written (ops : list op) (k ck : N) (d : list N) : bool :=
  existsb (fun n => (id n =? k) && (cookie n =? ck) && bytes_eqb (data n) d) (op_needles ops).

(* record boundaries as the implementation laid them out: end offset of record i (1-based),
   from the offsets in its index file and the length of its data file *)
Definition impl_end (c : case) (i : N) : N :=
  match i with
  | 0 => SuperBlockSize
  | _ => match nth_error (i_idx c) (N.to_nat i) with
         | Some (_, o, _) => o * 8
         | None => len (i_dat c)
         end
  end.

(* write order: the records of the surviving whole index entries are in the data file in full *)
Definition impl_admissible (c : case) (dcut icut : N) : bool :=
  let ie := icut / 16 in
  (icut <=? 16 * len (i_idx c)) && (dcut <=? len (i_dat c))
  && (impl_end c ie <=? dcut).

(* the longest prefix of the operations that appended at most [lim] records *)
Fixpoint prefix_by (ops : list op) (fl : list bool) (lim : N) : list op :=
  match ops, fl with
  | o :: ops', b :: fl' =>
      if b then (match lim with 0 => [] | _ => o :: prefix_by ops' fl' (lim - 1) end)
      else o :: prefix_by ops' fl' lim
  | _, _ => []
  end.

Definition clean (dirty : N -> bool) (ops : list op) : list op :=
  filter (fun o => negb (dirty (op_key o))) ops.

Definition s_after (st : smap * N) (ops : list op) : smap * N := fold_left s_step ops st.

(* specification and implementation agree, operation by operation, on whether a record was appended *)
Fixpoint flags_ok (dirty : N -> bool) (st : smap * N) (ops : list op) (fl : list bool) : bool :=
  match ops, fl with
  | [], [] => true
  | o :: ops', b :: fl' =>
      if dirty (op_key o) then flags_ok dirty st ops' fl'
      else let st' := s_step st o in Bool.eqb b (snd st <? snd st') && flags_ok dirty st' ops' fl'
  | _, _ => false
  end.

(* ... and on the answer to every further operation *)
Fixpoint answers_ok (dirty : N -> bool) (st : smap * N) (ops : list op) (ans : list (N * Z)) : bool :=
  match ops, ans with
  | [], [] => true
  | o :: ops', a :: ans' =>
      if dirty (op_key o) then answers_ok dirty st ops' ans'
      else ans_eqb (s_res (fst st) o) a && answers_ok dirty (s_step st o) ops' ans'
  | _, _ => false
  end.

(* did the operation append a record, by its answer? *)
Definition ans_appended (o : op) (a : N * Z) : bool :=
  match o with Write _ => fst a =? 0 | Delete _ _ _ => (fst a =? 0) && (0 <? snd a)%Z end.

(* what a read must answer *)
Definition expected (m : smap) (k : N) : N * N * list N :=
  match s_get m k with
  | None => (1, 0, [])
  | Some v => match s_live v with Some n0 => (0, cookie n0, data n0) | None => (2, 0, []) end
  end.

Definition reads_ok (dirty : N -> bool) (m : smap) (keys : list N) (rs : list (N * N * list N)) : bool :=
  all2 (fun k r => dirty k || proj_eqb (expected m k) r) keys rs.

(* the safety half, for every crash point and every stage: whatever is served was written for that key *)
Definition served_ok (c : case) (rs : list (N * N * list N)) : bool :=
  match rs with
  | [] => true
  | _ => all2 (fun k r => let '(cls, ck, d) := r in if cls =? 0 then written (c_ops c ++ c_post c) k ck d else true)
              (c_keys c) rs
  end.
(* (stage 1 only, as c03_no_foreign_data states: at a point that write order EXCLUDES -- the index
   more than 10 entries ahead of the data -- the integrity check repairs only its 10-entry
   window and swallows the error, the volume comes up writable with index entries that point
   behind the end of the data file, and a LATER write of the same size lands where such an entry
   points and is then served under the stale key: observed for seed 12345000 case 5, .dat[:64]
   .idx[:224]; see audit_notes in checks/C03.json.  At admissible points stages 2 and 3 are
   compared exactly by [p_full].) *)
Definition p_safe (c : case) (o : obs) : bool := served_ok c (o_reads o).

(* the full property at an admissible crash point *)
Definition p_full (dirty : N -> bool) (c : case) (ct : cut) : bool :=
  let o := c_obs ct in
  let ie := c_icut ct / 16 in
  let h1 := prefix_by (c_ops c) (i_appended c) ie in
  let st1 := s_after ([], 0) (clean dirty h1) in
  let st2 := s_after st1 (clean dirty (c_post c)) in
  (* the second stop: [ie3] index entries in all *)
  let ie3 := (o_idx_len2 o - c_drop2 ct) / 16 in
  let h3 := prefix_by (c_ops c ++ c_post c)
                      (firstn (length h1) (i_appended c) ++ repeat false (length (c_ops c) - length h1)
                       ++ map (fun p => ans_appended (fst p) (snd p)) (combine (c_post c) (o_post o))) ie3 in
  (* the operations of the history behind h1 never happened for the reopened volume *)
  let h3' := firstn (length h1) h3 ++ skipn (length (c_ops c)) h3 in
  let st3 := s_after ([], 0) (clean dirty h3') in
  (* (1) up, writable, every key as after h1 *)
  (o_load o =? 0) && negb (o_readonly o) && (o_idx_len o =? 16 * ie)
  && reads_ok dirty (fst st1) (c_keys c) (o_reads o)
  (* (2) serves further operations as the volume that ran h1 and never stopped *)
  && answers_ok dirty st1 (c_post c) (o_post o)
  && reads_ok dirty (fst st2) (c_keys c) (o_reads2 o)
  (* (3) and survives the next stop the same way *)
  && (o_load3 o =? 0) && negb (o_readonly3 o)
  && reads_ok dirty (fst st3) (c_keys c) (o_reads3 o).

Definition p_cut (dirty : N -> bool) (c : case) (ct : cut) : bool :=
  p_safe c (c_obs ct)
  && (if impl_admissible c (c_dcut ct) (c_icut ct) then p_full dirty c ct else true).

Definition p_case (dirty : N -> bool) (c : case) : bool :=
  flags_ok dirty ([], 0) (c_ops c) (i_appended c)
  && (len (filter (fun b => b) (i_appended c)) =? len (i_idx c))
  && forallb (p_cut dirty c) (c_cuts c).

(* finding 0 (c03-empty-blob-gone-after-restart): the keys under which the case writes an empty payload *)
Definition dirty_of (c : case) (k : N) : bool := key_has_empty_write (c_ops c ++ c_post c) k.

Definition check (c : case) : outcome :=
  let crc := crc_of c in
  let st := p_run (c_ops c) in
  let strict := p_case (fun _ => false) c in
  {| o_corr :=
       bytes_eqb (p_dat st) (i_dat c)
       && all2 entry_eqb (p_idx st) (i_idx c)
       && forallb (fun ct => obs_eqb (observe crc (crash st (c_dcut ct) (c_icut ct)) (c_keys c) (c_post c) (c_drop2 ct)) (c_obs ct))
                  (c_cuts c);
     o_prop := strict;
     (* inside the trigger set: some key has an empty write, and every OTHER key of the case
        satisfies the property in full *)
     o_trig := if strict then None
               else if has_empty_write (c_ops c ++ c_post c) && p_case (dirty_of c) c then Some 0 else None;
     o_nontrivial :=
       existsb (fun ct => (o_load (c_obs ct) =? 0)
                          && existsb (fun r => let '(cls, _, _) := r in cls =? 0) (o_reads (c_obs ct)))
               (c_cuts c) |}.

Definition summarize_cases (l : list case) : summary := summarize check l.
