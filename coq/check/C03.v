(* Correspondence check for C03: a history run on a real volume (Store API, needle version 3,
   in-memory needle map), the files closed and copied, then for every crash point of the case
   (bytes kept of the .dat, bytes kept of the .idx) the truncated copies mounted again with the
   real Store.MountVolume and observed: load outcome, read-only flag, file sizes after the load,
   a read of every key, a fresh write and its read-back, file sizes afterwards. *)
From Coq Require Import List NArith ZArith Bool.
From Coq Require Export Uint63.   (* exported: cases.v uses %uint63 literals *)
From SW Require Export base.Verdict model.Needle model.VolumeCrash.
Import ListNotations.
Local Open Scope N_scope.

(* byte strings arrive packed: each chunk is a primitive 63-bit integer whose base-256 digits
   are 1 followed by up to 7 bytes (cheapest literal for coqc to read; same trick as check/C02.v) *)
Definition byte_of_int (x : Uint63.int) : N := Z.to_N (Uint63.to_Z x).
Fixpoint unchunk (fuel : nat) (x : Uint63.int) (acc : list N) : list N :=
  match fuel with
  | O => acc
  | S f => if Uint63.leb x 1%uint63 then acc   (* the leading "1" *)
           else unchunk f (Uint63.lsr x 8%uint63) (byte_of_int (Uint63.land x 255%uint63) :: acc)
  end.
Definition unpack (cs : list Uint63.int) : list N := flat_map (fun c => unchunk 8 c []) cs.

(* one crash point and what the implementation did with it *)
Record cut := { c_dcut : N; c_icut : N; c_obs : obs }.

Record case := {
  c_ops : list op;                  (* Write needles carry Checksum = NewCRC(Data) and, when the
                                       operation appended a record, the AppendAtNs found in the file *)
  c_keys : list N;                  (* keys read after every reopen *)
  c_fresh : needle;                 (* the fresh write (a key outside the history) *)
  c_cuts : list cut;
  i_dat : list N;                   (* the .dat file after the history *)
  i_idx : list (N * N * Z);         (* the .idx file after the history: key, offset/8, size *)
  i_appended : list bool            (* per operation: did the .dat grow? *)
}.

(* ---------- CRC oracle: the table of NewCRC values of the byte strings of the case ---------- *)
Fixpoint lookup (tbl : list (list N * N)) (dflt : N) (d : list N) : N :=
  match tbl with
  | [] => dflt
  | (k, c) :: tbl' => if bytes_eqb k d then c else lookup tbl' dflt d
  end.

Definition op_needles (ops : list op) : list needle :=
  flat_map (fun o => match o with Write n => [n] | Delete _ _ _ => [] end) ops.

Definition crc_of (c : case) : list N -> N :=
  lookup (map (fun n => (data n, checksum n)) (c_fresh c :: op_needles (c_ops c))) 0.

(* ---------- comparison helpers ---------- *)
Fixpoint all2 {A B} (f : A -> B -> bool) (l1 : list A) (l2 : list B) : bool :=
  match l1, l2 with
  | [], [] => true
  | x :: l1', y :: l2' => f x y && all2 f l1' l2'
  | _, _ => false
  end.

Definition proj_eqb (a b : N * N * list N) : bool :=
  let '(a1, a2, a3) := a in let '(b1, b2, b3) := b in (a1 =? b1) && (a2 =? b2) && bytes_eqb a3 b3.

Definition obs_eqb (a b : obs) : bool :=
  (o_load a =? o_load b) && Bool.eqb (o_readonly a) (o_readonly b)
  && (o_dat_len a =? o_dat_len b) && (o_idx_len a =? o_idx_len b)
  && all2 proj_eqb (o_reads a) (o_reads b)
  && (o_write a =? o_write b) && proj_eqb (o_fresh a) (o_fresh b)
  && (o_dat_len2 a =? o_dat_len2 b) && (o_idx_len2 a =? o_idx_len2 b).

Definition entry_eqb (e : entry) (t : N * N * Z) : bool :=
  let '(k, o, s) := t in (e_key e =? k) && (e_off e =? o) && (e_size e =? s)%Z.

(* ---------- the property's oracle ---------- *)
(* the specification [s_run] of model/VolumeCrash.v (an association list key -> cookie, last
   stored needle or deleted, number of the record that made it so), evaluated on the operations;
   it does not look at files or needle maps *)

(* was (cookie, data) ever written for key k? *)
Definition written (ops : list op) (k ck : N) (d : list N) : bool :=
  existsb (fun n => (id n =? k) && (cookie n =? ck) && bytes_eqb (data n) d) (op_needles ops).

(* record boundaries as the implementation laid them out: end offset of record i (1-based),
   from the offsets in its index file and the length of its data file *)
Definition impl_end (c : case) (i : N) : N :=
  match i with
  | 0 => SuperBlockSize
  | _ => match nth_error (i_idx c) (N.to_nat i) with
         | Some (_, o, _) => o * 8
         | None => len (i_dat c)
         end
  end.

(* write order: the records of the surviving whole index entries are in the data file in full *)
Definition impl_admissible (c : case) (dcut icut : N) : bool :=
  let ie := icut / 16 in
  (icut <=? 16 * len (i_idx c)) && (dcut <=? len (i_dat c))
  && (impl_end c ie <=? dcut).

(* the safety half, for every crash point: whatever is served was written for that key *)
Definition p_safe (c : case) (o : obs) : bool :=
  all2 (fun k r => let '(cls, ck, d) := r in if cls =? 0 then written (c_ops c) k ck d else true)
       (c_keys c) (o_reads o)
  || negb (o_load o =? 0).

(* the full property at an admissible crash point with [ie] surviving index entries *)
Definition p_key (c : case) (m : smap) (ie : N) (k : N) (r : N * N * list N) : bool :=
  let '(cls, ck, d) := r in
  match s_get m k with
  | None => (cls =? 1) || (cls =? 2)                       (* never written: absent *)
  | Some v =>
      if s_rec v <=? ie then
        (* its last operation reached both files: exactly that *)
        match s_live v with
        | Some n0 => (cls =? 0) && (ck =? cookie n0) && bytes_eqb d (data n0)
        | None => (cls =? 1) || (cls =? 2)
        end
      else
        (* otherwise: absent, or something that was written for this key *)
        (cls =? 1) || (cls =? 2) || ((cls =? 0) && written (c_ops c) k ck d)
  end.

Definition p_full (c : case) (m : smap) (ct : cut) : bool :=
  let o := c_obs ct in
  (o_load o =? 0) && negb (o_readonly o)
  && all2 (p_key c m (c_icut ct / 16)) (c_keys c) (o_reads o)
  && (o_write o =? 0)
  && proj_eqb (o_fresh o) (0, cookie (c_fresh c), data (c_fresh c)).

Definition p_cut (c : case) (m : smap) (ct : cut) : bool :=
  p_safe c (c_obs ct)
  && (if impl_admissible c (c_dcut ct) (c_icut ct) then p_full c m ct else true).

(* no known finding is left for this property (the two that were found are repaired in the
   tree; their crash points are cases 0 and 1 of every run) *)

Definition check (c : case) : outcome :=
  let crc := crc_of c in
  let st := p_run (c_ops c) in
  let '(m, nrec) := s_run (c_ops c) in
  let failing := filter (fun ct => negb (p_cut c m ct)) (c_cuts c) in
  {| o_corr :=
       bytes_eqb (p_dat st) (i_dat c)
       && all2 entry_eqb (p_idx st) (i_idx c)
       && forallb (fun ct => obs_eqb (observe crc (crash st (c_dcut ct) (c_icut ct)) (c_keys c) (c_fresh c)) (c_obs ct))
                  (c_cuts c);
     o_prop :=
       (* the specification and the implementation agree on which operations appended *)
       (nrec =? len (i_idx c)) && (len (filter (fun b => b) (i_appended c)) =? len (i_idx c))
       && match failing with [] => true | _ => false end;
     o_trig := None;
     o_nontrivial :=
       existsb (fun ct => (o_load (c_obs ct) =? 0)
                          && existsb (fun r => let '(cls, _, _) := r in cls =? 0) (o_reads (c_obs ct)))
               (c_cuts c) |}.

Definition summarize_cases (l : list case) : summary := summarize check l.
