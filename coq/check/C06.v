(* Correspondence check for C06: one case = one generated .dat (size, content seed,
   block sizes) run through the real generateEcFiles, with
     - the 14 shard file lengths and the 10 data shard files,
     - a list of reads: LocateData intervals from 10 x shardSize (production) and
       from the true size, and the bytes read back through them from the real files,
     - the .dat decoded from the data shards (WriteDatFile loop),
     - a list of rebuilds (generateMissingEcFiles after deleting a subset of shards).
   The .dat content is NOT shipped: both sides regenerate it from (seed, size) with
   the LCG of model/EC.v (lcg_bytes). *)
From Coq Require Import List ZArith NArith Bool.
From SW Require Export base.Verdict check.C06Vol model.EC check.C06Bytes.
Import ListNotations.
Local Open Scope Z_scope.

(* bytes read through the true-size intervals: shipped only when those intervals
   differ from the production ones (same intervals on the same files = the same read;
   [check_read] accepts SameAsProd only if the two shipped interval lists are equal) *)
Inductive read_res := SameAsProd | Bytes (b : option (list byte)).

Record read_obs := {
  r_off : Z; r_size : Z;
  r_loc : Z * bool * Z;                 (* locateOffset(L,S,10*shardSize,off) *)
  r_ivs_prod : list interval;           (* LocateData(L,S,10*shardSize,off,size) *)
  r_ivs_true : list interval;           (* LocateData(L,S,datSize,off,size) *)
  r_bytes_prod : option (list byte);    (* bytes read from the shard files through r_ivs_prod; None = a ReadAt failed *)
  r_bytes_true : read_res               (* through r_ivs_true *)
}.

Record rebuild_obs := {
  rb_present : list bool;               (* 14 flags: shard file kept *)
  rb_ok : bool;                         (* generateMissingEcFiles returned no error *)
  rb_generated : list Z;                (* generatedShardIds *)
  rb_lens : list Z;                     (* the 14 file lengths afterwards *)
  rb_data : list (Z * list byte);       (* every regenerated shard, data AND parity: (id, bytes) *)
  rb_buf : Z                            (* buffer size of the rebuild loop: ErasureCodingSmallBlockSize when the real
                                           generateMissingEcFiles ran, else the size given to its transcription
                                           VerifRebuildEcFilesSized (several passes over small shards) *)
}.

(* one REAL WriteEcFiles + RebuildEcFiles run with the production constants on a .dat of
   tens of MiB (shards of several MiB: rebuildEcFiles makes several passes with its 1 MiB
   buffer).  The files are too big to ship: the .dat is mix_byte(seed) (closed form in the
   position), the shard files are sampled at [bg_offsets]. *)
Record big_obs := {
  bg_large : Z; bg_small : Z; bg_rbuf : Z;   (* ErasureCodingLargeBlockSize, ErasureCodingSmallBlockSize (also the rebuild buffer) *)
  bg_seed : Z; bg_dsize : Z;
  bg_gen_ok : bool;                     (* WriteEcFiles returned nil *)
  bg_lens : list Z;                     (* the 14 shard file lengths *)
  bg_offsets : list Z;                  (* sampled shard offsets: around every multiple of the rebuild buffer, the ends, random *)
  bg_orig : list (list byte);           (* 14 lists: the bytes of every shard file WriteEcFiles wrote, at the offsets *)
  bg_present : list bool;
  bg_ok : bool;                         (* RebuildEcFiles returned nil *)
  bg_generated : list Z;
  bg_rlens : list Z;                    (* the 14 file lengths after the rebuild *)
  bg_rebuilt : list (Z * list byte);    (* every regenerated shard: (id, its bytes at the offsets) *)
  bg_first_diff : list Z                (* per regenerated shard: first offset where the whole file differs from the original one, -1 = identical (compared on the Go side) *)
}.

(* the production entry points on a real EC volume with all 14 shards local:
   EcVolume.LocateEcShardNeedle (offset, size from the .ecx; intervals from
   DataShardsCount * shard file size and GetActualSize) and Store.ReadEcShardNeedle *)
Record ecread_one := {
  e_key : Z;
  e_found : bool;                       (* LocateEcShardNeedle returned no error *)
  e_off : Z; e_size : Z;                (* offset.ToActualOffset(), size *)
  e_ivs : list interval;
  e_res : Z;                            (* Store.ReadEcShardNeedle: 0 ok, 1 error (deleted / not found / ...) *)
  e_len : Z; e_data : list byte;        (* n.Data: length, and the bytes (first and last 24 when longer than 48) *)
  e_twin_res : Z; e_twin_len : Z; e_twin_data : list byte;   (* Store.ReadVolumeNeedle before the encoding *)
  e_whole_equal : bool                  (* the two payloads are equal as a whole (compared on the Go side) *)
}.
Record ecread_obs := {
  er_large : Z; er_small : Z;
  er_dat_size : Z;
  er_gen_ok : bool;                     (* WriteEcFiles and WriteSortedFileFromIdx returned nil *)
  er_lens : list Z;                     (* 14 shard file lengths *)
  er_mounted : bool;                    (* the new Store found the EC volume *)
  er_reads : list ecread_one
}.

Record case := {
  c_large : Z; c_small : Z; c_buf : Z;
  c_rbuf : Z;                           (* buffer size of rebuildEcFiles = ErasureCodingSmallBlockSize *)
  c_seed : Z; c_dsize : Z;
  c_gen_ok : bool;                      (* generateEcFiles returned nil *)
  c_shard_lens : list Z;                (* 14 *)
  c_data_shards : list (list byte);     (* .ec00 .. .ec09 *)
  c_parity_shards : list (list byte);   (* .ec10 .. .ec13 *)
  c_colwise : bool;                     (* every byte column of .ec10...ec13 = reedsolomon Encode of that column of the data shards *)
  c_wd_sync : bool;                     (* the parameterised transcriptions of WriteDatFile and rebuildEcFiles are textually the real ones, and the real WriteDatFile agrees on a small volume *)
  c_decode_run : bool;
  c_decoded : option (list byte);       (* None = error *)
  c_reads : list read_obs;
  c_rebuilds : list rebuild_obs;
  c_big : list big_obs;
  c_ecreads : list ecread_obs;
  c_vol : option C06Vol.vol_obs         (* decode + mount of a real volume (check/C06Vol.v) *)
}.

(* ---------- equality tests ---------- *)
Fixpoint all2 {A B} (f : A -> B -> bool) (l1 : list A) (l2 : list B) : bool :=
  match l1, l2 with
  | [], [] => true
  | x :: l1', y :: l2' => f x y && all2 f l1' l2'
  | _, _ => false
  end.
Definition bytes_eqb (a b : list byte) : bool := all2 N.eqb a b.
Definition zlist_eqb (a b : list Z) : bool := all2 Z.eqb a b.
Definition obytes_eqb (a b : option (list byte)) : bool :=
  match a, b with
  | Some x, Some y => bytes_eqb x y
  | None, None => true
  | _, _ => false
  end.
Definition interval_eqb (a b : interval) : bool :=
  (i_block a =? i_block b) && (i_inner a =? i_inner b) && (i_size a =? i_size b) &&
  Bool.eqb (i_large a) (i_large b) && (i_rows a =? i_rows b).
Definition loc_eqb (a b : Z * bool * Z) : bool :=
  let '(a1, a2, a3) := a in let '(b1, b2, b3) := b in (a1 =? b1) && Bool.eqb a2 b2 && (a3 =? b3).

(* ---------- the property's reference: plain slices of the original file ---------- *)
Definition ref_slice (dat : list byte) (off size : Z) : list byte :=
  firstn (Z.to_nat size) (skipn (Z.to_nat off) dat).

(* stand-in for the RS oracle on the model side of the rebuild loop: only the
   loop arithmetic (chunking, error paths, lengths) is compared with the
   implementation; the regenerated BYTES are compared with the original shards
   (that they are equal is theorem c06_rebuild, relative to the RS hypothesis). *)
Definition stub_rs_rec (col : list (option byte)) : option (list byte) :=
  if 10 <=? zlen (filter (fun o => match o with Some _ => true | None => false end) col)
  then Some (map (fun o => match o with Some b => b | None => 0%N end) col)
  else None.

Definition lost_ids (present : list bool) : list Z :=
  filter (fun i => negb (znth present i true)) (zrange 0 14).

Definition check_read (c : case) (dat : list byte) (mshards : list (list byte)) (r : read_obs) : bool * bool :=
  let L := c_large c in let S := c_small c in
  let slen := zlen (znth mshards 0 []) in
  let m_ivs_prod := locate_data L S (10 * slen) (r_off r) (r_size r) in
  let m_ivs_true := locate_data L S (c_dsize c) (r_off r) (r_size r) in
  let same_ivs := all2 interval_eqb (r_ivs_true r) (r_ivs_prod r) in
  let bytes_true :=
    match r_bytes_true r with
    | SameAsProd => r_bytes_prod r
    | Bytes b => b
    end in
  let marker_ok := match r_bytes_true r with SameAsProd => same_ivs | Bytes _ => true end in
  let corr :=
    marker_ok &&
    loc_eqb (locate_offset L S (10 * slen) (r_off r)) (r_loc r) &&
    all2 interval_eqb m_ivs_prod (r_ivs_prod r) &&
    all2 interval_eqb m_ivs_true (r_ivs_true r) &&
    obytes_eqb (read_needle_prod L S mshards (r_off r) (r_size r)) (r_bytes_prod r) &&
    obytes_eqb (read_intervals L S mshards m_ivs_true) bytes_true in
  let want := Some (ref_slice dat (r_off r) (r_size r)) in
  let prop := obytes_eqb want (r_bytes_prod r) && obytes_eqb want bytes_true in
  (corr, prop).

Definition check_rebuild (c : case) (mshards : list (list byte)) (rb : rebuild_obs) : bool * bool :=
  let slen := zlen (znth mshards 0 []) in
  let B := rb_buf rb in
  (* model side: 14 files of the right length (parity content irrelevant for the stub) *)
  let files := mshards ++ repeat (repeat 0%N (Z.to_nat slen)) 4 in
  let m := rebuild stub_rs_rec B (apply_mask (rb_present rb) files) in
  let lost := lost_ids (rb_present rb) in
  let few := count_lost (rb_present rb) <=? 4 in
  (* the hypothesis of c06_rebuild on the buffer (production: B = small block divides the shard size) *)
  let buf_ok := (0 <? B) && ((slen mod B =? 0) || (slen <? B)) in
  let data_ok (orig : list (list byte)) :=
    forallb (fun p => bytes_eqb (znth orig (fst p) []) (snd p)) (rb_data rb) &&
    zlist_eqb lost (map fst (rb_data rb)) in
  let corr :=
    match m with
    | Some outs => rb_ok rb && zlist_eqb (map zlen outs) (rb_lens rb) && zlist_eqb lost (rb_generated rb) &&
                   data_ok (mshards ++ c_parity_shards c)
    | None => negb (rb_ok rb)
    end in
  let prop :=
    if few && buf_ok then
      rb_ok rb && zlist_eqb lost (rb_generated rb) && zlist_eqb (c_shard_lens c) (rb_lens rb) &&
      data_ok (c_data_shards c ++ c_parity_shards c)
    else true in
  (corr, prop).

(* the production-size run: data shard bytes through the closed form [shard_byte]
   (= the model's data_shard by shard_byte_correct / shard_len_correct), regenerated
   shards against the shards WriteEcFiles wrote *)
Definition check_big (b : big_obs) : bool * bool * bool :=
  let L := bg_large b in let S := bg_small b in let D := bg_dsize b in
  let len := shard_len L S D in
  let offs := bg_offsets b in
  let lost := lost_ids (bg_present b) in
  let few := count_lost (bg_present b) <=? 4 in
  let in_range := forallb (fun o => (0 <=? o) && (o <? len)) offs in
  let m_data := map (fun i => map (shard_byte (mix_byte (bg_seed b)) L S D i) offs) (zrange 0 10) in
  let rebuilt_ok (orig : list (list byte)) :=
    forallb (fun p => bytes_eqb (znth orig (fst p) []) (snd p)) (bg_rebuilt b) &&
    zlist_eqb lost (map fst (bg_rebuilt b)) in
  let corr :=
    (L =? 1073741824) && (S =? 1048576) && (bg_rbuf b =? S) &&
    bg_gen_ok b && in_range &&
    zlist_eqb (repeat len 14) (bg_lens b) &&
    all2 bytes_eqb m_data (firstn 10 (bg_orig b)) &&
    (if few then bg_ok b && zlist_eqb (repeat len 14) (bg_rlens b) && zlist_eqb lost (bg_generated b) &&
                 rebuilt_ok (m_data ++ skipn 10 (bg_orig b))
     else negb (bg_ok b)) in
  let prop :=
    if few then
      bg_ok b && zlist_eqb lost (bg_generated b) && zlist_eqb (bg_lens b) (bg_rlens b) &&
      rebuilt_ok (bg_orig b) && forallb (fun d => d =? -1) (bg_first_diff b) &&
      Nat.eqb (length (bg_first_diff b)) (length lost)
    else true in
  (* non-trivial: more than one pass of the rebuild loop, and samples behind the first pass *)
  let nontriv := (bg_rbuf b <? len) && existsb (fun o => bg_rbuf b <=? o) offs && negb (Nat.eqb (length lost) 0) in
  (corr, prop, nontriv).

(* needle.GetActualSize(size, Version3): header 16 + body + checksum 4 + timestamp 8, padded
   to 8 (PaddingLength = 8 - (x mod 8), i.e. 1..8 bytes) *)
Definition actual_size3 (size : Z) : Z :=
  let x := 16 + size + 4 + 8 in x + (8 - x mod 8).

Definition check_ecread (e : ecread_obs) : bool * bool * bool :=
  let L := er_large e in let S := er_small e in let D := er_dat_size e in
  let len := shard_len L S D in
  let one (r : ecread_one) : bool * bool :=
    let a := actual_size3 (e_size r) in
    let corr :=
      if e_found r then
        (0 <=? e_off r) && (0 <=? e_size r) && (e_off r + a <=? D) &&
        all2 interval_eqb (locate_data L S (10 * len) (e_off r) a) (e_ivs r) &&
        (e_res r =? 0)                       (* c06_read_exact: the record bytes come back, the needle parses *)
      else negb (e_res r =? 0) in
    let prop :=
      if e_twin_res r =? 0
      then (e_res r =? 0) && (e_len r =? e_twin_len r) && bytes_eqb (e_data r) (e_twin_data r) && e_whole_equal r
      else negb (e_res r =? 0) in
    (corr, prop) in
  let rs := map one (er_reads e) in
  let corr := (L =? 1073741824) && (S =? 1048576) && er_gen_ok e && er_mounted e &&
              zlist_eqb (repeat len 14) (er_lens e) && forallb fst rs in
  let prop := er_gen_ok e && er_mounted e && forallb snd rs in
  (corr, prop, existsb (fun r => e_found r && (e_twin_res r =? 0)) (er_reads e)).

Definition check (c : case) : outcome :=
  let L := c_large c in let S := c_small c in let D := c_dsize c in
  let dat := lcg_bytes (Z.to_nat D) (c_seed c) in
  let mshards := data_shards (dat_of_list dat) L S (c_buf c) D in
  let slen := zlen (znth mshards 0 []) in
  let rd := map (check_read c dat mshards) (c_reads c) in
  let rbs := map (check_rebuild c mshards) (c_rebuilds c) in
  let bigs := map check_big (c_big c) in
  let ers := map check_ecread (c_ecreads c) in
  let vol := match c_vol c with
             | Some v => C06Vol.check_vol v
             | None => {| o_corr := true; o_prop := true; o_trig := None; o_nontrivial := false |}
             end in
  let corr_layout :=
    c_gen_ok c && c_colwise c && c_wd_sync c &&
    zlist_eqb (repeat slen 14) (c_shard_lens c) &&
    (slen =? shard_len L S D) &&
    Nat.eqb (length (c_parity_shards c)) 4 &&
    all2 bytes_eqb mshards (c_data_shards c) in
  let corr_dec := if c_decode_run c then obytes_eqb (write_dat L S mshards D) (c_decoded c) else true in
  let prop_dec := if c_decode_run c then obytes_eqb (Some dat) (c_decoded c) else true in
  let ec_prop := c_gen_ok c && prop_dec && forallb snd rd && forallb snd rbs && forallb (fun x => snd (fst x)) bigs &&
                 forallb (fun x => snd (fst x)) ers in
  {| o_corr := corr_layout && corr_dec && forallb fst rd && forallb fst rbs && forallb (fun x => fst (fst x)) bigs &&
               forallb (fun x => fst (fst x)) ers && o_corr vol;
     o_prop := ec_prop && o_prop vol;
     (* a known finding only when the decode + mount part is the ONLY part whose property fails *)
     o_trig := if ec_prop && negb (o_prop vol) then o_trig vol else None;
     o_nontrivial := ((0 <? D) && (negb (Nat.eqb (length (c_reads c)) 0) || negb (Nat.eqb (length (c_rebuilds c)) 0)))
                     || existsb snd bigs || existsb snd ers || o_nontrivial vol |}.

Definition summarize_cases (l : list case) : summary := summarize check l.
