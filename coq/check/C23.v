(* Correspondence check for C23: histories of Add/Del/Match on the real
   filer.FilerConf, with the conf the implementation returned at every Match. *)
From Coq Require Import List NArith Bool String.
From SW Require Export base.Verdict model.FilerConf.
Import ListNotations.

Record case := { ops : list op; impl : list (option conf) }.

Definition oconf_eqb (a b : option conf) : bool :=
  match a, b with
  | Some x, Some y => conf_eqb x y
  | None, None => true
  | _, _ => false
  end.

Fixpoint all2 {A} (f : A -> A -> bool) (l1 l2 : list A) : bool :=
  match l1, l2 with
  | [], [] => true
  | x :: l1', y :: l2' => f x y && all2 f l1' l2'
  | _, _ => false
  end.

Definition is_match (o : op) : bool := match o with Match _ => true | _ => false end.

Definition check (c : case) : outcome :=
  {| o_corr := all2 oconf_eqb (run [] (ops c)) (impl c);
     (* property oracle: the reference longest-prefix resolver on the implementation's answers *)
     o_prop := all2 oconf_eqb (ref_run [] (ops c)) (impl c);
     o_trig := None;
     o_nontrivial := existsb is_match (ops c) |}.

Definition summarize_cases (l : list case) : summary := summarize check l.
