(* Correspondence check for C23: histories of Add/Del/Match/Load/Reload/LoadBad/Dump on the
   real filer.FilerConf, with what the implementation returned at every step. *)
From Coq Require Import List NArith Bool String Ascii.
From SW Require Export base.Verdict model.FilerConf.
Import ListNotations.

Record case := { ops : list op; impl : list obs }.

(* short names for the harness printer *)
Definition C := Build_conf.
(* strings with bytes outside printable ASCII (UTF-8 names) are written as byte lists *)
Fixpoint sb (l : list N) : string :=
  match l with [] => EmptyString | n :: l' => String (ascii_of_N n) (sb l') end.

Fixpoint all2 {A} (f : A -> A -> bool) (l1 l2 : list A) : bool :=
  match l1, l2 with
  | [], [] => true
  | x :: l1', y :: l2' => f x y && all2 f l1' l2'
  | _, _ => false
  end.

Definition obs_eqb (a b : obs) : bool :=
  match a, b with
  | ODone, ODone | OPanic, OPanic | OErr, OErr => true
  | OConf l1 c1, OConf l2 c2 => String.eqb l1 l2 && conf_eqb c1 c2
  | ORules l1, ORules l2 => all2 rule_eqb l1 l2
  | _, _ => false
  end.

(* ---- the property oracle, independent of the model's put/del/match_rule:
   the configured rules at a point of the history are read off the history itself
   (the last Add/Load/Del that mentions a prefix decides), and every answer of the
   implementation is judged by the declarative longest-setter check [match_ok]. ---- *)
Definition event := (string * option conf)%type.
Definition nonempty (p : string) : bool := negb (String.eqb p "").

Fixpoint load_events (l : list rule) : list event :=      (* oldest first; stops at an empty prefix *)
  match l with
  | [] => []
  | r :: l' => if nonempty (fst r) then (fst r, Some (snd r)) :: load_events l' else []
  end.

Definition op_events (o : op) : list event :=
  match o with
  | Add p c => if nonempty p then [(p, Some c)] else []
  | Del p => [(p, None)]
  | Load l => load_events l
  | _ => []
  end.

Fixpoint spec_lookup (evs : list event) (p : string) : option conf :=   (* evs: newest first *)
  match evs with
  | [] => None
  | (q, v) :: evs' => if String.eqb q p then v else spec_lookup evs' p
  end.

Fixpoint dedup (l : list string) : list string :=
  match l with
  | [] => []
  | x :: l' => if existsb (String.eqb x) l' then dedup l' else x :: dedup l'
  end.

Definition spec_rules (evs : list event) : rules :=
  flat_map (fun k => match spec_lookup evs k with Some c => [(k, c)] | None => [] end)
           (dedup (map fst evs)).

Fixpoint strictly_sorted (l : list rule) : bool :=
  match l with
  | a :: l' => match l' with b :: _ => String.ltb (fst a) (fst b) | [] => true end && strictly_sorted l'
  | [] => true
  end.

Definition same_set (l1 l2 : rules) : bool :=
  forallb (fun r => existsb (rule_eqb r) l2) l1 && forallb (fun r => existsb (rule_eqb r) l1) l2.

Definition step_ok (evs : list event) (o : op) (ob : obs) : bool :=
  match o, ob with
  | Add _ _, ODone | Del _, ODone | Load _, ODone | Reload, ODone | LoadBad, OErr => true
  | Match path, OConf lp c => String.eqb lp "" && match_ok (spec_rules evs) path c
  | Dump, ORules l => strictly_sorted l && same_set l (spec_rules evs)
  | _, _ => false
  end.

(* (every step satisfies the property, every step satisfies it or is itself inside trigger 0) *)
Fixpoint judge (evs : list event) (os : list op) (is : list obs) : bool * bool :=
  match os, is with
  | [], [] => (true, true)
  | o :: os', i :: is' =>
      let ok := step_ok evs o i in
      let '(a, b) := judge (rev (op_events o) ++ evs) os' is' in
      (ok && a, (ok || op_empty_prefix o) && b)
  | _, _ => (false, false)
  end.

Definition sets_something (ob : obs) : bool :=
  match ob with
  | OConf _ c => negb (conf_eqb c empty_conf)
  | _ => false
  end.

Definition check (c : case) : outcome :=
  let j := judge [] (ops c) (impl c) in
  {| o_corr := all2 obs_eqb (run [] (ops c)) (impl c);
     o_prop := fst j;
     (* finding 0 only excuses the steps that carry an empty prefix themselves *)
     o_trig := if negb (fst j) && snd j then Some 0%N else None;
     o_nontrivial := existsb sets_something (impl c) |}.

Definition summarize_cases (l : list case) : summary := summarize check l.
