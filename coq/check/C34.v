(* Correspondence check for C34: one request on the real volume server handlers
   (privateStoreHandler / publicReadOnlyHandler over a real Store, with a real
   security.Guard), with tokens built by the harness.  The store is observed PER NEEDLE:
   state of every tracked needle before and after the request (read back from the real
   store), which needle's bytes/ETag the response carries, how many volumes changed. *)
From Coq Require Import List NArith Bool String.
From SW Require Export base.Verdict model.Jwt.
Import ListNotations.

Record case := {
  c_cfg : config;
  c_rq : request;
  c_tab : toktab;              (* facts about every token string the request carries *)
  c_presented : list string;   (* the token strings embedded in the request (query, header) *)
  c_world : world;             (* volumes of the store; tracked live needles before the request *)
  (* implementation observables *)
  i_status : N;                (* 0 = the handler panicked *)
  i_after : list nrec;         (* tracked live needles after the request *)
  i_disclosed : list (N * N);  (* (volume, id) of the needles whose bytes (GET) / ETag (HEAD 200) the response carries *)
  i_vols_changed : N;          (* volumes whose .dat/.idx size or needle counters changed *)
  (* the real parsers on the texts the real path readers give (ties of the numeric model) *)
  i_vid : option N;            (* needle.NewVolumeId(vid) *)
  i_fid : (N * N) * bool;      (* ParsePath(fid): id, cookie left in the needle, err == nil *)
  i_ufid : option ((N * N) * bool)   (* ParsePath(upload's fid); None = the path reader panics *)
}.

Definition nrec_eqb (a b : nrec) : bool :=
  ((n_vol a =? n_vol b) && (n_id a =? n_id b) && (n_ck a =? n_ck b) && (n_content a =? n_content b))%N.
Definition incl_b (l1 l2 : list nrec) : bool := forallb (fun x => existsb (nrec_eqb x) l2) l1.
Definition same_set (l1 l2 : list nrec) : bool := incl_b l1 l2 && incl_b l2 l1 && Nat.eqb (List.length l1) (List.length l2).
Definition pair_eqb (a b : N * N) : bool := ((fst a =? fst b) && (snd a =? snd b))%N.
Fixpoint plist_eqb (l1 l2 : list (N * N)) : bool :=
  match l1, l2 with
  | [], [] => true
  | a :: l1', b :: l2' => pair_eqb a b && plist_eqb l1' l2'
  | _, _ => false
  end.
Definition opt_eqb {A} (e : A -> A -> bool) (a b : option A) : bool :=
  match a, b with Some x, Some y => e x y | None, None => true | _, _ => false end.
Definition st_eqb (a b : (N * N) * bool) : bool := pair_eqb (fst a) (fst b) && Bool.eqb (snd a) (snd b).
Definition triple_eqb (a b : N * N * N) : bool :=
  ((fst (fst a) =? fst (fst b)) && (snd (fst a) =? snd (fst b)) && (snd a =? snd b))%N.

(* the needles whose state differs between two snapshots *)
Definition touched (before after : list nrec) : list nrec :=
  filter (fun x => negb (existsb (nrec_eqb x) after)) before ++
  filter (fun x => negb (existsb (nrec_eqb x) before)) after.

Definition parsers_tie (c : case) : bool :=
  match parse_url_path (rq_path (c_rq c)) with
  | Some (vid, fid) => opt_eqb N.eqb (parse_vid vid) (i_vid c) && st_eqb (parse_path_st fid) (i_fid c)
  | None => true
  end &&
  opt_eqb st_eqb (match upload_fid (rq_path (c_rq c)) with Some u => Some (parse_path_st u) | None => None end) (i_ufid c) &&
  forallb (fun p => opt_eqb triple_eqb (claim_den (t_fid (snd p))) (t_den (snd p))) (c_tab c).

Definition check (c : case) : outcome :=
  let rq := c_rq c in
  let m := rq_method rq in
  let o := handle (c_tab c) (c_cfg c) rq in
  let e := store_step o m (c_world c) in
  let before := w_live (c_world c) in
  let allowed := spec_allows (c_tab c) (c_cfg c) rq (c_presented c) in
  let tch := touched before (i_after c) in
  {| o_corr := (e_status e =? i_status c)%N
               && same_set (e_live e) (i_after c)
               && plist_eqb (e_disclosed e) (i_disclosed c)
               && (i_vols_changed c =? (if same_set before (e_live e) then 0 else 1))%N
               && parsers_tie c;
     (* property (on the implementation's observables only):
        (a) every needle whose state changed and every needle the response discloses is opened by a
            presented token: valid for the key of the request's class, claim denoting (real parser) that
            needle's volume and cookie and its id (a smaller id only when the path carries a _suffix);
            and no volume changed without a tracked needle changing;
        (b) a request none of whose tokens is valid and names the addressed needle is turned away with
            401/400 (or is not routed, or dies) and touches/discloses nothing *)
     o_prop := forallb (needle_allowed (c_tab c) (c_cfg c) rq (c_presented c)) tch
               && forallb (fun p => match find_needle (fst p) (snd p) before with
                                    | Some r => needle_allowed (c_tab c) (c_cfg c) rq (c_presented c) r
                                    | None => false end) (i_disclosed c)
               && (match tch with [] => (i_vols_changed c =? 0)%N | _ => true end)
               && (if allowed then true
                   else match tch with [] => true | _ => false end
                        && match i_disclosed c with [] => true | _ => false end
                        && ((i_status c =? 401)%N || (i_status c =? 400)%N || (i_status c =? 0)%N
                            || (rq_public rq && is_write_method m)));
     o_trig := None;   (* finding 0 (DeleteHandler ignoring the parse errors) is repaired: no trigger *)
     o_nontrivial := negb (sempty (key_for (c_cfg c) (is_write_method m)))
                     && negb (match c_presented c with [] => true | _ => false end) |}.

Definition summarize_cases (l : list case) : summary := summarize check l.
