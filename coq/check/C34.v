(* Correspondence check for C34: one request on the real volume server handlers
   (privateStoreHandler / publicReadOnlyHandler over a real Store, with a real
   security.Guard), with tokens built by the harness. *)
From Coq Require Import List NArith Bool String.
From SW Require Export base.Verdict model.Jwt.
Import ListNotations.

Record case := {
  c_cfg : config;
  c_rq : request;
  c_tab : toktab;              (* facts about every token string the request carries *)
  c_presented : list string;   (* the token strings embedded in the request (query, header) *)
  c_target : target;           (* does the addressed needle exist (correspondence of the final status only) *)
  (* implementation observables *)
  i_status : N;                (* 0 = the handler panicked *)
  i_changed : bool;            (* .dat/.idx sizes or the needle counters changed *)
  i_leak : bool                (* the response discloses the needle (GET: its bytes; HEAD: 200) *)
}.

(* what a handler that reached the store does to it *)
Definition expect_changed (o : hresult) (m : meth) (tg : target) : bool :=
  match o, m, tg with
  | Proceed _ _, (POST | PUT), (TExists | TMissing) => true
  | Proceed _ _, DELETE, TExists => true
  | _, _, _ => false
  end.
Definition expect_leak (o : hresult) (m : meth) (tg : target) : bool :=
  match o, m, tg with
  | Proceed _ _, (GET | HEAD), TExists => true
  | _, _, _ => false
  end.

Definition check (c : case) : outcome :=
  let rq := c_rq c in
  let m := rq_method rq in
  let o := handle (c_tab c) (c_cfg c) rq in
  let allowed := spec_allows (c_tab c) (c_cfg c) rq (c_presented c) in
  {| o_corr := (final_status o m (c_target c) =? i_status c)%N
               && Bool.eqb (expect_changed o m (c_target c)) (i_changed c)
               && Bool.eqb (expect_leak o m (c_target c)) (i_leak c);
     (* property: whoever is not allowed by the reference is turned away with 401/400
        (or is not routed, or the request dies) and nothing was touched or disclosed *)
     o_prop := if allowed then true
               else negb (i_changed c) && negb (i_leak c)
                    && ((i_status c =? 401)%N || (i_status c =? 400)%N || (i_status c =? 0)%N
                        || (rq_public rq && is_write_method m));
     o_trig := None;   (* finding C34/0 is repaired in the tree: no known finding is left *)
     o_nontrivial := negb (sempty (key_for (c_cfg c) (is_write_method m)))
                     && negb (match c_presented c with [] => true | _ => false end) |}.

Definition summarize_cases (l : list case) : summary := summarize check l.
