(* Correspondence check for C02: needles appended by the real Needle.Append to a
   backend.DiskFile after a prefix (super block), then read back with Needle.ReadData, scanned
   with ScanVolumeFileFrom (whole and truncated), read again after byte flips, and copied by
   a scan (the way Volume.Compact does) from the undamaged and from a damaged file; plus
   hand-framed records with arbitrary bodies (a foreign / damaged writer).
   The checksum is the Gallina [crc32c] of model/NeedleCrc.v; every CRC value Go computed for
   a byte string of the case is compared with it. *)
From Coq Require Import List NArith ZArith Bool.
From Coq Require Export Uint63.   (* exported: cases.v uses %uint63 literals *)
From SW Require Export base.Verdict model.Needle model.NeedleCrc model.NeedleStream.
Import ListNotations.
Local Open Scope N_scope.

(* byte strings arrive packed: each chunk is a primitive 63-bit integer whose base-256 digits
   are 1 followed by up to 7 bytes (parsing a plain [list N] literal costs coqc about a
   millisecond per byte; primitive integer literals are the cheapest to read) *)
Definition byte_of_int (x : Uint63.int) : N := Z.to_N (Uint63.to_Z x).
Fixpoint unchunk (fuel : nat) (x : Uint63.int) (acc : list N) : list N :=
  match fuel with
  | O => acc
  | S f => if Uint63.leb x 1%uint63 then acc   (* the leading "1" *)
           else unchunk f (Uint63.lsr x 8%uint63) (byte_of_int (Uint63.land x 255%uint63) :: acc)
  end.
Definition unpack (cs : list Uint63.int) : list N := flat_map (fun c => unchunk 8 c []) cs.

(* one byte flip: record index, absolute byte position in the file, xor mask, the raw CRC Go
   computed over the data it decoded from the altered record (0 if it did not get that far),
   and the status class ReadData returned *)
Record flip := { f_rec : N; f_pos : N; f_mask : N; f_crc : N; f_status : N }.

(* a scan-based copy of the file (with one byte xor-ed first; mask 0 = undamaged file): every
   needle ScanVolumeFileFrom visits is appended to a fresh file that starts with [r_npre]
   (what VolumeFileScanner4Vacuum.VisitNeedle does, without its needle-map/TTL filters - or
   the real Volume.Compact + CommitCompact when [r_npre] is the bumped super block) *)
Record recopy := {
  r_rec : N; r_pos : N; r_mask : N;
  r_npre : list N;
  r_file : list N;                   (* the copy *)
  r_index : list (N * N);            (* per visit: (new offset, n.Size) as put into the new index *)
  r_reads : list (dneedle * N)       (* ReadData of every index entry in the copy *)
}.

(* the scan of the file truncated to [t_len] bytes *)
Record tscan := { t_len : N; t_visits : list (dneedle * N) }.

(* ReadData(offset, size) on the file as it is *)
Record rawread := { w_off : N; w_size : N; w_res : dneedle * N }.

(* ---------- the other writers and readers of records (model/NeedleStream.v) ---------- *)
(* one write into a real storage.Volume (version 3):
     vw_stream = true   Volume.StreamWrite(n, reader, vw_ds): vw_needle carries cookie, id, the
                        flags byte, data = ALL the bytes the reader holds (io.LimitReader keeps
                        the first vw_ds), append_at_ns as StreamWrite set it; vw_chunks = the
                        sizes of the pieces the reader handed out (= the Write calls the CRC
                        writer saw)
     vw_stream = false  the volume's normal write (Store.WriteVolumeNeedle -> Needle.Append);
                        vw_needle as passed, append_at_ns as the volume set it *)
Record vwrite := {
  vw_stream : bool;
  vw_needle : needle;
  vw_ds : N;
  vw_chunks : list N;
  vw_crc : N;                  (* Go's NewCRC of the data that were to be stored *)
  vw_entry : N * N             (* the needle map entry after the write: offset, size *)
}.

(* one byte of the .dat xor-ed: ReadData status and CRC of what it decoded; StreamRead output *)
Record sflip := {
  sf_rec : N; sf_pos : N; sf_mask : N;
  sf_status : N; sf_crc : N;
  sf_sread : list N; sf_serr : bool
}.

Record scase := {
  s_sb : list N;                       (* the super block the volume wrote *)
  s_writes : list vwrite;
  s_file : list N;                     (* the .dat after the writes *)
  s_reads : list (dneedle * N);        (* ReadData at every map entry *)
  s_sreads : list (list N * bool);     (* Volume.StreamRead of every id: bytes handed to the writer, error? *)
  s_do_scan : bool;
  s_scan : list (dneedle * N);         (* ScanVolumeFileFrom(8) *)
  s_flips : list sflip;
  (* every record copied as a raw blob into a second volume: Volume.ReadNeedleBlob ->
     Volume.WriteNeedleBlob; empty lists when not done *)
  s_copy_sb : list N;
  s_copy_ts : list N;                  (* the timestamps the second volume stamped *)
  s_copy_file : list N;
  s_copy_reads : list (dneedle * N)
}.

Record case := {
  c_version : N;
  c_prefix : list N;                 (* bytes in the file before the first Append *)
  c_needles : list needle;           (* appended in this order *)
  c_crcs : list N;                   (* Go's NewCRC(data) of each needle, raw *)
  c_crc_empty : N;                   (* Go's NewCRC(nil) *)
  c_crc_extra : list (list N * N);   (* Go's NewCRC of any other byte string it decoded as data *)
  c_flips : list flip;
  c_do_scan : bool;                  (* false for files holding an out-of-contract record (not record-aligned) *)
  c_scan_off : N;                    (* where the scans start (the end of the super block) *)
  c_recopies : list recopy;
  c_tscans : list tscan;
  c_raws : list rawread;
  i_scan_panicked : bool;            (* the full scan ended in a run-time panic *)
  i_file : list N;                   (* file content after the appends *)
  i_appends : list (N * N * N);      (* Append results: offset, size (= DataSize), actualSize *)
  i_reads : list (dneedle * N);      (* ReadData(offset_i, n_i.Size): needle fields, status code *)
  i_scan : list (dneedle * N);       (* ScanVolumeFileFrom(prefix length): visited needle, offset *)
  c_streams : list scase             (* writes through a real volume: StreamWrite / normal write / raw blob copy *)
}.

(* ---------- the checksum ---------- *)
Definition crc := crc32c.

Fixpoint all2 {A B} (f : A -> B -> bool) (l1 : list A) (l2 : list B) : bool :=
  match l1, l2 with
  | [], [] => true
  | x :: l1', y :: l2' => f x y && all2 f l1' l2'
  | _, _ => false
  end.

(* crc32c against every value the Go library produced in this case *)
Definition crc_ok (c : case) : bool :=
  (crc [] =? c_crc_empty c)
  && all2 (fun n k => crc (data n) =? k) (c_needles c) (c_crcs c)
  && forallb (fun p => crc (fst p) =? snd p) (c_crc_extra c).

(* ---------- model side ---------- *)
Definition m_file (c : case) : list N :=
  c_prefix c ++ concat (map (encode (c_version c)) (c_needles c)).

(* Append: offset = end of file, size = DataSize, actualSize = GetActualSize(n.Size) *)
Fixpoint m_appends (v : N) (ns : list needle) (off : N) : list (N * N * N) :=
  match ns with
  | [] => []
  | n :: ns' => (off, data_size n, actual_size (body_size n) v) :: m_appends v ns' (off + len (encode v n))
  end.

Definition rd (v : N) (file : list N) (off size : N) : dneedle * N :=
  let '(d, s) := read_data crc file off size v in (d, status_code s).

Fixpoint m_reads (v : N) (file : list N) (ns : list needle) (off : N) : list (dneedle * N) :=
  match ns with
  | [] => []
  | n :: ns' => rd v file off (body_size n) :: m_reads v file ns' (off + len (encode v n))
  end.

Definition dn_eqb (a b : dneedle * N) : bool := dneedle_eqb (fst a) (fst b) && (snd a =? snd b).
Definition triple_eqb (a b : N * N * N) : bool :=
  let '(a1, a2, a3) := a in let '(b1, b2, b3) := b in (a1 =? b1) && (a2 =? b2) && (a3 =? b3).
Definition pair_eqb (a b : N * N) : bool := (fst a =? fst b) && (snd a =? snd b).

(* [mf] = m_file c and [apps] = m_appends ..., computed once per case.  Status AND the CRC of
   whatever data the damaged record decoded to. *)
Definition m_flip (c : case) (mf : list N) (apps : list (N * N * N)) (f : flip) : bool :=
  let v := c_version c in
  let i := N.to_nat (f_rec f) in
  let n := nth i (c_needles c) empty_needle in
  let '(off, _, _) := nth i apps (0, 0, 0) in
  let '(d, s) := read_data crc (flip_byte mf (f_pos f) (f_mask f)) off (body_size n) v in
  (status_code s =? f_status f) && (crc (data (d_n d)) =? f_crc f).

Definition damaged (mf : list N) (pos mask : N) : list N :=
  if mask =? 0 then mf else flip_byte mf pos mask.

Definition m_recopy (c : case) (mf : list N) (r : recopy) : bool :=
  let v := c_version c in
  let visits := scan crc v (damaged mf (r_pos r) (r_mask r)) (c_scan_off c) in
  let dst := r_npre r ++ copy_bytes v visits in
  let idx := copy_entries v visits (len (r_npre r)) in
  bytes_eqb dst (r_file r) && all2 pair_eqb idx (r_index r)
  && all2 dn_eqb (map (fun e => rd v dst (fst e) (snd e)) idx) (r_reads r).

Definition m_tscan (c : case) (mf : list N) (t : tscan) : bool :=
  all2 dn_eqb (scan crc (c_version c) (takeN (t_len t) mf) (c_scan_off c)) (t_visits t).

Definition m_raw (c : case) (mf : list N) (w : rawread) : bool :=
  dn_eqb (rd (c_version c) mf (w_off w) (w_size w)) (w_res w).

(* ---------- the property's oracle, on the implementation's observables ---------- *)
(* the needles the property speaks about: what CreateNeedleFromRequest can produce *)
Definition in_domain (n : needle) : bool :=
  (len (name n) <=? 255) && (len (mime n) <=? 255) && (last_modified n <? 1099511627776)
  && (negb (has_ttl n) || match ttl n with Some _ => true | None => false end)
  && (negb (has_pairs n) || ((pairs_size n =? len (pairs n)) && (pairs_size n <? 65536))).

Definition empty_data (n : needle) : bool := match data n with [] => true | _ => false end.

(* alignment: every record length is a multiple of 8, records are laid out back to back
   starting at the end of the prefix, and the file ends with the last record *)
Fixpoint p_layout (apps : list (N * N * N)) (off : N) (file_len : N) : bool :=
  match apps with
  | [] => off =? file_len
  | (o, _, a) :: apps' => (o =? off) && (a mod 8 =? 0) && p_layout apps' (off + a) file_len
  end.

(* round trip: ReadData returns the written blob *)
Definition p_read (v : N) (n : needle) (r : dneedle * N) : bool :=
  (snd r =? 0) && dneedle_eqb (fst r) (dview v n).

(* per record: (a read of a record WITH payload is wrong, a read of a record WITHOUT payload
   is wrong); a missing or surplus read counts as the first *)
Fixpoint read_viol (v : N) (ns : list needle) (rs : list (dneedle * N)) : bool * bool :=
  match ns, rs with
  | [], [] => (false, false)
  | n :: ns', r :: rs' =>
      let '(a, b) := read_viol v ns' rs' in
      if p_read v n r then (a, b) else if empty_data n then (a, true) else (true, b)
  | _, _ => (true, false)
  end.

(* scan: one visit per record, at the offset Append returned, with the right identity; and the
   written blob when there is a payload *)
Definition p_visit (v : N) (n : needle) (a : N * N * N) (s : dneedle * N) : bool :=
  let '(o, _, _) := a in
  (snd s =? o) && (id (d_n (fst s)) =? id n) && (cookie (d_n (fst s)) =? cookie n)
  && (empty_data n || dneedle_eqb (fst s) (dview v n)).

Fixpoint all3 {A B C} (f : A -> B -> C -> bool) (l1 : list A) (l2 : list B) (l3 : list C) : bool :=
  match l1, l2, l3 with
  | [], [], [] => true
  | x :: l1', y :: l2', z :: l3' => f x y z && all3 f l1' l2' l3'
  | _, _, _ => false
  end.

(* is the byte at [pos] a data byte of record [i] (with payload, non-zero mask)? *)
Definition in_data (c : case) (i pos mask : N) : bool :=
  let n := nth (N.to_nat i) (c_needles c) empty_needle in
  let '(o, _, _) := nth (N.to_nat i) (i_appends c) (0, 0, 0) in
  let lo := o + 20 in
  (lo <=? pos) && (pos <? lo + len (data n)) && negb (mask =? 0).

(* a flip inside the data region of its record must be reported as a CRC error *)
Definition p_flip (c : case) (f : flip) : bool :=
  if in_data c (f_rec f) (f_pos f) (f_mask f) then f_status f =? 2 else true.

(* a scan on a torn file: the records that are completely there are visited as in the whole
   file, and at most one more visit follows (the torn record, header only) *)
Definition complete_before (apps : list (N * N * N)) (L : N) : nat :=
  length (filter (fun a => let '(o, _, sz) := a in o + sz <=? L) apps).

Definition p_tscan (c : case) (t : tscan) : bool :=
  let k := complete_before (i_appends c) (t_len t) in
  all2 dn_eqb (firstn k (t_visits t)) (firstn k (i_scan c))
  && Nat.leb (length (t_visits t)) (S k).

(* a copy of the UNDAMAGED file holds the same records: same bytes after the new prefix, and
   every record with payload reads back as written *)
Definition p_copy_clean (c : case) (r : recopy) : bool :=
  bytes_eqb (r_file r) (r_npre r ++ dropN (c_scan_off c) (i_file c))
  && (let '(a, _) := read_viol (c_version c) (c_needles c) (r_reads r) in negb a).

(* a copy of a file with an altered data byte must not hand that record back as valid *)
Definition laundered (c : case) (r : recopy) : bool :=
  let n := nth (N.to_nat (r_rec r)) (c_needles c) empty_needle in
  let rd := nth (N.to_nat (r_rec r)) (r_reads r) (empty_dneedle, 1) in
  (snd rd =? 0) && negb (bytes_eqb (data (d_n (fst rd))) (data n)).

(* ---------- stream cases: model side ---------- *)
Definition vw_data (w : vwrite) : list N :=
  if vw_stream w then takeN (vw_ds w) (data (vw_needle w)) else data (vw_needle w).

(* the bytes one write appends *)
Definition m_vrec (w : vwrite) : list N :=
  let n := vw_needle w in
  if vw_stream w
  then stream_encode crc32c_update (cookie n) (id n) (flags n) (vw_ds w)
                     (chunks_of (vw_chunks w) (vw_data w)) (append_at_ns n)
  else encode 3 n.

Definition m_vsize (w : vwrite) : N :=
  if vw_stream w then stream_size (vw_ds w) else body_size (vw_needle w).

Fixpoint m_ventries (ws : list vwrite) (off : N) : list (N * N) :=
  match ws with
  | [] => []
  | w :: ws' => (off, m_vsize w) :: m_ventries ws' (off + len (m_vrec w))
  end.

Definition m_sfile (s : scase) : list N := s_sb s ++ concat (map m_vrec (s_writes s)).

Definition bytes_bool_eqb (a b : list N * bool) : bool :=
  bytes_eqb (fst a) (fst b) && Bool.eqb (snd a) (snd b).

Definition m_sflip (mf : list N) (ents : list (N * N)) (f : sflip) : bool :=
  let '(off, size) := nth (N.to_nat (sf_rec f)) ents (0, 0) in
  let bad := flip_byte mf (sf_pos f) (sf_mask f) in
  let '(d, st) := read_data crc bad off size 3 in
  (status_code st =? sf_status f) && (crc (data (d_n d)) =? sf_crc f)
  && bytes_eqb (stream_read bad off) (sf_sread f) && negb (sf_serr f).

(* the raw-blob copy: ReadNeedleBlob(offset, size) of every record, WriteNeedleBlob into a
   fresh volume *)
Fixpoint m_copy_recs (mf : list N) (ents : list (N * N)) (tss : list N) : list (list N) :=
  match ents, tss with
  | (off, size) :: ents', ts :: tss' =>
      restamp (takeN (actual_size size 3) (dropN off mf)) size ts 3 :: m_copy_recs mf ents' tss'
  | _, _ => []
  end.

Fixpoint m_copy_entries (recs : list (list N)) (ents : list (N * N)) (off : N) : list (N * N) :=
  match recs, ents with
  | r :: recs', (_, size) :: ents' => (off, size) :: m_copy_entries recs' ents' (off + len r)
  | _, _ => []
  end.

Definition m_stream (s : scase) : bool :=
  let mf := m_sfile s in
  let ents := m_ventries (s_writes s) (len (s_sb s)) in
  bytes_eqb mf (s_file s)
  && all2 pair_eqb ents (map vw_entry (s_writes s))
  && forallb (fun w => (crc (vw_data w) =? vw_crc w)
                       && (negb (vw_stream w) || (fold_left N.add (vw_chunks w) 0 =? len (vw_data w)))) (s_writes s)
  && all2 dn_eqb (map (fun e => rd 3 mf (fst e) (snd e)) ents) (s_reads s)
  && all2 bytes_bool_eqb (map (fun e => (stream_read mf (fst e), false)) ents) (s_sreads s)
  && (if s_do_scan s then all2 dn_eqb (scan crc 3 mf (len (s_sb s))) (s_scan s) else true)
  && forallb (m_sflip mf ents) (s_flips s)
  && (match s_copy_file s with
      | [] => true
      | _ =>
          let recs := m_copy_recs mf ents (s_copy_ts s) in
          let cf := s_copy_sb s ++ concat recs in
          bytes_eqb cf (s_copy_file s)
          && (length recs =? length ents)%nat
          && all2 dn_eqb (map (fun e => rd 3 cf (fst e) (snd e)) (m_copy_entries recs ents (len (s_copy_sb s))))
                  (s_copy_reads s)
      end).

(* ---------- stream cases: the property's oracle, on the implementation's observables ---------- *)
(* what a reader is entitled to get back from a write *)
Definition vw_expect (w : vwrite) : dneedle :=
  let n := vw_needle w in
  if vw_stream w
  then stream_dneedle (cookie n) (id n) (flags n) (vw_data w) (vw_crc w) (append_at_ns n)
  else dview 3 n.

(* the same but for the append timestamp (a raw-blob copy is re-stamped) *)
Definition d_restamped (d : dneedle) (ts : N) : dneedle := d_upd d (fun n => n_set_append n ts).

Fixpoint sp_layout (es : list (N * N)) (off : N) (file_len : N) : bool :=
  match es with
  | [] => off =? file_len
  | (o, sz) :: es' => (o =? off) && (actual_size sz 3 mod 8 =? 0) && sp_layout es' (off + actual_size sz 3) file_len
  end.

Definition sp_visit (w : vwrite) (s : dneedle * N) : bool :=
  (snd s =? fst (vw_entry w)) && dneedle_eqb (fst s) (vw_expect w).

(* is [pos] a data byte of write [i]? *)
Definition s_in_data (s : scase) (i pos mask : N) : bool :=
  let w := nth (N.to_nat i) (s_writes s) {| vw_stream := false; vw_needle := empty_needle; vw_ds := 0; vw_chunks := []; vw_crc := 0; vw_entry := (0, 0) |} in
  let lo := fst (vw_entry w) + 20 in
  (lo <=? pos) && (pos <? lo + len (vw_data w)) && negb (mask =? 0).

Definition s_written_sread (s : scase) (i : N) : list N :=
  let w := nth (N.to_nat i) (s_writes s) {| vw_stream := false; vw_needle := empty_needle; vw_ds := 0; vw_chunks := []; vw_crc := 0; vw_entry := (0, 0) |} in
  be_encode 4 (len (vw_data w)) ++ vw_data w.

(* violations other than finding 2 *)
Definition s_other (s : scase) : bool :=
  let ws := s_writes s in
  negb (sp_layout (map vw_entry ws) (len (s_sb s)) (len (s_file s)))
  (* round trip: ReadData returns the written blob *)
  || negb (all2 (fun w r => (snd r =? 0) && dneedle_eqb (fst r) (vw_expect w)) ws (s_reads s))
  (* StreamRead of an undamaged record: DataSize and the data, no error *)
  || negb (all2 (fun w r => bytes_eqb (fst r) (be_encode 4 (len (vw_data w)) ++ vw_data w) && negb (snd r)) ws (s_sreads s))
  || (if s_do_scan s then negb (all2 sp_visit ws (s_scan s)) else false)
  (* an altered data byte must be reported by ReadData *)
  || existsb (fun f => s_in_data s (sf_rec f) (sf_pos f) (sf_mask f) && negb (sf_status f =? 2)) (s_flips s)
  (* a raw-blob copy decodes to the same blob, re-stamped *)
  || (match s_copy_file s with
      | [] => false
      | _ => negb (all3 (fun w ts r => (snd r =? 0) && dneedle_eqb (fst r) (d_restamped (vw_expect w) ts))
                        ws (s_copy_ts s) (s_copy_reads s))
      end).

(* finding 2: StreamRead hands out altered data bytes without an error *)
Definition s_k2 (s : scase) : bool :=
  existsb (fun f => s_in_data s (sf_rec f) (sf_pos f) (sf_mask f) && negb (sf_serr f)
                    && negb (bytes_eqb (sf_sread f) (s_written_sread s (sf_rec f)))) (s_flips s).

(* claims are made for writes inside the property's domain only (normal writes: in_domain and
   a payload; stream writes: the reader delivers at least dataSize bytes) *)
Definition s_claims (s : scase) : bool :=
  forallb (fun w => if vw_stream w then vw_ds w <=? len (data (vw_needle w))
                    else in_domain (vw_needle w) && negb (empty_data (vw_needle w))) (s_writes s).

Definition check (c : case) : outcome :=
  let v := c_version c in
  let mf := m_file c in
  let start := len (c_prefix c) in
  let apps := m_appends v (c_needles c) start in
  (* outside the property's domain nothing is claimed; neither for the hand-framed files
     (no needle was written by the writer: correspondence only) *)
  let claims := forallb in_domain (c_needles c) && negb (match c_needles c with [] => true | _ => false end) in
  let '(rv_other, rv_empty) := read_viol v (c_needles c) (i_reads c) in
  let other :=
        negb (p_layout (i_appends c) start (len (i_file c)))
        || rv_other
        || (if c_do_scan c then negb (all3 (p_visit v) (c_needles c) (i_appends c) (i_scan c)) else false)
        || negb (forallb (p_flip c) (c_flips c))
        || negb (forallb (p_tscan c) (c_tscans c))
        || existsb (fun r => (r_mask r =? 0) && negb (p_copy_clean c r)) (c_recopies c) in
  let k0 := rv_empty in
  let k1 := existsb (fun r => in_data c (r_rec r) (r_pos r) (r_mask r) && laundered c r) (c_recopies c) in
  let claimed := filter s_claims (c_streams c) in
  let sother := existsb s_other claimed in
  let k2 := existsb s_k2 claimed in
  {| o_corr :=
       crc_ok c
       && bytes_eqb mf (i_file c)
       && all2 triple_eqb apps (i_appends c)
       && all2 dn_eqb (m_reads v mf (c_needles c) start) (i_reads c)
       && (if c_do_scan c
           then all2 dn_eqb (scan crc v mf (c_scan_off c)) (i_scan c)
                && Bool.eqb (scan_panics v mf (c_scan_off c)) (i_scan_panicked c)
           else true)
       && forallb (m_flip c mf apps) (c_flips c)
       && forallb (m_recopy c mf) (c_recopies c)
       && forallb (m_tscan c mf) (c_tscans c)
       && forallb (m_raw c mf) (c_raws c)
       && forallb m_stream (c_streams c);
     o_prop := (negb claims || negb (other || k0 || k1)) && negb (sother || k2);
     (* narrow triggers: a violation that is neither "metadata of an empty payload lost" nor
        "altered data came back valid from a scan-based copy" nor "StreamRead handed out an
        altered data byte" is never excused *)
     o_trig := if other || sother then None else if k0 then Some 0 else if k1 then Some 1
               else if k2 then Some 2 else None;
     o_nontrivial :=
       existsb (fun r => (snd r =? 0) && negb (empty_data (d_n (fst r)))) (i_reads c)
       || existsb (fun w => (snd (w_res w) =? 0) && negb (empty_data (d_n (fst (w_res w))))) (c_raws c)
       || existsb (fun s => existsb (fun r => (snd r =? 0) && negb (empty_data (d_n (fst r)))) (s_reads s)) (c_streams c) |}.

Definition summarize_cases (l : list case) : summary := summarize check l.
