(* Correspondence check for C02: needles appended by the real Needle.Append to a
   backend.DiskFile after a prefix (super block), then read back with Needle.ReadData, scanned
   with ScanVolumeFileFrom (whole and truncated), read again after byte flips, and copied by
   a scan (the way Volume.Compact does) from the undamaged and from a damaged file; plus
   hand-framed records with arbitrary bodies (a foreign / damaged writer).
   The checksum is the Gallina [crc32c] of model/NeedleCrc.v; every CRC value Go computed for
   a byte string of the case is compared with it. *)
From Coq Require Import List NArith ZArith Bool.
From Coq Require Export Uint63.   (* exported: cases.v uses %uint63 literals *)
From SW Require Export base.Verdict model.Needle model.NeedleCrc.
Import ListNotations.
Local Open Scope N_scope.

(* byte strings arrive packed: each chunk is a primitive 63-bit integer whose base-256 digits
   are 1 followed by up to 7 bytes (parsing a plain [list N] literal costs coqc about a
   millisecond per byte; primitive integer literals are the cheapest to read) *)
Definition byte_of_int (x : Uint63.int) : N := Z.to_N (Uint63.to_Z x).
Fixpoint unchunk (fuel : nat) (x : Uint63.int) (acc : list N) : list N :=
  match fuel with
  | O => acc
  | S f => if Uint63.leb x 1%uint63 then acc   (* the leading "1" *)
           else unchunk f (Uint63.lsr x 8%uint63) (byte_of_int (Uint63.land x 255%uint63) :: acc)
  end.
Definition unpack (cs : list Uint63.int) : list N := flat_map (fun c => unchunk 8 c []) cs.

(* one byte flip: record index, absolute byte position in the file, xor mask, the raw CRC Go
   computed over the data it decoded from the altered record (0 if it did not get that far),
   and the status class ReadData returned *)
Record flip := { f_rec : N; f_pos : N; f_mask : N; f_crc : N; f_status : N }.

(* a scan-based copy of the file (with one byte xor-ed first; mask 0 = undamaged file): every
   needle ScanVolumeFileFrom visits is appended to a fresh file that starts with [r_npre]
   (what VolumeFileScanner4Vacuum.VisitNeedle does, without its needle-map/TTL filters - or
   the real Volume.Compact + CommitCompact when [r_npre] is the bumped super block) *)
Record recopy := {
  r_rec : N; r_pos : N; r_mask : N;
  r_npre : list N;
  r_file : list N;                   (* the copy *)
  r_index : list (N * N);            (* per visit: (new offset, n.Size) as put into the new index *)
  r_reads : list (dneedle * N)       (* ReadData of every index entry in the copy *)
}.

(* the scan of the file truncated to [t_len] bytes *)
Record tscan := { t_len : N; t_visits : list (dneedle * N) }.

(* ReadData(offset, size) on the file as it is *)
Record rawread := { w_off : N; w_size : N; w_res : dneedle * N }.

Record case := {
  c_version : N;
  c_prefix : list N;                 (* bytes in the file before the first Append *)
  c_needles : list needle;           (* appended in this order *)
  c_crcs : list N;                   (* Go's NewCRC(data) of each needle, raw *)
  c_crc_empty : N;                   (* Go's NewCRC(nil) *)
  c_crc_extra : list (list N * N);   (* Go's NewCRC of any other byte string it decoded as data *)
  c_flips : list flip;
  c_do_scan : bool;                  (* false for files holding an out-of-contract record (not record-aligned) *)
  c_scan_off : N;                    (* where the scans start (the end of the super block) *)
  c_recopies : list recopy;
  c_tscans : list tscan;
  c_raws : list rawread;
  i_scan_panicked : bool;            (* the full scan ended in a run-time panic *)
  i_file : list N;                   (* file content after the appends *)
  i_appends : list (N * N * N);      (* Append results: offset, size (= DataSize), actualSize *)
  i_reads : list (dneedle * N);      (* ReadData(offset_i, n_i.Size): needle fields, status code *)
  i_scan : list (dneedle * N)        (* ScanVolumeFileFrom(prefix length): visited needle, offset *)
}.

(* ---------- the checksum ---------- *)
Definition crc := crc32c.

Fixpoint all2 {A B} (f : A -> B -> bool) (l1 : list A) (l2 : list B) : bool :=
  match l1, l2 with
  | [], [] => true
  | x :: l1', y :: l2' => f x y && all2 f l1' l2'
  | _, _ => false
  end.

(* crc32c against every value the Go library produced in this case *)
Definition crc_ok (c : case) : bool :=
  (crc [] =? c_crc_empty c)
  && all2 (fun n k => crc (data n) =? k) (c_needles c) (c_crcs c)
  && forallb (fun p => crc (fst p) =? snd p) (c_crc_extra c).

(* ---------- model side ---------- *)
Definition m_file (c : case) : list N :=
  c_prefix c ++ concat (map (encode (c_version c)) (c_needles c)).

(* Append: offset = end of file, size = DataSize, actualSize = GetActualSize(n.Size) *)
Fixpoint m_appends (v : N) (ns : list needle) (off : N) : list (N * N * N) :=
  match ns with
  | [] => []
  | n :: ns' => (off, data_size n, actual_size (body_size n) v) :: m_appends v ns' (off + len (encode v n))
  end.

Definition rd (v : N) (file : list N) (off size : N) : dneedle * N :=
  let '(d, s) := read_data crc file off size v in (d, status_code s).

Fixpoint m_reads (v : N) (file : list N) (ns : list needle) (off : N) : list (dneedle * N) :=
  match ns with
  | [] => []
  | n :: ns' => rd v file off (body_size n) :: m_reads v file ns' (off + len (encode v n))
  end.

Definition dn_eqb (a b : dneedle * N) : bool := dneedle_eqb (fst a) (fst b) && (snd a =? snd b).
Definition triple_eqb (a b : N * N * N) : bool :=
  let '(a1, a2, a3) := a in let '(b1, b2, b3) := b in (a1 =? b1) && (a2 =? b2) && (a3 =? b3).
Definition pair_eqb (a b : N * N) : bool := (fst a =? fst b) && (snd a =? snd b).

(* [mf] = m_file c and [apps] = m_appends ..., computed once per case.  Status AND the CRC of
   whatever data the damaged record decoded to. *)
Definition m_flip (c : case) (mf : list N) (apps : list (N * N * N)) (f : flip) : bool :=
  let v := c_version c in
  let i := N.to_nat (f_rec f) in
  let n := nth i (c_needles c) empty_needle in
  let '(off, _, _) := nth i apps (0, 0, 0) in
  let '(d, s) := read_data crc (flip_byte mf (f_pos f) (f_mask f)) off (body_size n) v in
  (status_code s =? f_status f) && (crc (data (d_n d)) =? f_crc f).

Definition damaged (mf : list N) (pos mask : N) : list N :=
  if mask =? 0 then mf else flip_byte mf pos mask.

Definition m_recopy (c : case) (mf : list N) (r : recopy) : bool :=
  let v := c_version c in
  let visits := scan crc v (damaged mf (r_pos r) (r_mask r)) (c_scan_off c) in
  let dst := r_npre r ++ copy_bytes v visits in
  let idx := copy_entries v visits (len (r_npre r)) in
  bytes_eqb dst (r_file r) && all2 pair_eqb idx (r_index r)
  && all2 dn_eqb (map (fun e => rd v dst (fst e) (snd e)) idx) (r_reads r).

Definition m_tscan (c : case) (mf : list N) (t : tscan) : bool :=
  all2 dn_eqb (scan crc (c_version c) (takeN (t_len t) mf) (c_scan_off c)) (t_visits t).

Definition m_raw (c : case) (mf : list N) (w : rawread) : bool :=
  dn_eqb (rd (c_version c) mf (w_off w) (w_size w)) (w_res w).

(* ---------- the property's oracle, on the implementation's observables ---------- *)
(* the needles the property speaks about: what CreateNeedleFromRequest can produce *)
Definition in_domain (n : needle) : bool :=
  (len (name n) <=? 255) && (len (mime n) <=? 255) && (last_modified n <? 1099511627776)
  && (negb (has_ttl n) || match ttl n with Some _ => true | None => false end)
  && (negb (has_pairs n) || ((pairs_size n =? len (pairs n)) && (pairs_size n <? 65536))).

Definition empty_data (n : needle) : bool := match data n with [] => true | _ => false end.

(* alignment: every record length is a multiple of 8, records are laid out back to back
   starting at the end of the prefix, and the file ends with the last record *)
Fixpoint p_layout (apps : list (N * N * N)) (off : N) (file_len : N) : bool :=
  match apps with
  | [] => off =? file_len
  | (o, _, a) :: apps' => (o =? off) && (a mod 8 =? 0) && p_layout apps' (off + a) file_len
  end.

(* round trip: ReadData returns the written blob *)
Definition p_read (v : N) (n : needle) (r : dneedle * N) : bool :=
  (snd r =? 0) && dneedle_eqb (fst r) (dview v n).

(* per record: (a read of a record WITH payload is wrong, a read of a record WITHOUT payload
   is wrong); a missing or surplus read counts as the first *)
Fixpoint read_viol (v : N) (ns : list needle) (rs : list (dneedle * N)) : bool * bool :=
  match ns, rs with
  | [], [] => (false, false)
  | n :: ns', r :: rs' =>
      let '(a, b) := read_viol v ns' rs' in
      if p_read v n r then (a, b) else if empty_data n then (a, true) else (true, b)
  | _, _ => (true, false)
  end.

(* scan: one visit per record, at the offset Append returned, with the right identity; and the
   written blob when there is a payload *)
Definition p_visit (v : N) (n : needle) (a : N * N * N) (s : dneedle * N) : bool :=
  let '(o, _, _) := a in
  (snd s =? o) && (id (d_n (fst s)) =? id n) && (cookie (d_n (fst s)) =? cookie n)
  && (empty_data n || dneedle_eqb (fst s) (dview v n)).

Fixpoint all3 {A B C} (f : A -> B -> C -> bool) (l1 : list A) (l2 : list B) (l3 : list C) : bool :=
  match l1, l2, l3 with
  | [], [], [] => true
  | x :: l1', y :: l2', z :: l3' => f x y z && all3 f l1' l2' l3'
  | _, _, _ => false
  end.

(* is the byte at [pos] a data byte of record [i] (with payload, non-zero mask)? *)
Definition in_data (c : case) (i pos mask : N) : bool :=
  let n := nth (N.to_nat i) (c_needles c) empty_needle in
  let '(o, _, _) := nth (N.to_nat i) (i_appends c) (0, 0, 0) in
  let lo := o + 20 in
  (lo <=? pos) && (pos <? lo + len (data n)) && negb (mask =? 0).

(* a flip inside the data region of its record must be reported as a CRC error *)
Definition p_flip (c : case) (f : flip) : bool :=
  if in_data c (f_rec f) (f_pos f) (f_mask f) then f_status f =? 2 else true.

(* a scan on a torn file: the records that are completely there are visited as in the whole
   file, and at most one more visit follows (the torn record, header only) *)
Definition complete_before (apps : list (N * N * N)) (L : N) : nat :=
  length (filter (fun a => let '(o, _, sz) := a in o + sz <=? L) apps).

Definition p_tscan (c : case) (t : tscan) : bool :=
  let k := complete_before (i_appends c) (t_len t) in
  all2 dn_eqb (firstn k (t_visits t)) (firstn k (i_scan c))
  && Nat.leb (length (t_visits t)) (S k).

(* a copy of the UNDAMAGED file holds the same records: same bytes after the new prefix, and
   every record with payload reads back as written *)
Definition p_copy_clean (c : case) (r : recopy) : bool :=
  bytes_eqb (r_file r) (r_npre r ++ dropN (c_scan_off c) (i_file c))
  && (let '(a, _) := read_viol (c_version c) (c_needles c) (r_reads r) in negb a).

(* a copy of a file with an altered data byte must not hand that record back as valid *)
Definition laundered (c : case) (r : recopy) : bool :=
  let n := nth (N.to_nat (r_rec r)) (c_needles c) empty_needle in
  let rd := nth (N.to_nat (r_rec r)) (r_reads r) (empty_dneedle, 1) in
  (snd rd =? 0) && negb (bytes_eqb (data (d_n (fst rd))) (data n)).

Definition check (c : case) : outcome :=
  let v := c_version c in
  let mf := m_file c in
  let start := len (c_prefix c) in
  let apps := m_appends v (c_needles c) start in
  (* outside the property's domain nothing is claimed; neither for the hand-framed files
     (no needle was written by the writer: correspondence only) *)
  let claims := forallb in_domain (c_needles c) && negb (match c_needles c with [] => true | _ => false end) in
  let '(rv_other, rv_empty) := read_viol v (c_needles c) (i_reads c) in
  let other :=
        negb (p_layout (i_appends c) start (len (i_file c)))
        || rv_other
        || (if c_do_scan c then negb (all3 (p_visit v) (c_needles c) (i_appends c) (i_scan c)) else false)
        || negb (forallb (p_flip c) (c_flips c))
        || negb (forallb (p_tscan c) (c_tscans c))
        || existsb (fun r => (r_mask r =? 0) && negb (p_copy_clean c r)) (c_recopies c) in
  let k0 := rv_empty in
  let k1 := existsb (fun r => in_data c (r_rec r) (r_pos r) (r_mask r) && laundered c r) (c_recopies c) in
  {| o_corr :=
       crc_ok c
       && bytes_eqb mf (i_file c)
       && all2 triple_eqb apps (i_appends c)
       && all2 dn_eqb (m_reads v mf (c_needles c) start) (i_reads c)
       && (if c_do_scan c
           then all2 dn_eqb (scan crc v mf (c_scan_off c)) (i_scan c)
                && Bool.eqb (scan_panics v mf (c_scan_off c)) (i_scan_panicked c)
           else true)
       && forallb (m_flip c mf apps) (c_flips c)
       && forallb (m_recopy c mf) (c_recopies c)
       && forallb (m_tscan c mf) (c_tscans c)
       && forallb (m_raw c mf) (c_raws c);
     o_prop := negb claims || negb (other || k0 || k1);
     (* narrow triggers: a violation that is neither "metadata of an empty payload lost" nor
        "altered data came back valid from a scan-based copy" is never excused *)
     o_trig := if other then None else if k0 then Some 0 else if k1 then Some 1 else None;
     o_nontrivial :=
       existsb (fun r => (snd r =? 0) && negb (empty_data (d_n (fst r)))) (i_reads c)
       || existsb (fun w => (snd (w_res w) =? 0) && negb (empty_data (d_n (fst (w_res w))))) (c_raws c) |}.

Definition summarize_cases (l : list case) : summary := summarize check l.
