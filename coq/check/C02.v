(* Correspondence check for C02: needles appended by the real Needle.Append to a
   backend.DiskFile after a prefix (super block), then read back with Needle.ReadData, scanned
   with ScanVolumeFileFrom, and read again after single-bit flips. *)
From Coq Require Import List NArith ZArith Bool.
From Coq Require Export Uint63.   (* exported: cases.v uses %uint63 literals *)
From SW Require Export base.Verdict model.Needle.
Import ListNotations.
Local Open Scope N_scope.

(* byte strings arrive packed: each chunk is a primitive 63-bit integer whose base-256 digits
   are 1 followed by up to 7 bytes (parsing a plain [list N] literal costs coqc about a
   millisecond per byte; primitive integer literals are the cheapest to read) *)
Definition byte_of_int (x : Uint63.int) : N := Z.to_N (Uint63.to_Z x).
Fixpoint unchunk (fuel : nat) (x : Uint63.int) (acc : list N) : list N :=
  match fuel with
  | O => acc
  | S f => if Uint63.leb x 1%uint63 then acc   (* the leading "1" *)
           else unchunk f (Uint63.lsr x 8%uint63) (byte_of_int (Uint63.land x 255%uint63) :: acc)
  end.
Definition unpack (cs : list Uint63.int) : list N := flat_map (fun c => unchunk 8 c []) cs.

(* one bit flip: record index, absolute byte position in the file, xor mask, the raw CRC Go
   computed over the data it decoded from the altered record (0 if it did not get that far),
   and the status class ReadData returned *)
Record flip := { f_rec : N; f_pos : N; f_mask : N; f_crc : N; f_status : N }.

Record case := {
  c_version : N;
  c_prefix : list N;                 (* bytes in the file before the first Append *)
  c_needles : list needle;           (* appended in this order *)
  c_crcs : list N;                   (* oracle: NewCRC(data) of each needle, raw *)
  c_crc_empty : N;                   (* oracle: NewCRC(nil) *)
  c_crc_extra : list (list N * N);   (* oracle: NewCRC of any other byte string Go decoded as data *)
  c_flips : list flip;
  c_do_scan : bool;                  (* false for files holding an out-of-contract record (not record-aligned) *)
  i_file : list N;                   (* file content after the appends *)
  i_appends : list (N * N * N);      (* Append results: offset, size (= DataSize), actualSize *)
  i_reads : list (dneedle * N);      (* ReadData(offset_i, n_i.Size): needle fields, status code *)
  i_scan : list (dneedle * N)        (* ScanVolumeFileFrom(prefix length): visited needle, offset *)
}.

(* ---------- oracle table ---------- *)
Fixpoint lookup (tbl : list (list N * N)) (dflt : N) (d : list N) : N :=
  match tbl with
  | [] => dflt
  | (k, c) :: tbl' => if bytes_eqb k d then c else lookup tbl' dflt d
  end.

Definition crc_of (c : case) : list N -> N :=
  lookup (([], c_crc_empty c) :: combine (map data (c_needles c)) (c_crcs c) ++ c_crc_extra c) 0.

(* ---------- model side ---------- *)
Definition m_file (c : case) : list N :=
  c_prefix c ++ concat (map (encode (c_version c)) (c_needles c)).

(* Append: offset = end of file, size = DataSize, actualSize = GetActualSize(n.Size) *)
Fixpoint m_appends (v : N) (ns : list needle) (off : N) : list (N * N * N) :=
  match ns with
  | [] => []
  | n :: ns' => (off, data_size n, actual_size (body_size n) v) :: m_appends v ns' (off + len (encode v n))
  end.

Fixpoint m_reads (crc : list N -> N) (v : N) (file : list N) (ns : list needle) (off : N) : list (dneedle * N) :=
  match ns with
  | [] => []
  | n :: ns' =>
      let '(d, s) := read_data crc file off (body_size n) v in
      (d, status_code s) :: m_reads crc v file ns' (off + len (encode v n))
  end.

Definition flip_at (l : list N) (pos mask : N) : list N :=
  takeN pos l ++ match dropN pos l with x :: r => N.lxor x mask :: r | [] => [] end.

(* offset of record i *)
Fixpoint offset_of (v : N) (ns : list needle) (off : N) (i : nat) : N :=
  match i, ns with
  | S i', n :: ns' => offset_of v ns' (off + len (encode v n)) i'
  | _, _ => off
  end.

(* [mf] = m_file c and [apps] = m_appends ..., computed once per case *)
Definition m_flip (c : case) (mf : list N) (apps : list (N * N * N)) (f : flip) : N :=
  let v := c_version c in
  let i := N.to_nat (f_rec f) in
  let n := nth i (c_needles c) empty_needle in
  let orig := crc_of c in
  let crc' := fun d => if bytes_eqb d (data n) then orig d else f_crc f in
  let '(off, _, _) := nth i apps (0, 0, 0) in
  status_code (snd (read_data crc' (flip_at mf (f_pos f) (f_mask f)) off (body_size n) v)).

(* ---------- comparison helpers ---------- *)
Fixpoint all2 {A B} (f : A -> B -> bool) (l1 : list A) (l2 : list B) : bool :=
  match l1, l2 with
  | [], [] => true
  | x :: l1', y :: l2' => f x y && all2 f l1' l2'
  | _, _ => false
  end.

Definition dn_eqb (a b : dneedle * N) : bool := dneedle_eqb (fst a) (fst b) && (snd a =? snd b).
Definition triple_eqb (a b : N * N * N) : bool :=
  let '(a1, a2, a3) := a in let '(b1, b2, b3) := b in (a1 =? b1) && (a2 =? b2) && (a3 =? b3).

(* ---------- the property's oracle, on the implementation's observables ---------- *)
(* the needles the property speaks about: what CreateNeedleFromRequest can produce *)
Definition in_domain (n : needle) : bool :=
  (len (name n) <=? 255) && (len (mime n) <=? 255) && (last_modified n <? 1099511627776)
  && (negb (has_ttl n) || match ttl n with Some _ => true | None => false end)
  && (negb (has_pairs n) || ((pairs_size n =? len (pairs n)) && (pairs_size n <? 65536))).

Definition empty_data (n : needle) : bool := match data n with [] => true | _ => false end.

(* alignment: every record length is a multiple of 8, records are laid out back to back
   starting at the end of the prefix, and the file ends with the last record *)
Fixpoint p_layout (apps : list (N * N * N)) (off : N) (file_len : N) : bool :=
  match apps with
  | [] => off =? file_len
  | (o, _, a) :: apps' => (o =? off) && (a mod 8 =? 0) && p_layout apps' (off + a) file_len
  end.

(* round trip: ReadData returns the written blob *)
Definition p_read (v : N) (n : needle) (r : dneedle * N) : bool :=
  (snd r =? 0) && dneedle_eqb (fst r) (dview v n).

(* scan: one visit per record, at the offset Append returned, with the right identity; and the
   written blob when there is a payload *)
Definition p_visit (v : N) (n : needle) (a : N * N * N) (s : dneedle * N) : bool :=
  let '(o, _, _) := a in
  (snd s =? o) && (id (d_n (fst s)) =? id n) && (cookie (d_n (fst s)) =? cookie n)
  && (empty_data n || dneedle_eqb (fst s) (dview v n)).

Fixpoint all3 {A B C} (f : A -> B -> C -> bool) (l1 : list A) (l2 : list B) (l3 : list C) : bool :=
  match l1, l2, l3 with
  | [], [], [] => true
  | x :: l1', y :: l2', z :: l3' => f x y z && all3 f l1' l2' l3'
  | _, _, _ => false
  end.

(* a flip inside the data region of its record must be reported as a CRC error *)
Definition p_flip (c : case) (f : flip) : bool :=
  let i := N.to_nat (f_rec f) in
  let n := nth i (c_needles c) empty_needle in
  let '(o, _, _) := nth i (i_appends c) (0, 0, 0) in
  let lo := o + 20 in
  if (lo <=? f_pos f) && (f_pos f <? lo + len (data n)) && negb (f_mask f =? 0)
  then f_status f =? 2 else true.

Definition check (c : case) : outcome :=
  let v := c_version c in
  let crc := crc_of c in
  let mf := m_file c in
  let start := len (c_prefix c) in
  let apps := m_appends v (c_needles c) start in
  {| o_corr :=
       bytes_eqb mf (i_file c)
       && all2 triple_eqb apps (i_appends c)
       && all2 dn_eqb (m_reads crc v mf (c_needles c) start) (i_reads c)
       && (if c_do_scan c then all2 dn_eqb (scan crc v mf start) (i_scan c) else true)
       && forallb (fun f => m_flip c mf apps f =? f_status f) (c_flips c);
     o_prop :=
       negb (forallb in_domain (c_needles c))     (* outside the property's domain: nothing claimed *)
       || (p_layout (i_appends c) start (len (i_file c))
           && all2 (p_read v) (c_needles c) (i_reads c)
           && all3 (p_visit v) (c_needles c) (i_appends c) (i_scan c)
           && forallb (p_flip c) (c_flips c));
     o_trig := if existsb empty_data (c_needles c) then Some 0 else None;
     o_nontrivial :=
       existsb (fun r => (snd r =? 0) && negb (empty_data (d_n (fst r)))) (i_reads c) |}.

Definition summarize_cases (l : list case) : summary := summarize check l.
