(* Correspondence check for C28: histories of S3 requests on one bucket through the
   real gateway + real filer, with the status class / payload of every request, the
   final file entries under the bucket and the pending upload directories. *)
From Coq Require Import List NArith ZArith Bool String.
From SW Require Export base.Verdict model.HttpRange model.S3Multipart.
Import ListNotations.
Local Open Scope N_scope.

(* name segments and the key universe of the harness *)
Definition sa : string := "a".   Definition sb : string := "b".   Definition sab : string := "ab".
Definition sc : string := "c".   Definition sd : string := "d".   Definition se : string := "e".
Definition sf : string := "f".   Definition sg : string := "g".   Definition sh : string := "h".
Definition k0 : path := [sa].           Definition k1 : path := [sa; sb].   Definition k2 : path := [sab].
Definition k3 : path := [sa; sb; sc].   Definition k4 : path := [sd; se].   Definition k5 : path := [sd].
Definition k6 : path := [sf].           Definition k7 : path := [sg; sh].   Definition k8 : path := [sa; sc].
(* keys with the characters on which URL escaping variants differ *)
Definition k9 : path := ["x y"%string].     Definition k10 : path := ["x+y"%string].   Definition k11 : path := ["x%20y"%string].
Definition k12 : path := ["m&n=o"%string].  Definition k13 : path := ["t?u"%string].   Definition k14 : path := ["t"%string].
Definition k15 : path := ["v#w"%string].    Definition k16 : path := ["dir one"%string; "i+n"%string].
Definition k17 : path := ["q%zz"%string].

(* request bodies: the harness's linear congruential generator / constant runs *)
Fixpoint gen_go (n : nat) (x : N) : bytes :=
  match n with
  | O => []
  | S k => let x' := (x * 1103515245 + 12345) mod 2147483648 in ((x' / 65536) mod 256) :: gen_go k x'
  end.
Definition gen (seed len : N) : bytes := gen_go (N.to_nat len) seed.
Definition rep (v len : N) : bytes := repeat v (N.to_nat len).

(* a stored object's bytes as the harness reports them: literally, or (length, sum, weighted sum) *)
Inductive fin := FB (b : bytes) | FS (len s1 s2 : N).

Definition sums (b : bytes) : N * N * N :=
  fold_left (fun (acc : N * N * N) x => let '(i, s1, s2) := acc in (i + 1, s1 + x, s2 + (i + 1) * x)) b (0, 0, 0).
Definition fin_matches (b : bytes) (f : fin) : bool :=
  match f with
  | FB x => bytes_eqb b x
  | FS len s1 s2 => let '(n, t1, t2) := sums b in (n =? len) && (t1 =? s1) && (t2 =? s2)
  end.

Record case := {
  limit : N;                         (* filer -dirListLimit *)
  inline : N;                        (* filer -saveToFilerLimit *)
  chunk : N;                         (* chunk size in bytes of the filer's HTTP write path *)
  ops : list op;
  impl : list res;                   (* one per op *)
  final : list (path * fin);         (* file entries under the bucket, outside .uploads *)
  pend : list (N * list (N * N))     (* existing .uploads/<id>: (index, [(part number, size)] in listing order) *)
}.

(* [limit] (the filer's -dirListLimit the case ran with) is not an input of the model any more:
   completeMultipartUpload lists with an explicit limit *)
Definition the_cfg (c : case) : cfg := {| c_inline := inline c; c_chunk := chunk c |}.

Definition fin_subset (a : list (path * bytes)) (b : list (path * fin)) : bool :=
  forallb (fun kv => match sfind b (fst kv) with Some f => fin_matches (snd kv) f | None => false end) a.
Definition fin_same (a : list (path * bytes)) (b : list (path * fin)) : bool :=
  Nat.eqb (List.length a) (List.length b) && fin_subset a b.

Fixpoint pend_eqb (a b : list (N * list (N * N))) : bool :=
  match a, b with
  | [], [] => true
  | (i, x) :: a', (j, y) :: b' => (i =? j) && pairs_eqb x y && pend_eqb a' b'
  | _, _ => false
  end.

Definition min_flag (l : list N) : option N :=
  match l with
  | [] => None
  | x :: r => Some (fold_left N.min r x)
  end.

Definition has_data (r : res) : bool := match r with RData (_ :: _) => true | _ => false end.

Definition check (c : case) : outcome :=
  let '(rs, flags, fin_st) := run (the_cfg c) init_state (ops c) in
  let '(es, sfin) := srun sinit (ops c) in
  {| o_corr := all2 res_eqb rs (impl c) && fin_same (objects (st_store fin_st)) (final c) &&
               pend_eqb (pending fin_st) (pend c);
     (* the oracle: the flat key -> bytes specification judged on the implementation's answers *)
     o_prop := all2 meets es (impl c) && fin_same (ss_objs sfin) (final c);
     o_trig := min_flag flags;
     o_nontrivial := existsb has_data (impl c) |}.

Definition summarize_cases (l : list case) : summary := summarize check l.
