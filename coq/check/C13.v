(* Correspondence check for C13: runs of the real sequencers (memory, etcd over
   a fake KeysAPI with every call gated, snowflake) and of the real
   Topology.NextVolumeId over a fake raft server, against model/Seq.v. *)
From Coq Require Import List NArith Bool Arith.
From SW Require Export base.Verdict model.Seq model.SeqGrow.
Import ListNotations.
Local Open Scope N_scope.

Inductive input :=
| IMem (ops : list mop)                          (* MemorySequencer, sequential critical sections *)
| IMemFo (ops1 : list mop) (k : N) (ops2 : list mop)  (* leader change: old leader ops1; fresh sequencer: SetMax k, ops2 *)
| IEtcd (n : nat) (sched : list (nat * act))     (* n EtcdSequencers on one fake store, KeysAPI calls interleaved *)
| ISnow (nids : list N) (calls : list (nat * N)) (* SnowflakeSequencers: (node index, count) *)
| IVol (sched : list vstep)                      (* Topology.NextVolumeId + heartbeats *)
| ISnowBurst (nid first : N) (deltas : list N)   (* one node, NextFileId(1) back to back: first id and the
                                                    successive differences (out is left empty) *)
| IStress (kind : N) (total : N)                 (* goroutine stress (thorough tier): ranges sorted by start *)
| IGrow (nact copies : nat) (sched : list gop).  (* nact goroutines run the real GrowByCountAndType against one
                                                    Topology; the schedule is what the harness scheduler did and saw *)

(* out: what the implementation returned at every step (None: nothing returned);
   fin: projection of the implementation's final state *)
(* concurrent growth (IGrow): gout = what the implementation showed at every step
   (the raft proposal at GRead, the volume id sent to the volume servers at GApply,
   the heartbeat's volume at GHb); gal = every AllocateVolume request (request, id),
   sorted by id; fin = max volume id, then the counter every request returned *)
Record case := { inp : input; out : list (option ev); fin : list N;
                 gout : list (option gev); gal : list (nat * N) }.

Definition ev_eqb (a b : ev) : bool :=
  match a, b with
  | Ret m s c, Ret m' s' c' => Nat.eqb m m' && (s =? s') && (c =? c')
  | Max m k, Max m' k' => Nat.eqb m m' && (k =? k')
  | _, _ => false
  end.
Definition oev_eqb (a b : option ev) : bool :=
  match a, b with
  | Some x, Some y => ev_eqb x y
  | None, None => true
  | _, _ => false
  end.
Fixpoint all2 {A} (f : A -> A -> bool) (l1 l2 : list A) : bool :=
  match l1, l2 with
  | [], [] => true
  | x :: l1', y :: l2' => f x y && all2 f l1' l2'
  | _, _ => false
  end.

Definition is_ret (e : ev) : bool := match e with Ret _ _ c => 0 <? c | _ => false end.
Definition nrets (l : list (option ev)) : nat := length (filter is_ret (somes l)).

(* ---- etcd ---- *)
Definition pc_code (q : pc) : N :=
  match q with
  | Idle => 0 | Down => 1 | NextGet _ => 2 | NextSet _ _ => 3
  | MaxGet Boot _ => 4 | MaxCreate Boot _ => 5 | MaxSet Boot _ _ => 6
  | MaxGet Beat _ => 7 | MaxCreate Beat _ => 8 | MaxSet Beat _ _ => 9
  end.
Definition etcd_fin (s : est) : list N :=
  (match store s with Some v => [1; v] | None => [0; 0] end) ++
  flat_map (fun m => [cur m; mx m; file m; pc_code (p m)]) (masters s).

(* ---- snowflake: the clock readings are taken from the implementation's ids ---- *)
Fixpoint sf_calls (calls : list (nat * N)) (outs : list (option ev)) : list sfcall :=
  match calls, outs with
  | (i, cnt) :: calls', Some (Ret _ id _) :: outs' =>
      {| sc_node := i; sc_count := cnt; sc_now := N.shiftr id 22; sc_spin := N.shiftr id 22 |} :: sf_calls calls' outs'
  | (i, cnt) :: calls', _ :: outs' =>
      {| sc_node := i; sc_count := cnt; sc_now := 0; sc_spin := 0 |} :: sf_calls calls' outs'
  | _, _ => []
  end.

(* ---- volume ids: an independent reference ----
   walk the schedule with the implementation's answers: remember, per actor, the
   largest volume id known when it READ; a granted id must exceed it *)
Fixpoint bound_of (l : list (nat * N)) (a : nat) : option N :=
  match l with
  | [] => None
  | (b, x) :: l' => if Nat.eqb a b then Some x else bound_of l' a
  end.
Fixpoint vol_ref (known : N) (pend : list (nat * N)) (sched : list vstep) (outs : list (option ev)) : bool :=
  match sched, outs with
  | [], [] => true
  | VHb v :: sched', None :: outs' => vol_ref (N.max known v) pend sched' outs'
  | VRead a :: sched', None :: outs' =>
      match bound_of pend a with
      | Some _ => vol_ref known pend sched' outs'
      | None => vol_ref known ((a, known) :: pend) sched' outs'
      end
  | VApply a _ :: sched', o :: outs' =>
      let pend' := filter (fun bx => negb (Nat.eqb a (fst bx))) pend in
      match o with
      | None => vol_ref known pend' sched' outs'
      | Some (Ret _ v _) =>
          match bound_of pend a with
          | Some b => (b <? v) && vol_ref (N.max known v) pend' sched' outs'
          | None => false
          end
      | Some _ => false
      end
  | _, _ => false
  end.
Fixpoint strictly_sorted (l : list N) : bool :=
  match l with
  | [] => true
  | x :: l' => match l' with [] => true | y :: _ => (x <? y) && strictly_sorted l' end
  end.

(* ---- goroutine stress: ranges sorted by start ---- *)
Fixpoint chain (exact : bool) (next : N) (l : list ev) : bool :=
  match l with
  | [] => true
  | Ret _ s c :: l' => (if exact then s =? next else next <=? s) && chain exact (s + c) l'
  | _ :: l' => false
  end.
Fixpoint sum_counts (l : list ev) : N :=
  match l with
  | [] => 0
  | Ret _ _ c :: l' => c + sum_counts l'
  | _ :: l' => sum_counts l'
  end.

(* ---- concurrent growth ---- *)
Definition gev_eqb (a b : gev) : bool :=
  match a, b with
  | EProp m v, EProp m' v' => Nat.eqb m m' && (v =? v')
  | EGrant m v, EGrant m' v' => Nat.eqb m m' && (v =? v')
  | ESeen v, ESeen v' => v =? v'
  | _, _ => false
  end.
Definition ogev_eqb (a b : option gev) : bool :=
  match a, b with
  | Some x, Some y => gev_eqb x y
  | None, None => true
  | _, _ => false
  end.
Definition alloc_eqb (x y : nat * N) : bool := Nat.eqb (fst x) (fst y) && (snd x =? snd y).
(* GrowByCountAndType's counter: len(servers) for every iteration that went through *)
Fixpoint gcount (copies : N) (a : nat) (sched : list gop) (outs : list (option gev)) : N :=
  match sched, outs with
  | GApply b GOk :: sched', Some (EGrant _ _) :: outs' =>
      (if Nat.eqb a b then copies else 0) + gcount copies a sched' outs'
  | _ :: sched', _ :: outs' => gcount copies a sched' outs'
  | _, _ => 0
  end.
(* an AllocateVolume request carries an id that was handed to that request *)
Definition alloc_granted (tr : list gev) (x : nat * N) : bool :=
  existsb (fun e => match e with EGrant a v => Nat.eqb a (fst x) && (v =? snd x) | _ => false end) tr.

(* ---- narrowed triggers ---- *)
Definition actor_of (e : ev) : nat := match e with Ret m _ _ => m | Max m _ => m end.
Fixpoint pairs_okb (f : ev -> ev -> bool) (tr : list ev) : bool :=
  match tr with
  | [] => true
  | e :: tr' => forallb (f e) tr' && pairs_okb f tr'
  end.
(* implementation events at the positions whose model event satisfies f *)
Fixpoint sel (f : mev -> bool) (pm : list (option mev)) (pi : list (option ev)) : list ev :=
  match pm, pi with
  | Some me :: pm', Some e :: pi' => if f me then e :: sel f pm' pi' else sel f pm' pi'
  | _ :: pm', _ :: pi' => sel f pm' pi'
  | _, _ => []
  end.
(* snowflake: the ids themselves (every count projected to at most 1) *)
Definition id_only (e : ev) : ev := match e with Ret m s c => Ret m s (N.min c 1) | _ => e end.
(* pairs of ids of one node, or of two nodes with different node ids *)
Definition sf_pair_okb (nids : list N) (e1 e2 : ev) : bool :=
  if Nat.eqb (actor_of e1) (actor_of e2) || negb (nth (actor_of e1) nids 0 =? nth (actor_of e2) nids 0)
  then ev_okb e1 e2 else true.

Definition check_snow (nids : list N) (calls : list (nat * N)) (impl : list (option ev)) : outcome :=
  let scalls := sf_calls calls impl in
  let '(_, outs) := sf_run nids (sf_init nids) scalls in
  {| o_corr := all2 oev_eqb outs impl && Nat.eqb (length calls) (length impl);
     o_prop := trace_okb_fast (somes impl);
     (* finding 5 (two nodes with one node id) exempts only pairs across such nodes;
        finding 1 (count > 1) still requires the ids themselves to be distinct *)
     o_trig := if sf_collision_trigger nids
               then (if pairs_okb (sf_pair_okb nids) (map id_only (somes impl)) then Some 5 else None)
               else if sf_count_trigger scalls
               then (if trace_okb_fast (map id_only (somes impl)) then Some 1 else None)
               else None;
     o_nontrivial := Nat.leb 2 (nrets impl) |}.

Fixpoint undelta (x : N) (ds : list N) : list N :=
  match ds with
  | [] => [x]
  | d :: ds' => x :: undelta (x + d) ds'
  end.

Definition check (c : case) : outcome :=
  match inp c with
  | IMem ops =>
      let '(cf, outs) := mem_run mem_init ops in
      (* fin = [final counter; counter right after the first step (with assign: read while
         SendHeartbeat is between Sequence.SetMax and the registration of the heartbeat's
         volumes); 1 if volume 1 was already registered at that moment] *)
      let c1 := match ops with o :: _ => fst (mem_step mem_init o) | [] => mem_init end in
      let len := mem_fit_len mem_init ops in
      {| o_corr := all2 oev_eqb outs (out c) && all2 N.eqb [cf; c1; 0] (fin c);
         o_prop := trace_okb (somes (out c));
         (* finding 3, per step: everything up to the first wrapping addition must be fine *)
         o_trig := if negb (Nat.eqb len (length ops)) && trace_okb (somes (firstn len (out c))) then Some 3 else None;
         o_nontrivial := Nat.leb 2 (nrets (out c)) |}
  | IMemFo ops1 k ops2 =>
      let '(c1f, outs1) := mem_run mem_init ops1 in
      let '(c2f, outs2) := mem_run mem_init (MSetMax k :: ops2) in
      let tr1 := somes (firstn (length ops1) (out c)) in
      let tr2 := somes (skipn (length ops1) (out c)) in
      {| o_corr := all2 oev_eqb (outs1 ++ map (option_map (relabel 1)) outs2) (out c) && all2 N.eqb [c1f; c2f] (fin c);
         o_prop := trace_okb (somes (out c));
         (* finding 4, per range: only ranges of the old leader with a key above k are exempt *)
         o_trig := if fo_trigger tr1 k && trace_okb tr1 &&
                      trace_okb (filter (fun e => negb (fo_unwritten k e)) tr1 ++ tr2)
                   then Some 4 else None;
         o_nontrivial := Nat.leb 2 (nrets (out c)) |}
  | IEtcd n sched =>
      let '(sf, outs) := erun (einit n) sched in
      let len := etcd_fit_len n sched in
      let pm := firstn len outs in          (* the run up to the first wrapping uint64 operation *)
      let pi := firstn len (out c) in
      {| o_corr := all2 oev_eqb (map (option_map vis) outs) (out c) && all2 N.eqb (etcd_fin sf) (fin c);
         o_prop := trace_okb (somes (out c));
         (* per pair / per step (c13_etcd_prefix): up to the first wrap, the events that are
            neither an error return (finding 2) nor an unsafe SetMax (finding 0) must satisfy
            the property whatever else happened in the run *)
         o_trig := if negb (trace_okb (sel untagged pm pi)) then None
                   else if negb (trace_okb (somes pi))
                   then (if trace_okb (sel (fun e => negb (is_reterr e)) pm pi) then Some 2 else Some 0)
                   else if negb (Nat.eqb len (length sched)) then Some 3 else None;
         o_nontrivial := Nat.leb 2 (nrets (out c)) |}
  | ISnow nids calls => check_snow nids calls (out c)
  | ISnowBurst nid first deltas =>
      let ids := undelta first deltas in
      check_snow [nid] (map (fun _ => (0%nat, 1)) ids) (map (fun id => Some (Ret 0 id 1)) ids)
  | IVol sched =>
      let '(sf, outs) := vrun vinit sched in
      {| o_corr := all2 oev_eqb outs (out c) && all2 N.eqb [vmax sf] (fin c);
         o_prop := if vfits vinit sched
                   then vol_ref 0 [] sched (out c) &&
                        (if vlocked vinit sched then strictly_sorted (rets (out c)) else true)
                   else true;
         o_trig := None;
         o_nontrivial := Nat.leb 2 (length (rets (out c))) |}
  | IGrow nact copies sched =>
      (* the LOCKED machine must admit what was seen: same proposal, same grant at every step *)
      let '(sf, outs) := grow_run true (ginit nact 0) sched in
      let tr := somes (gout c) in
      {| o_corr := all2 ogev_eqb outs (gout c) &&
                   all2 N.eqb (gmax sf :: map (fun a => gcount (N.of_nat copies) a sched outs) (seq 0 nact)) (fin c) &&
                   all2 alloc_eqb (gallocs copies sched outs) (gal c);
         (* on the implementation's observables: ids handed out strictly increasing (never twice),
            every proposal above everything granted or reported before, and every id a
            volume server was asked to allocate was handed to that request *)
         o_prop := if gfits true (ginit nact 0) sched
                   then gtrace_okb tr && forallb (alloc_granted tr) (gal c)
                   else true;
         o_trig := None;
         o_nontrivial := Nat.leb 2 (length (grants (gout c))) |}
  | IStress kind total =>
      let tr := somes (out c) in
      {| o_corr := match kind with
                   | 0 => chain true 1 tr && all2 N.eqb [1 + sum_counts tr] (fin c) && (sum_counts tr =? total)
                   | 1 => chain false 1 tr
                   | _ => sum_counts tr =? total
                   end;
         o_prop := trace_okb_fast tr;
         o_trig := None;
         o_nontrivial := Nat.leb 2 (nrets (out c)) |}
  end.

Definition summarize_cases (l : list case) : summary := summarize check l.
