(* Correspondence check for C16: the real ec.balance planner (dry run) on a
   random EC layout.  Observables of the implementation: the books before, the
   printed plan (event list), the books and rack counters after.

   o_corr: TRACE ACCEPTANCE — an oracle (map iteration orders, sort tie orders,
   choices) is reconstructed from the recorded events (hidden parts by bounded
   enumeration) and [run_plan] under that oracle must print exactly the recorded
   events and end in exactly the recorded books.  The reconstruction is not
   trusted: a wrong reconstruction can only make the check fail.
   o_prop: an independent naive replayer of the printed plan (the source of truth:
   a shard is where it was unless the plan moves or deletes it). *)
From Coq Require Import List NArith ZArith Bool.
From SW Require Export base.Verdict model.EcBalance.
Import ListNotations.
Local Open Scope N_scope.

Record case := {
  c_nodes : list node;       (* books before (allEcNodes order) *)
  c_colls : list N;          (* one balanceEcVolumes round per collection *)
  c_do_racks : bool;         (* balanceEcRacks run at the end *)
  c_events : list event;     (* the printed plan *)
  c_final : list node;       (* books after *)
  c_rfinal : list (N * Z) }. (* EcRack.freeEcSlot after *)

(* ---------- equality tests ---------- *)
Definition event_eqb (a b : event) : bool :=
  match a, b with
  | ERound c, ERound c' => c =? c'
  | EKeep v s n k, EKeep v' s' n' k' => (v =? v') && (s =? s') && (n =? n')%Z && (k =? k')
  | ENoRack v s x, ENoRack v' s' x' => (v =? v') && (s =? s') && (x =? x')
  | EMove x v s y, EMove x' v' s' y' => (x =? x') && (v =? v') && (s =? s') && (y =? y')
  | EOver x k v s, EOver x' k' v' s' => (x =? x') && (k =? k')%Z && (v =? v') && (s =? s')
  | ERackMove x v s y, ERackMove x' v' s' y' => (x =? x') && (v =? v') && (s =? s') && (y =? y')
  | _, _ => false
  end.
Fixpoint list_eqb {A} (f : A -> A -> bool) (l1 l2 : list A) : bool :=
  match l1, l2 with
  | [], [] => true
  | x :: l1', y :: l2' => f x y && list_eqb f l1' l2'
  | _, _ => false
  end.
Definition entry_eqb (a b : entry) : bool :=
  (e_vid a =? e_vid b) && (e_coll a =? e_coll b) && (e_bits a =? e_bits b).
Definition node_eqb (a b : node) : bool :=
  (n_id a =? n_id b) && (n_dc a =? n_dc b) && (n_rack a =? n_rack b) && (n_free a =? n_free b)%Z &&
  match n_disk a, n_disk b with
  | Some x, Some y => list_eqb entry_eqb x y
  | None, None => true
  | _, _ => false
  end.
Definition racks_eqb (a b : list (N * Z)) : bool :=
  Nat.eqb (length a) (length b) && forallb (fun p => (alookup a (fst p) =? snd p)%Z) b.

(* ---------- generic helpers ---------- *)
Fixpoint span {A} (p : A -> bool) (l : list A) : list A * list A :=
  match l with
  | [] => ([], [])
  | x :: l' => if p x then let '(a, b) := span p l' in (x :: a, b) else ([], l)
  end.
(* contiguous groups by key *)
Fixpoint group_by {A} (key : A -> N) (l : list A) : list (N * list A) :=
  match l with
  | [] => []
  | x :: l' =>
      match group_by key l' with
      | (k, g) :: gs => if k =? key x then (k, x :: g) :: gs else (key x, [x]) :: (k, g) :: gs
      | [] => [(key x, [x])]
      end
  end.
Fixpoint first_some {A B} (f : A -> option B) (l : list A) : option B :=
  match l with
  | [] => None
  | x :: l' => match f x with Some y => Some y | None => first_some f l' end
  end.
Fixpoint inserts {A} (x : A) (l : list A) : list (list A) :=
  match l with
  | [] => [[x]]
  | y :: l' => (x :: l) :: map (cons y) (inserts x l')
  end.
Fixpoint perms {A} (l : list A) : list (list A) :=
  match l with
  | [] => [[]]
  | x :: l' => flat_map (inserts x) (perms l')
  end.
Fixpoint cart {A} (ls : list (list A)) : list (list A) :=
  match ls with
  | [] => [[]]
  | l :: ls' => flat_map (fun x => map (cons x) (cart ls')) l
  end.
Definition minus (l1 l2 : list N) : list N := filter (fun x => negb (mem x l2)) l1.

Definition ev_vid (e : event) : N :=
  match e with
  | ERound _ => 0 | EKeep v _ _ _ => v | ENoRack v _ _ => v | EMove _ v _ _ => v
  | EOver _ _ v _ => v | ERackMove _ v _ _ => v
  end.
Definition ev_src (e : event) : N :=
  match e with
  | ERound _ => 0 | EKeep _ _ _ k => k | ENoRack _ _ x => x | EMove x _ _ _ => x
  | EOver x _ _ _ => x | ERackMove x _ _ _ => x
  end.
Definition is_keep e := match e with EKeep _ _ _ _ => true | _ => false end.
Definition is_across e := match e with EMove _ _ _ _ | ENoRack _ _ _ => true | _ => false end.
Definition is_within e := match e with EMove _ _ _ _ | EOver _ _ _ _ => true | _ => false end.
Definition is_rackmove e := match e with ERackMove _ _ _ _ => true | _ => false end.
Definition is_move e := match e with EMove _ _ _ _ | ERackMove _ _ _ _ => true | _ => false end.

(* ---------- oracle reconstruction ---------- *)
(* dedup: kept node per "keeping" line, vids without lines first *)
Definition dedup_orcs (ns : list node) (evs : list event) : list dd_orc :=
  let gs := group_by ev_vid evs in
  map (fun v => {| dd_vid := v; dd_keeps := [] |}) (minus (all_vids ns) (map fst gs)) ++
  map (fun g => {| dd_vid := fst g; dd_keeps := map ev_src (snd g) |}) gs.

Definition across_choices (ns : list node) (evs : list event) : list (N * choice) :=
  flat_map (fun e => match e with
                     | ENoRack _ s _ => [(s, NoRack)]
                     | EMove _ _ s d => [(s, ToRack (node_rack ns d) (Some d))]
                     | _ => []
                     end) evs.

Definition pairs_eqb (a b : list (N * N)) : bool :=
  list_eqb (fun x y => (fst x =? fst y) && (snd x =? snd y)) a b.

(* candidate orders of one overflowing rack: the sorted permutations, pruned by the
   shard ids seen in the plan, one representative per distinct pick result *)
Definition rack_cands (ns : list node) (v : N) (locs : list N) (r : N) (n : nat) (seen : list N)
  : list (list N) :=
  let possible := filter (fun id => node_rack ns id =? r) locs in
  let base := filter (fun id => (0 <? count (node_bits ns id v))%Z) possible in
  let ps := filter (fun p => valid_cands ns possible v p) (perms base) in
  let outs := map (fun p => (p, snd (pick_n n v (map (fun id => (id, count (node_bits ns id v))) p) ns []))) ps in
  let ok := filter (fun po => forallb (fun sx => mem (fst sx) seen) (snd po)) outs in
  map fst (fold_right (fun po acc => if existsb (fun q => pairs_eqb (snd q) (snd po)) acc then acc else po :: acc) [] ok).

Definition across_cands (st : state) (v : N) (evs : list event) : list (list (N * list N)) :=
  let ns := nodes st in
  let locs := locations ns v in
  let avg := ceil_div total_shards (Z.of_nat (length (racks st))) in
  let rsc := group_count ns locs v in
  let keys := map fst rsc in
  let over := filter (fun r => (alookup rsc r >? avg)%Z) keys in
  let quiet := map (fun r => (r, @nil N)) (minus keys over) in
  let seen := map fst (across_choices ns evs) in
  flat_map (fun ord =>
    map (fun combo => quiet ++ combine ord combo)
        (cart (map (fun r => rack_cands ns v locs r (Z.to_nat (alookup rsc r - avg)) seen) ord)))
    (perms over).

Definition evs_eqb := list_eqb event_eqb.

Fixpoint search_across {R} (c : N) (groups : list (N * list event)) (st : state) (acc : list av_orc)
         (k : state -> list av_orc -> option R) : option R :=
  match groups with
  | [] => k st (rev acc)
  | (v, evs) :: gs =>
      first_some (fun ro =>
        let o := {| av_vid := v; av_racks := ro; av_moves := across_choices (nodes st) evs |} in
        match across_vid c st o with
        | Some (st', its) => if evs_eqb (events_of its) evs then search_across c gs st' (o :: acc) k else None
        | None => None
        end) (across_cands st v evs)
  end.

(* within racks: one choice per "overlimit" line *)
Fixpoint within_choices (evs : list event) : list (option N) :=
  match evs with
  | EOver _ _ _ _ :: ((EMove _ _ _ d :: _) as rest) => Some d :: within_choices rest
  | EOver _ _ _ _ :: rest => None :: within_choices rest
  | _ :: rest => within_choices rest
  | [] => []
  end.
Definition within_orcs (ns : list node) (evs : list event) : list wv_orc :=
  let gs := group_by ev_vid evs in
  let keys v := map fst (group_count ns (locations ns v) v) in
  map (fun v => {| wv_vid := v; wv_racks := map (fun r => {| wr_rack := r; wr_dests := [] |}) (keys v) |})
      (minus (all_vids ns) (map fst gs)) ++
  map (fun g =>
         let rgs := group_by (fun e => node_rack ns (ev_src e)) (snd g) in
         {| wv_vid := fst g;
            wv_racks := map (fun r => {| wr_rack := r; wr_dests := [] |}) (minus (keys (fst g)) (map fst rgs)) ++
                        map (fun rg => {| wr_rack := fst rg; wr_dests := within_choices (snd rg) |}) rgs |}) gs.

(* rack balancing: (empty, full) per move line, plus a final iteration that moves nothing *)
Definition rack_orc (nracks : nat) (ns : list node) (r : N) (evs : list event) : rb_orc :=
  let ids := rack_node_ids ns r in
  let steps := flat_map (fun e => match e with ERackMove f _ _ e' => [(e', f)] | _ => [] end) evs in
  if (length ids <=? 1)%nat then {| rb_rack := r; rb_steps := steps |}
  else
    let try := fun ef => let o := {| rb_rack := r; rb_steps := steps ++ [ef] |} in
                         match balance_rack nracks ns o with Some _ => Some o | None => None end in
    match first_some try (flat_map (fun e => map (pair e) ids) ids) with
    | Some o => o
    | None => {| rb_rack := r; rb_steps := steps |}
    end.
Definition rack_orcs (st : state) (evs : list event) : list rb_orc :=
  let ns := nodes st in
  let gs := group_by (fun e => node_rack ns (ev_src e)) evs in
  map (fun r => rack_orc (length (racks st)) ns r []) (minus (rack_ids st) (map fst gs)) ++
  map (fun g => rack_orc (length (racks st)) ns (fst g) (snd g)) gs.

(* rounds: ERound, keeps, across lines, within lines *)
Fixpoint search_rounds {R} (cs : list N) (evs : list event) (st : state) (acc : list round_orc)
         (k : state -> list round_orc -> list event -> option R) : option R :=
  match cs with
  | [] => k st (rev acc) evs
  | c :: cs' =>
      match evs with
      | ERound c' :: evs0 =>
          if c =? c' then
            let '(keeps, evs1) := span is_keep evs0 in
            let '(acr, evs2) := span is_across evs1 in
            let '(wit, evs3) := span is_within evs2 in
            let dd := dedup_orcs (nodes st) keeps in
            match dedup_phase false st dd with
            | Some (st1, _) =>
                let gs := group_by ev_vid acr in
                let quiet := map (fun v => (v, @nil event)) (minus (all_vids (nodes st1)) (map fst gs)) in
                search_across c (quiet ++ gs) st1 [] (fun st2 avs =>
                  let ws := within_orcs (nodes st2) wit in
                  match within_phase c st2 ws with
                  | Some (st3, _) =>
                      search_rounds cs' evs3 st3
                        ({| ro_coll := c; ro_dedup := dd; ro_across := avs; ro_within := ws |} :: acc) k
                  | None => None
                  end)
            | None => None
            end
          else None
      | _ => None
      end
  end.

(* the accepted run: Some (oracle, log) iff the reconstruction found an oracle under
   which run_plan prints exactly the recorded plan and ends in the recorded books *)
Definition accept (c : case) : option (plan_orc * list item) :=
  let st0 := init_state (c_nodes c) in
  search_rounds (c_colls c) (c_events c) st0 [] (fun st1 ros rest =>
    let po := {| po_rounds := ros;
                 po_racks := if c_do_racks c then Some (rack_orcs st1 rest) else None |} in
    match run_plan false st0 po with
    | Some (st', its) =>
        if evs_eqb (events_of its) (c_events c) && list_eqb node_eqb (nodes st') (c_final c) &&
           racks_eqb (racks st') (c_rfinal c)
        then Some (po, its) else None
    | None => None
    end).

(* ---------- the property oracle: naive replay of the printed plan ---------- *)
Record rnode := { r_id : N; r_rack : N; r_free : Z; r_holds : list (N * N) }.
Definition pair_eqb (a b : N * N) : bool := (fst a =? fst b) && (snd a =? snd b).
Definition holds (n : rnode) (v s : N) : bool := existsb (pair_eqb (v, s)) (r_holds n).
Definition ref_of (ns : list node) : list rnode :=
  map (fun n => {| r_id := n_id n; r_rack := n_rack n; r_free := n_free n;
                   r_holds := flat_map (fun e => map (pair (e_vid e)) (shard_ids (e_bits e))) (entries n) |}) ns.
Definition r_remove (v s : N) (n : rnode) : rnode :=
  if holds n v s then
    {| r_id := r_id n; r_rack := r_rack n; r_free := (r_free n + 1)%Z;
       r_holds := filter (fun p => negb (pair_eqb (v, s) p)) (r_holds n) |}
  else n.
Definition r_add (v s : N) (n : rnode) : rnode :=
  if holds n v s then n
  else {| r_id := r_id n; r_rack := r_rack n; r_free := (r_free n - 1)%Z; r_holds := (v, s) :: r_holds n |}.
Definition r_get (rs : list rnode) (id : N) : option rnode := List.find (fun n => r_id n =? id) rs.
Definition r_upd (rs : list rnode) (id : N) (f : rnode -> rnode) : list rnode :=
  map (fun n => if r_id n =? id then f n else n) rs.
Definition r_rack_count (rs : list rnode) (r v : N) : nat :=
  length (flat_map (fun n => if r_rack n =? r then filter (fun p => fst p =? v) (r_holds n) else []) rs).

(* legal move: the source has the shard, the destination does not and has a free
   slot; a move to another rack leaves at most ceil(14/#racks) shards of the volume there *)
Definition r_move_ok (rs : list rnode) (limit : Z) (src v s dst : N) : bool :=
  match r_get rs src, r_get rs dst with
  | Some a, Some b =>
      holds a v s && negb (holds b v s) && (0 <? r_free b)%Z &&
      ((r_rack a =? r_rack b) || (Z.of_nat (r_rack_count rs (r_rack b) v) + 1 <=? limit)%Z)
  | _, _ => false
  end.

Fixpoint replay (rs : list rnode) (limit : Z) (evs : list event) : list rnode * bool :=
  match evs with
  | [] => (rs, true)
  | e :: evs' =>
      match e with
      | EKeep v s _ k =>   (* the plan deletes every other copy *)
          replay (map (fun n => if r_id n =? k then n else r_remove v s n) rs) limit evs'
      | EMove src v s dst | ERackMove src v s dst =>
          let ok := r_move_ok rs limit src v s dst in
          let '(rs', ok') := replay (r_upd (r_upd rs dst (r_add v s)) src (r_remove v s)) limit evs' in
          (rs', ok && ok')
      | _ => replay rs limit evs'
      end
  end.

Definition r_total (rs : list rnode) (v s : N) : nat := length (filter (fun n => holds n v s) rs).
Definition subset (a b : list (N * N)) : bool := forallb (fun p => existsb (pair_eqb p) b) a.

Definition prop_ok (c : case) : bool :=
  let r0 := ref_of (c_nodes c) in
  let nracks := length (dedup (map n_rack (c_nodes c))) in
  let '(rf, legal) := replay r0 (ceil_div total_shards (Z.of_nat nracks)) (c_events c) in
  let books := ref_of (c_final c) in
  (* every planned move is legal *)
  legal &&
  (* the books after the dry run are the cluster after the plan *)
  list_eqb (fun a b => (r_id a =? r_id b) && (r_free a =? r_free b)%Z &&
                      subset (r_holds a) (r_holds b) && subset (r_holds b) (r_holds a)) books rf &&
  (* every shard present before is present exactly once after; nothing else appears *)
  forallb (fun v => forallb (fun s =>
      Nat.eqb (r_total rf v s) (if (0 <? r_total r0 v s)%nat then 1 else 0)) shard_range)
    (dedup (all_vids (c_nodes c) ++ all_vids (c_final c))).

Definition check (c : case) : outcome :=
  let a := accept c in
  {| o_corr := match a with Some _ => true | None => false end;
     o_prop := prop_ok c;
     o_trig := if has_dup (c_nodes c) then Some 1
               else match a with
                    | Some (_, its) => if has_drop its then Some 0 else None
                    | None => None
                    end;
     o_nontrivial := existsb is_move (c_events c) |}.

Definition summarize_cases (l : list case) : summary := summarize check l.
