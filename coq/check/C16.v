(* Correspondence check for C16: the real ec.balance planner (dry run) on a
   random EC layout.  Observables of the implementation: the books before, the
   printed plan (event list), the books and rack counters after.

   o_corr: TRACE ACCEPTANCE — an oracle (map iteration orders, sort tie orders,
   choices) is reconstructed from the recorded events (hidden parts by bounded
   enumeration) and [run_plan] under that oracle must print exactly the recorded
   events and end in exactly the recorded books.  The reconstruction is not
   trusted: a wrong reconstruction can only make the check fail.
   o_prop: an independent naive replayer of the printed plan (the source of truth:
   a shard is where it was unless the plan moves or deletes it). *)
From Coq Require Import List NArith ZArith Bool.
From SW Require Export base.Verdict model.EcBalance.
Import ListNotations.
Local Open Scope N_scope.

Record case := {
  c_nodes : list node;       (* books before (allEcNodes order) *)
  c_colls : list N;          (* one balanceEcVolumes round per collection *)
  c_do_racks : bool;         (* balanceEcRacks run at the end *)
  c_gated : bool;            (* entry through the totalFreeEcSlots gate of commandEcBalance.Do *)
  c_refused : bool;          (* the gate refused: nothing was planned *)
  c_events : list event;     (* the printed plan *)
  c_final : list node;       (* books after *)
  c_rfinal : list (N * Z) }. (* EcRack.freeEcSlot after *)

(* ---------- equality tests ---------- *)
Definition event_eqb (a b : event) : bool :=
  match a, b with
  | ERound c, ERound c' => c =? c'
  | EKeep v s n k, EKeep v' s' n' k' => (v =? v') && (s =? s') && (n =? n')%Z && (k =? k')
  | ENoRack v s x, ENoRack v' s' x' => (v =? v') && (s =? s') && (x =? x')
  | EMove x v s y, EMove x' v' s' y' => (x =? x') && (v =? v') && (s =? s') && (y =? y')
  | EOver x k v s, EOver x' k' v' s' => (x =? x') && (k =? k')%Z && (v =? v') && (s =? s')
  | ERackMove x v s y, ERackMove x' v' s' y' => (x =? x') && (v =? v') && (s =? s') && (y =? y')
  | _, _ => false
  end.
Fixpoint list_eqb {A} (f : A -> A -> bool) (l1 l2 : list A) : bool :=
  match l1, l2 with
  | [], [] => true
  | x :: l1', y :: l2' => f x y && list_eqb f l1' l2'
  | _, _ => false
  end.
Definition entry_eqb (a b : entry) : bool :=
  (e_vid a =? e_vid b) && (e_coll a =? e_coll b) && (e_bits a =? e_bits b).
Definition node_eqb (a b : node) : bool :=
  (n_id a =? n_id b) && (n_dc a =? n_dc b) && (n_rack a =? n_rack b) && (n_free a =? n_free b)%Z &&
  match n_disk a, n_disk b with
  | Some x, Some y => list_eqb entry_eqb x y
  | None, None => true
  | _, _ => false
  end.
Definition racks_eqb (a b : list (N * Z)) : bool :=
  Nat.eqb (length a) (length b) && forallb (fun p => (alookup a (fst p) =? snd p)%Z) b.

(* ---------- generic helpers ---------- *)
Fixpoint span {A} (p : A -> bool) (l : list A) : list A * list A :=
  match l with
  | [] => ([], [])
  | x :: l' => if p x then let '(a, b) := span p l' in (x :: a, b) else ([], l)
  end.
(* contiguous groups by key *)
Fixpoint group_by {A} (key : A -> N) (l : list A) : list (N * list A) :=
  match l with
  | [] => []
  | x :: l' =>
      match group_by key l' with
      | (k, g) :: gs => if k =? key x then (k, x :: g) :: gs else (key x, [x]) :: (k, g) :: gs
      | [] => [(key x, [x])]
      end
  end.
Fixpoint first_some {A B} (f : A -> option B) (l : list A) : option B :=
  match l with
  | [] => None
  | x :: l' => match f x with Some y => Some y | None => first_some f l' end
  end.
Fixpoint inserts {A} (x : A) (l : list A) : list (list A) :=
  match l with
  | [] => [[x]]
  | y :: l' => (x :: l) :: map (cons y) (inserts x l')
  end.
Fixpoint perms {A} (l : list A) : list (list A) :=
  match l with
  | [] => [[]]
  | x :: l' => flat_map (inserts x) (perms l')
  end.
Fixpoint cart {A} (ls : list (list A)) : list (list A) :=
  match ls with
  | [] => [[]]
  | l :: ls' => flat_map (fun x => map (cons x) (cart ls')) l
  end.
Definition minus (l1 l2 : list N) : list N := filter (fun x => negb (mem x l2)) l1.

Definition ev_vid (e : event) : N :=
  match e with
  | ERound _ => 0 | EKeep v _ _ _ => v | ENoRack v _ _ => v | EMove _ v _ _ => v
  | EOver _ _ v _ => v | ERackMove _ v _ _ => v
  end.
Definition ev_src (e : event) : N :=
  match e with
  | ERound _ => 0 | EKeep _ _ _ k => k | ENoRack _ _ x => x | EMove x _ _ _ => x
  | EOver x _ _ _ => x | ERackMove x _ _ _ => x
  end.
Definition is_keep e := match e with EKeep _ _ _ _ => true | _ => false end.
Definition is_across e := match e with EMove _ _ _ _ | ENoRack _ _ _ => true | _ => false end.
Definition is_within e := match e with EMove _ _ _ _ | EOver _ _ _ _ => true | _ => false end.
Definition is_rackmove e := match e with ERackMove _ _ _ _ => true | _ => false end.
Definition is_move e := match e with EMove _ _ _ _ | ERackMove _ _ _ _ => true | _ => false end.

(* ---------- oracle reconstruction ---------- *)
(* dedup: kept node per "keeping" line, vids without lines first *)
Definition dedup_orcs (ns : list node) (evs : list event) : list dd_orc :=
  let gs := group_by ev_vid evs in
  map (fun v => {| dd_vid := v; dd_keeps := [] |}) (minus (all_vids ns) (map fst gs)) ++
  map (fun g => {| dd_vid := fst g; dd_keeps := map ev_src (snd g) |}) gs.

Definition across_choices (ns : list node) (evs : list event) : list (N * choice) :=
  flat_map (fun e => match e with
                     | ENoRack _ s _ => [(s, NoRack)]
                     | EMove _ _ s d => [(s, ToRack (node_rack ns d) (Some d))]
                     | _ => []
                     end) evs.

Definition pairs_eqb (a b : list (N * N)) : bool :=
  list_eqb (fun x y => (fst x =? fst y) && (snd x =? snd y)) a b.

(* candidate orders of one overflowing rack: the sorted permutations, pruned by the
   shard ids seen in the plan, one representative per distinct pick result *)
Definition rack_cands (ns : list node) (v : N) (locs : list N) (r : N) (n : nat) (seen : list N)
  : list (list N) :=
  let possible := filter (fun id => node_rack ns id =? r) locs in
  let base := filter (fun id => (0 <? count (node_bits ns id v))%Z) possible in
  let ps := filter (fun p => valid_cands ns possible v p) (perms base) in
  let outs := map (fun p => (p, snd (pick_n n v (map (fun id => (id, count (node_bits ns id v))) p) ns []))) ps in
  let ok := filter (fun po => forallb (fun sx => mem (fst sx) seen) (snd po)) outs in
  map fst (fold_right (fun po acc => if existsb (fun q => pairs_eqb (snd q) (snd po)) acc then acc else po :: acc) [] ok).

Definition across_cands (st : state) (v : N) (evs : list event) : list (list (N * list N)) :=
  let ns := nodes st in
  let locs := locations ns v in
  let avg := ceil_div total_shards (Z.of_nat (length (racks st))) in
  let rsc := group_count ns locs v in
  let keys := map fst rsc in
  let over := filter (fun r => (alookup rsc r >? avg)%Z) keys in
  let quiet := map (fun r => (r, @nil N)) (minus keys over) in
  let seen := map fst (across_choices ns evs) in
  (* the order of the overflowing racks only matters when two racks can pick the same shard id
     (picked[shardId] is overwritten): a shard of v held by two nodes *)
  let collide := existsb (fun s => (1 <? length (holders ns (dedup locs) v s))%nat) shard_range in
  flat_map (fun ord =>
    map (fun combo => quiet ++ combine ord combo)
        (cart (map (fun r => rack_cands ns v locs r (Z.to_nat (alookup rsc r - avg)) seen) ord)))
    (if collide then perms over else [over]).

Definition evs_eqb := list_eqb event_eqb.

Fixpoint search_across {R} (c : N) (groups : list (N * list event)) (st : state) (acc : list av_orc)
         (k : state -> list av_orc -> option R) : option R :=
  match groups with
  | [] => k st (rev acc)
  | (v, evs) :: gs =>
      first_some (fun ro =>
        let o := {| av_vid := v; av_racks := ro; av_moves := across_choices (nodes st) evs |} in
        match across_vid c st o with
        | Some (st', its) => if evs_eqb (events_of its) evs then search_across c gs st' (o :: acc) k else None
        | None => None
        end) (across_cands st v evs)
  end.

(* within racks: one choice per "overlimit" line *)
Fixpoint within_choices (evs : list event) : list (option N) :=
  match evs with
  | EOver _ _ _ _ :: ((EMove _ _ _ d :: _) as rest) => Some d :: within_choices rest
  | EOver _ _ _ _ :: rest => None :: within_choices rest
  | _ :: rest => within_choices rest
  | [] => []
  end.
Definition within_orcs (ns : list node) (evs : list event) : list wv_orc :=
  let gs := group_by ev_vid evs in
  let keys v := map fst (group_count ns (locations ns v) v) in
  map (fun v => {| wv_vid := v; wv_racks := map (fun r => {| wr_rack := r; wr_dests := [] |}) (keys v) |})
      (minus (all_vids ns) (map fst gs)) ++
  map (fun g =>
         let rgs := group_by (fun e => node_rack ns (ev_src e)) (snd g) in
         {| wv_vid := fst g;
            wv_racks := map (fun r => {| wr_rack := r; wr_dests := [] |}) (minus (keys (fst g)) (map fst rgs)) ++
                        map (fun rg => {| wr_rack := fst rg; wr_dests := within_choices (snd rg) |}) rgs |}) gs.

(* rack balancing: (empty, full) per move line, plus a final iteration that moves nothing *)
Definition rack_orc (nracks : nat) (ns : list node) (r : N) (evs : list event) : rb_orc :=
  let ids := rack_node_ids ns r in
  let steps := flat_map (fun e => match e with ERackMove f _ _ e' => [(e', f)] | _ => [] end) evs in
  if (length ids <=? 1)%nat then {| rb_rack := r; rb_steps := steps |}
  else
    let try := fun ef => let o := {| rb_rack := r; rb_steps := steps ++ [ef] |} in
                         match balance_rack nracks ns o with Some _ => Some o | None => None end in
    match first_some try (flat_map (fun e => map (pair e) ids) ids) with
    | Some o => o
    | None => {| rb_rack := r; rb_steps := steps |}
    end.
Definition rack_orcs (st : state) (evs : list event) : list rb_orc :=
  let ns := nodes st in
  let gs := group_by (fun e => node_rack ns (ev_src e)) evs in
  map (fun r => rack_orc (length (racks st)) ns r []) (minus (rack_ids st) (map fst gs)) ++
  map (fun g => rack_orc (length (racks st)) ns (fst g) (snd g)) gs.

(* rounds: ERound, keeps, across lines, within lines *)
Fixpoint search_rounds {R} (cs : list N) (evs : list event) (st : state) (acc : list round_orc)
         (k : state -> list round_orc -> list event -> option R) : option R :=
  match cs with
  | [] => k st (rev acc) evs
  | c :: cs' =>
      match evs with
      | ERound c' :: evs0 =>
          if c =? c' then
            let '(keeps, evs1) := span is_keep evs0 in
            let '(acr, evs2) := span is_across evs1 in
            let '(wit, evs3) := span is_within evs2 in
            let dd := dedup_orcs (nodes st) keeps in
            match dedup_phase false st dd with
            | Some (st1, _) =>
                let gs := group_by ev_vid acr in
                let quiet := map (fun v => (v, @nil event)) (minus (all_vids (nodes st1)) (map fst gs)) in
                search_across c (quiet ++ gs) st1 [] (fun st2 avs =>
                  let ws := within_orcs (nodes st2) wit in
                  match within_phase c st2 ws with
                  | Some (st3, _) =>
                      search_rounds cs' evs3 st3
                        ({| ro_coll := c; ro_dedup := dd; ro_across := avs; ro_within := ws |} :: acc) k
                  | None => None
                  end)
            | None => None
            end
          else None
      | _ => None
      end
  end.

(* the accepted run: Some (oracle, log) iff the reconstruction found an oracle under
   which run_plan prints exactly the recorded plan and ends in the recorded books *)
Definition accept (c : case) : option (plan_orc * list item) :=
  let st0 := init_state (c_nodes c) in
  search_rounds (c_colls c) (c_events c) st0 [] (fun st1 ros rest =>
    let po := {| po_rounds := ros;
                 po_racks := if c_do_racks c then Some (rack_orcs st1 rest) else None |} in
    match run_plan false st0 po with
    | Some (st', its) =>
        if evs_eqb (events_of its) (c_events c) && list_eqb node_eqb (nodes st') (c_final c) &&
           racks_eqb (racks st') (c_rfinal c)
        then Some (po, its) else None
    | None => None
    end).

(* with the gate of commandEcBalance.Do: refused exactly when the model's gate refuses, and then
   nothing is printed and the books are untouched *)
Definition corr (c : case) : bool :=
  if c_gated c && negb (gate (c_nodes c)) then
    c_refused c && match c_events c with [] => true | _ => false end &&
    list_eqb node_eqb (c_nodes c) (c_final c) && racks_eqb (collect_racks (c_nodes c)) (c_rfinal c)
  else
    negb (c_refused c) && match accept c with Some _ => true | None => false end.

(* ---------- the property oracle: naive replay of the printed plan ---------- *)
Record rnode := { r_id : N; r_rack : N; r_free : Z; r_holds : list (N * N) }.
Definition pair_eqb (a b : N * N) : bool := (fst a =? fst b) && (snd a =? snd b).
Definition holds (n : rnode) (v s : N) : bool := existsb (pair_eqb (v, s)) (r_holds n).
Definition ref_of (ns : list node) : list rnode :=
  map (fun n => {| r_id := n_id n; r_rack := n_rack n; r_free := n_free n;
                   r_holds := flat_map (fun e => map (pair (e_vid e)) (shard_ids (e_bits e))) (entries n) |}) ns.
Definition r_remove (v s : N) (n : rnode) : rnode :=
  if holds n v s then
    {| r_id := r_id n; r_rack := r_rack n; r_free := (r_free n + 1)%Z;
       r_holds := filter (fun p => negb (pair_eqb (v, s) p)) (r_holds n) |}
  else n.
Definition r_add (v s : N) (n : rnode) : rnode :=
  if holds n v s then n
  else {| r_id := r_id n; r_rack := r_rack n; r_free := (r_free n - 1)%Z; r_holds := (v, s) :: r_holds n |}.
Definition r_get (rs : list rnode) (id : N) : option rnode := List.find (fun n => r_id n =? id) rs.
Definition r_upd (rs : list rnode) (id : N) (f : rnode -> rnode) : list rnode :=
  map (fun n => if r_id n =? id then f n else n) rs.
Definition r_rack_count (rs : list rnode) (r v : N) : nat :=
  length (flat_map (fun n => if r_rack n =? r then filter (fun p => fst p =? v) (r_holds n) else []) rs).

Definition r_total (rs : list rnode) (v s : N) : nat := length (filter (fun n => holds n v s) rs).
Definition r_rack_of (rs : list rnode) (id : N) : N := match r_get rs id with Some n => r_rack n | None => 0 end.

(* Every way the printed plan can violate the property text is a separate [fail]; each failure is
   paired with the known finding that explains it AT THAT KEY / NODE / STEP, if any:
   finding 1 (dry run keeps duplicates) explains only failures about a (volume, shard) that is on
     two nodes in the snapshot;
   finding 0 (unplaced picks vanish) explains only: the books lacking a shard (v,s) at the node the
     plan said "v.s at X can not find a destination rack" about, and - because the books then count
     one free slot / one shard too many for X - a later move onto X without a free slot, or a later
     move of v into X's rack above the spread limit.  The "can not find" line must already have been
     printed when the move is planned. *)
Inductive fail :=
| FSrc (v s : N)              (* planned move of a shard its source does not hold *)
| FDstHolds (v s : N)         (* planned onto a server that already holds that shard *)
| FDstFree (dst : N)          (* planned onto a server without a free shard slot *)
| FSpread (v r : N)           (* more than ceil(14/#racks) shards of v on the destination rack *)
| FUnknownNode
| FNodes                      (* the books after are not about the same servers *)
| FSlots (n : N)              (* free slots + shards held is not what it was: a slot leaked *)
| FBooks (n v s : N) (lost : bool)  (* books after <> cluster after the plan, at node n, shard (v,s) *)
| FOnceReplay (v s : N)       (* after the plan the shard is not on exactly one server *)
| FOnceBooks (v s : N).       (* in the books after, the shard is not on exactly one server *)

Definition drop3 := (N * N * N)%type.   (* (v, s, node) of a printed "can not find a destination rack" *)
Definition dupkey (r0 : list rnode) (v s : N) : bool := (1 <? r_total r0 v s)%nat.
Definition k1_if (b : bool) : option N := if b then Some 1 else None.
Definition k0_if (b : bool) : option N := if b then Some 0 else None.

(* legal move: the source has the shard, the destination does not and has a free
   slot; a move to another rack leaves at most ceil(14/#racks) shards of the volume there *)
Definition move_fails (r0 rs : list rnode) (limit : Z) (drops : list drop3) (src v s dst : N)
  : list (fail * option N) :=
  match r_get rs src, r_get rs dst with
  | Some a, Some b =>
      (if holds a v s then [] else [(FSrc v s, k1_if (dupkey r0 v s))]) ++
      (if holds b v s then [(FDstHolds v s, k1_if (dupkey r0 v s))] else []) ++
      (if (0 <? r_free b)%Z then []
       else [(FDstFree dst,
              if existsb (fun d : drop3 => snd d =? dst) drops then Some 0
              else k1_if (existsb (fun p : N * N => dupkey r0 (fst p) (snd p)) (r_holds b)))]) ++
      (if (r_rack a =? r_rack b) || (Z.of_nat (r_rack_count rs (r_rack b) v) + 1 <=? limit)%Z then []
       else [(FSpread v (r_rack b),
              if existsb (fun d : drop3 => (fst (fst d) =? v) && (r_rack_of rs (snd d) =? r_rack b)) drops then Some 0
              else k1_if (existsb (fun n => (r_rack n =? r_rack b) &&
                                            existsb (fun p : N * N => (fst p =? v) && dupkey r0 v (snd p)) (r_holds n)) rs))])
  | _, _ => [(FUnknownNode, None)]
  end.

Fixpoint replay (r0 rs : list rnode) (limit : Z) (drops : list drop3) (evs : list event)
  : list rnode * list drop3 * list (fail * option N) :=
  match evs with
  | [] => (rs, drops, [])
  | e :: evs' =>
      match e with
      | EKeep v s _ k =>   (* the plan deletes every other copy *)
          replay r0 (map (fun n => if r_id n =? k then n else r_remove v s n) rs) limit drops evs'
      | ENoRack v s src => replay r0 rs limit ((v, s, src) :: drops) evs'
      | EMove src v s dst | ERackMove src v s dst =>
          let fs := move_fails r0 rs limit drops src v s dst in
          let '(rs', drops', fs') := replay r0 (r_upd (r_upd rs dst (r_add v s)) src (r_remove v s)) limit drops evs' in
          (rs', drops', fs ++ fs')
      | _ => replay r0 rs limit drops evs'
      end
  end.

Definition slots (n : rnode) : Z := (r_free n + Z.of_nat (length (r_holds n)))%Z.
Definition in_drops (drops : list drop3) (v s n : N) : bool :=
  existsb (fun d : drop3 => (fst (fst d) =? v) && (snd (fst d) =? s) && (snd d =? n)) drops.
Definition key_dropped (drops : list drop3) (v s : N) : bool :=
  existsb (fun d : drop3 => (fst (fst d) =? v) && (snd (fst d) =? s)) drops.

(* books after  vs  the cluster after the plan, node by node and shard by shard *)
Fixpoint books_fails (rall r0 books rf : list rnode) (drops : list drop3) : list (fail * option N) :=
  match r0, books, rf with
  | [], [], [] => []
  | a :: r0', b :: books', f :: rf' =>
      if (r_id a =? r_id b) && (r_id b =? r_id f) then
        (if (slots b =? slots a)%Z then [] else [(FSlots (r_id b), None)]) ++
        flat_map (fun p : N * N =>
                    let '(v, s) := p in
                    if Bool.eqb (holds b v s) (holds f v s) then []
                    else let lost := holds f v s in
                         [(FBooks (r_id b) v s lost,
                           if dupkey rall v s then Some 1
                           else k0_if (lost && in_drops drops v s (r_id b)))])
                 (r_holds b ++ filter (fun p => negb (holds b (fst p) (snd p))) (r_holds f)) ++
        books_fails rall r0' books' rf' drops
      else [(FNodes, None)]
  | _, _, _ => [(FNodes, None)]
  end.

Definition prop_fails (c : case) : list (fail * option N) :=
  let r0 := ref_of (c_nodes c) in
  let nracks := length (dedup (map n_rack (c_nodes c))) in
  let '(rf, drops, fs) := replay r0 r0 (ceil_div total_shards (Z.of_nat nracks)) [] (c_events c) in
  let books := ref_of (c_final c) in
  let expected v s := if (0 <? r_total r0 v s)%nat then 1%nat else 0%nat in
  let vids := dedup (all_vids (c_nodes c) ++ all_vids (c_final c)) in
  (* every planned move is legal *)
  fs ++
  (* the books after the dry run are the cluster after the plan, and no slot leaked *)
  books_fails r0 r0 books rf drops ++
  (* every shard present before is present exactly once after; nothing else appears:
     in the cluster after the plan, and in the books *)
  flat_map (fun v => flat_map (fun s =>
      (if Nat.eqb (r_total rf v s) (expected v s) then []
       else [(FOnceReplay v s, k1_if (dupkey r0 v s))]) ++
      (if Nat.eqb (r_total books v s) (expected v s) then []
       else [(FOnceBooks v s, if dupkey r0 v s then Some 1 else k0_if (key_dropped drops v s))]))
    shard_range) vids.

(* the property is stated for well-formed books (one EcShardInfos entry per volume and server,
   which is what the master's topology produces); other layouts are correspondence-only *)
Definition wf_b (ns : list node) : bool :=
  forallb (fun n => Nat.eqb (length (dedup (map e_vid (entries n)))) (length (entries n))) ns &&
  Nat.eqb (length (dedup (map n_id ns))) (length ns).

(* all failures explained -> the finding of the first one; one unexplained failure -> None *)
Definition explain (fs : list (fail * option N)) : option N :=
  if forallb (fun f : fail * option N => match snd f with Some _ => true | None => false end) fs
  then match fs with (_, k) :: _ => k | [] => None end
  else None.

Definition check (c : case) : outcome :=
  let fs := if wf_b (c_nodes c) then prop_fails c else [] in
  {| o_corr := corr c;
     o_prop := match fs with [] => true | _ => false end;
     o_trig := explain fs;
     o_nontrivial := existsb is_move (c_events c) |}.

Definition summarize_cases (l : list case) : summary := summarize check l.
