(* Correspondence check for C39: operation sequences on the real filesys.FsCache.
   A case is a sequential prefix of operations followed by a set of alternative
   last operations ("branches"), each applied to a fresh replay of the prefix
   (so one case with an n-op prefix and all 40 branches covers 40 sequences of
   length n+1).  After EVERY operation the harness looks up every path of the
   universe.

   Coq's parser is the bottleneck of this check, so the harness writes cases with
   the short constructors below (path constants pA.., lookup codes o/i1.., the
   13-ary observation builder R) instead of string and number literals. *)
From Coq Require Import String List NArith Bool.
From SW Require Export base.Verdict model.FsCache.
Import ListNotations.
Local Open Scope string_scope.
Local Open Scope list_scope.

Record obs := {
  ob_ret : option N;            (* node returned by Get / Ensure *)
  ob_flag : bool;               (* Ensure: generator was called; Move: returned non-nil *)
  ob_all : list (option N);     (* GetFsNode of every universe path after the op *)
  ob_dump : list (path * option N);   (* every FsNode below the root after the op (walk of the
                                         real structure, placeholders included, any depth) *)
  ob_attr : option (N * string * option N) }.
                                (* Move of a node-carrying source, real *Dir/*File nodes: the
                                   node's id, its name field and its parent-directory id afterwards *)

Record case := {
  root : option N;
  univ : list path;
  ops : list op; impl : list obs;
  branches : list (op * obs);
  final : list (path * option N) }.   (* extra lookups after the last op of [ops] *)

(* ---- compact notation used by the harness ---- *)
Definition pR : path := [].
Definition pA : path := ["a"].
Definition pB : path := ["b"].
Definition pC : path := ["c"].
Definition pAX : path := ["a"; "x"].
Definition pAXY : path := ["a"; "x"; "y"].
Definition pBX : path := ["b"; "x"].
Definition pAY : path := ["a"; "y"].
Definition pBY : path := ["b"; "y"].
Definition pBXY : path := ["b"; "x"; "y"].
Definition pAXX : path := ["a"; "x"; "x"].
Definition pAXXY : path := ["a"; "x"; "x"; "y"].
Definition pBXX : path := ["b"; "x"; "x"].
(* the 12 paths looked up after every operation *)
Definition univ12 : list path := [pR; pA; pB; pAX; pAXY; pBX; pAY; pBY; pBXY; pAXX; pAXXY; pBXX].

(* lookup results: o = nil, iK = the node with id K *)
Inductive v := o | i1 | i2 | i3 | i4 | i5 | i6 | i7 | i8 | i9 | i10 | i11 | i12 | i13 | i14 | i15
  | i16 | i17 | i18 | i19 | i20 | i21 | i22 | i23 | i24 | i25 | i26 | i27 | i28 | i29 | i30 | i31 | i50.
Definition vd (x : v) : option N :=
  match x with
  | o => None | i1 => Some 1 | i2 => Some 2 | i3 => Some 3 | i4 => Some 4 | i5 => Some 5
  | i6 => Some 6 | i7 => Some 7 | i8 => Some 8 | i9 => Some 9 | i10 => Some 10 | i11 => Some 11
  | i12 => Some 12 | i13 => Some 13 | i14 => Some 14 | i15 => Some 15 | i16 => Some 16
  | i17 => Some 17 | i18 => Some 18 | i19 => Some 19 | i20 => Some 20 | i21 => Some 21
  | i22 => Some 22 | i23 => Some 23 | i24 => Some 24 | i25 => Some 25 | i26 => Some 26
  | i27 => Some 27 | i28 => Some 28 | i29 => Some 29 | i30 => Some 30 | i31 => Some 31
  | i50 => Some 50
  end%N.
Definition vn (x : v) : N := match vd x with Some n => n | None => 0%N end.

(* component names *)
Definition sa : string := "a".
Definition sb : string := "b".
Definition sc : string := "c".
Definition sx : string := "x".
Definition sy : string := "y".
(* attribute observation of a Move: A0 = none (source missing or a placeholder),
   At id name parent (parent o = the node has no parent directory) *)
Definition A0 : option (N * string * option N) := None.
Definition At (id : v) (name : string) (parent : v) : option (N * string * option N) :=
  Some (vn id, name, vd parent).
(* dump entries *)
Definition D (l : list (path * v)) : list (path * option N) := map (fun e => (fst e, vd (snd e))) l.

(* one observation: returned node, flag, the 12 lookups of univ12 in order, dump, attributes *)
Definition R (ret : v) (flag : bool) (c1 c2 c3 c4 c5 c6 c7 c8 c9 c10 c11 c12 : v)
    (dump : list (path * v)) (attr : option (N * string * option N)) : obs :=
  {| ob_ret := vd ret; ob_flag := flag;
     ob_all := map vd [c1; c2; c3; c4; c5; c6; c7; c8; c9; c10; c11; c12];
     ob_dump := D dump; ob_attr := attr |}.

(* operations with ids written as lookup codes *)
Definition St (p : path) (x : v) : op := Set_ p (vn x).
Definition En (p : path) (x : v) : op := Ensure p (vn x).

(* the Get sweep: "/" and every path of depth <= 3 over {a,b,x,y}, depth first *)
Definition names : list string := ["a"; "b"; "x"; "y"].
Fixpoint dfs (d : nat) (prefix : path) : list path :=
  match d with
  | O => []
  | S d' => flat_map (fun n => (prefix ++ [n]) :: dfs d' (prefix ++ [n])) names
  end.
Definition sweep85 : list path := [] :: dfs 3 [].
Definition F (l : list v) : list (path * option N) :=
  if Nat.eqb (length l) (length sweep85) then combine sweep85 (map vd l)
  else [([], Some 4294967295%N)].   (* wrong arity: an entry no cache can satisfy *)

(* ---- the check ---- *)
Definition on_eqb (a b : option N) : bool :=
  match a, b with
  | Some x, Some y => N.eqb x y
  | None, None => true
  | _, _ => false
  end.

Fixpoint all2 {A} (f : A -> A -> bool) (l1 l2 : list A) : bool :=
  match l1, l2 with
  | [], [] => true
  | x :: l1', y :: l2' => f x y && all2 f l1' l2'
  | _, _ => false
  end.

Definition is_move (op_ : op) : bool := match op_ with Move _ _ => true | _ => false end.
Definition is_nilp (p : path) : bool := match p with [] => true | _ => false end.

(* ---- the dump against the model tree: same set of FsNodes, same nodes ---- *)
Fixpoint size (t : tree) : nat :=
  match t with
  | Node _ k => S ((fix go (k : list (string * tree)) : nat :=
                      match k with [] => O | (_, c) :: k' => size c + go k' end) k)
  end.
Definition dump_ok (t : tree) (d : list (path * option N)) : bool :=
  forallb (fun pv => match node_at t (fst pv) with
                     | Some c => on_eqb (value c) (snd pv) && negb (is_nilp (fst pv))
                     | None => false end) d
  && Nat.eqb (S (length d)) (size t).
(* the walk lists every FsNode once *)
Fixpoint nodup_paths (d : list (path * option N)) : bool :=
  match d with
  | [] => true
  | pv :: d' => negb (existsb (fun e => path_eqb (fst pv) (fst e)) d') && nodup_paths d'
  end.

(* ---- against the placeholder-aware reference: directories exist exactly where it says ---- *)
Definition pdump_ok (s : pstate) (d : list (path * option N)) : bool :=
  forallb (fun pv => negb (is_nilp (fst pv)) && p_has s (fst pv) && on_eqb (p_get s (fst pv)) (snd pv)) d
  && forallb (fun e => is_nilp e || existsb (fun pv => path_eqb e (fst pv)) d) (p_dirs s).
(* ---- against the flat reference: bound paths and only those carry nodes ---- *)
Definition rdump_ok (m : rmap) (d : list (path * option N)) : bool :=
  forallb (fun pv => on_eqb (r_get m (fst pv)) (snd pv)) d
  && forallb (fun e => is_nilp (fst e) || match r_get m (fst e) with
                        | Some _ => existsb (fun pv => path_eqb (fst e) (fst pv)) d
                        | None => true end) m.

(* ---- node attributes rewritten by Move / connectToParent (real *Dir / *File nodes) ----
   fscache.go:122-131: the node's name becomes the last component of newPath;
   fscache.go:148-157: its parent directory becomes the node of the new parent
   FsNode ONLY when that node is non-nil, otherwise the old (stale) value stays. *)
Definition astate := list (N * option N).     (* id -> parent-directory id *)
Fixpoint a_parent (a : astate) (id : N) : option N :=
  match a with
  | [] => None
  | (k, p) :: a' => if N.eqb k id then p else a_parent a' id
  end.
Definition attr_step (t : tree) (a : astate) (op_ : op) : astate * option (N * string * option N) :=
  match op_ with
  | Move old new =>
      match node_at t old with
      | Some src =>
          match value src with
          | Some id =>
              let par := match get (remove_at t old) (removelast new) with
                         | Some pid => Some pid
                         | None => a_parent a id
                         end in
              ((id, par) :: a, Some (id, last new ""%string, par))
          | None => (a, None)
          end
      | None => (a, None)
      end
  | _ => (a, None)
  end.
Definition attr_eqb (x y : option (N * string * option N)) : bool :=
  match x, y with
  | None, None => true
  | Some (i, n, p), Some (i', n', p') => N.eqb i i' && String.eqb n n' && on_eqb p p'
  | _, _ => false
  end.

(* model vs implementation: everything the caller can see, the whole structure, the node fields *)
Definition corr_step (u : list path) (ta : tree * astate) (op_ : op) (ob : obs) : (tree * astate) * bool :=
  let '(t, a) := ta in
  let '(t', r) := step t op_ in
  let '(a', at_) := attr_step t a op_ in
  ((t', a'), on_eqb (r_node r) (ob_ret ob) && Bool.eqb (r_flag r) (ob_flag ob)
       && all2 on_eqb (map (get t') u) (ob_all ob)
       && dump_ok t' (ob_dump ob) && nodup_paths (ob_dump ob)
       && attr_eqb at_ (ob_attr ob)).

Fixpoint corr_run (u : list path) (ta : tree * astate) (os : list op) (obs_ : list obs) : (tree * astate) * bool :=
  match os, obs_ with
  | [], [] => (ta, true)
  | op_ :: os', ob :: obs' =>
      let '(ta', ok) := corr_step u ta op_ ob in
      let '(ta'', ok') := corr_run u ta' os' obs' in (ta'', ok && ok')
  | _, _ => (ta, false)
  end.

(* ---- the property's oracle, on the implementation's observables only ----
   Two references run side by side: the flat map [m] (the property's reference
   tree) and the placeholder-aware one [s].  One step:
     okp   the implementation equals the placeholder-aware reference EXACTLY
           (returned node, flags incl. Move's non-nil result, 12 lookups, dump);
     okr   it equals the flat reference (Move's result: non-nil whenever the
           flat reference has the source; a placeholder source may also succeed);
     ghost the step is a ghost move (known finding 0), decided on s and m.
   After a ghost step the flat reference restarts from the content the
   placeholder-aware reference holds, so every later step is checked again
   against the flat reference (the finding does not excuse the rest of the case). *)
Record pst := { ps : pstate; pm : rmap }.
Record stepres := { sr_okp : bool; sr_okr : bool; sr_ghost : bool }.

Definition prop_step (u : list path) (x : pst) (op_ : op) (ob : obs) : pst * stepres :=
  let s := ps x in let m := pm x in
  let g := pghost_move s m op_ in
  let '(s', rp) := p_step s op_ in
  let '(m', rr) := r_step m op_ in
  let okp := on_eqb (r_node rp) (ob_ret ob) && Bool.eqb (r_flag rp) (ob_flag ob)
             && all2 on_eqb (map (p_get s') u) (ob_all ob) && pdump_ok s' (ob_dump ob) in
  let okr := on_eqb (r_node rr) (ob_ret ob)
             && (if is_move op_ then implb (r_flag rr) (ob_flag ob) else Bool.eqb (r_flag rr) (ob_flag ob))
             && all2 on_eqb (map (r_get m') u) (ob_all ob) && rdump_ok m' (ob_dump ob) in
  ({| ps := s'; pm := if g then p_vals s' else m' |},
   {| sr_okp := okp; sr_okr := okr; sr_ghost := g |}).

(* accumulated over a run: all okp, all okr, okr on the non-ghost steps, number of ghost steps *)
Record acc := { ac_p : bool; ac_r : bool; ac_rn : bool; ac_g : N }.
Definition acc0 : acc := {| ac_p := true; ac_r := true; ac_rn := true; ac_g := 0%N |}.
Definition acc_add (a : acc) (r : stepres) : acc :=
  {| ac_p := ac_p a && sr_okp r; ac_r := ac_r a && sr_okr r;
     ac_rn := ac_rn a && (sr_ghost r || sr_okr r);
     ac_g := if sr_ghost r then N.succ (ac_g a) else ac_g a |}.
Definition acc_bad : acc := {| ac_p := false; ac_r := false; ac_rn := false; ac_g := 0%N |}.

Fixpoint prop_run (u : list path) (x : pst) (os : list op) (obs_ : list obs) (a : acc) : pst * acc :=
  match os, obs_ with
  | [], [] => (x, a)
  | op_ :: os', ob :: obs' =>
      let '(x', r) := prop_step u x op_ ob in prop_run u x' os' obs' (acc_add a r)
  | _, _ => (x, acc_bad)
  end.

Definition some_node (ob : obs) : bool :=
  existsb (fun x => match x with Some _ => true | None => false end) (ob_all ob).

Definition check (c : case) : outcome :=
  let u := univ c in
  let '(ta, ok_c) := corr_run u (init (root c), []) (ops c) (impl c) in
  let '(x, a) := prop_run u {| ps := p_init (root c); pm := r_init (root c) |} (ops c) (impl c) acc0 in
  let fin_c := forallb (fun pv => on_eqb (get (fst ta) (fst pv)) (snd pv)) (final c) in
  let fin_p := forallb (fun pv => on_eqb (p_get (ps x) (fst pv)) (snd pv)) (final c) in
  let fin_r := forallb (fun pv => on_eqb (r_get (pm x) (fst pv)) (snd pv)) (final c) in
  let br_c := forallb (fun b => snd (corr_step u ta (fst b) (snd b))) (branches c) in
  (* every branch is one more step from the end of the prefix *)
  let a' := fold_left (fun a b => acc_add a (snd (prop_step u x (fst b) (snd b)))) (branches c) a in
  let valid := forallb valid_op (ops c) && forallb (fun b => valid_op (fst b)) (branches c) in
  {| o_corr := valid && ok_c && br_c && fin_c;
     o_prop := ac_p a' && ac_r a' && fin_p && fin_r;
     (* finding 0: some step is a ghost move, the implementation does exactly what
        the placeholder-aware reference says everywhere, and the ONLY steps that
        deviate from the flat reference are the ghost moves themselves *)
     o_trig := if negb (N.eqb (ac_g a') 0) && ac_p a' && ac_rn a' && fin_p && fin_r
               then Some 0%N else None;
     o_nontrivial := existsb some_node (impl c) || existsb (fun b => some_node (snd b)) (branches c) |}.

Definition summarize_cases (l : list case) : summary := summarize check l.
