(* Correspondence check for C39: operation sequences on the real filesys.FsCache.
   A case is a sequential prefix of operations followed by a set of alternative
   last operations ("branches"), each applied to a fresh replay of the prefix
   (so one case with an n-op prefix and all 40 branches covers 40 sequences of
   length n+1).  After EVERY operation the harness looks up every path of the
   universe.

   Coq's parser is the bottleneck of this check, so the harness writes cases with
   the short constructors below (path constants pA.., lookup codes o/i1.., the
   13-ary observation builder R) instead of string and number literals. *)
From Coq Require Import String List NArith Bool.
From SW Require Export base.Verdict model.FsCache.
Import ListNotations.
Local Open Scope string_scope.
Local Open Scope list_scope.

Record obs := {
  ob_ret : option N;            (* node returned by Get / Ensure *)
  ob_flag : bool;               (* Ensure: generator was called; Move: returned non-nil *)
  ob_all : list (option N) }.   (* GetFsNode of every universe path after the op *)

Record case := {
  root : option N;
  univ : list path;
  ops : list op; impl : list obs;
  branches : list (op * obs);
  final : list (path * option N) }.   (* extra lookups after the last op of [ops] *)

(* ---- compact notation used by the harness ---- *)
Definition pR : path := [].
Definition pA : path := ["a"].
Definition pB : path := ["b"].
Definition pC : path := ["c"].
Definition pAX : path := ["a"; "x"].
Definition pAXY : path := ["a"; "x"; "y"].
Definition pBX : path := ["b"; "x"].
Definition pAY : path := ["a"; "y"].
Definition pBY : path := ["b"; "y"].
Definition pBXY : path := ["b"; "x"; "y"].
Definition pAXX : path := ["a"; "x"; "x"].
Definition pAXXY : path := ["a"; "x"; "x"; "y"].
Definition pBXX : path := ["b"; "x"; "x"].
(* the 12 paths looked up after every operation *)
Definition univ12 : list path := [pR; pA; pB; pAX; pAXY; pBX; pAY; pBY; pBXY; pAXX; pAXXY; pBXX].

(* lookup results: o = nil, iK = the node with id K *)
Inductive v := o | i1 | i2 | i3 | i4 | i5 | i6 | i7 | i8 | i9 | i10 | i11 | i12 | i13 | i14 | i15
  | i16 | i17 | i18 | i19 | i20 | i21 | i22 | i23 | i24 | i25 | i26 | i27 | i28 | i29 | i30 | i31 | i50.
Definition vd (x : v) : option N :=
  match x with
  | o => None | i1 => Some 1 | i2 => Some 2 | i3 => Some 3 | i4 => Some 4 | i5 => Some 5
  | i6 => Some 6 | i7 => Some 7 | i8 => Some 8 | i9 => Some 9 | i10 => Some 10 | i11 => Some 11
  | i12 => Some 12 | i13 => Some 13 | i14 => Some 14 | i15 => Some 15 | i16 => Some 16
  | i17 => Some 17 | i18 => Some 18 | i19 => Some 19 | i20 => Some 20 | i21 => Some 21
  | i22 => Some 22 | i23 => Some 23 | i24 => Some 24 | i25 => Some 25 | i26 => Some 26
  | i27 => Some 27 | i28 => Some 28 | i29 => Some 29 | i30 => Some 30 | i31 => Some 31
  | i50 => Some 50
  end%N.
Definition vn (x : v) : N := match vd x with Some n => n | None => 0%N end.

(* one observation: returned node, flag, the 12 lookups of univ12 in order *)
Definition R (ret : v) (flag : bool) (c1 c2 c3 c4 c5 c6 c7 c8 c9 c10 c11 c12 : v) : obs :=
  {| ob_ret := vd ret; ob_flag := flag;
     ob_all := map vd [c1; c2; c3; c4; c5; c6; c7; c8; c9; c10; c11; c12] |}.

(* operations with ids written as lookup codes *)
Definition St (p : path) (x : v) : op := Set_ p (vn x).
Definition En (p : path) (x : v) : op := Ensure p (vn x).

(* the Get sweep: "/" and every path of depth <= 3 over {a,b,x,y}, depth first *)
Definition names : list string := ["a"; "b"; "x"; "y"].
Fixpoint dfs (d : nat) (prefix : path) : list path :=
  match d with
  | O => []
  | S d' => flat_map (fun n => (prefix ++ [n]) :: dfs d' (prefix ++ [n])) names
  end.
Definition sweep85 : list path := [] :: dfs 3 [].
Definition F (l : list v) : list (path * option N) :=
  if Nat.eqb (length l) (length sweep85) then combine sweep85 (map vd l)
  else [([], Some 4294967295%N)].   (* wrong arity: an entry no cache can satisfy *)

(* ---- the check ---- *)
Definition on_eqb (a b : option N) : bool :=
  match a, b with
  | Some x, Some y => N.eqb x y
  | None, None => true
  | _, _ => false
  end.

Fixpoint all2 {A} (f : A -> A -> bool) (l1 l2 : list A) : bool :=
  match l1, l2 with
  | [], [] => true
  | x :: l1', y :: l2' => f x y && all2 f l1' l2'
  | _, _ => false
  end.

Definition is_move (op_ : op) : bool := match op_ with Move _ _ => true | _ => false end.

(* model vs implementation: everything the caller can see *)
Definition corr_step (u : list path) (t : tree) (op_ : op) (ob : obs) : tree * bool :=
  let '(t', r) := step t op_ in
  (t', on_eqb (r_node r) (ob_ret ob) && Bool.eqb (r_flag r) (ob_flag ob)
       && all2 on_eqb (map (get t') u) (ob_all ob)).

(* reference vs implementation: the lookups (the *FsNode returned by Move is not
   a lookup and is left to the correspondence) *)
Definition prop_step (u : list path) (m : rmap) (op_ : op) (ob : obs) : rmap * bool :=
  let '(m', r) := r_step m op_ in
  (m', on_eqb (r_node r) (ob_ret ob) && (is_move op_ || Bool.eqb (r_flag r) (ob_flag ob))
       && all2 on_eqb (map (r_get m') u) (ob_all ob)).

Fixpoint corr_run (u : list path) (t : tree) (os : list op) (obs_ : list obs) : tree * bool :=
  match os, obs_ with
  | [], [] => (t, true)
  | op_ :: os', ob :: obs' =>
      let '(t', ok) := corr_step u t op_ ob in
      let '(t'', ok') := corr_run u t' os' obs' in (t'', ok && ok')
  | _, _ => (t, false)
  end.

Fixpoint prop_run (u : list path) (m : rmap) (os : list op) (obs_ : list obs) : rmap * bool :=
  match os, obs_ with
  | [], [] => (m, true)
  | op_ :: os', ob :: obs' =>
      let '(m', ok) := prop_step u m op_ ob in
      let '(m'', ok') := prop_run u m' os' obs' in (m'', ok && ok')
  | _, _ => (m, false)
  end.

Definition some_node (ob : obs) : bool :=
  existsb (fun x => match x with Some _ => true | None => false end) (ob_all ob).

Definition check (c : case) : outcome :=
  let u := univ c in
  let '(t, ok_c) := corr_run u (init (root c)) (ops c) (impl c) in
  let '(m, ok_p) := prop_run u (r_init (root c)) (ops c) (impl c) in
  let fin_c := forallb (fun pv => on_eqb (get t (fst pv)) (snd pv)) (final c) in
  let fin_p := forallb (fun pv => on_eqb (r_get m (fst pv)) (snd pv)) (final c) in
  let br_c := forallb (fun b => snd (corr_step u t (fst b) (snd b))) (branches c) in
  (* branches on which the reference disagrees with the implementation *)
  let bad := filter (fun b => negb (snd (prop_step u m (fst b) (snd b)))) (branches c) in
  let valid := forallb valid_op (ops c) && forallb (fun b => valid_op (fst b)) (branches c) in
  {| o_corr := valid && ok_c && br_c && fin_c;
     o_prop := ok_p && fin_p && match bad with [] => true | _ => false end;
     (* finding 0: a ghost move in the prefix, or every failing branch is itself a ghost move *)
     o_trig := if trigger (root c) (ops c)
                  || (ok_p && fin_p && match bad with [] => false | _ => true end
                           && forallb (fun b => ghost_move t m (fst b)) bad)
               then Some 0%N else None;
     o_nontrivial := existsb some_node (impl c) || existsb (fun b => some_node (snd b)) (branches c) |}.

Definition summarize_cases (l : list case) : summary := summarize check l.
