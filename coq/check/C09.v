(* Correspondence check for C09 (TTL data lives exactly as long as promised).
   The Go code reads the wall clock; every clock-dependent observation in a case is
   bracketed by two clock readings taken by the harness (before and after the call):
   the implementation's clock read lies between them, and the model has to agree
   with the implementation at one of the two ends ([either]). *)
From Coq Require Import List NArith ZArith Bool String.
From SW Require Export base.Verdict model.Ttl model.TtlHist.
Import ListNotations.
Local Open Scope N_scope.

(* SecondsToTTL(s) = str; ReadTTL(str) = (count, unit); its Minutes() *)
Record sobs := { so_s : Z; so_str : string; so_count : N; so_unit : N; so_minutes : N }.

(* ReadTTL(str) and everything derived from the TTL it returns *)
Record tobs := { to_str : string; to_count : N; to_unit : N; to_minutes : N; to_string : string;
                 to_u32 : N; to_u32_back : N * N; to_bytes_back : N * N }.

(* one upload into a volume *)
Record nobs := {
  b_req_ttl : string; b_ts : N;        (* ttl= and ts= of the upload (ts 0: absent) *)
  b_tw1 : N; b_tw2 : N;                (* seconds around CreateNeedleFromRequest *)
  b_append : N;                        (* AppendAtNs of the stored record (after aging) *)
  b_has_ttl : bool; b_has_lm : bool; b_count : N; b_unit : N; b_lm : N;   (* stored record, parsed by ReadData *)
  b_r1 : N; b_r2 : N; b_readable : bool;          (* ReadVolumeNeedle *)
  b_kept : bool;                                   (* live in the needle map after Compact2 or Compact, then CommitCompact *)
  b_r3 : N; b_r4 : N; b_readable_after : bool
}.

Record vobs := {
  vo_vttl : string; vo_vcount : N; vo_vunit : N;  (* AddVolume(ttl); ReadTTL of it *)
  vo_t0 : N;                                       (* initial stamp *)
  vo_needles : list nobs;
  vo_stamp : N;                                    (* lastModifiedTsSeconds after the writes *)
  vo_compact : bool; vo_c1 : N; vo_c2 : N;         (* seconds around Compact2 *)
  vo_hb_stamp : N; vo_size : N; vo_limit : N; vo_ioerr : bool;
  vo_d1 : N; vo_d2 : N;                            (* seconds around CollectHeartbeat *)
  vo_reported : bool; vo_deleted : bool
}.

Record eobs := { eo_stamp : N; eo_size : N; eo_limit : N; eo_delay : N; eo_h1 : N; eo_h2 : N;
                 eo_expired : bool; eo_long : bool }.

Record fobs := { fo_crtime : N; fo_ttl : Z; fo_f1 : N; fo_f2 : N; fo_found : bool; fo_in_store : bool }.

(* a chunk an entry can point at: uploaded under TtlSec [ck_s] (volume TTL
   SecondsToTTL(ck_s)), appended at [ck_append] ns; [ck_minutes] is what the real
   ReadTTL(SecondsToTTL(ck_s)).Minutes() returned *)
Record chk := { ck_id : N; ck_s : Z; ck_append : N; ck_minutes : N }.

(* one operation on a real Filer over leveldb: clock reads around it, the operation,
   its result and the raw content of the store (no expiry applied) after it *)
Record fstep := { fq_t1 : N; fq_t2 : N; fq_op : fop; fq_res : fres; fq_snap : list (N * fentry) }.

(* ---- histories of uploads of ONE key into one volume (model/TtlHist.v) ----
   the stored record of the key as the real Needle.ReadData parses it, after a step *)
Record hrobs := { ho_has_ttl : bool; ho_has_lm : bool; ho_count : N; ho_unit : N; ho_lm : N; ho_append : N;
                  ho_cookie : N; ho_data : N }.
(* one step: wall clock (ns) before and after the call; the operation (an upload carries
   the in-memory needle's LastModified after CreateNeedleFromRequest and its AppendAtNs
   after WriteVolumeNeedle, 0 when nothing was appended; the clock fields of HRead /
   HExpired are placeholders, the model is run at both ends of the bracket); uploads:
   the real ReadTTL(ttl=) as (count, unit); result; stored record and volume stamp after *)
Record hstepobs := { hs_t1 : N; hs_t2 : N; hs_op : hop; hs_ttl : N * N; hs_res : hres;
                     hs_rec : option hrobs; hs_stamp : N }.

Inductive case :=
| CVolHist (vttl : string) (vcount vunit : N) (t0 : N) (steps : list hstepobs)
| CSeconds (l : list sobs)
| CTtl (l : list tobs)
| CVolume (v : vobs)
| CExpire (vttl : string) (count unit : N) (l : list eobs)
| CFiler (l : list fobs)
| CFilerSeq (chunks : list chk) (steps : list fstep).

Definition either (b x y : bool) : bool := Bool.eqb b x || Bool.eqb b y.
Definition pair_eqb (p : N * N) (a b : N) : bool := (fst p =? a) && (snd p =? b).

(* ---- independent reference: minutes of a (count, unit) pair by table lookup ---- *)
Definition spec_unit_minutes : list N := [0; 1; 60; 1440; 10080; 43200; 525600].
Definition spec_minutes (count unit : N) : N := count * nth (N.to_nat unit) spec_unit_minutes 0.

(* ---- seconds ---- *)
Definition sec_corr (o : sobs) : bool :=
  String.eqb (so_str o) (seconds_to_ttl (so_s o)) &&
  ttl_eqb (read_ttl (so_str o)) {| t_count := so_count o; t_unit := so_unit o |} &&
  (minutes {| t_count := so_count o; t_unit := so_unit o |} =? so_minutes o).
(* the volume TTL chosen for a positive TtlSec covers it (0 minutes = no expiry) *)
Definition sec_prop (o : sobs) : bool :=
  (so_s o <=? 0)%Z || (so_minutes o =? 0) || (so_s o <=? 60 * Z.of_N (so_minutes o))%Z.
Definition sec_trig (o : sobs) : bool := (60 <=? so_s o)%Z && negb (representable (so_s o)).

(* ---- TTL strings ---- *)
Definition ttl_corr (o : tobs) : bool :=
  let t := read_ttl (to_str o) in
  ttl_eqb t {| t_count := to_count o; t_unit := to_unit o |} &&
  (minutes t =? to_minutes o) && String.eqb (ttl_string t) (to_string o) &&
  (to_uint32 t =? to_u32 o) &&
  (let b := load_from_uint32 (to_uint32 t) in pair_eqb (to_u32_back o) (t_count b) (t_unit b)) &&
  (let b := load_from_bytes (fst (to_bytes t)) (snd (to_bytes t)) in pair_eqb (to_bytes_back o) (t_count b) (t_unit b)).
(* the stored forms keep the lifetime *)
Definition ttl_prop (o : tobs) : bool :=
  (to_minutes o =? spec_minutes (to_count o) (to_unit o)) &&
  pair_eqb (to_bytes_back o) (to_count o) (to_unit o) &&
  (spec_minutes (fst (to_u32_back o)) (snd (to_u32_back o)) =? to_minutes o).

(* ---- volumes ---- *)
Definition mem_needle (o : nobs) : needle := create_needle (b_req_ttl o) (b_ts o) (b_lm o).
Definition stored_needle (vttl : string) (o : nobs) : needle := write_needle vttl (mem_needle o) (b_append o).

Definition vol_of (v : vobs) : volume :=
  {| v_ttl := read_ttl (vo_vttl v); v_last_mod := vo_hb_stamp v; v_size := vo_size v;
     v_limit := vo_limit v; v_io_error := vo_ioerr v |}.

Definition needle_corr (v : vobs) (o : nobs) : bool :=
  let st := stored_needle (vo_vttl v) o in
  let vt := read_ttl (vo_vttl v) in
  Bool.eqb (has_ttl st) (b_has_ttl o) && Bool.eqb (has_lm st) (b_has_lm o) &&
  ttl_eqb (n_ttl st) {| t_count := b_count o; t_unit := b_unit o |} &&
  (last_modified st =? b_lm o) &&
  (if b_ts o =? 0 then (b_tw1 o <=? b_lm o) && (b_lm o <=? b_tw2 o) else true) &&
  either (b_readable o) (read_visible (b_r1 o) st) (read_visible (b_r2 o) st) &&
  (if vo_compact v
   then either (b_kept o) (compaction_keeps (vo_c1 v) vt st) (compaction_keeps (vo_c2 v) vt st)
   else b_kept o) &&
  either (b_readable_after o) (b_kept o && read_visible (b_r3 o) st) (b_kept o && read_visible (b_r4 o) st).

Definition vol_corr (v : vobs) : bool :=
  ttl_eqb (read_ttl (vo_vttl v)) {| t_count := vo_vcount v; t_unit := vo_vunit v |} &&
  forallb (needle_corr v) (vo_needles v) &&
  (fold_left (fun s o => vol_stamp_after_write s (last_modified (mem_needle o))) (vo_needles v) (vo_t0 v) =? vo_stamp v) &&
  either (vo_reported v) (negb (volume_expired (vo_d1 v) (vol_of v))) (negb (volume_expired (vo_d2 v) (vol_of v))) &&
  either (vo_deleted v) (volume_deleted (vo_d1 v) (vol_of v)) (volume_deleted (vo_d2 v) (vol_of v)).

(* the promise, on the stored record the implementation reports: a blob with a TTL
   of m > 0 minutes is readable exactly until m minutes after it was appended *)
Definition promise_at (o : nobs) (now : N) : bool :=
  let m := spec_minutes (b_count o) (b_unit o) in
  if b_has_ttl o && b_has_lm o && (0 <? m) then now <? b_append o + m * 60 * 1000000000 else true.

(* "removed early" is only claimed for a blob that was read successfully and is, by
   the promise, still alive one full second after the removing step finished (the
   harness cannot freeze the clock between its read and the compaction/heartbeat) *)
Definition alive_past (o : nobs) (end_s : N) : bool :=
  b_readable o && promise_at o ((end_s + 1) * 1000000000).

Definition needle_prop (v : vobs) (o : nobs) : bool :=
  either (b_readable o) (promise_at o (b_r1 o)) (promise_at o (b_r2 o)) &&
  implb (vo_compact v && alive_past o (vo_c2 v)) (b_kept o) &&
  either (b_readable_after o) (b_kept o && promise_at o (b_r3 o)) (b_kept o && promise_at o (b_r4 o)).

Definition vol_prop (v : vobs) : bool :=
  forallb (needle_prop v) (vo_needles v) &&
  implb (existsb (fun o => alive_past o (vo_d2 v)) (vo_needles v)) (negb (vo_deleted v)).

(* Triggers, per needle and on the IMPLEMENTATION's observations: a needle the real
   compaction dropped while it was alive must itself be inside the exact set
   [compaction_early] of c09_compaction_early_iff (finding 1 when the volume span is the
   cause, else finding 2), and a deletion of the volume while a needle was alive needs
   such a needle inside [expiry_early] of c09_expiry_early_iff (finding 3); the same
   predicates as in c09_volume_not_removed_early_partial.  One violating needle outside
   its set and the case carries no trigger. *)
Definition vol_trig (v : vobs) : option N :=
  let vt := read_ttl (vo_vttl v) in
  let st o := stored_needle (vo_vttl v) o in
  let cviol := filter (fun o => vo_compact v && alive_past o (vo_c2 v) && negb (b_kept o)) (vo_needles v) in
  let dviol := existsb (fun o => alive_past o (vo_d2 v)) (vo_needles v) && vo_deleted v in
  let by_ttl o := negb (expiring (st o)) || (volume_span_s vt <? minutes (n_ttl (st o)) * 60) in
  let c_ok := forallb (fun o => compaction_early vt (st o)) cviol in
  let d_ok := implb dviol (existsb (fun o => alive_past o (vo_d2 v) && expiry_early (vol_of v) (st o)) (vo_needles v)) in
  if negb (c_ok && d_ok) then None
  else if existsb by_ttl cviol then Some 1
  else if negb (Nat.eqb (List.length cviol) 0) then Some 2
  else if dviol then Some 3
  else None.

(* ---- expiry predicates ---- *)
Definition exp_vol (vttl : string) (o : eobs) : volume :=
  {| v_ttl := read_ttl vttl; v_last_mod := eo_stamp o; v_size := eo_size o; v_limit := eo_limit o; v_io_error := false |}.
Definition exp_corr (vttl : string) (o : eobs) : bool :=
  let v := exp_vol vttl o in
  either (eo_expired o) (volume_expired (eo_h1 o) v) (volume_expired (eo_h2 o) v) &&
  either (eo_long o) (expired_long_enough (eo_h1 o) v (eo_delay o)) (expired_long_enough (eo_h2 o) v (eo_delay o)).
(* a volume is never called expired before its own TTL has passed since its stamp *)
Definition exp_prop (count unit : N) (o : eobs) : bool :=
  let m := spec_minutes count unit in
  implb (eo_expired o || eo_long o) ((0 <? m) && (eo_stamp o + m * 60 <=? eo_h2 o)).

(* ---- filer ---- *)
Definition filer_corr (o : fobs) : bool :=
  either (fo_found o) (entry_visible (fo_f1 o) (fo_crtime o) (fo_ttl o)) (entry_visible (fo_f2 o) (fo_crtime o) (fo_ttl o)) &&
  Bool.eqb (fo_in_store o) (fo_found o).
Definition filer_spec (o : fobs) (now : N) : bool :=
  (fo_ttl o <=? 0)%Z || (Z.of_N now <=? (Z.of_N (fo_crtime o) + fo_ttl o) * 1000000000)%Z.
Definition filer_prop (o : fobs) : bool :=
  either (fo_found o) (filer_spec o (fo_f1 o)) (filer_spec o (fo_f2 o)) && Bool.eqb (fo_in_store o) (fo_found o).

(* ---- filer histories ---- *)
Fixpoint list_eqb {A : Type} (f : A -> A -> bool) (a b : list A) : bool :=
  match a, b with
  | [], [] => true
  | x :: a', y :: b' => f x y && list_eqb f a' b'
  | _, _ => false
  end.
Definition fentry_eqb (a b : fentry) : bool :=
  (fe_crtime a =? fe_crtime b) && (fe_mtime a =? fe_mtime b) && (fe_ttl a =? fe_ttl b)%Z &&
  list_eqb N.eqb (fe_chunks a) (fe_chunks b).
Definition fpair_eqb (a b : N * fentry) : bool := (fst a =? fst b) && fentry_eqb (snd a) (snd b).
Definition fres_eqb (a b : fres) : bool :=
  match a, b with
  | RDone x, RDone y => x =? y
  | RFound None, RFound None => true
  | RFound (Some x), RFound (Some y) => fentry_eqb x y
  | RListed x, RListed y => list_eqb fpair_eqb x y
  | _, _ => false
  end.
Definition fout_eqb (a b : fres * fstore) : bool := fres_eqb (fst a) (fst b) && list_eqb fpair_eqb (snd a) (snd b).

Definition fseq_model (clock : fstep -> N) (steps : list fstep) : list (fres * fstore) :=
  snd (filer_run [] (map (fun s => (clock s, fq_op s)) steps)).

(* the model replays the history from the empty directory, with every clock at the start
   of its bracket or every clock at the end (the harness retries a history in which a
   deadline falls inside a bracket) *)
Definition fseq_corr (chunks : list chk) (steps : list fstep) : bool :=
  forallb (fun c => minutes (filer_volume_ttl (ck_s c)) =? ck_minutes c) chunks &&
  (let impl := map (fun s => (fq_res s, fq_snap s)) steps in
   list_eqb fout_eqb (fseq_model fq_t1 steps) impl || list_eqb fout_eqb (fseq_model fq_t2 steps) impl).

(* the oracle, on the implementation's observations only *)
Definition within (c : N) (s : Z) (t : N) : bool :=
  (s <=? 0)%Z || (Z.of_N t <=? (Z.of_N c + s) * 1000000000)%Z.
Definition chunk_alive (chunks : list chk) (t : N) (id : N) : bool :=
  match find (fun c => ck_id c =? id) chunks with
  | Some c => (ck_minutes c =? 0) || (t <? ck_append c + ck_minutes c * 60 * 1000000000)
  | None => false
  end.
(* the writer did its part: every chunk was uploaded under the entry's TtlSec, after
   the second the entry's Crtime was truncated to *)
Definition disciplined (chunks : list chk) (e : fentry) : bool :=
  forallb (fun id => match find (fun c => ck_id c =? id) chunks with
                     | Some c => (ck_s c =? fe_ttl e)%Z && (fe_crtime e * 1000000000 <? ck_append c)
                     | None => false end) (fe_chunks e).
Definition s_trig (s : Z) : bool := (60 <=? s)%Z && negb (representable s).

(* a returned entry is what the store held, inside its Crtime + TtlSec window *)
Definition seen_ok (prev : list (N * fentry)) (s : fstep) (p : N) (e : fentry) : bool :=
  within (fe_crtime e) (fe_ttl e) (fq_t1 s) &&
  match fs_get prev p with Some x => fentry_eqb x e | None => false end.
(* ... and its data can still be read *)
Definition seen_data_ok (chunks : list chk) (s : fstep) (e : fentry) : bool :=
  implb (disciplined chunks e) (forallb (chunk_alive chunks (fq_t1 s)) (fe_chunks e)).
(* an entry that was not returned had passed its window *)
Definition gone_ok (s : fstep) (e : fentry) : bool := negb (within (fe_crtime e) (fe_ttl e) (fq_t2 s)).

(* a rewrite of a visible entry keeps its Crtime and takes everything else from the
   new entry; a write to a free (or expired) name stores the entry as given *)
Definition write_ok (prev : list (N * fentry)) (s : fstep) (p : N) (e : fentry) (upd : bool) : bool :=
  match fs_get prev p with
  | Some oe =>
      if within (fe_crtime oe) (fe_ttl oe) (fq_t2 s)
      then match fs_get (fq_snap s) p with
           | Some ne => (fe_crtime ne =? fe_crtime oe) && (fe_mtime ne =? fe_mtime e) &&
                        (fe_ttl ne =? fe_ttl e)%Z && list_eqb N.eqb (fe_chunks ne) (fe_chunks e)
           | None => false end
      else if upd then match fs_get (fq_snap s) p with None => true | Some _ => false end
      else match fs_get (fq_snap s) p with Some ne => fentry_eqb ne e | None => false end
  | None =>
      if upd then match fs_get (fq_snap s) p with None => true | Some _ => false end
      else match fs_get (fq_snap s) p with Some ne => fentry_eqb ne e | None => false end
  end.

Definition fstep_struct_ok (prev : list (N * fentry)) (s : fstep) : bool :=
  match fq_op s, fq_res s with
  | FFind p, RFound (Some e) => seen_ok prev s p e
  | FFind p, RFound None => match fs_get prev p with Some x => gone_ok s x | None => true end
  | FList, RListed l =>
      forallb (fun qe => seen_ok prev s (fst qe) (snd qe)) l &&
      forallb (fun qe => match fs_get l (fst qe) with Some _ => true | None => gone_ok s (snd qe) end) prev
  | FCreate p e false, RDone 0 => write_ok prev s p e false
  | FUpdate p e, RDone 0 => write_ok prev s p e true
  | FUpdate p e, RDone _ => match fs_get prev p with Some x => gone_ok s x | None => true end
  | _, _ => true
  end.
Definition fstep_seen (s : fstep) : list fentry :=
  match fq_res s with
  | RFound (Some e) => [e]
  | RListed l => map snd l
  | _ => []
  end.

Fixpoint fseq_fold (f : list (N * fentry) -> fstep -> bool) (prev : list (N * fentry)) (steps : list fstep) : bool :=
  match steps with
  | [] => true
  | s :: r => f prev s && fseq_fold f (fq_snap s) r
  end.
Definition fseq_struct_ok (steps : list fstep) : bool := fseq_fold fstep_struct_ok [] steps.
Definition fseq_data_ok (chunks : list chk) (steps : list fstep) : bool :=
  forallb (fun s => forallb (seen_data_ok chunks s) (fstep_seen s)) steps.
(* finding 0 seen from the filer: the only data failures allowed under the trigger are
   chunks whose own TtlSec SecondsToTTL rounded down *)
Definition fseq_trig (chunks : list chk) (steps : list fstep) : option N :=
  let excused s e := forallb (fun id => chunk_alive chunks (fq_t1 s) id ||
                        match find (fun c => ck_id c =? id) chunks with Some c => s_trig (ck_s c) | None => false end)
                       (fe_chunks e) in
  if fseq_struct_ok steps &&
     forallb (fun s => forallb (fun e => seen_data_ok chunks s e || excused s e) (fstep_seen s)) steps
  then Some 0 else None.

(* ---- upload histories on one key ---- *)
Definition hop_at (clock : N) (o : hop) : hop :=
  match o with
  | HRead _ => HRead clock
  | HExpired _ size limit => HExpired (clock / NS) size limit
  | _ => o
  end.
Definition hres_eqb (a b : hres) : bool :=
  match a, b with
  | HAck x, HAck y => Bool.eqb x y
  | HRefused, HRefused => true
  | HData None, HData None => true
  | HData (Some x), HData (Some y) => x =? y
  | HExp x, HExp y => Bool.eqb x y
  | HAged, HAged => true
  | _, _ => false
  end.
Definition hrec_obs_eqb (r : hrec) (o : hrobs) : bool :=
  let n := hr_needle r in
  Bool.eqb (has_ttl n) (ho_has_ttl o) && Bool.eqb (has_lm n) (ho_has_lm o) &&
  ttl_eqb (n_ttl n) {| t_count := ho_count o; t_unit := ho_unit o |} &&
  (last_modified n =? ho_lm o) && (append_at_ns n =? ho_append o) &&
  (hr_cookie r =? ho_cookie o) && (hr_data r =? ho_data o).
Definition hstate_matches (st : hstate) (s : hstepobs) : bool :=
  match h_rec st, hs_rec s with
  | None, None => true
  | Some r, Some o => hrec_obs_eqb r o
  | _, _ => false
  end && (h_stamp st =? hs_stamp s).
(* the clocks an appending upload read lie inside the harness's bracket *)
Definition hclock_ok (s : hstepobs) (model_res : hres) : bool :=
  match hs_op s, model_res with
  | HUpload _ ts _ _ parse_s append_ns, HAck false =>
      (hs_t1 s <=? append_ns) && (append_ns <=? hs_t2 s) &&
      (if ts =? 0 then (hs_t1 s / NS <=? parse_s) && (parse_s <=? hs_t2 s / NS) else true)
  | _, _ => true
  end.
Fixpoint hist_corr (vttl : string) (st : hstate) (steps : list hstepobs) : bool :=
  match steps with
  | [] => true
  | s :: r =>
      let '(st1, res1) := hstep vttl st (hop_at (hs_t1 s) (hs_op s)) in
      let res2 := snd (hstep vttl st (hop_at (hs_t2 s) (hs_op s))) in
      (hres_eqb res1 (hs_res s) || hres_eqb res2 (hs_res s)) &&
      hstate_matches st1 s && hclock_ok s res1 && hist_corr vttl st1 r
  end.

(* the oracle, on the implementation's observations only: the LAST ACKNOWLEDGED upload
   (moved by the aging steps after it) decides: its content is readable until its
   acknowledgement + its effective TTL (ttl= of the upload, else the volume's) *)
Record hlast := { hl_m : N; hl_lo : N; hl_hi : N; hl_data : N; hl_dedup : bool }.
Definition hist_eff_minutes (vcount vunit : N) (req : string) (t : N * N) : N :=
  if String.eqb req EmptyString then spec_minutes vcount vunit else spec_minutes (fst t) (snd t).
Definition hist_next (vcount vunit : N) (notv : bool) (L : option hlast) (s : hstepobs) : option hlast :=
  match hs_op s, hs_res s with
  | HUpload req _ _ data _ _, HAck u =>
      Some {| hl_m := hist_eff_minutes vcount vunit req (hs_ttl s); hl_lo := hs_t1 s; hl_hi := hs_t2 s;
              hl_data := data; hl_dedup := u && notv |}
  | HAge a _, _ =>
      option_map (fun l => {| hl_m := hl_m l; hl_lo := a; hl_hi := a; hl_data := hl_data l; hl_dedup := hl_dedup l |}) L
  | _, _ => L
  end.
Definition hist_step_ok (vm : N) (L : option hlast) (s : hstepobs) : bool :=
  match hs_op s, hs_res s with
  | HRead _, HData d =>
      match L with
      | None => match d with None => true | Some _ => false end
      | Some l =>
          let alive := match d with Some x => x =? hl_data l | None => false end in
          let dead := match d with None => true | Some _ => false end in
          if hl_m l =? 0 then alive
          else if hs_t2 s <? hl_lo l + hl_m l * 60000000000 then alive
          else if hl_hi l + hl_m l * 60000000000 <=? hs_t1 s then dead
          else alive || dead
      end
  | HExpired _ _ _, HExp b =>
      (* the volume is not called expired while a blob whose TTL the volume's TTL covers is alive *)
      match L with
      | None => negb b
      | Some l => implb (b && (0 <? hl_m l) && (hl_m l <=? vm)) (hl_lo l + hl_m l * 60000000000 <=? hs_t2 s)
      end
  | HUpload _ _ _ _ _ _, HAck _ => true
  | HUpload _ _ _ _ _ _, HRefused => true
  | HAge _ _, HAged => true
  | _, _ => false
  end.
(* per step: (oracle holds, the last acknowledged upload was deduplicated in a volume without TTL) *)
Fixpoint hist_walk (vcount vunit : N) (notv : bool) (L : option hlast) (steps : list hstepobs) : list (bool * bool) :=
  match steps with
  | [] => []
  | s :: r =>
      (hist_step_ok (spec_minutes vcount vunit) L s, match L with Some l => hl_dedup l | None => false end)
      :: hist_walk vcount vunit notv (hist_next vcount vunit notv L s) r
  end.

Definition check (c : case) : outcome :=
  match c with
  | CVolHist vttl vcount vunit t0 steps =>
      let w := hist_walk vcount vunit (negb (ttl_volume vttl)) None steps in
      {| o_corr := ttl_eqb (read_ttl vttl) {| t_count := vcount; t_unit := vunit |} &&
                   hist_corr vttl {| h_rec := None; h_stamp := t0 |} steps;
         o_prop := forallb fst w;
         (* finding 6, per step: every failing step follows a deduplicated acknowledged
            upload into a volume without TTL *)
         o_trig := if forallb (fun p => fst p || snd p) w then Some 6 else None;
         o_nontrivial := existsb (fun s => match hs_res s with HData (Some _) => true | _ => false end) steps |}
  | CSeconds l =>
      {| o_corr := forallb sec_corr l; o_prop := forallb sec_prop l;
         (* per element: every failing value must itself be inside the trigger set *)
         o_trig := if forallb (fun o => sec_prop o || sec_trig o) l then Some 0 else None;
         o_nontrivial := existsb (fun o => (0 <? so_s o)%Z) l |}
  | CTtl l =>
      {| o_corr := forallb ttl_corr l; o_prop := forallb ttl_prop l; o_trig := None;
         o_nontrivial := negb (Nat.eqb (List.length l) 0) |}
  | CVolume v =>
      {| o_corr := vol_corr v; o_prop := vol_prop v; o_trig := vol_trig v;
         o_nontrivial := negb (Nat.eqb (List.length (vo_needles v)) 0) |}
  | CExpire vttl count unit l =>
      {| o_corr := ttl_eqb (read_ttl vttl) {| t_count := count; t_unit := unit |} && forallb (exp_corr vttl) l;
         o_prop := forallb (exp_prop count unit) l; o_trig := None;
         o_nontrivial := negb (Nat.eqb (List.length l) 0) |}
  | CFiler l =>
      {| o_corr := forallb filer_corr l; o_prop := forallb filer_prop l; o_trig := None;
         o_nontrivial := negb (Nat.eqb (List.length l) 0) |}
  | CFilerSeq chunks steps =>
      {| o_corr := fseq_corr chunks steps;
         o_prop := fseq_struct_ok steps && fseq_data_ok chunks steps;
         o_trig := fseq_trig chunks steps;
         o_nontrivial := existsb (fun s => negb (Nat.eqb (List.length (fstep_seen s)) 0)) steps |}
  end.

Definition summarize_cases (l : list case) : summary := summarize check l.
