(* Correspondence check for C09 (TTL data lives exactly as long as promised).
   The Go code reads the wall clock; every clock-dependent observation in a case is
   bracketed by two clock readings taken by the harness (before and after the call):
   the implementation's clock read lies between them, and the model has to agree
   with the implementation at one of the two ends ([either]). *)
From Coq Require Import List NArith ZArith Bool String.
From SW Require Export base.Verdict model.Ttl.
Import ListNotations.
Local Open Scope N_scope.

(* SecondsToTTL(s) = str; ReadTTL(str) = (count, unit); its Minutes() *)
Record sobs := { so_s : Z; so_str : string; so_count : N; so_unit : N; so_minutes : N }.

(* ReadTTL(str) and everything derived from the TTL it returns *)
Record tobs := { to_str : string; to_count : N; to_unit : N; to_minutes : N; to_string : string;
                 to_u32 : N; to_u32_back : N * N; to_bytes_back : N * N }.

(* one upload into a volume *)
Record nobs := {
  b_req_ttl : string; b_ts : N;        (* ttl= and ts= of the upload (ts 0: absent) *)
  b_tw1 : N; b_tw2 : N;                (* seconds around CreateNeedleFromRequest *)
  b_append : N;                        (* AppendAtNs of the stored record (after aging) *)
  b_has_ttl : bool; b_has_lm : bool; b_count : N; b_unit : N; b_lm : N;   (* stored record, parsed by ReadData *)
  b_r1 : N; b_r2 : N; b_readable : bool;          (* ReadVolumeNeedle *)
  b_kept : bool;                                   (* live in the needle map after Compact2+CommitCompact *)
  b_r3 : N; b_r4 : N; b_readable_after : bool
}.

Record vobs := {
  vo_vttl : string; vo_vcount : N; vo_vunit : N;  (* AddVolume(ttl); ReadTTL of it *)
  vo_t0 : N;                                       (* initial stamp *)
  vo_needles : list nobs;
  vo_stamp : N;                                    (* lastModifiedTsSeconds after the writes *)
  vo_compact : bool; vo_c1 : N; vo_c2 : N;         (* seconds around Compact2 *)
  vo_hb_stamp : N; vo_size : N; vo_limit : N; vo_ioerr : bool;
  vo_d1 : N; vo_d2 : N;                            (* seconds around CollectHeartbeat *)
  vo_reported : bool; vo_deleted : bool
}.

Record eobs := { eo_stamp : N; eo_size : N; eo_limit : N; eo_delay : N; eo_h1 : N; eo_h2 : N;
                 eo_expired : bool; eo_long : bool }.

Record fobs := { fo_crtime : N; fo_ttl : Z; fo_f1 : N; fo_f2 : N; fo_found : bool; fo_in_store : bool }.

Inductive case :=
| CSeconds (l : list sobs)
| CTtl (l : list tobs)
| CVolume (v : vobs)
| CExpire (vttl : string) (count unit : N) (l : list eobs)
| CFiler (l : list fobs).

Definition either (b x y : bool) : bool := Bool.eqb b x || Bool.eqb b y.
Definition pair_eqb (p : N * N) (a b : N) : bool := (fst p =? a) && (snd p =? b).

(* ---- independent reference: minutes of a (count, unit) pair by table lookup ---- *)
Definition spec_unit_minutes : list N := [0; 1; 60; 1440; 10080; 43200; 525600].
Definition spec_minutes (count unit : N) : N := count * nth (N.to_nat unit) spec_unit_minutes 0.

(* ---- seconds ---- *)
Definition sec_corr (o : sobs) : bool :=
  String.eqb (so_str o) (seconds_to_ttl (so_s o)) &&
  ttl_eqb (read_ttl (so_str o)) {| t_count := so_count o; t_unit := so_unit o |} &&
  (minutes {| t_count := so_count o; t_unit := so_unit o |} =? so_minutes o).
(* the volume TTL chosen for a positive TtlSec covers it (0 minutes = no expiry) *)
Definition sec_prop (o : sobs) : bool :=
  (so_s o <=? 0)%Z || (so_minutes o =? 0) || (so_s o <=? 60 * Z.of_N (so_minutes o))%Z.
Definition sec_trig (o : sobs) : bool := (60 <=? so_s o)%Z && negb (representable (so_s o)).

(* ---- TTL strings ---- *)
Definition ttl_corr (o : tobs) : bool :=
  let t := read_ttl (to_str o) in
  ttl_eqb t {| t_count := to_count o; t_unit := to_unit o |} &&
  (minutes t =? to_minutes o) && String.eqb (ttl_string t) (to_string o) &&
  (to_uint32 t =? to_u32 o) &&
  (let b := load_from_uint32 (to_uint32 t) in pair_eqb (to_u32_back o) (t_count b) (t_unit b)) &&
  (let b := load_from_bytes (fst (to_bytes t)) (snd (to_bytes t)) in pair_eqb (to_bytes_back o) (t_count b) (t_unit b)).
(* the stored forms keep the lifetime *)
Definition ttl_prop (o : tobs) : bool :=
  (to_minutes o =? spec_minutes (to_count o) (to_unit o)) &&
  pair_eqb (to_bytes_back o) (to_count o) (to_unit o) &&
  (spec_minutes (fst (to_u32_back o)) (snd (to_u32_back o)) =? to_minutes o).

(* ---- volumes ---- *)
Definition mem_needle (o : nobs) : needle := create_needle (b_req_ttl o) (b_ts o) (b_lm o).
Definition stored_needle (vttl : string) (o : nobs) : needle := write_needle vttl (mem_needle o) (b_append o).

Definition vol_of (v : vobs) : volume :=
  {| v_ttl := read_ttl (vo_vttl v); v_last_mod := vo_hb_stamp v; v_size := vo_size v;
     v_limit := vo_limit v; v_io_error := vo_ioerr v |}.

Definition needle_corr (v : vobs) (o : nobs) : bool :=
  let st := stored_needle (vo_vttl v) o in
  let vt := read_ttl (vo_vttl v) in
  Bool.eqb (has_ttl st) (b_has_ttl o) && Bool.eqb (has_lm st) (b_has_lm o) &&
  ttl_eqb (n_ttl st) {| t_count := b_count o; t_unit := b_unit o |} &&
  (last_modified st =? b_lm o) &&
  (if b_ts o =? 0 then (b_tw1 o <=? b_lm o) && (b_lm o <=? b_tw2 o) else true) &&
  either (b_readable o) (read_visible (b_r1 o) st) (read_visible (b_r2 o) st) &&
  (if vo_compact v
   then either (b_kept o) (compaction_keeps (vo_c1 v) vt st) (compaction_keeps (vo_c2 v) vt st)
   else b_kept o) &&
  either (b_readable_after o) (b_kept o && read_visible (b_r3 o) st) (b_kept o && read_visible (b_r4 o) st).

Definition vol_corr (v : vobs) : bool :=
  ttl_eqb (read_ttl (vo_vttl v)) {| t_count := vo_vcount v; t_unit := vo_vunit v |} &&
  forallb (needle_corr v) (vo_needles v) &&
  (fold_left (fun s o => vol_stamp_after_write s (last_modified (mem_needle o))) (vo_needles v) (vo_t0 v) =? vo_stamp v) &&
  either (vo_reported v) (negb (volume_expired (vo_d1 v) (vol_of v))) (negb (volume_expired (vo_d2 v) (vol_of v))) &&
  either (vo_deleted v) (volume_deleted (vo_d1 v) (vol_of v)) (volume_deleted (vo_d2 v) (vol_of v)).

(* the promise, on the stored record the implementation reports: a blob with a TTL
   of m > 0 minutes is readable exactly until m minutes after it was appended *)
Definition promise_at (o : nobs) (now : N) : bool :=
  let m := spec_minutes (b_count o) (b_unit o) in
  if b_has_ttl o && b_has_lm o && (0 <? m) then now <? b_append o + m * 60 * 1000000000 else true.

(* "removed early" is only claimed for a blob that was read successfully and is, by
   the promise, still alive one full second after the removing step finished (the
   harness cannot freeze the clock between its read and the compaction/heartbeat) *)
Definition alive_past (o : nobs) (end_s : N) : bool :=
  b_readable o && promise_at o ((end_s + 1) * 1000000000).

Definition needle_prop (v : vobs) (o : nobs) : bool :=
  either (b_readable o) (promise_at o (b_r1 o)) (promise_at o (b_r2 o)) &&
  implb (vo_compact v && alive_past o (vo_c2 v)) (b_kept o) &&
  either (b_readable_after o) (b_kept o && promise_at o (b_r3 o)) (b_kept o && promise_at o (b_r4 o)).

Definition vol_prop (v : vobs) : bool :=
  forallb (needle_prop v) (vo_needles v) &&
  implb (existsb (fun o => alive_past o (vo_d2 v)) (vo_needles v)) (negb (vo_deleted v)).

Definition vol_trig (v : vobs) : option N :=
  let vt := read_ttl (vo_vttl v) in
  let early o := let st := stored_needle (vo_vttl v) o in
                 vo_compact v && read_visible ((vo_c2 v + 1) * NS) st && negb (compaction_keeps (vo_c2 v) vt st) in
  let by_ttl o := let st := stored_needle (vo_vttl v) o in
                  negb (expiring st) || (volume_span_s vt <? minutes (n_ttl st) * 60) in
  let by_lm o := let st := stored_needle (vo_vttl v) o in last_modified st * NS <? append_at_ns st in
  if existsb (fun o => early o && by_ttl o) (vo_needles v) then Some 1
  else if existsb (fun o => early o && by_lm o) (vo_needles v) then Some 2
  else if existsb (fun o => read_visible ((vo_d2 v + 1) * NS) (stored_needle (vo_vttl v) o)) (vo_needles v)
          && volume_deleted (vo_d2 v) (vol_of v) then Some 3
  else None.

(* ---- expiry predicates ---- *)
Definition exp_vol (vttl : string) (o : eobs) : volume :=
  {| v_ttl := read_ttl vttl; v_last_mod := eo_stamp o; v_size := eo_size o; v_limit := eo_limit o; v_io_error := false |}.
Definition exp_corr (vttl : string) (o : eobs) : bool :=
  let v := exp_vol vttl o in
  either (eo_expired o) (volume_expired (eo_h1 o) v) (volume_expired (eo_h2 o) v) &&
  either (eo_long o) (expired_long_enough (eo_h1 o) v (eo_delay o)) (expired_long_enough (eo_h2 o) v (eo_delay o)).
(* a volume is never called expired before its own TTL has passed since its stamp *)
Definition exp_prop (count unit : N) (o : eobs) : bool :=
  let m := spec_minutes count unit in
  implb (eo_expired o || eo_long o) ((0 <? m) && (eo_stamp o + m * 60 <=? eo_h2 o)).

(* ---- filer ---- *)
Definition filer_corr (o : fobs) : bool :=
  either (fo_found o) (entry_visible (fo_f1 o) (fo_crtime o) (fo_ttl o)) (entry_visible (fo_f2 o) (fo_crtime o) (fo_ttl o)) &&
  Bool.eqb (fo_in_store o) (fo_found o).
Definition filer_spec (o : fobs) (now : N) : bool :=
  (fo_ttl o <=? 0)%Z || (Z.of_N now <=? (Z.of_N (fo_crtime o) + fo_ttl o) * 1000000000)%Z.
Definition filer_prop (o : fobs) : bool :=
  either (fo_found o) (filer_spec o (fo_f1 o)) (filer_spec o (fo_f2 o)) && Bool.eqb (fo_in_store o) (fo_found o).

Definition check (c : case) : outcome :=
  match c with
  | CSeconds l =>
      {| o_corr := forallb sec_corr l; o_prop := forallb sec_prop l;
         o_trig := if existsb sec_trig l then Some 0 else None;
         o_nontrivial := existsb (fun o => (0 <? so_s o)%Z) l |}
  | CTtl l =>
      {| o_corr := forallb ttl_corr l; o_prop := forallb ttl_prop l; o_trig := None;
         o_nontrivial := negb (Nat.eqb (List.length l) 0) |}
  | CVolume v =>
      {| o_corr := vol_corr v; o_prop := vol_prop v; o_trig := vol_trig v;
         o_nontrivial := negb (Nat.eqb (List.length (vo_needles v)) 0) |}
  | CExpire vttl count unit l =>
      {| o_corr := ttl_eqb (read_ttl vttl) {| t_count := count; t_unit := unit |} && forallb (exp_corr vttl) l;
         o_prop := forallb (exp_prop count unit) l; o_trig := None;
         o_nontrivial := negb (Nat.eqb (List.length l) 0) |}
  | CFiler l =>
      {| o_corr := forallb filer_corr l; o_prop := forallb filer_prop l; o_trig := None;
         o_nontrivial := negb (Nat.eqb (List.length l) 0) |}
  end.

Definition summarize_cases (l : list case) : summary := summarize check l.
