(* Correspondence check for C01: histories of Write/Post/Get/Del/RawRead/RawDelete/
   mark-read-only on a real storage.Store volume (NeedleMapInMemory) and the real HTTP
   handlers, with what the implementation answered at every step and the final
   .dat size / needle-map entries. *)
From Coq Require Import List NArith ZArith Bool String Ascii.
From SW Require Export base.Verdict model.Volume.
Import ListNotations.
Local Open Scope N_scope.

(* payload pattern, generated identically by the harness: byte i = (tag*131 + i*7 + i/256) mod 256 *)
Fixpoint pat_from (tag i : N) (len : nat) : bytes :=
  match len with
  | O => []
  | S k => ((tag * 131 + i * 7 + i / 256) mod 256) :: pat_from tag (i + 1) k
  end.
Definition pat (tag len : N) : bytes := pat_from tag 0 (N.to_nat len).
Definition rep (b len : N) : bytes := repeat b (N.to_nat len).
(* compact byte-string literals: printable ASCII, or lower-case hex *)
Fixpoint str (x : string) : bytes :=
  match x with EmptyString => [] | String a r => N_of_ascii a :: str r end.
Definition hexval (a : ascii) : N := let n := N_of_ascii a in if n <? 58 then n - 48 else n - 87.
Fixpoint hex (x : string) : bytes :=
  match x with
  | String a (String b r) => (hexval a * 16 + hexval b) :: hex r
  | _ => []
  end.

(* short constructors used by the generated cases *)
Definition mkn (id cookie : N) (data : bytes) (flags : N) (name mime pairs : bytes) (lastmod tc tu : N) : needle :=
  {| n_id := id; n_cookie := cookie; n_data := data; n_flags := flags; n_name := name; n_mime := mime;
     n_pairs := pairs; n_lastmod := lastmod; n_ttl := (tc, tu) |}.
Definition mkv (cookie size : N) (data : bytes) (flags : N) (name mime pairs : bytes) (lastmod tc tu : N) : view :=
  {| v_cookie := cookie; v_size := size; v_data := data; v_flags := flags; v_name := name; v_mime := mime;
     v_pairs := pairs; v_lastmod := lastmod; v_ttl := (tc, tu) |}.
Definition mkh (data name mime pairs : bytes) (lastmod : N) (gz : bool) : hview :=
  {| h_data := data; h_name := name; h_mime := mime; h_pairs := pairs; h_lastmod := lastmod; h_gzip := gz |}.
Definition mku (id cookie : N) (data name ctype pairs : bytes) (ts tc tu : N) (gz : bool) : upload :=
  {| u_id := id; u_cookie := cookie; u_data := data; u_name := name; u_ctype := ctype; u_pairs := pairs;
     u_ts := ts; u_ttl := (tc, tu); u_gzip := gz |}.

Definition g404 : out := OGet 404 blank_hview.
Definition bv (cookie : N) : view := blank_view cookie.

Record case := {
  evs : list event;
  impl : list out;                       (* one per event *)
  fin_dat : N;                           (* size of the .dat file at the end *)
  fin_nm : list (N * option (N * Z))     (* needle-map entry (offset, size) of every key of the universe *)
}.

Fixpoint run_state (st : vol) (h : list event) : vol * list out :=
  match h with
  | [] => (st, [])
  | ev :: h' => let '(st', o) := step st ev in let '(st'', os) := run_state st' h' in (st'', o :: os)
  end.

Definition nm_entry_eqb (st : vol) (e : N * option (N * Z)) : bool :=
  match nm_get (nm st) (fst e), snd e with
  | None, None => true
  | Some nv, Some (off, size) => (nv_off nv =? off) && (nv_size nv =? size)%Z
  | _, _ => false
  end.

Definition served_data (o : out) : bool :=
  match o with
  | OGet 200 h => 0 <? blen (h_data h)
  | ORead ENone _ v => 0 <? blen (v_data v)
  | _ => false
  end.

Definition check (c : case) : outcome :=
  let '(st, outs) := run_state init (evs c) in
  {| o_corr := all2 out_eqb outs (impl c) && (dat_end st =? fin_dat c) && forallb (nm_entry_eqb st) (fin_nm c);
     (* property oracle: the id -> (cookie, last written needle) specification, applied to
        what the implementation answered *)
     o_prop := all2 match_out (spec_run spec_init (evs c)) (impl c);
     o_trig := if empty_payload (evs c) then Some 0
               else if meta_dup [] (evs c) then Some 1 else None;
     o_nontrivial := existsb served_data (impl c) |}.

Definition summarize_cases (l : list case) : summary := summarize check l.
