(* Correspondence check for C01: histories of Write/Post/Get/Del/RawRead/RawDelete/mark-read-only,
   GET and HEAD in every request form, and gRPC BatchDelete on a real storage.Store volume
   (NeedleMapInMemory), the real HTTP handlers and the real gRPC method, with what the
   implementation answered at every step and, at the end, the .dat size, the in-memory needle-map
   entries and the entries of the .idx file.  Time: the clock reading of every event is a logical
   clock; the harness makes it real by moving the AppendAtNs stamps of the stored records back
   whenever the logical clock jumps. *)
From Coq Require Import List NArith ZArith Bool String Ascii.
From SW Require Export base.Verdict model.Volume.
Import ListNotations.
Local Open Scope N_scope.

(* payload pattern, generated identically by the harness: byte i = (tag*131 + i*7 + i/256) mod 256 *)
Fixpoint pat_from (tag i : N) (len : nat) : bytes :=
  match len with
  | O => []
  | S k => ((tag * 131 + i * 7 + i / 256) mod 256) :: pat_from tag (i + 1) k
  end.
Definition pat (tag len : N) : bytes := pat_from tag 0 (N.to_nat len).
Definition rep (b len : N) : bytes := repeat b (N.to_nat len).
Definition cat (a b : bytes) : bytes := a ++ b.
(* compact byte-string literals: printable ASCII, or lower-case hex *)
Fixpoint str (x : string) : bytes :=
  match x with EmptyString => [] | String a r => N_of_ascii a :: str r end.
Definition hexval (a : ascii) : N := let n := N_of_ascii a in if n <? 58 then n - 48 else n - 87.
Fixpoint hex (x : string) : bytes :=
  match x with
  | String a (String b r) => (hexval a * 16 + hexval b) :: hex r
  | _ => []
  end.

(* short constructors used by the generated cases *)
Definition mkn (id cookie : N) (data : bytes) (flags : N) (name mime pairs : bytes) (lastmod tc tu : N) : needle :=
  {| n_id := id; n_cookie := cookie; n_data := data; n_flags := flags; n_name := name; n_mime := mime;
     n_pairs := pairs; n_lastmod := lastmod; n_ttl := (tc, tu) |}.
Definition mkv (cookie size : N) (data : bytes) (flags : N) (name mime pairs : bytes) (lastmod tc tu : N) : view :=
  {| v_cookie := cookie; v_size := size; v_data := data; v_flags := flags; v_name := name; v_mime := mime;
     v_pairs := pairs; v_lastmod := lastmod; v_ttl := (tc, tu) |}.
Definition mkh (data name mime pairs : bytes) (lastmod : N) (gz : bool) : hview :=
  {| h_data := data; h_name := name; h_mime := mime; h_pairs := pairs; h_lastmod := lastmod; h_gzip := gz |}.
Definition mku (id cookie : N) (data name ctype pairs : bytes) (ts tc tu : N) (gz : bool) : upload :=
  {| u_id := id; u_cookie := cookie; u_data := data; u_name := name; u_ctype := ctype; u_pairs := pairs;
     u_ts := ts; u_ttl := (tc, tu); u_gzip := gz |}.

Definition bv (cookie : N) : view := blank_view cookie.

(* operations *)
Definition Wr (n : needle) : xop := XBase (Write n).
Definition Po (u : upload) : xop := XBase (Post u).
Definition Ge (id c : N) (rd : bool) : xop := XBase (Get id c rd).
Definition De (id c : N) : xop := XBase (Del id c).
Definition Rr (id c : N) (rd : bool) : xop := XBase (RawRead id c rd).
Definition Rd (id c : N) : xop := XBase (RawDelete id c).
Definition Ro (b : bool) : xop := XBase (SetNoWriteOrDelete b).
Definition Rc (b : bool) : xop := XBase (SetNoWriteCanDelete b).
Definition Gx (id c : N) (rd gz head : bool) (name : bytes) : xop :=
  XGet id c rd {| g_gzip := gz; g_head := head; g_name := name |}.
Definition Bd (fids : list (N * N)) (skip : bool) : xop := XBatch fids skip.
(* answers *)
Definition oW (e : err) (u : bool) (s : N) : xout := XO (OWrite e u s).
Definition oP (s : N) (e : err) : xout := XO (OPost s e).
Definition oG (s : N) (h : hview) : xout := XO (OGet s h).
Definition g404 : xout := XO (OGet 404 blank_hview).
Definition x404 : xout := XOGet 404 blank_hview 0.
Definition oD (s z : N) : xout := XO (ODel s z).
Definition oR (e : err) (c : Z) (v : view) : xout := XO (ORead e c v).
Definition oX (e : err) (z : Z) : xout := XO (ODelete e z).
Definition oU : xout := XO OUnit.

Record case := {
  evs : list xevent;
  impl : list xout;                      (* one per event *)
  gz_tab : list (bytes * bytes);         (* util.DecompressData of the gzip-magic payloads the harness stored *)
  fin_dat : N;                           (* size of the .dat file at the end *)
  fin_nm : list (N * option (N * Z));    (* needle-map entry (offset, size) of every key of the universe *)
  fin_idx : list (N * N * Z)             (* the entries of the .idx file in file order: key, offset, size *)
}.

(* the decompression oracle: a table *)
Fixpoint gun_of (tab : list (bytes * bytes)) (d : bytes) : bytes :=
  match tab with
  | [] => d
  | (z, p) :: tab' => if bytes_eqb z d then p else gun_of tab' d
  end.

Fixpoint xrun_state (gun : bytes -> bytes) (st : vol) (h : list xevent) : vol * list xout :=
  match h with
  | [] => (st, [])
  | ev :: h' => let '(st', o) := xstep gun st ev in let '(st'', os) := xrun_state gun st' h' in (st'', o :: os)
  end.

Definition xout_eqb (a b : xout) : bool :=
  match a, b with
  | XO x, XO y => out_eqb x y
  | XOGet s h l, XOGet s' h' l' => (s =? s') && hview_eqb h h' && (l =? l')
  | XOBatch r, XOBatch r' => pairs_eqb r r'
  | _, _ => false
  end.

Definition nm_entry_eqb (st : vol) (e : N * option (N * Z)) : bool :=
  match nm_get (nm st) (fst e), snd e with
  | None, None => true
  | Some nv, Some (off, size) => (nv_off nv =? off) && (nv_size nv =? size)%Z
  | _, _ => false
  end.

(* the .idx file: NeedleMap.Put appends (key, offset, size), NeedleMap.Delete appends
   (key, offset of the tombstone record, TombstoneFileSize).  The model's needle map is the log of
   all its bindings and [recs] the log of all appended records; they advance together. *)
Fixpoint idx_zip (ms : nmap) (rs : list rec) : list (N * N * Z) :=
  match ms, rs with
  | (k, nv) :: ms', r :: rs' =>
      (if (nv_size nv <? 0)%Z then (k, r_off r, vc_tombstone) else (k, nv_off nv, nv_size nv)) :: idx_zip ms' rs'
  | [], [] => []
  | _, _ => [(0, 0, 0%Z)]        (* a record without a needle-map update: never in a reachable state *)
  end.
Definition idx_log (st : vol) : list (N * N * Z) := idx_zip (rev (nm st)) (rev (recs st)).

Fixpoint idx_eqb (a b : list (N * N * Z)) : bool :=
  match a, b with
  | [], [] => true
  | (k, o, s) :: a', (k', o', s') :: b' => (k =? k') && (o =? o') && (s =? s')%Z && idx_eqb a' b'
  | _, _ => false
  end.

Definition served (o : xout) : bool :=
  match o with
  | XO (OGet 200 h) => 0 <? blen (h_data h)
  | XOGet 200 h l => 0 <? l
  | XO (ORead ENone _ v) => 0 <? blen (v_data v)
  | _ => false
  end.

Definition check (c : case) : outcome :=
  let gun := gun_of (gz_tab c) in
  let '(st, outs) := xrun_state gun init (evs c) in
  (* property oracle: the specification id -> (cookie, last written needle) applied to what the
     implementation answered, event by event, together with the finding (if any) that has
     touched a key of the event *)
  let j := xjudge gun [] [] spec_init (evs c) (impl c) in
  {| o_corr := xwf_history (evs c) && all2 xout_eqb outs (impl c) && (dat_end st =? fin_dat c)
               && forallb (nm_entry_eqb st) (fin_nm c) && idx_eqb (idx_log st) (fin_idx c);
     o_prop := Nat.eqb (List.length j) (List.length (evs c)) && all_ok j;
     (* inside a known finding only when EVERY failing event names a key that finding has touched *)
     o_trig := fail_trig j;
     o_nontrivial := existsb served (impl c) |}.

Definition summarize_cases (l : list case) : summary := summarize check l.
