(* Correspondence check for C08: the real codec functions (replica placement, TTL, volume id,
   file id, ParsePath, super block, index entry, offset) on enumerated, random and malformed
   inputs.  Known finding: 1 = TTL integer that is not an encoding (trig_ttl_u32), per case and
   exact (props/C08.v).  Trigger number 0 (needle key 0) is retired: repaired in the working tree. *)
From Coq Require Import List NArith ZArith Bool.
From Coq Require Export Uint63.   (* exported: cases.v uses %uint63 literals *)
From SW Require Export base.Verdict model.Needle model.Codecs.
Import ListNotations.
Local Open Scope N_scope.

(* byte strings arrive packed: each chunk is a primitive 63-bit integer whose base-256 digits
   are 1 followed by up to 7 bytes (cheap for coqc to read) *)
Definition byte_of_int (x : Uint63.int) : N := Z.to_N (Uint63.to_Z x).
Fixpoint unchunk (fuel : nat) (x : Uint63.int) (acc : list N) : list N :=
  match fuel with
  | O => acc
  | S f => if Uint63.leb x 1%uint63 then acc
           else unchunk f (Uint63.lsr x 8%uint63) (byte_of_int (Uint63.land x 255%uint63) :: acc)
  end.
Definition unpack (cs : list Uint63.int) : list N := flat_map (fun c => unchunk 8 c []) cs.

Inductive case :=
(* NewReplicaPlacementFromString(s): result, and its String() *)
| KRpStr (s : list N) (impl : option rp) (impl_str : list N)
(* NewReplicaPlacementFromByte(b): result, and its Byte() *)
| KRpByte (b : N) (impl : option rp) (impl_byte : N)
(* a ReplicaPlacement value: Byte(), String(), and both decoders applied to them *)
| KRpEnc (r : rp) (impl_byte : N) (impl_str : list N) (back_byte back_str : option rp)
(* ReadTTL(s): result, and its String() *)
| KTtlStr (s : list N) (impl : option ttl) (impl_str : list N)
(* a TTL value: String(), ToBytes, ToUint32, and the three decoders applied to them *)
| KTtlEnc (t : ttl) (impl_str impl_bytes : list N) (impl_u32 : N) (back_str : option ttl) (back_bytes back_u32 : ttl)
(* NewVolumeId(s) *)
| KVid (s : list N) (impl : option N)
(* VolumeId.String() and NewVolumeId of it *)
| KVidEnc (v : N) (impl_str : list N) (back : option N)
(* ParseFileIdFromString(s): result, and its String() *)
| KFid (s : list N) (impl : option (N * N * N)) (impl_str : list N)
(* NewFileId(vid, key, cookie).String() and ParseFileIdFromString of it *)
| KFidEnc (vid key cookie : N) (impl_str : list N) (back : option (N * N * N))
(* Needle.ParsePath(s): id, cookie *)
| KPath (s : list N) (impl : option (N * N))
(* formatNeedleIdCookie(key, cookie) [++ "_" ++ decimal delta] and Needle.ParsePath of it *)
| KPathEnc (key cookie : N) (delta : option N) (impl_str : list N) (back : option (N * N))
(* LoadTTLFromUint32(x) for an arbitrary integer, and ToUint32 of the result *)
| KTtlU32 (x : N) (back : ttl) (re : N)
(* SuperBlock.Bytes(), BlockSize(), and ReadSuperBlock of the file holding those bytes *)
(* [pbres]: protobuf oracle value for the extra bytes of s: Marshal(Unmarshal(extra)), None on error *)
| KSb (s : super_block) (impl_bytes : list N) (impl_block_size : N) (pbres : option (list N))
      (impl_read : option super_block)
(* ReadSuperBlock of an arbitrary file; [cand] = the bytes of the file from offset 8 that the
   header's extra size designates (clipped at the end of the file), [pbres] the oracle value for them;
   [rebytes] = Bytes() of the super block read, [pbres2] the oracle value for ITS extra,
   [reread] = ReadSuperBlock of a file holding rebytes *)
| KSbRead (file : list N) (cand : list N) (pbres : option (list N)) (impl_read : option super_block)
          (rebytes : list N) (pbres2 : option (list N)) (reread : option super_block)
(* needle_map.ToBytes(key, offset, size) and idx.IdxFileEntry of it; osz = types.OffsetSize of the build *)
| KIdx (osz key off : N) (size : Z) (impl_bytes : list N) (back : N * N * Z)
(* types.ToOffset(actual) and ToActualOffset of it *)
| KOff (osz actual : N) (impl_off impl_back : N).

(* ---------- equality helpers ---------- *)
Definition opt_eqb {A} (f : A -> A -> bool) (a b : option A) : bool :=
  match a, b with
  | Some x, Some y => f x y
  | None, None => true
  | _, _ => false
  end.
Definition pair_eqb (a b : N * N) : bool := (fst a =? fst b) && (snd a =? snd b).
Definition triple_eqb (a b : N * N * N) : bool :=
  let '(a1, a2, a3) := a in let '(b1, b2, b3) := b in (a1 =? b1) && (a2 =? b2) && (a3 =? b3).
Definition sb_eqb (a b : super_block) : bool :=
  (sb_version a =? sb_version b) && rp_eqb (sb_rp a) (sb_rp b) && ttl_pair_eqb (sb_ttl a) (sb_ttl b)
  && (sb_compaction a =? sb_compaction b) && bytes_eqb (sb_extra a) (sb_extra b).
Definition idx_eqb (a b : N * N * Z) : bool :=
  let '(a1, a2, a3) := a in let '(b1, b2, b3) := b in (a1 =? b1) && (a2 =? b2) && (a3 =? b3)%Z.
Definition is_some {A} (o : option A) : bool := match o with Some _ => true | None => false end.

(* ---------- independent reference readings used by the property oracle ---------- *)
(* the integer a string of the form [+-]digits denotes (None if it is not of that form) *)
Definition int_denoted (s : list N) : option Z :=
  match s with
  | 43 :: r => match r with [] => None | _ => option_map Z.of_N (dec_val r 0) end
  | 45 :: r => match r with [] => None | _ => option_map (fun v => (- Z.of_N v)%Z) (dec_val r 0) end
  | [] => None
  | _ => option_map Z.of_N (dec_val s 0)
  end.
Definition unit_of_letter (c : N) : N :=
  match c with 109 => 1 | 104 => 2 | 100 => 3 | 119 => 4 | 77 => 5 | 121 => 6 | _ => 0 end.
(* the TTL a string denotes: digits then one unit letter (minutes when the letter is missing) *)
Definition ttl_denoted (s : list N) : option (Z * N) :=
  match rev s with
  | [] => Some (0%Z, 0)
  | l :: rcount =>
      if is_digit l then option_map (fun c => (c, 1)) (int_denoted s)
      else option_map (fun c => (c, unit_of_letter l)) (int_denoted (rev rcount))
  end.
(* split at the first comma / at the last underscore, by a different route than the model *)
Fixpoint split_at (c : N) (s : list N) (acc : list N) : option (list N * list N) :=
  match s with
  | [] => None
  | x :: r => if x =? c then Some (rev acc, r) else split_at c r (x :: acc)
  end.
Definition split_last (c : N) (s : list N) : option (list N * list N) :=
  match split_at c (rev s) [] with
  | Some (b, a) => Some (rev a, rev b)
  | None => None
  end.
(* key and cookie a hex string denotes: the cookie is the last 8 digits *)
Definition key_cookie_denoted (s : list N) : option (N * N) :=
  let k := len s - 8 in
  match hex_val (takeN k s) 0, hex_val (dropN k s) 0 with
  | Some key, Some cookie => if (8 <? len s) && (len s <=? 24) then Some (key, cookie) else None
  | _, _ => None
  end.

Definition check (c : case) : outcome :=
  match c with
  | KRpStr s impl istr =>
      {| o_corr := opt_eqb rp_eqb (rp_from_string s) impl
                   && bytes_eqb (match impl with Some r => rp_string r | None => [] end) istr;
         (* an accepted string is the encoding of the placement returned, or "" for the default 000 *)
         o_prop := match impl with
                   | Some r => rp_valid r && (bytes_eqb istr s || ((len s =? 0) && rp_eqb r (0, 0, 0)))
                   | None => true
                   end;
         o_trig := None;
         o_nontrivial := is_some impl |}
  | KRpByte b impl ib =>
      {| o_corr := opt_eqb rp_eqb (rp_from_byte b) impl
                   && (match impl with Some r => rp_byte r | None => 0 end =? ib);
         o_prop := match impl with Some r => rp_valid r && (ib =? b) | None => true end;
         o_trig := None;
         o_nontrivial := is_some impl |}
  | KRpEnc r ib istr bb bs =>
      {| o_corr := (rp_byte r =? ib) && bytes_eqb (rp_string r) istr
                   && opt_eqb rp_eqb (rp_from_byte ib) bb && opt_eqb rp_eqb (rp_from_string istr) bs;
         o_prop := if rp_valid r then opt_eqb rp_eqb bb (Some r) && opt_eqb rp_eqb bs (Some r) else true;
         o_trig := None;
         o_nontrivial := rp_valid r |}
  | KTtlStr s impl istr =>
      {| o_corr := opt_eqb ttl_pair_eqb (read_ttl s) impl
                   && bytes_eqb (match impl with Some t => ttl_string t | None => [] end) istr;
         (* an accepted string denotes exactly the TTL returned *)
         o_prop := match impl with
                   | Some (cnt, u) =>
                       match ttl_denoted s with
                       | Some (z, u') => (z =? Z.of_N cnt)%Z && (u' =? u) && (match s with [] => true | _ => negb (u =? 0) end)
                       | None => false
                       end
                   | None => true
                   end;
         o_trig := None;
         o_nontrivial := is_some impl |}
  | KTtlEnc t istr ibytes iu32 bstr bbytes bu32 =>
      {| o_corr := bytes_eqb (ttl_string t) istr && bytes_eqb (ttl_to_bytes t) ibytes && (ttl_to_u32 t =? iu32)
                   && opt_eqb ttl_pair_eqb (read_ttl istr) bstr && ttl_pair_eqb (load_ttl_bytes ibytes) bbytes
                   && ttl_pair_eqb (load_ttl_u32 iu32) bu32;
         (* TTLs the system can hold (empty, or count >= 1 with a unit 1..6) come back unchanged *)
         o_prop := let '(cnt, u) := t in
                   ttl_pair_eqb bbytes t
                   && (if ((cnt =? 0) && (u =? 0)) || (negb (cnt =? 0) && (1 <=? u) && (u <=? 6))
                       then opt_eqb ttl_pair_eqb bstr (Some t) && ttl_pair_eqb bu32 t else true);
         o_trig := None;
         o_nontrivial := negb (fst t =? 0) |}
  | KVid s impl =>
      {| o_corr := opt_eqb N.eqb (new_volume_id s) impl;
         o_prop := match impl with
                   | Some v => opt_eqb N.eqb (dec_val s 0) (Some v) && (v <? 4294967296) && negb (len s =? 0)
                   | None => true
                   end;
         o_trig := None;
         o_nontrivial := is_some impl |}
  | KVidEnc v istr back =>
      {| o_corr := bytes_eqb (vid_string v) istr && opt_eqb N.eqb (new_volume_id istr) back;
         o_prop := opt_eqb N.eqb back (Some v);
         o_trig := None;
         o_nontrivial := true |}
  | KFid s impl istr =>
      {| o_corr := opt_eqb triple_eqb (parse_file_id s) impl
                   && bytes_eqb (match impl with Some (v, k, ck) => fid_string v k ck | None => [] end) istr;
         o_prop := match impl with
                   | Some (v, k, ck) =>
                       match split_at 44 s [] with
                       | Some (vs, ks) =>
                           opt_eqb N.eqb (dec_val vs 0) (Some v) && (v <? 4294967296) && negb (len vs =? 0)
                           && opt_eqb pair_eqb (key_cookie_denoted ks) (Some (k, ck))
                       | None => false
                       end
                   | None => true
                   end;
         o_trig := None;
         o_nontrivial := is_some impl |}
  | KFidEnc vid key cookie istr back =>
      {| o_corr := bytes_eqb (fid_string vid key cookie) istr && opt_eqb triple_eqb (parse_file_id istr) back;
         o_prop := opt_eqb triple_eqb back (Some (vid, key, cookie));
         o_trig := None;
         o_nontrivial := true |}
  | KPath s impl =>
      {| o_corr := opt_eqb pair_eqb (parse_path s) impl;
         o_prop := match impl with
                   | Some (k, ck) =>
                       match split_last 95 s with
                       | Some (f, d) =>
                           if len f =? 0 then opt_eqb pair_eqb (key_cookie_denoted s) (Some (k, ck))
                           else match key_cookie_denoted f, (match d with [] => Some 0 | _ => dec_val d 0 end) with
                                | Some (k0, c0), Some dv => (c0 =? ck) && ((k0 + dv) mod 18446744073709551616 =? k)
                                | _, _ => false
                                end
                       | None => opt_eqb pair_eqb (key_cookie_denoted s) (Some (k, ck))
                       end
                   | None => true
                   end;
         o_trig := None;
         o_nontrivial := is_some impl |}
  | KPathEnc key cookie delta istr back =>
      {| o_corr := bytes_eqb (format_key_cookie key cookie ++ match delta with Some d => 95 :: itoa d | None => [] end) istr
                   && opt_eqb pair_eqb (parse_path istr) back;
         o_prop := opt_eqb pair_eqb back
                     (Some ((key + match delta with Some d => d | None => 0 end) mod 18446744073709551616, cookie));
         o_trig := None;
         o_nontrivial := true |}
  | KTtlU32 x back re =>
      {| o_corr := ttl_pair_eqb (load_ttl_u32 x) back && (ttl_to_u32 back =? re);
         (* an integer is decoded only if it is the encoding of the TTL returned *)
         o_prop := re =? x;
         o_trig := if trig_ttl_u32 x then Some 1 else None;
         o_nontrivial := negb (x =? 0) |}
  | KSb s ibytes ibs pbres iread =>
      let pb := fun b => if bytes_eqb b (sb_extra s) then pbres else None in
      {| o_corr := opt_eqb bytes_eqb (sb_bytes_checked s) (Some ibytes) && (sb_block_size s =? ibs)
                   && opt_eqb sb_eqb (sb_read pb ibytes) iread;
         o_prop := opt_eqb sb_eqb iread (Some s);
         o_trig := None;
         o_nontrivial := true |}
  | KSbRead file cand pbres iread rebytes pbres2 reread =>
      let pb := fun b => if bytes_eqb b cand then pbres else None in
      {| o_corr := opt_eqb sb_eqb (sb_read pb file) iread
                   && match iread with
                      | Some s =>
                          bytes_eqb (sb_bytes s) rebytes
                          && opt_eqb sb_eqb (sb_read (fun b => if bytes_eqb b (sb_extra s) then pbres2 else None) rebytes) reread
                      | None => (len rebytes =? 0) && negb (is_some reread)
                      end;
         (* an accepted header is the encoding of the super block returned; the extra is what
            protobuf decodes from exactly the designated bytes of the file *)
         o_prop := match iread with
                   | Some s =>
                       let size := be_decode (takeN 2 (dropN 6 file)) in
                       bytes_eqb (takeN 6 file) (takeN 6 (sb_bytes s))
                       && (if size =? 0 then len (sb_extra s) =? 0
                           else (len cand =? size) && bytes_eqb cand (takeN size (dropN 8 file))
                                && opt_eqb bytes_eqb pbres (Some (sb_extra s)))
                       (* the value read, written again, reads back as itself *)
                       && opt_eqb sb_eqb reread (Some s)
                   | None => true
                   end;
         o_trig := None;
         o_nontrivial := is_some iread |}
  | KIdx osz key off size ibytes back =>
      {| o_corr := bytes_eqb (idx_bytes_w osz key off size) ibytes && idx_eqb (idx_parse_w osz ibytes) back
                   && ((osz =? 4) || (osz =? 5))
                   && (if osz =? 4 then bytes_eqb (idx_bytes key off size) ibytes && idx_eqb (idx_parse ibytes) back else true);
         o_prop := idx_eqb back (key, off, size) && (len ibytes =? 12 + osz);
         o_trig := None;
         o_nontrivial := true |}
  | KOff osz actual ioff iback =>
      {| o_corr := (to_offset_w osz actual =? ioff) && (to_actual_offset ioff =? iback)
                   && ((osz =? 4) || (osz =? 5))
                   && (if osz =? 4 then to_offset actual =? ioff else true);
         (* multiples of 8 below MaxPossibleVolumeSize (8 x 2^32, 8 x 2^40 with 5 bytes) come back *)
         o_prop := if (actual mod 8 =? 0) && (actual <? (if osz =? 5 then 8796093022208 else 34359738368))
                   then iback =? actual else true;
         o_trig := None;
         o_nontrivial := (actual mod 8 =? 0) && (actual <? (if osz =? 5 then 8796093022208 else 34359738368)) |}
  end.

Definition summarize_cases (l : list case) : summary := summarize check l.
