(* Correspondence check for C30: histories of Write/Trunc/Flush/Read run on the real
   mount file handle (both dirty-page buffers); the implementation's observables per op
   are compared with the model's, and the POSIX byte-list file is the property oracle. *)
From Coq Require Import List ZArith NArith Bool.
From Coq Require Export Strings.Byte.
From SW Require Export base.Verdict model.DirtyPages.
Import ListNotations.
Local Open Scope Z_scope.

(* ---- raw case syntax written by the harness: every number is a Byte.byte constructor and
   every sequence a flat [list byte] (numerals are slow to elaborate) ---- *)
Inductive rop :=
| W (off : byte) (data : list byte)
| T (n : byte)
| F
| R (off len : byte)
| WR (off : byte) (data : list byte) (roff rlen : byte)    (* Write, then a Read while the Write's saves are in flight *)
| FC.                                                      (* the real FileHandle.Flush, last op of a history *)
(* every observation ends with entry.Attributes.FileSize after the op *)
Inductive robs :=
| OW (shape : list byte) (saved : list byte) (attr : byte)
| OT (chunks : list byte) (attr : byte)
| OF (shape : list byte) (saved : list byte) (content : list byte) (attr : byte)
| OR (dirty : list byte) (maxStop : byte) (data : list byte) (attr : byte)
| OWR (shape : list byte) (saved : list byte) (dirty : list byte) (maxStop : byte) (data : list byte) (attr : byte)
| OFC (shape : list byte) (saved : list byte) (content : list byte) (created : list byte) (attr : byte).

(* a case is a batch of histories on fresh files: each history is [pre] followed by one element of [hists]
   (the common prefix and the implementation's observations on it are written once) *)
Record case := { tempfile : bool; limit : Z; pre : list rop * list robs; hists : list (list rop * list robs) }.

Definition bz (b : byte) : Z := Z.of_N (Byte.to_N b).
Definition bn (l : list byte) : list N := map Byte.to_N l.
Definition bzs (l : list byte) : list Z := map bz l.

(* pairs [o; s; o; s; ...] *)
Fixpoint prs (l : list Z) : list (Z * Z) :=
  match l with
  | o :: s :: l' => (o, s) :: prs l'
  | _ => []
  end.
(* shape [k; o; s; ...; k; ...]: per interval list its node count k, then the (offset,size) of its k nodes *)
Fixpoint take_pairs (k : nat) (l : list Z) : list (Z * Z) * list Z :=
  match k, l with
  | S k', o :: s :: l' => let '(ps, r) := take_pairs k' l' in ((o, s) :: ps, r)
  | _, _ => ([], l)
  end.
Fixpoint shp_fuel (fuel : nat) (l : list Z) : list (list (Z * Z)) :=
  match fuel, l with
  | S fuel', k :: l' => let '(ps, r) := take_pairs (Z.to_nat k) l' in ps :: shp_fuel fuel' r
  | _, _ => []
  end.
Definition shp (l : list byte) : list (list (Z * Z)) := shp_fuel (length l) (bzs l).
(* saved [off; n; b1..bn; ...] *)
Fixpoint saved_fuel (fuel : nat) (l : list N) : list chunk :=
  match fuel, l with
  | S fuel', off :: n :: r => (Z.of_N off, firstn (N.to_nat n) r) :: saved_fuel fuel' (skipn (N.to_nat n) r)
  | _, _ => []
  end.
Definition svd (l : list byte) : list chunk := saved_fuel (length l) (bn l).

Definition dec_op (o : rop) : xop :=
  match o with
  | W off d => XOp (Write (bz off) (bn d))
  | T n => XOp (Trunc (bz n))
  | F => XOp Flush
  | R off len => XOp (Read (bz off) (bz len))
  | WR off d roff rlen => WriteRead (bz off) (bn d) (bz roff) (bz rlen)
  | FC => FlushClose
  end.
(* the dirty-layer buffer of a Read is written without its trailing zeros: pad it to the read length *)
Definition pad_to (len : Z) (d : list N) : list N := d ++ repeat 0%N (Z.to_nat len - length d).
Definition dec_obs (o : rop) (ob : robs) : xobs :=
  match ob with
  | OW s sv a => XObs (OWrite (shp s) (svd sv)) (bz a)
  | OT c a => XObs (OTrunc (prs (bzs c)) (bz a)) (bz a)
  | OF s sv c a => XObs (OFlush (shp s) (svd sv) (bn c)) (bz a)
  | OR d m x a => XObs (ORead (pad_to (match o with R _ len => bz len | _ => 0 end) (bn d)) (bz m) (bn x)) (bz a)
  | OWR s sv d m x a =>
      XWriteRead (OWrite (shp s) (svd sv))
                 (ORead (pad_to (match o with WR _ _ _ len => bz len | _ => 0 end) (bn d)) (bz m) (bn x)) (bz a)
  | OFC s sv c cr a => XClose (OFlush (shp s) (svd sv) (bn c)) (bn cr) (bz a)
  end.
Fixpoint dec_obs_list (os : list rop) (rs : list robs) : list xobs :=
  match os, rs with
  | o :: os', ob :: rs' => dec_obs o ob :: dec_obs_list os' rs'
  | _, _ => []
  end.

(* ---- comparison of observables ---- *)
Fixpoint all2 {A B} (f : A -> B -> bool) (l1 : list A) (l2 : list B) : bool :=
  match l1, l2 with
  | [], [] => true
  | x :: l1', y :: l2' => f x y && all2 f l1' l2'
  | _, _ => false
  end.

Definition bytes_eqb (a b : list N) : bool := all2 N.eqb a b.
Definition zz_eqb (a b : Z * Z) : bool := (fst a =? fst b) && (snd a =? snd b).
Definition shape_eqb (a b : list (list (Z * Z))) : bool := all2 (all2 zz_eqb) a b.
Definition saved_eqb (a b : list chunk) : bool := all2 (fun x y => (fst x =? fst y) && bytes_eqb (snd x) (snd y)) a b.

Definition obs_eqb (a b : obs) : bool :=
  match a, b with
  | OWrite l1 s1, OWrite l2 s2 => shape_eqb l1 l2 && saved_eqb s1 s2
  | OTrunc c1 a1, OTrunc c2 a2 => all2 zz_eqb c1 c2 && (a1 =? a2)
  | OFlush l1 s1 c1, OFlush l2 s2 c2 => shape_eqb l1 l2 && saved_eqb s1 s2 && bytes_eqb c1 c2
  | ORead d1 m1 r1, ORead d2 m2 r2 => bytes_eqb d1 d2 && (m1 =? m2) && bytes_eqb r1 r2
  | _, _ => false
  end.

Definition xobs_eqb (a b : xobs) : bool :=
  match a, b with
  | XObs o1 a1, XObs o2 a2 => obs_eqb o1 o2 && (a1 =? a2)
  | XWriteRead w1 r1 a1, XWriteRead w2 r2 a2 => obs_eqb w1 w2 && obs_eqb r1 r2 && (a1 =? a2)
  | XClose o1 c1 a1, XClose o2 c2 a2 => obs_eqb o1 o2 && bytes_eqb c1 c2 && (a1 =? a2)
  | _, _ => false
  end.

Definition model_run (c : case) (ops : list xop) : list xobs :=
  if tempfile c then t_xrun (limit c) ops else m_xrun (limit c) ops.
Definition model_trigger (c : case) (ops : list xop) : option N :=
  if tempfile c then t_xtrigger (limit c) ops else m_xtrigger (limit c) ops.

(* ---- the property oracle: the POSIX file replayed along the ops, checked against the
   implementation's answers.  [cov] = the (offset,size) nodes the implementation last reported:
     Flush:  the content resolved from the stored chunks (by the filer's own chunk logic) is the POSIX file
     Read:   FileHandle.Read returns the POSIX bytes of the window, and every byte the dirty
             buffer returns for a position it covers is the POSIX byte (the latest write) ---- *)
Definition covered (cov : list (list (Z * Z))) (p : Z) : bool :=
  existsb (existsb (fun nd => (fst nd <=? p) && (p <? fst nd + snd nd))) cov.

Fixpoint dirty_ok (f : list N) (cov : list (list (Z * Z))) (p : Z) (d : list N) : bool :=
  match d with
  | [] => true
  | b :: d' =>
      (if covered cov p then (p <? zlen f) && N.eqb b (nth (Z.to_nat p) f 0%N) else true)
      && dirty_ok f cov (p + 1) d'
  end.

Fixpoint posix_ok (f : list N) (cov : list (list (Z * Z))) (ops : list op) (os : list obs) : bool :=
  match ops, os with
  | [], [] => true
  | o :: ops', ob :: os' =>
      let f' := pstep f o in
      match o, ob with
      | Write _ _, OWrite l _ => posix_ok f' l ops' os'
      | Trunc _, OTrunc _ _ => posix_ok f' cov ops' os'
      | Flush, OFlush l _ content => bytes_eqb content f' && posix_ok f' l ops' os'
      | Read off len, ORead d _ data =>
          bytes_eqb data (pread f off len) && dirty_ok f cov off d && posix_ok f' cov ops' os'
      | _, _ => false
      end
  | _, _ => false
  end.

Definition first_some (l : list (option N)) : option N :=
  fold_left (fun acc x => match acc with Some _ => acc | None => x end) l None.

Definition is_saving (ob : obs) : bool := match ob with OFlush _ (_ :: _) _ => true | OWrite _ (_ :: _) => true | _ => false end.
Definition is_read_nonempty (ob : obs) : bool := match ob with ORead _ _ (_ :: _) => true | _ => false end.

(* the POSIX oracle on an extended history: WriteRead counts as Write followed by Read; the attribute size
   reported after every op is the POSIX file size; the entry sent to the filer by the closing flush
   resolves to the POSIX file *)
Fixpoint attrs_ok (f : list N) (ops : list xop) (os : list xobs) : bool :=
  match ops, os with
  | [], [] => true
  | xo :: ops', xb :: os' =>
      let f' := fold_left pstep (xflat1 xo) f in
      (match xb with
       | XObs _ a => a =? zlen f' | XWriteRead _ _ a => a =? zlen f'
       | XClose _ created a => (a =? zlen f') && bytes_eqb created f'   (* the filer received the POSIX file *)
       end) && attrs_ok f' ops' os'
  | _, _ => false
  end.
Definition xposix_ok (ops : list xop) (os : list xobs) : bool :=
  posix_ok [] [] (xflat ops) (xobs_flat os) && attrs_ok [] ops os.

Definition check (c : case) : outcome :=
  let raw := map (fun h => (fst (pre c) ++ fst h, snd (pre c) ++ snd h)) (hists c) in
  let hs := map (fun h => (map dec_op (fst h), dec_obs_list (fst h) (snd h))) raw in
  {| o_corr := forallb (fun h => Nat.eqb (length (fst h)) (length (snd h))) raw &&
               forallb (fun h => all2 xobs_eqb (model_run c (fst h)) (snd h)) hs;
     o_prop := forallb (fun h => xposix_ok (fst h) (snd h)) hs;
     (* a known finding explains the case only if EVERY failing history of the batch is inside a trigger set *)
     o_trig := (let ts := map (fun h => model_trigger c (fst h))
                              (filter (fun h => negb (xposix_ok (fst h) (snd h))) hs) in
                if forallb (fun t => match t with Some _ => true | None => false end) ts
                then first_some ts else None);
     o_nontrivial := existsb (fun h => existsb is_saving (xobs_flat (snd h)) && existsb is_read_nonempty (xobs_flat (snd h))) hs |}.

Definition summarize_cases (l : list case) : summary := summarize check l.
