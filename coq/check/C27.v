(* Correspondence check for C27: one case = one bucket tree, one ListObjects
   parameter set and one continuation style; the harness runs the FULL pagination
   loop against the real S3 gateway router (real filer gRPC service over leveldb2)
   and reports every page and the bucket tree it reads back after the last request
   (the bucket is NOT restored between pages: a delimiter listing deletes folders).
   The client is the request-level one of model/S3ListV2.v: V1 (marker) and V2
   (list-type=2 with continuation-token, start-after, both together, fetch-owner,
   encoding-type, stray parameters of the other API version). *)
From Coq Require Import List NArith ZArith Bool String.
From SW Require Export base.Verdict model.S3List model.S3ListMut model.S3ListV2.
Import ListNotations.
Local Open Scope string_scope.
Local Open Scope list_scope.

(* short forms used by the harness printer *)
Definition F := File.
Definition D := Dir.
Definition P (keys cps : list string) (trunc : bool) (next : string) : page := mk_page keys cps trunc next.
(* string literals are slow to parse (about 1 ms per character): the harness prints
   the segment names of its universe as these constants and a key as J [segments] *)
Definition J (segs : list string) : string := join_slash segs.
Definition s_ : string := "".
Definition sa : string := "a".
Definition sb : string := "b".
Definition sd : string := "d".
Definition sda : string := "da".
Definition se : string := "e".
Definition sf : string := "f".
Definition sx : string := "x".
Definition sy : string := "y".
Definition sz : string := "z".
Definition szz : string := "zz".
Definition sup : string := ".uploads".
Definition spart : string := "0001.part".
Definition sdm : string := "d-x".
Definition sdp : string := "d.x".
Definition sdb : string := "d!".
Definition sg : string := "g".
Definition sh : string := "h".

Record case := {
  c_ae : bool;               (* -allowEmptyFolder *)
  c_tree : list tree;        (* children of the bucket directory, sorted by name *)
  c_prefix : string;
  c_maxkeys : Z;
  c_delim : bool;            (* delimiter = "/" *)
  c_style : style;
  c_start : string;          (* marker (V1) / start-after (V2) of the FIRST request *)
  c_resend : bool;           (* V2Token: the original start-after is resent with every token;
                                V2StartAfter: the page's token is sent beside the moved start-after *)
  c_stray : string;          (* sent in the parameters of the other API version ("" = not sent) *)
  c_fo : bool;               (* fetch-owner=true *)
  c_enc : bool;              (* encoding-type=url *)
  c_cap : nat;               (* the client gives up after this many pages *)
  c_pages : list page;       (* what the implementation answered *)
  c_final : list tree        (* the bucket after the last request (a LIST deletes folders) *)
}.

Fixpoint list_eqb (l1 l2 : list string) : bool :=
  match l1, l2 with
  | [], [] => true
  | x :: r1, y :: r2 => String.eqb x y && list_eqb r1 r2
  | _, _ => false
  end.

Definition page_eqb (a b : page) : bool :=
  list_eqb (pg_keys a) (pg_keys b) && list_eqb (pg_cps a) (pg_cps b) &&
  Bool.eqb (pg_trunc a) (pg_trunc b) && String.eqb (pg_next a) (pg_next b).

Fixpoint pages_eqb (l1 l2 : list page) : bool :=
  match l1, l2 with
  | [], [] => true
  | x :: r1, y :: r2 => page_eqb x y && pages_eqb r1 r2
  | _, _ => false
  end.

(* the model of the whole pagination loop: the client builds every REQUEST (S3ListV2.first_request /
   next_request), the handler derives its marker from it (handler_marker), every request
   runs on the tree the previous one left behind (S3ListV2.run_client) *)
Definition case_client (c : case) : client :=
  mk_client (c_style c) (c_resend c) (c_start c) (c_stray c) (c_fo c) (c_enc c).
Definition model_run (c : case) : list (request * page) * list tree :=
  run_client (c_cap c) (c_ae c) (c_tree c) (c_prefix c) (c_maxkeys c) (c_delim c) (case_client c).

Definition model_pages (c : case) : list page := map snd (fst (model_run c)).
Definition model_markers (c : case) : list string := map (fun x => handler_marker (fst x)) (fst (model_run c)).
Definition model_final (c : case) : list tree := snd (model_run c).

(* which known finding the input falls under (the markers the client will send and the
   predicted final tree are functions of the input: they are computed by the model) *)
(* a V2StartAfter client that also sends the page's token is led by the token (handler_marker):
   its follow-up markers are not full keys *)
Definition eff_style (c : case) : style :=
  match c_style c with
  | V2StartAfter => if c_resend c then V2Token else V2StartAfter
  | st => st
  end.
Definition trigger (c : case) : option N :=
  trigger_of (c_ae c) (c_tree c) (c_prefix c) (c_delim c) (eff_style c) (c_start c)
             (model_markers c) (model_final c).

Definition check (c : case) : outcome :=
  {| o_corr := wf (c_tree c) && pages_eqb (model_pages c) (c_pages c) &&
               forest_eqb (model_final c) (c_final c);
     (* the property's oracle on the implementation's observables: every page sound with
        respect to the S3 reading of the key set, the pages together enumerate every
        matching key / common prefix exactly once and end "not truncated", and listing
        did not remove any object (the key set of the bucket afterwards is the same) *)
     o_prop := (let sk := spec_keys (c_tree c) (c_prefix c) (c_delim c) (c_start c) in
                let sc := spec_cps (c_ae c) (c_tree c) (c_prefix c) (c_delim c) (c_start c) in
                forallb (page_sound_with sk sc (c_maxkeys c)) (c_pages c) &&
                enumerates_with sk sc (c_pages c) &&
                lists_equal_keys (c_tree c) (c_final c));
     o_trig := trigger c;
     o_nontrivial := existsb (fun p => negb (Nat.eqb (List.length (pg_keys p)) 0)) (c_pages c) |}.

Definition summarize_cases (l : list case) : summary := summarize check l.
