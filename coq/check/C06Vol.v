(* Correspondence check for C06, decode + mount (audit item 1): a real volume gets a small
   history, is erasure coded (scaled block sizes), decoded as ec.decode does and mounted by a
   new Store; the case carries the history and what the implementation produced. *)
From Coq Require Import List NArith ZArith Bool.
From SW Require Export base.Verdict.
From SW Require Import model.Volume model.Compaction model.ECVolume.
From SW Require model.EC.
Import ListNotations.
Local Open Scope N_scope.

(* the error classes of model/Volume.v under their own names, for the case terms (cases.v
   imports check.C06, which exports this file but not model.Volume) *)
Notation ENone := Volume.ENone (only parsing).
Notation ENotFound := Volume.ENotFound (only parsing).
Notation EDeleted := Volume.EDeleted (only parsing).
Notation ECookie := Volume.ECookie (only parsing).
Notation EReadOnly := Volume.EReadOnly (only parsing).
Notation EOther := Volume.EOther (only parsing).

(* one read: error class, count, needle (projected to the blank needle on every error path) *)
Definition vrd := (err * Z * view)%type.
Definition vok (count : Z) (cookie size : N) (data : Volume.bytes) (flags : N) : vrd :=
  (ENone, count,
   {| v_cookie := cookie; v_size := size; v_data := data; v_flags := flags; v_name := []; v_mime := [];
      v_pairs := []; v_lastmod := 0; v_ttl := (0, 0) |}).
Definition vno (e : err) (count : Z) : vrd := (e, count, blank_view 0).
Definition vproj (x : vrd) : vrd :=
  match fst (fst x) with ENone => x | e => (e, snd (fst x), blank_view 0) end.
Definition vrd_eqb (a b : vrd) : bool :=
  err_eqb (fst (fst a)) (fst (fst b)) && (snd (fst a) =? snd (fst b))%Z && view_eqb (snd a) (snd b).

(* the harness writes needles with Id, Cookie and Data only (Flags = 0, TTL = EMPTY_TTL) *)
Definition vW (t id cookie : N) (data : Volume.bytes) : cevent :=
  (t, CWrite {| n_id := id; n_cookie := cookie; n_data := data; n_flags := 0; n_name := []; n_mime := [];
                n_pairs := []; n_lastmod := 0; n_ttl := (0, 0) |}).
Definition vD (t id cookie : N) : cevent := (t, CDelete id cookie).

Record vol_obs := {
  vo_L : Z; vo_S : Z; vo_buf : Z;   (* large / small block size and encoder buffer of this run *)
  vo_hist : list cevent;
  vo_keys : list N;
  vo_orig : list N;                 (* the .dat that was encoded *)
  vo_dsz : N;                       (* FindDatFileSize *)
  vo_dec : list N;                  (* the decoded .dat (before the mount) *)
  vo_loaded : bool;                 (* the new Store has the volume *)
  vo_end : N;                       (* size of the .dat after the mount *)
  vo_before : list vrd;             (* per key: read before the encoding *)
  vo_after : list vrd               (* per key: read after decode + mount (EOther 0 when not loaded) *)
}.

Definition vopt_eqb (a b : option (Z * view)) : bool :=
  match a, b with
  | Some (c, v), Some (c', v') => (c =? c')%Z && view_eqb v v'
  | None, None => true
  | _, _ => false
  end.

Definition obytes_eqb (a : option (list N)) (b : list N) : bool :=
  match a with Some x => bytes_eqb x b | None => false end.

Definition check_vol (c : vol_obs) : outcome :=
  let s := c_exec (0, 0) cinit (vo_hist c) in
  let now := 1 in
  let rd_of st := map (fun k => vproj (store_read st k 0 false now)) (vo_keys c) in
  let D := Z.of_nat (List.length (vo_orig c)) in
  (* byte level: the encoder's data shards of the original .dat, WriteDatFile(FindDatFileSize) *)
  let mshards := EC.data_shards (EC.dat_of_list (vo_orig c)) (vo_L c) (vo_S c) (vo_buf c) D in
  let corr_bytes := obytes_eqb (EC.write_dat (vo_L c) (vo_S c) mshards (Z.of_N (vo_dsz c))) (vo_dec c) in
  (* record level: valid when WriteDatFile gave back a prefix of the .dat (no finding 2) *)
  let corr_mount :=
    if fewer_large_rows (vo_L c) s then true
    else
      bytes_eqb (firstn (N.to_nat (vo_dsz c)) (vo_orig c)) (vo_dec c) &&
      match mounted s with
      | None => negb (vo_loaded c) && forallb (fun x => vrd_eqb x (vno EOther 0)) (vo_after c)
      | Some m => vo_loaded c && (dat_end m =? vo_end c) && all2 vrd_eqb (rd_of m) (vo_after c)
      end in
  {| o_corr :=
       (dat_end (cv s) =? N.of_nat (List.length (vo_orig c)))
       && (dat_size s =? vo_dsz c)
       && all2 vrd_eqb (rd_of (cv s)) (vo_before c)
       && corr_bytes && corr_mount;
     (* the property, on the implementation's answers only: the decoded volume is mounted and
        every key reads as it did before the encoding *)
     o_prop := vo_loaded c &&
               all2 (fun a b => vopt_eqb (readable a) (readable b)) (vo_after c) (vo_before c);
     o_trig := decode_trigger (vo_L c) s;
     o_nontrivial :=
       existsb (fun x => match readable x with Some (_, v) => 0 <? blen (v_data v) | None => false end) (vo_before c) |}.
