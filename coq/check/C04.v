(* Correspondence check for C04: phase-structured histories on two real volumes of one
   storage.Store: run h1 on both, Volume.Compact / Compact2 on the first, run h2 on both,
   Volume.CommitCompact on the first, then read every key of the universe on both.
   The case carries what the implementation answered. *)
From Coq Require Import List NArith ZArith Bool String Ascii.
From SW Require Export base.Verdict model.Volume model.Compaction.
Import ListNotations.
Local Open Scope N_scope.

(* payload pattern, generated identically by the harness: byte i = (tag*131 + i*7) mod 256 *)
Fixpoint pat_from (tag i : N) (len : nat) : bytes :=
  match len with
  | O => []
  | S k => ((tag * 131 + i * 7) mod 256) :: pat_from tag (i + 1) k
  end.
Definition pat (tag len : N) : bytes := pat_from tag 0 (N.to_nat len).
Fixpoint str (x : string) : bytes :=
  match x with EmptyString => [] | String a r => N_of_ascii a :: str r end.

Definition mkn (id cookie : N) (data : bytes) (flags : N) (name mime : bytes) (lastmod tc tu : N) : needle :=
  {| n_id := id; n_cookie := cookie; n_data := data; n_flags := flags; n_name := name; n_mime := mime;
     n_pairs := []; n_lastmod := lastmod; n_ttl := (tc, tu) |}.
Definition mkv (cookie size : N) (data : bytes) (flags : N) (name mime : bytes) (lastmod tc tu : N) : view :=
  {| v_cookie := cookie; v_size := size; v_data := data; v_flags := flags; v_name := name; v_mime := mime;
     v_pairs := []; v_lastmod := lastmod; v_ttl := (tc, tu) |}.
Definition W (t : N) (n : needle) : cevent := (t, CWrite n).
Definition D (t id cookie : N) : cevent := (t, CDelete id cookie).
Definition P (off : N) : cevent := (0, CPad off).

(* one read: error class, count, needle (projected to the blank needle on every error path) *)
Definition rd := (err * Z * view)%type.
Definition ok (count : Z) (v : view) : rd := (ENone, count, v).
Definition no (e : err) (count : Z) : rd := (e, count, blank_view 0).

Definition proj (x : rd) : rd :=
  match fst (fst x) with ENone => x | e => (e, snd (fst x), blank_view 0) end.
Definition rd_eqb (a b : rd) : bool :=
  err_eqb (fst (fst a)) (fst (fst b)) && (snd (fst a) =? snd (fst b))%Z && view_eqb (snd a) (snd b).

Definition cres_eqb (a b : cres) : bool :=
  match a, b with
  | RWrite e u s, RWrite e' u' s' => err_eqb e e' && Bool.eqb u u' && (s =? s')
  | RDelete e z, RDelete e' z' => err_eqb e e' && (z =? z')%Z
  | RPad, RPad => true
  | _, _ => false
  end.

Record case := {
  vttl : N * N;              (* volume TTL (Count, Unit) *)
  osz : N;                   (* types.OffsetSize of the build (informative: the model no longer depends on it) *)
  algo : alg;
  now_s : N;                 (* clock (s) read just before Compact/Compact2 *)
  now_r : N;                 (* clock (ns) read just before the final reads *)
  h1 : list cevent;
  sched : list (list cevent);  (* operations issued from inside the copy loop, per visited record (scan-based only) *)
  h2 : list cevent;
  h3 : list cevent;          (* operations after CommitCompact *)
  keys : list N;
  impl_ev : list cres;       (* answers to h1 ++ concat sched ++ h2 (identical on both volumes) *)
  impl_main : list rd;       (* per key: the compacted volume after CommitCompact *)
  impl_twin : list rd;       (* per key: the volume that was never compacted *)
  fin_dat : N;               (* compacted volume: .dat size, number of .idx entries, read-only flag *)
  fin_idx : N;
  fin_ro : bool;
  twin_dat : N;
  fin_rev : N;               (* CompactionRevision of the super block loaded by CommitCompact *)
  fin_ks : list (N * Z);     (* (key, size) of every entry of the new .idx, sorted *)
  impl_ev3_main : list cres; (* answers to h3 on the compacted volume / on the twin *)
  impl_ev3_twin : list cres;
  impl_main3 : list rd;      (* per key, after h3 *)
  impl_twin3 : list rd;
  fin_dat3 : N;
  twin_dat3 : N
}.

Definition opt_eqb (a b : option (Z * view)) : bool :=
  match a, b with
  | Some (c, v), Some (c', v') => (c =? c')%Z && view_eqb v v'
  | None, None => true
  | _, _ => false
  end.

(* (key, size) pairs in lexicographic order; sizes compared as integers *)
Definition ks_leb (a b : N * Z) : bool :=
  (fst a <? fst b) || ((fst a =? fst b) && (snd a <=? snd b)%Z).
Fixpoint ks_ins (x : N * Z) (l : list (N * Z)) : list (N * Z) :=
  match l with
  | [] => [x]
  | y :: l' => if ks_leb x y then x :: l else y :: ks_ins x l'
  end.
Definition ks_sort (l : list (N * Z)) : list (N * Z) := fold_right ks_ins [] l.
Definition ks_eqb (a b : N * Z) : bool := (fst a =? fst b) && (snd a =? snd b)%Z.

Definition is_some {A} (o : option A) : bool := match o with Some _ => true | None => false end.

Definition check (c : case) : outcome :=
  let g := {| g_vttl := vttl c |} in
  let hm := List.concat (sched c) ++ h2 c in
  let ord := default_ord g (h1 c) hm in
  let F := compacted_files_il g (algo c) (now_s c) ord (h1 c) (sched c) (h2 c) in
  let m := commit F in
  let t := twin g (h1 c) hm in
  let sm := committed F in
  let st := c_exec (vttl c) cinit (h1 c ++ hm) in
  let s1 := c_exec (vttl c) cinit (h1 c) in
  let rd_of st := map (fun k => proj (store_read st k 0 false (now_r c))) (keys c) in
  let noop := check_noop (check_files F) in
  (* the trigger of one key: finding 0 and 1 per key, finding 2 (a property of the new files) per case *)
  let trig_of k :=
    if negb (no_empty_on k (h1 c ++ hm)) then Some 0
    else if negb (ttl_consistent_on k (vttl c) (now_s c) (now_r c) (h1 c)) then Some 1
    else if negb noop then Some 2
    else None in
  let same := map (fun ab => opt_eqb (readable (fst ab)) (readable (snd ab))) (combine (impl_main c) (impl_twin c)) in
  let bad := map fst (filter (fun kb => negb (snd kb)) (combine (keys c) same)) in
  {| o_corr :=
       all2 cres_eqb (c_outs (vttl c) cinit (h1 c ++ hm)) (impl_ev c)
       && all2 rd_eqb (rd_of m) (impl_main c)
       && all2 rd_eqb (rd_of t) (impl_twin c)
       && (dat_end m =? fin_dat c)
       && (N.of_nat (List.length (cidx sm)) =? fin_idx c)
       && Bool.eqb (no_write_or_delete m) (fin_ro c)
       && (dat_end t =? twin_dat c)
       && ((if makeup_fails (List.length (cidx s1)) st then 0 else 1) =? fin_rev c)
       && all2 ks_eqb (ks_sort (map (fun e => (ie_key e, ie_size e)) (cidx sm))) (fin_ks c)
       (* the volumes keep working after the commit *)
       && all2 cres_eqb (c_outs (vttl c) sm (h3 c)) (impl_ev3_main c)
       && all2 cres_eqb (c_outs (vttl c) st (h3 c)) (impl_ev3_twin c)
       && all2 rd_eqb (rd_of (cv (c_exec (vttl c) sm (h3 c)))) (impl_main3 c)
       && all2 rd_eqb (rd_of (cv (c_exec (vttl c) st (h3 c)))) (impl_twin3 c)
       && (dat_end (cv (c_exec (vttl c) sm (h3 c))) =? fin_dat3 c)
       && (dat_end (cv (c_exec (vttl c) st (h3 c))) =? twin_dat3 c);
     (* property oracle, on the implementation's answers only: every key reads the same on the
        compacted volume as on the never-compacted one (found with the same count and needle,
        or not readable on both), immediately after the commit *)
     o_prop := (List.length (impl_main c) =? List.length (keys c))%nat
               && all2 (fun a b => opt_eqb (readable a) (readable b)) (impl_main c) (impl_twin c);
     (* a failing case is a known finding only when EVERY key that reads differently is inside a
        trigger of its own; the finding reported is that of the first such key *)
     o_trig :=
       match bad with
       | [] => None
       | k :: _ => if forallb (fun k => is_some (trig_of k)) bad then trig_of k else None
       end;
     o_nontrivial :=
       existsb (fun x => match readable x with Some (_, v) => 0 <? blen (v_data v) | None => false end) (impl_twin c)
       && negb (Nat.eqb (List.length (cidx s1)) 0) |}.

Definition summarize_cases (l : list case) : summary := summarize check l.
