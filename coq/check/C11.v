(* Correspondence check for C11: histories of heartbeat streams (connect, full /
   incremental heartbeats, end of stream), collector sweeps on a real
   topology.Topology with several volume layouts.  After EVERY step the harness
   records, per layout: writables, vid2location, the read-only and oversized
   DataNode lists per vid, the answer of PickForWrite without option and with a
   DataCenter+Rack option; Topology.Lookup of every vid; every DataNode object
   the streams ever got (linked?, volumes with size / read-only / layout key). *)
From Coq Require Import List NArith Bool.
From SW Require Export base.Verdict model.TopoLayout model.TopoMulti.
Import ListNotations.
Local Open Scope N_scope.

Record lobs := {
  lo_writ : list N;                 (* sorted vl.writables *)
  lo_crowd : list N;                (* sorted keys of vl.crowded *)
  lo_loc : list (N * list N);       (* vid2location: sorted by vid, addresses sorted *)
  lo_ro : list (N * list N);        (* readonlyVolumes.copyMap *)
  lo_os : list (N * list N);        (* oversizedVolumes.copyMap *)
  lo_pick : N * list N;             (* PickForWrite(no option): (vid, sorted locations); (0, []) = error *)
  lo_pickdc : N                     (* PickForWrite(DataCenter dc1, Rack rack0): vid; 0 = none; 999 = panic *)
}.
Definition rvol := (N * (N * bool * N))%type.   (* vid, (size, read-only, layout key) *)
Record obs := {
  ob_lays : list lobs;              (* one per layout key 0 .. K-1 *)
  ob_look : list (N * list N);      (* for every vid of the universe: sorted Topology.Lookup("", vid) *)
  ob_reg : list (bool * list rvol)  (* DataNode objects in creation order: linked, sorted volumes *)
}.

Record case := { k_mc : mcfg; k_univ : list N; k_evs : list mevent; k_impl : list obs }.

Definition vmap_eqb := list_eqb (fun a b : N * list N => (fst a =? fst b) && nl_eqb (snd a) (snd b)).
Definition smap (m : list (N * list N)) : list (N * list N) :=
  ksort fst (map (fun p : N * list N => (fst p, nsort (snd p))) m).
Definition amem (x : list N) (l : list (list N)) : bool := existsb (nl_eqb x) l.
Definition keys_of (ls : list lobs) : list (N * lobs) := combine (map N.of_nat (seq 0 (length ls))) ls.

(* ---------- model = implementation ---------- *)
Definition lobs_ok (s : mstate) (k : N) (o : lobs) : bool :=
  let l := lay (ms_lays s) k in
  nl_eqb (nsort (l_writ l)) (lo_writ o) && nl_eqb (nsort (mcrowded s k)) (lo_crowd o) &&
  vmap_eqb (smap (l_loc l)) (lo_loc o) && vmap_eqb (smap (l_ro l)) (lo_ro o) && vmap_eqb (smap (l_os l)) (lo_os o) &&
  (match l_writ l with
   | [] => (fst (lo_pick o) =? 0)
   | _ => mem (fst (lo_pick o)) (l_writ l) && nl_eqb (nsort (loc l (fst (lo_pick o)))) (snd (lo_pick o))
   end) &&
  (if pick_panics s k then lo_pickdc o =? 999
   else match pick_rack s k 0 with
        | [] => lo_pickdc o =? 0
        | c => mem (lo_pickdc o) c
        end).

Definition rvol_eqb (a b : rvol) : bool :=
  let '(v, (sz, ro, k)) := a in let '(v', (sz', ro', k')) := b in
  (v =? v') && (sz =? sz') && Bool.eqb ro ro' && (k =? k').
Definition reg_of_obj (ob : obj) : bool * list rvol :=
  (ob_linked ob, ksort fst (map (fun q : N * vinfo => (fst q, (vi_size (snd q), vi_ro (snd q), key_of ob (fst q)))) (ob_vols ob))).
Definition regm_eqb := list_eqb (fun a b : bool * list rvol => Bool.eqb (fst a) (fst b) && list_eqb rvol_eqb (snd a) (snd b)).

Definition obs_ok (s : mstate) (o : obs) : bool :=
  (* layouts outside the key table stay empty *)
  forallb (fun p : N * layout => (fst p <? N.of_nat (length (ob_lays o))) ||
                                 match l_loc (snd p), l_writ (snd p) with [], [] => true | _, _ => false end) (ms_lays s) &&
  forallb (fun p => lobs_ok s (fst p) (snd p)) (keys_of (ob_lays o)) &&
  forallb (fun p : N * list N =>
             match lookup_candidates s (fst p) with
             | [] => match snd p with [] => true | _ => false end
             | c => amem (snd p) (map nsort c)
             end) (ob_look o) &&
  regm_eqb (map (fun p => reg_of_obj (snd p)) (ms_objs s)) (ob_reg o).

(* plain histories (one key, one stream per address, no overlap, fixed racks):
   the single-layout model of TopoLayout.v, about which the unbounded theorems
   are stated, must give the same layout as well *)
Fixpoint brackets_ok (op : list N) (es : list mevent) : bool :=
  match es with
  | [] => true
  | MConnect st _ _ :: es' => negb (mem st op) && brackets_ok (st :: op) es'
  | MFull st _ :: es' | MIncr st _ _ :: es' => mem st op && brackets_ok op es'
  | MCollect :: es' => brackets_ok op es'
  | MClose st :: es' => mem st op && brackets_ok (lremove st op) es'
  end.
Definition plain_key (es : list mevent) : option N :=
  match flat_map (fun e => match e with
                           | MFull _ vs => map mi_key vs
                           | MIncr _ news dels => map snd (news ++ dels)
                           | _ => [] end) es with
  | [] => None
  | k :: _ => if forallb (plain_event k) es && brackets_ok [] es then Some k else None
  end.
Fixpoint strace (c : cfg) (s : state) (es : list mevent) : list state :=
  match es with
  | [] => []
  | e :: es' => let s' := fold_left (step c) (to_single e) s in s' :: strace c s' es'
  end.
Definition single_ok (k : N) (s : state) (o : obs) : bool :=
  match nth_error (ob_lays o) (N.to_nat k) with
  | None => false
  | Some lo =>
      nl_eqb (nsort (l_writ (s_lay s))) (lo_writ lo) && vmap_eqb (smap (l_loc (s_lay s))) (lo_loc lo) &&
      vmap_eqb (smap (l_ro (s_lay s))) (lo_ro lo) && vmap_eqb (smap (l_os (s_lay s))) (lo_os lo) &&
      forallb (fun p : N * list N => nl_eqb (nsort (lookup s (fst p))) (snd p)) (ob_look o)
  end.

Fixpoint list_all2 {A B} (f : A -> B -> bool) (l1 : list A) (l2 : list B) : bool :=
  match l1, l2 with
  | [], [] => true
  | x :: l1', y :: l2' => f x y && list_all2 f l1' l2'
  | _, _ => false
  end.

(* ---------- the property's oracle: the IMPLEMENTATION's observables against the
   cluster state as the servers reported it (truth, computed from the events only) ---------- *)
Fixpoint ttrace (t : truth) (es : list mevent) : list truth :=
  match es with
  | [] => []
  | e :: es' => let t' := tstep t e in t' :: ttrace t' es'
  end.

(* failing clauses of vid v at one step: (lookup or copies, read-only, size) *)
Definition fails_v (mc : mcfg) (t : truth) (o : obs) (v : N) : bool * bool * bool :=
  let offered := filter (fun p : N * lobs => mem v (lo_writ (snd p))) (keys_of (ob_lays o)) in
  let f_look := negb (nl_eqb (match aget v (ob_look o) with Some x => x | None => [] end) (nsort (t_holders t v))) in
  let f_copies := existsb (fun p : N * lobs => negb (t_copies_ok mc t (fst p) v)) offered in
  let any := match offered with [] => false | _ => true end in
  (f_look || f_copies, any && negb (t_rw_ok t v), any && negb (t_size_ok mc t v)).

(* finding 0 is the lag between a size report and the next sweep (and the
   re-admission by a later ensureCorrectWritables): right AFTER a sweep it explains
   nothing (c11_collect_enforces_reported_size_partial) *)
Definition ends_with_collect (pre : list mevent) : bool :=
  match rev pre with MCollect :: _ => true | _ => false end.

(* which known finding covers a failing point *)
Definition cover_v (mc : mcfg) (pre : list mevent) (v : N) (f : bool * bool * bool) : option N :=
  let '(f_struct, f_rw, f_size) := f in
  if trig_object_v pre v then Some 2
  else if trig_relayout_v pre v then Some 1
  else if trig_split_v pre v then Some 4
  else if negb f_struct && trig_clobber_v mc pre v then Some 3
  else if negb f_struct && negb f_rw && trig_size_v mc pre v && negb (ends_with_collect pre) then Some 0
  else None.

(* PickForWrite must answer from writables with the layout's locations, and must not panic *)
Definition pick_consistent (lo : lobs) : bool :=
  match lo_writ lo with
  | [] => fst (lo_pick lo) =? 0
  | _ => mem (fst (lo_pick lo)) (lo_writ lo) &&
         nl_eqb (match aget (fst (lo_pick lo)) (lo_loc lo) with Some x => x | None => [] end) (snd (lo_pick lo))
  end && ((lo_pickdc lo =? 0) || mem (lo_pickdc lo) (lo_writ lo)).
Definition pick_panic (lo : lobs) : bool := lo_pickdc lo =? 999.

(* verdict of one step: None = property holds; Some None = fails outside every
   trigger; Some (Some k) = every failing point is covered, k = the first one *)
Definition step_verdict (mc : mcfg) (univ : list N) (pre : list mevent) (t : truth) (o : obs) : option (option N) :=
  let pts := map (fun v => (v, fails_v mc t o v)) univ in
  let bad := filter (fun p : N * (bool * bool * bool) => let '(a, b, c) := snd p in a || b || c) pts in
  let covers := map (fun p : N * (bool * bool * bool) => cover_v mc pre (fst p) (snd p)) bad in
  (* a panic of PickForWrite(DataCenter) comes from an unlinked DataNode in the list of
     a writable vid of that layout: covered by that vid's object / relayout trigger *)
  let panics := map (fun lo => if existsb (trig_object_v pre) (lo_writ lo) then Some 2
                               else if existsb (trig_relayout_v pre) (lo_writ lo) then Some 1 else None)
                    (filter pick_panic (ob_lays o)) in
  let covers := panics ++ covers in
  let incons := negb (forallb (fun lo => pick_panic lo || pick_consistent lo) (ob_lays o)) in
  if incons then Some None
  else match covers with
       | [] => None
       | c :: _ => if forallb (fun x : option N => match x with Some _ => true | None => false end) covers then Some c else Some None
       end.

Fixpoint verdicts (mc : mcfg) (univ : list N) (pre : list mevent) (es : list mevent) (ts : list truth) (os : list obs)
  : list (option (option N)) :=
  match es, ts, os with
  | e :: es', t :: ts', o :: os' =>
      let pre' := pre ++ [e] in step_verdict mc univ pre' t o :: verdicts mc univ pre' es' ts' os'
  | _, _, _ => []
  end.

Definition check (k : case) : outcome :=
  let vs := verdicts (k_mc k) (k_univ k) [] (k_evs k) (ttrace tinit (k_evs k)) (k_impl k) in
  let bad := filter (fun x : option (option N) => match x with Some _ => true | None => false end) vs in
  {| o_corr := list_all2 obs_ok (mtrace (k_mc k) minit (k_evs k)) (k_impl k) &&
               match plain_key (k_evs k) with
               | Some k0 => list_all2 (single_ok k0) (strace (cfg_of (k_mc k) k0) init (k_evs k)) (k_impl k)
               | None => true
               end;
     o_prop := match bad with [] => true | _ => false end;
     o_trig := match bad with
               | Some (Some c) :: _ =>
                   if forallb (fun x : option (option N) => match x with Some None => false | _ => true end) bad then Some c else None
               | _ => None
               end;
     o_nontrivial := existsb (fun o => existsb (fun lo => match lo_writ lo with [] => false | _ => true end) (ob_lays o)) (k_impl k) |}.

Definition summarize_cases (l : list case) : summary := summarize check l.
