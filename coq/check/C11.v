(* Correspondence check for C11: histories of heartbeats / collector sweeps /
   disconnects on a real topology.Topology; after EVERY step the harness records
   the layout's writables, read-only and oversized sets, Topology.Lookup for every
   vid of the universe and the registered state (every linked DataNode's volumes). *)
From Coq Require Import List NArith Bool.
From SW Require Export base.Verdict model.TopoLayout.
Import ListNotations.
Local Open Scope N_scope.

Record obs := {
  ob_writ : list N;                          (* sorted vl.writables *)
  ob_ro : list N;                            (* sorted readonlyVolumes.Dump() *)
  ob_os : list N;                            (* sorted oversizedVolumes.Dump() *)
  ob_look : list (N * list N);               (* for every vid of the universe: sorted Lookup *)
  ob_reg : list (N * list (N * (N * bool)))  (* linked nodes with >= 1 volume, sorted: node -> sorted (vid,(size,ro)) *)
}.

Record case := { k_cfg : cfg; k_univ : list N; k_evs : list event; k_impl : list obs }.

Definition look_eqb := list_eqb (fun a b : N * list N => (fst a =? fst b) && nl_eqb (snd a) (snd b)).
Definition obs_eqb (a b : obs) : bool :=
  nl_eqb (ob_writ a) (ob_writ b) && nl_eqb (ob_ro a) (ob_ro b) && nl_eqb (ob_os a) (ob_os b) &&
  look_eqb (ob_look a) (ob_look b) && reg_eqb (ob_reg a) (ob_reg b).

(* the model's observables of one state *)
Definition obs_of (univ : list N) (s : state) : obs :=
  {| ob_writ := nsort (l_writ (s_lay s));
     ob_ro := nsort (map fst (l_ro (s_lay s)));
     ob_os := nsort (map fst (l_os (s_lay s)));
     ob_look := map (fun v => (v, nsort (lookup s v))) univ;
     ob_reg := reg_of (s_nodes s) |}.

(* ---------- the property's oracle, on the IMPLEMENTATION's observables only ---------- *)
(* a volume offered for writes has the right number of registered replicas, all
   writable and all below the size limit *)
Definition o_sound (c : cfg) (o : obs) : bool :=
  forallb (r_crit c (ob_reg o)) (ob_writ o).
(* Lookup returns exactly the registered holders *)
Definition o_lookup (o : obs) : bool :=
  forallb (fun p : N * list N => nl_eqb (snd p) (r_holders (ob_reg o) (fst p))) (ob_look o).

Definition check (k : case) : outcome :=
  {| o_corr := list_eqb obs_eqb (map (obs_of (k_univ k)) (trace (k_cfg k) init (k_evs k))) (k_impl k);
     o_prop := forallb (fun o => o_sound (k_cfg k) o && o_lookup o) (k_impl k);
     o_trig := if trigger_size (k_cfg k) (k_evs k) then Some 0 else None;
     o_nontrivial := existsb (fun o => match ob_writ o with [] => false | _ => true end) (k_impl k) |}.

Definition summarize_cases (l : list case) : summary := summarize check l.
