(* Correspondence check for C20: histories of create / update / append / delete / rename /
   link / write / unlink on the real Filer (leveldb2) behind the real gRPC handlers, with the
   chunk ids handed to the deletion queue and to DirectDeleteChunks captured after EVERY
   operation, the raw store and KV dump, and the referenced set recomputed by walking the
   real store (FindEntry + ResolveChunkManifest). *)
From Coq Require Import List NArith ZArith Bool String.
From SW Require Export base.Verdict model.Chunks model.HardLink model.FilerGC model.FilerGCWire.
Import ListNotations.
Local Open Scope N_scope.

(* short forms used by the harness printer *)
Definition na : name := "a"%string.
Definition nb : name := "b"%string.
Definition nc : name := "c"%string.
Definition nd : name := "d"%string.
Definition ne : name := "e"%string.
Definition C (fid off size mt : N) : chunk := Chunk fid off size mt false.
Definition M (fid off size mt : N) : chunk := Chunk fid off size mt true.
Definition F (perm uid mt crt : N) (cs : list chunk) (hl : N) (cnt : Z) : hentry := mk_hentry false perm uid mt crt cs hl cnt.
Definition D (perm uid mt crt : N) (cs : list chunk) (hl : N) (cnt : Z) : hentry := mk_hentry true perm uid mt crt cs hl cnt.

Record obs := {
  i_err : err;              (* error class *)
  i_sched : list N;         (* chunk ids scheduled by this operation (sorted multiset) *)
  i_state : st;             (* raw per-name blobs and raw KV records *)
  i_view : list (path * hentry);   (* Filer.FindEntry for every stored name *)
  i_refs : list N           (* referenced chunk ids (sorted set) *)
}.

(* ops = the DECODED requests (what the model and the specification work on); encs = for every operation the
   chunk references of its first chunk-carrying request as sent: (decoded id, 0 both fields / 1 fid object
   only / 2 file_id string only).  The specification (oracle, triggers) never looks at encs. *)
Record case := { c_env : env; ops : list op; encs : list sent; impl : list obs }.

Fixpoint all2 {A B} (f : A -> B -> bool) (l1 : list A) (l2 : list B) : bool :=
  match l1, l2 with
  | [], [] => true
  | x :: l1', y :: l2' => f x y && all2 f l1' l2'
  | _, _ => false
  end.

Fixpoint insert_n (x : N) (l : list N) : list N :=
  match l with
  | [] => [x]
  | y :: l' => if x <=? y then x :: l else y :: insert_n x l'
  end.
Definition sort_n (l : list N) : list N := fold_right insert_n [] l.

Fixpoint dedup_sorted (l : list N) : list N :=
  match l with
  | x :: ((y :: _) as l') => if x =? y then dedup_sorted l' else x :: dedup_sorted l'
  | _ => l
  end.

Definition same_obs (ev : env) (m : res) (i : obs) : bool :=
  err_eqb (err_of m) (i_err i) &&
  list_eqb N.eqb (sort_n (sched_of m)) (i_sched i) &&
  st_equiv_b (st_of m) (i_state i) &&
  (* FindEntry of every stored name, and the referenced set recomputed from the model's state *)
  Nat.eqb (List.length (names (st_of m))) (List.length (i_view i)) &&
  forallb (fun pe => opt_eqb (w_find (st_of m) (fst pe)) (Some (snd pe))) (i_view i) &&
  list_eqb N.eqb (dedup_sorted (sort_n (refs ev (st_of m)))) (i_refs i).

(* the reported encodings belong to the operation: they name exactly the chunks the decoded request brings
   (a write whose lookup fails sends nothing) *)
Definition sent_ok (ev : env) (s : st) (o : op) (sn : sent) : bool :=
  match o with
  | Write p _ _ _ =>
      match (if in_scope p then find_entry ev s p else None) with
      | None => match sn with [] => true | _ => false end
      | Some _ => sent_matches o sn
      end
  | _ => sent_matches o sn
  end.

(* correspondence along the encoding-aware run of the model *)
Fixpoint corr (ev : env) (s : st) (os : list op) (sns : list sent) (im : list obs) : bool :=
  match os, sns, im with
  | [], [], [] => true
  | o :: os', sn :: sns', i :: im' =>
      let r := step_w ev s o sn in
      sent_ok ev s o sn && same_obs ev r i && corr ev (st_of r) os' sns' im'
  | _, _, _ => false
  end.

(* the property oracle on the implementation's observables only:
   s = its state before the step, rb = its referenced set before.  The history is judged up to the
   first operation that breaks a client assumption (op_ok, evaluated on the IMPLEMENTATION's state) *)
Fixpoint oracle (ev : env) (s : st) (rb : list N) (os : list op) (im : list obs) : bool :=
  match os, im with
  | [], [] => true
  | o :: os', i :: im' =>
      if op_ok ev s o
      then step_prop ev s o rb (i_refs i) (i_sched i) && oracle ev (i_state i) (i_refs i) os' im'
      else Nat.eqb (List.length os') (List.length im')
  | _, _ => false
  end.

(* the judged prefix of a history: up to the first operation that breaks a client assumption (model run) *)
Fixpoint judged (ev : env) (s : st) (os : list op) : list op :=
  match os with
  | [] => []
  | o :: os' => if op_ok ev s o then o :: judged ev (st_of (step ev s o)) os' else []
  end.

Definition assumed (c : case) : bool := flat_env (c_env c) && hist_ok (c_env c) empty_st (ops c).

Definition check (c : case) : outcome :=
  {| o_corr := corr (c_env c) empty_st (ops c) (encs c) (impl c);
     (* the property is stated under the client assumptions (op_ok per operation, flat_env): the steps
        after the first operation outside them (the malformed stream) are judged on correspondence only *)
     o_prop := if flat_env (c_env c) then oracle (c_env c) empty_st [] (ops c) (impl c) else true;
     (* Some k only if EVERY offending chunk of EVERY failing judged step is explained by a known finding *)
     o_trig := if flat_env (c_env c)
               then match first_failure (c_env c) (judged (c_env c) empty_st (ops c)) with
                    | Some t => t
                    | None => None
                    end
               else None;
     o_nontrivial := flat_env (c_env c) &&
                     match judged (c_env c) empty_st (ops c) with [] => false | _ => true end &&
                     existsb (fun i => negb (is_err (i_err i))) (impl c) &&
                     existsb (fun i => negb (match i_sched i with [] => true | _ => false end)) (impl c) |}.

Definition summarize_cases (l : list case) : summary := summarize check l.
