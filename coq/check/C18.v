(* Correspondence check for C18: histories of create / update / delete / rename on the
   real filer.Filer (+ FilerServer.UpdateEntry / AtomicRenameEntry) over an embedded store; after
   EVERY operation the harness dumps the whole store and the error class.  Renames are given as the
   RAW request strings (directories not necessarily clean, names not necessarily plain). *)
From Coq Require Import List NArith Bool String.
From SW Require Export base.Verdict model.FilerNS model.FilerNSRaw.
Import ListNotations.

(* short forms used by the harness printer *)
Definition na : name := "a"%string.
Definition nb : name := "b"%string.
Definition F (perm uid : N) (chunks : list N) : entry := mk_entry false perm uid chunks [] 0%N [].
Definition D (perm uid : N) : entry := mk_entry true perm uid [] [] 0%N [].
(* with extended attributes *)
Definition FX (perm uid : N) (chunks : list N) (ext : list (string * list N)) : entry :=
  mk_entry false perm uid chunks [] 0%N ext.
Definition DX (perm uid : N) (ext : list (string * list N)) : entry := mk_entry true perm uid [] [] 0%N ext.
Definition P (o : op) : xop := Plain o.
Definition RR (od on nd nn : string) : xop := RenameRaw od on nd nn.

Record case := {
  ops : list xop;
  impl : list (store * err)     (* the implementation's store dump and error class after every op *)
}.

Fixpoint all2 {A B} (f : A -> B -> bool) (l1 : list A) (l2 : list B) : bool :=
  match l1, l2 with
  | [], [] => true
  | x :: l1', y :: l2' => f x y && all2 f l1' l2'
  | _, _ => false
  end.

Definition same_obs (m i : store * err) : bool :=
  store_equiv_b (fst m) (fst i) && err_eqb (snd m) (snd i).

(* a path present before and after keeps its type *)
Definition no_flip (s s' : store) : bool :=
  forallb (fun kv => match find s' (fst kv) with
                     | Some e' => Bool.eqb (e_dir (snd kv)) (e_dir e')
                     | None => true
                     end) s.

(* the normalised (source, target) of a rename that got past the request checks *)
Definition rename_paths (x : xop) : option (path * path) :=
  match x with
  | Plain (Rename od on nd nn) => Some (child od on, child nd nn)
  | RenameRaw od on nd nn => Some (child (clean_dir od) on, child (clean_dir nd) nn)
  | _ => None
  end.

(* the property oracle for one step, on the implementation's observables only:
   s = its store before, (s', r) = its store and error class after *)
Definition step_ok (s : store) (x : xop) (s' : store) (r : err) : bool :=
  wf_b s' && no_flip s s' &&
  match xref_step s x with
  | Some (se, re) => store_equiv_b se s' && err_eqb re r
  | None =>
      (* a directory renamed onto a non-empty directory: the reference only demands
         all (the subtree laid over the target) or nothing *)
      match rename_paths x with
      | Some (oldp, newp) =>
          if is_err r then store_equiv_b s s'
          else match find s oldp with
               | Some eo => store_equiv_b (ref_move s oldp newp eo) s'
               | None => false
               end
      | None => false
      end
  end.

(* the steps at which the oracle fails, each with the implementation's store BEFORE the step *)
Fixpoint failing (s : store) (os : list xop) (im : list (store * err)) : option (list (store * xop)) :=
  match os, im with
  | [], [] => Some []
  | o :: os', (s', r) :: im' =>
      match failing s' os' im' with
      | Some l => Some (if step_ok s o s' r then l else (s, o) :: l)
      | None => None
      end
  | _, _ => None
  end.

Definition last_store (im : list (store * err)) : store :=
  match rev im with (s, _) :: _ => s | [] => [] end.

(* the property holds when no step fails; the case is inside known finding 0 only when EVERY
   failing step is a rename inside the narrow trigger, evaluated on the implementation's own
   store before that step (so another violation in the same history is not hidden) *)
Definition check (c : case) : outcome :=
  let fl := failing [] (ops c) (impl c) in
  {| o_corr := all2 same_obs (xrun [] (ops c)) (impl c);
     o_prop := match fl with Some [] => true | _ => false end;
     o_trig := match fl with
               | Some (f :: l) => if forallb (fun so => xop_trigger (fst so) (snd so)) (f :: l) then Some 0%N else None
               | _ => None
               end;
     o_nontrivial := existsb (fun sr => negb (is_err (snd sr))) (impl c) &&
                     negb (match last_store (impl c) with [] => true | _ => false end) |}.

Definition summarize_cases (l : list case) : summary := summarize check l.
