(* Correspondence check for C18: histories of create / update / delete / rename on the
   real filer.Filer (+ FilerServer.AtomicRenameEntry) over an embedded store; after EVERY
   operation the harness dumps the whole store and the error class. *)
From Coq Require Import List NArith Bool String.
From SW Require Export base.Verdict model.FilerNS.
Import ListNotations.

(* short forms used by the harness printer *)
Definition na : name := "a"%string.
Definition nb : name := "b"%string.
Definition F (perm uid : N) (chunks : list N) : entry := mk_entry false perm uid chunks [] 0%N [].
Definition D (perm uid : N) : entry := mk_entry true perm uid [] [] 0%N [].

Record case := {
  ops : list op;
  impl : list (store * err)     (* the implementation's store dump and error class after every op *)
}.

Fixpoint all2 {A B} (f : A -> B -> bool) (l1 : list A) (l2 : list B) : bool :=
  match l1, l2 with
  | [], [] => true
  | x :: l1', y :: l2' => f x y && all2 f l1' l2'
  | _, _ => false
  end.

Definition same_obs (m i : store * err) : bool :=
  store_equiv_b (fst m) (fst i) && err_eqb (snd m) (snd i).

(* a path present before and after keeps its type *)
Definition no_flip (s s' : store) : bool :=
  forallb (fun kv => match find s' (fst kv) with
                     | Some e' => Bool.eqb (e_dir (snd kv)) (e_dir e')
                     | None => true
                     end) s.

(* the property oracle for one step, on the implementation's observables only:
   s = its store before, (s', r) = its store and error class after *)
Definition step_ok (s : store) (o : op) (s' : store) (r : err) : bool :=
  wf_b s' && no_flip s s' &&
  match ref_step s o with
  | Some (se, re) => store_equiv_b se s' && err_eqb re r
  | None =>
      (* a directory renamed onto a non-empty directory: the reference only demands
         all (the subtree laid over the target) or nothing *)
      match o with
      | Rename od on nd nn =>
          if is_err r then store_equiv_b s s'
          else match find s (child od on) with
               | Some eo => store_equiv_b (ref_move s (child od on) (child nd nn) eo) s'
               | None => false
               end
      | _ => false
      end
  end.

Fixpoint oracle (s : store) (os : list op) (im : list (store * err)) : bool :=
  match os, im with
  | [], [] => true
  | o :: os', (s', r) :: im' => step_ok s o s' r && oracle s' os' im'
  | _, _ => false
  end.

Definition last_store (im : list (store * err)) : store :=
  match rev im with (s, _) :: _ => s | [] => [] end.

Definition check (c : case) : outcome :=
  {| o_corr := all2 same_obs (run [] (ops c)) (impl c);
     o_prop := oracle [] (ops c) (impl c);
     o_trig := if history_trigger [] (ops c) then Some 0%N else None;
     o_nontrivial := existsb (fun sr => negb (is_err (snd sr))) (impl c) &&
                     negb (match last_store (impl c) with [] => true | _ => false end) |}.

Definition summarize_cases (l : list case) : summary := summarize check l.
