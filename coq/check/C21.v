(* Correspondence check for C21: histories of link / unlink / write / rename / overwrite /
   delete over a few names and link ids on the real Filer (leveldb2) behind the real gRPC
   handlers; after EVERY operation: error class, the raw per-name blobs, the raw KV records
   and what Filer.FindEntry shows for every name. *)
From Coq Require Import List NArith ZArith Bool String.
From SW Require Export base.Verdict model.Chunks model.HardLink.
Import ListNotations.
Local Open Scope N_scope.

(* short forms used by the harness printer (the same as in check/C20.v) *)
Definition na : name := "a"%string.
Definition nb : name := "b"%string.
Definition nc : name := "c"%string.
Definition nd : name := "d"%string.
Definition ne : name := "e"%string.
Definition C (fid off size mt : N) : chunk := Chunk fid off size mt false.
Definition M (fid off size mt : N) : chunk := Chunk fid off size mt true.
Definition F (perm uid mt crt : N) (cs : list chunk) (hl : N) (cnt : Z) : hentry := mk_hentry false perm uid mt crt cs hl cnt.
Definition D (perm uid mt crt : N) (cs : list chunk) (hl : N) (cnt : Z) : hentry := mk_hentry true perm uid mt crt cs hl cnt.

Record obs := {
  i_err : err;
  i_sched : list N;                (* not used by this check *)
  i_state : st;                    (* raw per-name blobs and raw KV records *)
  i_view : list (path * hentry);   (* Filer.FindEntry for every stored name *)
  i_refs : list N                  (* not used by this check *)
}.

Record case := { c_env : env; ops : list op; impl : list obs }.

Fixpoint all2 {A B} (f : A -> B -> bool) (l1 : list A) (l2 : list B) : bool :=
  match l1, l2 with
  | [], [] => true
  | x :: l1', y :: l2' => f x y && all2 f l1' l2'
  | _, _ => false
  end.

Definition same_obs (m : res) (i : obs) : bool :=
  err_eqb (err_of m) (i_err i) &&
  st_equiv_b (st_of m) (i_state i) &&
  Nat.eqb (List.length (names (st_of m))) (List.length (i_view i)) &&
  forallb (fun pe => opt_eqb (w_find (st_of m) (fst pe)) (Some (snd pe))) (i_view i).

(* FindEntry as the implementation answered it *)
Definition impl_view (vw : list (path * hentry)) (p : path) : option hentry := aget path_eqb vw p.

(* "the same content and attributes after any update made through any of them", beyond the mtime of
   effect_ok: after a successful write through [p] the name shows only chunks the write brought and
   the mode / owner / creation time it showed before; every other name that carried the same link id
   before the write and still exists shows exactly the same entry (chunks and all attributes) *)
Definition write_shown (s : st) (o : op) (i : obs) : bool :=
  match o with
  | Write p cs _ _ =>
      is_err (i_err i) ||
      match w_find s p, impl_view (i_view i) p with
      | Some e0, Some e' =>
          forallb (fun c => existsb (chunk_eqb c) cs) (h_chunks e') &&
          (h_perm e' =? h_perm e0) && (h_uid e' =? h_uid e0) && (h_crtime e' =? h_crtime e0) &&
          Bool.eqb (h_dir e') (h_dir e0) &&
          match nfind s p with
          | Some b0 =>
              forallb (fun kv => negb (linked b0 (snd kv)) ||
                                 match impl_view (i_view i) (fst kv) with
                                 | Some eq => hentry_eqb eq e'
                                 | None => false
                                 end) (names s)
          | None => false
          end
      | _, _ => false
      end
  | _ => true
  end.

(* the property oracle on the implementation's observables only: s = its state before the step *)
Fixpoint oracle (s : st) (os : list op) (im : list obs) : bool :=
  match os, im with
  | [], [] => true
  | o :: os', i :: im' =>
      c21_step_ok s o (i_err i) (i_state i) (impl_view (i_view i)) && write_shown s o i &&
      oracle (i_state i) os' im'
  | _, _ => false
  end.

Definition assumed (c : case) : bool := c21_hist_ok (c_env c) empty_st (ops c).

Definition has_link (i : obs) : bool := match kvs (i_state i) with [] => false | _ => true end.

Definition check (c : case) : outcome :=
  {| o_corr := all2 same_obs (run (c_env c) empty_st (ops c)) (impl c);
     (* the property is stated under the client assumptions (c21_hist_ok); a case outside them
        (the malformed stream) is judged on correspondence only *)
     o_prop := if assumed c then oracle empty_st (ops c) (impl c) else true;
     o_trig := match c21_first_failure (c_env c) empty_st (ops c) with
               | Some t => t
               | None => None
               end;
     o_nontrivial := assumed c && existsb has_link (impl c) |}.

Definition summarize_cases (l : list case) : summary := summarize check l.
