(* Correspondence check for C10: one call of the real
   VolumeGrowth.findEmptySlotsForOneVolume on a topology whose counters (at every
   level) were read back from the real node objects.  In a share of the cases the topology
   is the result of a heartbeat HISTORY on a real topology.Topology (field [hist]); the
   placement is then also judged against the ground truth computed from the events alone
   (model/TopoPlaceTruth.v), not only against the counters. *)
From Coq Require Import String List ZArith NArith Bool.
From SW Require Import model.TopoCount model.TopoPlaceTruth.
From SW Require Export base.Verdict model.TopoPlace.
Import ListNotations.

Record case := {
  topo : topology;            (* ids and per-disk-type counters of every node, as the code sees them *)
  hist : option (list op);    (* Some ops: [topo] was read back after these heartbeat events on a new Topology *)
  opt : grow_option;
  big : bool;                 (* some fan-out above 3: the oracle enumeration [admits] is skipped *)
  impl_servers : list server; (* returned servers as (dc, rack, node) ids, in the returned order *)
  impl_err : bool;            (* err <> nil *)
  grow_plan : option (list bool); (* Some fl: VolumeGrowth.grow follows a successful search, the
                                     i-th AllocateVolume is refused iff fl[i] *)
  impl_calls : list server;   (* AllocateVolume RPCs received by the volume servers, in order *)
  impl_grow_err : bool;       (* grow's err <> nil *)
  impl_holders : list server; (* data nodes whose volume map has the new id, in tree order *)
  impl_layout : list server;  (* Topology.Lookup of the new id *)
  topo_after : topology       (* counters of every level after the call(s) *) }.

(* short constructors for the harness output (arguments get their scopes from the types) *)
Definition U (k : string) (vol remote active ec max : Z) : string * counts :=
  (k, mkCounts vol remote active ec max).
Definition Nd (id : string) (u : usages) : dnode := {| n_id := id; n_usage := u |}.
Definition Rk (id : string) (u : usages) (ns : list dnode) : rack := {| r_id := id; r_usage := u; r_nodes := ns |}.
Definition Dc (id : string) (u : usages) (rs : list rack) : dcenter := {| d_id := id; d_usage := u; d_racks := rs |}.
Definition Tp (u : usages) (ds : list dcenter) : topology := {| t_usage := u; t_dcs := ds |}.
Definition Sv (a b c : string) : server := (a, b, c).
Definition Op (disk dc rk n : string) (x y z : nat) : grow_option :=
  {| go_disk := disk; go_dc := dc; go_rack := rk; go_node := n; rp_dc := x; rp_rack := y; rp_same := z |}.

(* heartbeat events (TopoCount.op) *)
Definition P3 (a b c : string) : path := [a; b; c].
Definition M (k : string) (v : Z) : string * Z := (k, v).
Definition VS (id : N) (disk : string) : vshort := (id, disk).
Definition MV (id : N) (disk : string) (remote ro : bool) : vinfo := mkV id disk remote ro.
Definition ME (id : N) (disk : string) (bits : N) : ecinfo := mkE id disk bits.
Definition HJoin (dc rk n : string) (maxs : list (string * Z)) : op := Join dc rk n maxs.
Definition HAdjustMax (n : path) (maxs : list (string * Z)) : op := AdjustMax n maxs.
Definition HFullVol (n : path) (vs : list vinfo) : op := FullVol n vs.
Definition HIncVol (n : path) (news dels : list vshort) : op := IncVol n news dels.
Definition HFullEc (n : path) (es : list ecinfo) : op := FullEc n es.
Definition HIncEc (n : path) (news dels : list ecinfo) : op := IncEc n news dels.
Definition HUnregister (n : path) : op := Unregister n.

Definition servers_eqb := list_eqb server_eqb.
Definition mem_server (s : server) (l : list server) : bool := existsb (server_eqb s) l.
Definition all_servers (t : topology) : list server :=
  flat_map (fun dc => flat_map (fun rk => map (srv dc rk) (r_nodes rk)) (d_racks dc)) (t_dcs t).
Definition same_set (a b : list server) : bool :=
  forallb (fun s => mem_server s b) a && forallb (fun s => mem_server s a) b.

(* independent statement of grow's effect on the counters: a data node's volume and active
   counts rise by one iff it is in [ss], nothing else at node level moves *)
Definition node_counts_spec (c : case) (ss : list server) : bool :=
  forallb (fun s =>
    match node_counts (topo c) (go_disk (opt c)) s, node_counts (topo_after c) (go_disk (opt c)) s with
    | Some a, Some b => counts_eqb b (if mem_server s ss then add_one a else a)
    | _, _ => false
    end) (all_servers (topo c)).

Definition grew (c : case) : bool :=
  match grow_plan c with Some _ => negb (impl_err c) | None => false end.

(* history cases: the new volume (id 7 in the harness; never used by a history) is held by the
   servers that registered it *)
Definition new_vid : N := 7.
Definition grow_events (c : case) : list op :=
  map (fun s : server => Grow [s_dc s; s_rack s; s_node s] (mkV new_vid (go_disk (opt c)) false false)) (impl_layout c).

Definition check (c : case) : outcome :=
  let fl := match grow_plan c with Some fl => fl | None => [] end in
  let '(m_alloc, m_err) := grow fl (impl_servers c) in
  {| (* math/rand and map order cannot be replayed: the implementation's answer must be one
        the model produces under SOME oracle (exhaustive enumeration, see [find_all]);
        grow is replayed on the returned list with the case's fail plan *)
     o_corr := wf_topology (topo c) &&
               (* [if], not [||]: vm_compute evaluates both arguments of orb *)
               (if big c then true else admits (topo c) (opt c) (impl_servers c, impl_err c)) &&
               (if grew c then
                  servers_eqb (grow_calls fl (impl_servers c)) (impl_calls c) &&
                  Bool.eqb m_err (impl_grow_err c) &&
                  servers_eqb m_alloc (impl_layout c) &&
                  servers_eqb (filter (fun s => mem_server s m_alloc) (all_servers (topo c))) (impl_holders c) &&
                  topo_eqb (fold_left (add_volume (go_disk (opt c))) m_alloc (topo c)) (topo_after c)
                else (* the search reads only *) topo_eqb (topo c) (topo_after c)) &&
               (* history cases: a consistent history; the tree has exactly the registered servers and
                  the counters of every level equal the truth (property C12's invariant: the
                  hypothesis of c10_placement_on_truth), before the call and after the grow *)
               (match hist c with
                | None => true
                | Some ops =>
                    hist_wf ops && same_nodes (topo c) (truth_of ops) &&
                    counters_true (topo c) (truth_topology (topo c) (truth_of ops)) &&
                    counters_true (topo_after c) (truth_topology (topo_after c) (truth_of (ops ++ grow_events c)))
                end);
     (* property oracle on the implementation's observables: the placement rule on the returned
        servers; success whenever the decidable success condition holds; after grow all of the
        chosen servers hold the volume, or (on error) none *)
     o_prop := (if impl_err c then negb (all_paths_ok (topo c) (opt c))
                else placement_ok (topo c) (opt c) (impl_servers c)) &&
               (if grew c then
                  if impl_grow_err c
                  then match impl_holders c, impl_layout c with [], [] => node_counts_spec c [] | _, _ => false end
                  else same_set (impl_holders c) (impl_servers c) && same_set (impl_layout c) (impl_servers c) &&
                       node_counts_spec c (impl_servers c)
                else true) &&
               (* history cases: the same rule and success condition against what the servers REALLY
                  hold (volumes, EC shards and reported max counts from the events alone; free slots
                  by AvailableSpaceFor's formula on the true counts) *)
               (match hist c with
                | None => true
                | Some ops =>
                    let T := truth_topology (topo c) (truth_of ops) in
                    if impl_err c then negb (all_paths_ok T (opt c))
                    else placement_ok T (opt c) (impl_servers c)
                end);
     o_trig := if grew c && trigger_partial_grow fl (opt c) then Some 0%N else None;
     o_nontrivial := negb (impl_err c) |}.

Definition summarize_cases (l : list case) : summary := summarize check l.
