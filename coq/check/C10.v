(* Correspondence check for C10: one call of the real
   VolumeGrowth.findEmptySlotsForOneVolume on a topology whose counters (at every
   level) were read back from the real node objects. *)
From Coq Require Import String List ZArith Bool.
From SW Require Export base.Verdict model.TopoPlace.
Import ListNotations.

Record case := {
  topo : topology;            (* ids and per-disk-type counters of every node, as the code sees them *)
  opt : grow_option;
  impl_servers : list server; (* returned servers as (dc, rack, node) ids, in the returned order *)
  impl_err : bool             (* err <> nil *) }.

(* short constructors for the harness output (arguments get their scopes from the types) *)
Definition U (k : string) (vol remote active ec max : Z) : string * counts :=
  (k, mkCounts vol remote active ec max).
Definition Nd (id : string) (u : usages) : dnode := {| n_id := id; n_usage := u |}.
Definition Rk (id : string) (u : usages) (ns : list dnode) : rack := {| r_id := id; r_usage := u; r_nodes := ns |}.
Definition Dc (id : string) (u : usages) (rs : list rack) : dcenter := {| d_id := id; d_usage := u; d_racks := rs |}.
Definition Tp (u : usages) (ds : list dcenter) : topology := {| t_usage := u; t_dcs := ds |}.
Definition Sv (a b c : string) : server := (a, b, c).
Definition Op (disk dc rk n : string) (x y z : nat) : grow_option :=
  {| go_disk := disk; go_dc := dc; go_rack := rk; go_node := n; rp_dc := x; rp_rack := y; rp_same := z |}.

Definition check (c : case) : outcome :=
  {| (* math/rand and map order cannot be replayed: the implementation's answer must be one
        the model produces under SOME oracle (exhaustive enumeration, see [find_all]) *)
     o_corr := wf_topology (topo c) && admits (topo c) (opt c) (impl_servers c, impl_err c);
     (* property oracle: the placement rule evaluated on the returned servers *)
     o_prop := if impl_err c then true else placement_ok (topo c) (opt c) (impl_servers c);
     o_trig := None;
     o_nontrivial := negb (impl_err c) |}.

Definition summarize_cases (l : list case) : summary := summarize check l.
