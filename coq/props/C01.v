(* C01 — Volume blob store: read-your-writes, overwrite, delete, cookie, read-only.
   Only statements closed by [exact]; proofs live in proof/VolumeProofs.v.

   [run init h]            what the model of the volume (storage API + HTTP handlers) answers on history h
   [spec_run spec_init h]  what the specification  id -> (cookie, last written needle)  expects
   [match_out]             an answer satisfies the expectation (status / error class, and for reads the
                           data, name, mime, pairs, last-modified, flags, ttl, cookie, count)              *)
From Coq Require Import List NArith ZArith Bool.
From SW Require Import model.Volume proof.VolumeProofs proof.VolumeKeyProofs proof.VolumeKeyOps proof.VolumeKeyMain.
Import ListNotations.
Local Open Scope N_scope.

(* Read-your-writes / overwrite / delete, for EVERY history of Write, Post, Get, Del, RawRead,
   RawDelete, mark-read-only over any keys, cookies, payloads and clock readings:
   every answer is the specification's.  True as soon as no empty payload is written (finding 0)
   and no write repeats id+cookie+bytes of an earlier write with other metadata (finding 1). *)
Theorem c01_refines_partial : forall h,
  wf_history h = true -> empty_payload h = false -> meta_dup [] h = false ->
  all2 match_out (spec_run spec_init h) (run init h) = true.
Proof. exact refines_partial. Qed.
Print Assumptions c01_refines_partial.

(* The full statement (no trigger hypotheses) is false: finding 0, empty payload. *)
Theorem c01_refines_refuted_empty :
  exists h, wf_history h = true /\ meta_dup [] h = false /\
            all2 match_out (spec_run spec_init h) (run init h) = false.
Proof. exact refuted_empty_ex. Qed.
Print Assumptions c01_refines_refuted_empty.

(* ... and finding 1, an "unchanged" overwrite that carries new metadata. *)
Theorem c01_refines_refuted_unchanged :
  exists h, wf_history h = true /\ empty_payload h = false /\
            all2 match_out (spec_run spec_init h) (run init h) = false.
Proof. exact refuted_unchanged_ex. Qed.
Print Assumptions c01_refines_refuted_unchanged.

(* the two witnesses in full: what the model (and the Go code) answers *)
Theorem c01_witness_empty :
  wf_history witness_empty = true /\ meta_dup [] witness_empty = false /\
  empty_payload witness_empty = true /\
  all2 match_out (spec_run spec_init witness_empty) (run init witness_empty) = false /\
  run init witness_empty =
    [OWrite ENone false 0; OGet 200 blank_hview; ODel 202 0; OGet 200 blank_hview].
Proof. exact refines_refuted_empty. Qed.
Print Assumptions c01_witness_empty.

Theorem c01_witness_unchanged :
  wf_history witness_unchanged = true /\ empty_payload witness_unchanged = false /\
  meta_dup [] witness_unchanged = true /\
  all2 match_out (spec_run spec_init witness_unchanged) (run init witness_unchanged) = false /\
  run init witness_unchanged =
    [OWrite ENone false 22; OWrite ENone true 0;
     OGet 200 {| h_data := [104; 101; 108; 108; 111]; h_name := [110; 49]; h_mime := [116; 47; 97];
                 h_pairs := []; h_lastmod := 12345; h_gzip := false |}].
Proof. exact refines_refuted_unchanged. Qed.
Print Assumptions c01_witness_unchanged.

(* A GET that presents a cookie other than the stored one (or hits a deleted / unknown id) is
   answered 404 with nothing, after any history inside the hypotheses ... *)
Theorem c01_cookie_read_partial : forall h id c t,
  wf_history h = true -> empty_payload h = false -> meta_dup [] h = false ->
  (forall n, s_lookup (spec_after spec_init h) id t <> Some (c, n)) ->
  step (state_after init h) (t, Get id c false) = (state_after init h, OGet 404 blank_hview).
Proof. exact cookie_read_partial. Qed.
Print Assumptions c01_cookie_read_partial.

(* ... and in EVERY state a read (GET or storage-level, any cookie, any option) leaves the volume as it was. *)
Theorem c01_cookie_read_pure : forall st t id c rd,
  fst (step st (t, Get id c rd)) = st /\ fst (step st (t, RawRead id c rd)) = st.
Proof. exact reads_pure. Qed.
Print Assumptions c01_cookie_read_pure.

(* With an empty payload the cookie is not checked at all. *)
Theorem c01_cookie_read_refuted :
  exists h id c t hv,
    wf_history h = true /\ meta_dup [] h = false /\
    (forall n, s_lookup (spec_after spec_init h) id t <> Some (c, n)) /\
    step (state_after init h) (t, Get id c false) = (state_after init h, OGet 200 hv).
Proof. exact cookie_read_refuted. Qed.
Print Assumptions c01_cookie_read_refuted.

(* A DELETE with a cookie other than the stored one is refused (400/404) and the volume is
   unchanged, hence every later read answers as before. *)
Theorem c01_cookie_delete_partial : forall h id c t,
  wf_history h = true -> empty_payload h = false -> meta_dup [] h = false ->
  (forall n, s_lookup (spec_after spec_init h) id t <> Some (c, n)) ->
  exists s, (s = 400 \/ s = 404) /\
    step (state_after init h) (t, Del id c) = (state_after init h, ODel s 0).
Proof. exact cookie_delete_partial. Qed.
Print Assumptions c01_cookie_delete_partial.

(* With an empty payload a DELETE with the wrong cookie is acknowledged with 202. *)
Theorem c01_cookie_delete_refuted :
  exists h id c t,
    wf_history h = true /\ meta_dup [] h = false /\
    (forall n, s_lookup (spec_after spec_init h) id t <> Some (c, n)) /\
    snd (step (state_after init h) (t, Del id c)) = ODel 202 0.
Proof. exact cookie_delete_refuted. Qed.
Print Assumptions c01_cookie_delete_refuted.

(* A write to a read-only volume (either flag), in EVERY state: rejected, state unchanged. *)
Theorem c01_readonly : forall st t,
  is_read_only st = true ->
  (forall n, step st (t, Write n) = (st, OWrite EReadOnly false 0)) /\
  (forall u, step st (t, Post u) = (st, OPost 500 EReadOnly)).
Proof. exact readonly_rejects. Qed.
Print Assumptions c01_readonly.

(* non-vacuity: a history inside all hypotheses with write, read, foreign cookie, overwrite,
   rejected overwrite, refused and accepted delete, rewrite, read-only rejection *)
Example c01_example :
  wf_history example_history = true /\ empty_payload example_history = false /\
  meta_dup [] example_history = false /\
  map (fun o => match o with
                | OWrite e _ _ => (0, if err_eqb e ENone then 1 else 0)
                | OGet s _ => (1, s) | ODel s _ => (2, s) | ORead e _ _ => (3, if err_eqb e ENone then 1 else 0)
                | _ => (9, 0) end) (run init example_history) =
  [(0, 1); (1, 200); (1, 404); (0, 1); (0, 0); (3, 1); (2, 400); (2, 202); (1, 404); (0, 1); (9, 0);
   (0, 0); (2, 500); (1, 200)].
Proof. exact example_ok. Qed.
Print Assumptions c01_example.

(* ====================================================================================== *)
(* Second round: per key, every entry point, every answer field.

   [xrun gun init h]   the model on a history of ALL entry points: the operations above, GET / HEAD
                       in any request form (no Accept-Encoding: the needle is decompressed by the
                       oracle [gun]; a file name in the URL), gRPC BatchDelete with and without
                       SkipCookieCheck
   [xjudge ...]        per event: does the answer satisfy the specification  id -> (cookie, last
                       written needle)  in EVERY field ([xmatch]: also the "unchanged" acknowledgement
                       and n.Size of a write, the size a delete reports, Content-Length), and the
                       finding (if any) that has touched one of the keys the event names
   [pk_ok]             every event that names only untouched keys is answered per specification   *)

(* In EVERY history (no hypothesis about findings): an event all of whose keys were never written
   with an empty payload (finding 0), never overwritten with the same cookie and bytes but other
   metadata (finding 1), and never named in a BatchDelete together with such a key, is answered
   exactly as the specification says.  The two findings cannot excuse any other key. *)
Theorem c01_refines_per_key : forall gun h,
  xwf_history h = true ->
  pk_ok (xjudge gun [] [] spec_init h (xrun gun init h)) = true.
Proof. exact refines_per_key. Qed.
Print Assumptions c01_refines_per_key.

(* A history without any event under a finding: every answer of every entry point is the
   specification's (the statement of c01_refines_partial for the larger alphabet and with all
   answer fields). *)
Theorem c01_refines_clean : forall gun h,
  xwf_history h = true -> xclean [] h = true ->
  all_ok (xjudge gun [] [] spec_init h (xrun gun init h)) = true.
Proof. exact refines_clean. Qed.
Print Assumptions c01_refines_clean.

(* GET / HEAD in any form with a cookie other than the stored one (or for a deleted, expired or
   unknown id): 404, nothing served, volume unchanged -- after ANY history, for any untouched key. *)
Theorem c01_cookie_get_per_key : forall gun h id c t g,
  xwf_history h = true -> dirt_get (dirt_after [] [] h) id = None ->
  (forall n, s_lookup (xspec_after gun spec_init h) id t <> Some (c, n)) ->
  xstep gun (xstate_after gun init h) (t, XGet id c false g) = (xstate_after gun init h, XOGet 404 blank_hview 0) /\
  xstep gun (xstate_after gun init h) (t, XBase (Get id c false)) = (xstate_after gun init h, XO (OGet 404 blank_hview)).
Proof. exact cookie_get_k. Qed.
Print Assumptions c01_cookie_get_per_key.

(* HTTP DELETE and gRPC BatchDelete (cookie check on) with a cookie other than the stored one:
   refused with 400 / 404 and the volume is unchanged -- after ANY history, for any untouched key. *)
Theorem c01_cookie_delete_per_key : forall gun h id c t,
  xwf_history h = true -> dirt_get (dirt_after [] [] h) id = None ->
  (forall n, s_lookup (xspec_after gun spec_init h) id t <> Some (c, n)) ->
  exists s, (s = 400 \/ s = 404) /\
    xstep gun (xstate_after gun init h) (t, XBase (Del id c)) = (xstate_after gun init h, XO (ODel s 0)) /\
    xstep gun (xstate_after gun init h) (t, XBatch [(id, c)] false) = (xstate_after gun init h, XOBatch [(s, 0)]).
Proof. exact cookie_delete_k. Qed.
Print Assumptions c01_cookie_delete_per_key.

(* BatchDelete with SkipCookieCheck = true (and Store.DeleteVolumeNeedle, which it calls) never
   looks at the cookie: the request option says so; the specification mirrors it. *)
Theorem c01_batch_skip_ignores_cookie :
  exists h id c t,
    xwf_history h = true /\ xclean [] h = true /\
    (forall n, s_lookup (xspec_after gid spec_init h) id t <> Some (c, n)) /\
    snd (xstep gid (xstate_after gid init h) (t, XBatch [(id, c)] true)) = XOBatch [(202, 20)] /\
    snd (xstep gid (fst (xstep gid (xstate_after gid init h) (t, XBatch [(id, c)] true))) (t, XBase (Get id 20 false)))
    = XO (OGet 404 blank_hview).
Proof. exact batch_skip_ignores_cookie. Qed.
Print Assumptions c01_batch_skip_ignores_cookie.

(* the literals written in model/Volume.v are the constants vc_* (tied to the Go constants in
   props/ConstsTie.v) *)
Theorem c01_literals :
  (forall s, actual_size s =
     let raw := vc_header_size + s + vc_checksum_size + vc_timestamp_size in
     raw + (vc_padding_size - raw mod vc_padding_size)) /\
  dat_end init = vc_super_block_size /\
  (forall n, stored_name n = firstn vc_max_name (n_name n)) /\
  (forall f, is_compressed f = N.testbit f (N.log2 vc_flag_compressed) /\
             has_name f = N.testbit f (N.log2 vc_flag_name) /\
             has_mime f = N.testbit f (N.log2 vc_flag_mime) /\
             has_lastmod f = N.testbit f (N.log2 vc_flag_lastmod) /\
             has_ttl f = N.testbit f (N.log2 vc_flag_ttl) /\
             has_pairs f = N.testbit f (N.log2 vc_flag_pairs) /\
             is_chunk_manifest f = N.testbit f (N.log2 vc_flag_manifest)) /\
  (forall id c d, needle_size (mkx id c d (vc_flag_lastmod + vc_flag_ttl) [] [] 0) =
                  if 0 <? blen d then 4 + blen d + 1 + vc_lastmod_bytes + vc_ttl_bytes else 0) /\
  (forall s, size_deleted s = ((s <? 0) || (s =? vc_tombstone))%Z) /\
  (forall c, ttl_minutes (c, 1) = c /\ ttl_minutes (c, 2) = c * 60 /\ ttl_minutes (c, 3) = c * 60 * 24 /\
             ttl_minutes (c, 4) = c * 60 * 24 * 7 /\ ttl_minutes (c, 5) = c * 60 * 24 * 30 /\
             ttl_minutes (c, 6) = c * 60 * 24 * 365) /\
  (forall n, v_lastmod (view_of n) =
             if has_lastmod (n_flags n) then n_lastmod n mod 2 ^ (8 * vc_lastmod_bytes) else 0) /\
  (forall n, wf_needle n = true -> n_lastmod n < 2 ^ (8 * vc_lastmod_bytes)).
Proof. exact literals_used. Qed.
Print Assumptions c01_literals.

(* non-vacuity of the per-key statement: key 1 falls under finding 0 and is served to a foreign
   cookie; key 2 is untouched and answers per specification (overwrite, HEAD with the mime of the
   name's extension, foreign-cookie DELETE and BatchDelete refused) until a BatchDelete names both
   keys: the code goes on where the specification stops *)
Example c01_example_per_key :
  xwf_history example_x = true /\
  xjudge gid [] [] spec_init example_x (xrun gid init example_x) =
  [(true, Some 0); (true, None); (false, Some 0); (true, None); (true, None); (true, None); (true, None);
   (false, Some 0); (false, Some 0)] /\
  xrun gid init example_x =
  [XO (OWrite ENone false 0); XO (OWrite ENone false 20);
   XO (OGet 200 blank_hview);
   XOGet 200 {| h_data := []; h_name := [97; 46; 99; 115; 115]; h_mime := mime_css; h_pairs := [];
                h_lastmod := 100; h_gzip := false |} 3;
   XO (OWrite ENone false 19); XO (ODel 400 0); XOBatch [(400, 0)]; XOBatch [(202, 0); (202, 19)];
   XO (OGet 404 blank_hview)].
Proof. exact example_x_ok. Qed.
Print Assumptions c01_example_per_key.
