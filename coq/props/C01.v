(* C01 — Volume blob store: read-your-writes, overwrite, delete, cookie, read-only.
   Only statements closed by [exact]; proofs live in proof/VolumeProofs.v.

   [run init h]            what the model of the volume (storage API + HTTP handlers) answers on history h
   [spec_run spec_init h]  what the specification  id -> (cookie, last written needle)  expects
   [match_out]             an answer satisfies the expectation (status / error class, and for reads the
                           data, name, mime, pairs, last-modified, flags, ttl, cookie, count)              *)
From Coq Require Import List NArith ZArith Bool.
From SW Require Import model.Volume proof.VolumeProofs.
Import ListNotations.
Local Open Scope N_scope.

(* Read-your-writes / overwrite / delete, for EVERY history of Write, Post, Get, Del, RawRead,
   RawDelete, mark-read-only over any keys, cookies, payloads and clock readings:
   every answer is the specification's.  True as soon as no empty payload is written (finding 0)
   and no write repeats id+cookie+bytes of an earlier write with other metadata (finding 1). *)
Theorem c01_refines_partial : forall h,
  wf_history h = true -> empty_payload h = false -> meta_dup [] h = false ->
  all2 match_out (spec_run spec_init h) (run init h) = true.
Proof. exact refines_partial. Qed.
Print Assumptions c01_refines_partial.

(* The full statement (no trigger hypotheses) is false: finding 0, empty payload. *)
Theorem c01_refines_refuted_empty :
  exists h, wf_history h = true /\ meta_dup [] h = false /\
            all2 match_out (spec_run spec_init h) (run init h) = false.
Proof. exact refuted_empty_ex. Qed.
Print Assumptions c01_refines_refuted_empty.

(* ... and finding 1, an "unchanged" overwrite that carries new metadata. *)
Theorem c01_refines_refuted_unchanged :
  exists h, wf_history h = true /\ empty_payload h = false /\
            all2 match_out (spec_run spec_init h) (run init h) = false.
Proof. exact refuted_unchanged_ex. Qed.
Print Assumptions c01_refines_refuted_unchanged.

(* the two witnesses in full: what the model (and the Go code) answers *)
Theorem c01_witness_empty :
  wf_history witness_empty = true /\ meta_dup [] witness_empty = false /\
  empty_payload witness_empty = true /\
  all2 match_out (spec_run spec_init witness_empty) (run init witness_empty) = false /\
  run init witness_empty =
    [OWrite ENone false 0; OGet 200 blank_hview; ODel 202 0; OGet 200 blank_hview].
Proof. exact refines_refuted_empty. Qed.
Print Assumptions c01_witness_empty.

Theorem c01_witness_unchanged :
  wf_history witness_unchanged = true /\ empty_payload witness_unchanged = false /\
  meta_dup [] witness_unchanged = true /\
  all2 match_out (spec_run spec_init witness_unchanged) (run init witness_unchanged) = false /\
  run init witness_unchanged =
    [OWrite ENone false 22; OWrite ENone true 0;
     OGet 200 {| h_data := [104; 101; 108; 108; 111]; h_name := [110; 49]; h_mime := [116; 47; 97];
                 h_pairs := []; h_lastmod := 12345; h_gzip := false |}].
Proof. exact refines_refuted_unchanged. Qed.
Print Assumptions c01_witness_unchanged.

(* A GET that presents a cookie other than the stored one (or hits a deleted / unknown id) is
   answered 404 with nothing, after any history inside the hypotheses ... *)
Theorem c01_cookie_read_partial : forall h id c t,
  wf_history h = true -> empty_payload h = false -> meta_dup [] h = false ->
  (forall n, s_lookup (spec_after spec_init h) id t <> Some (c, n)) ->
  step (state_after init h) (t, Get id c false) = (state_after init h, OGet 404 blank_hview).
Proof. exact cookie_read_partial. Qed.
Print Assumptions c01_cookie_read_partial.

(* ... and in EVERY state a read (GET or storage-level, any cookie, any option) leaves the volume as it was. *)
Theorem c01_cookie_read_pure : forall st t id c rd,
  fst (step st (t, Get id c rd)) = st /\ fst (step st (t, RawRead id c rd)) = st.
Proof. exact reads_pure. Qed.
Print Assumptions c01_cookie_read_pure.

(* With an empty payload the cookie is not checked at all. *)
Theorem c01_cookie_read_refuted :
  exists h id c t hv,
    wf_history h = true /\ meta_dup [] h = false /\
    (forall n, s_lookup (spec_after spec_init h) id t <> Some (c, n)) /\
    step (state_after init h) (t, Get id c false) = (state_after init h, OGet 200 hv).
Proof. exact cookie_read_refuted. Qed.
Print Assumptions c01_cookie_read_refuted.

(* A DELETE with a cookie other than the stored one is refused (400/404) and the volume is
   unchanged, hence every later read answers as before. *)
Theorem c01_cookie_delete_partial : forall h id c t,
  wf_history h = true -> empty_payload h = false -> meta_dup [] h = false ->
  (forall n, s_lookup (spec_after spec_init h) id t <> Some (c, n)) ->
  exists s, (s = 400 \/ s = 404) /\
    step (state_after init h) (t, Del id c) = (state_after init h, ODel s 0).
Proof. exact cookie_delete_partial. Qed.
Print Assumptions c01_cookie_delete_partial.

(* With an empty payload a DELETE with the wrong cookie is acknowledged with 202. *)
Theorem c01_cookie_delete_refuted :
  exists h id c t,
    wf_history h = true /\ meta_dup [] h = false /\
    (forall n, s_lookup (spec_after spec_init h) id t <> Some (c, n)) /\
    snd (step (state_after init h) (t, Del id c)) = ODel 202 0.
Proof. exact cookie_delete_refuted. Qed.
Print Assumptions c01_cookie_delete_refuted.

(* A write to a read-only volume (either flag), in EVERY state: rejected, state unchanged. *)
Theorem c01_readonly : forall st t,
  is_read_only st = true ->
  (forall n, step st (t, Write n) = (st, OWrite EReadOnly false 0)) /\
  (forall u, step st (t, Post u) = (st, OPost 500 EReadOnly)).
Proof. exact readonly_rejects. Qed.
Print Assumptions c01_readonly.

(* non-vacuity: a history inside all hypotheses with write, read, foreign cookie, overwrite,
   rejected overwrite, refused and accepted delete, rewrite, read-only rejection *)
Example c01_example :
  wf_history example_history = true /\ empty_payload example_history = false /\
  meta_dup [] example_history = false /\
  map (fun o => match o with
                | OWrite e _ _ => (0, if err_eqb e ENone then 1 else 0)
                | OGet s _ => (1, s) | ODel s _ => (2, s) | ORead e _ _ => (3, if err_eqb e ENone then 1 else 0)
                | _ => (9, 0) end) (run init example_history) =
  [(0, 1); (1, 200); (1, 404); (0, 1); (0, 0); (3, 1); (2, 400); (2, 202); (1, 404); (0, 1); (9, 0);
   (0, 0); (2, 500); (1, 200)].
Proof. exact example_ok. Qed.
