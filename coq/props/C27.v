(* C27 — S3 object listings are complete and paginate correctly.
   Only statements closed by [exact]; proofs live in proof/S3List*.v.

   `list_items` / `list_objects` / `paginate` are the faithful model of
   ListObjectsV1/V2 -> listFilerEntries -> doListFilerEntries over the filer's
   ListEntries (model/S3List.v); `ref_list` is the reference listing (the entries of
   the prefix directory that carry the name prefix, expanded in order, ".uploads"
   directories and — without -allowEmptyFolder — all-empty folders left out).
   Items are compared as segment paths; a key is rendered by join_slash. *)
From Coq Require Import List NArith ZArith Bool String.
From SW Require Import model.S3List model.S3ListMut model.S3ListV2 proof.S3ListV2 proof.S3ListProofs proof.S3ListSound proof.S3ListExact
                       proof.S3ListPaging proof.S3ListFlat proof.S3ListRefute proof.S3ListMut proof.S3ListSingle.
Import ListNotations.
Local Open Scope string_scope.
Local Open Scope list_scope.

(* ================= page soundness ================= *)

(* FULL statement (every marker / prefix): REFUTED, three ways. *)
Theorem c27_page_sound_refuted_marker_into_subdir :
  wf t_k2 = true /\
  pg_keys (list_objects false t_k2 "" 5 "d/" true) = ["d/a"; "d/b"; "da"] /\
  page_sound_b false t_k2 "" 5 true "" (list_objects false t_k2 "" 5 "d/" true) = false.
Proof. exact page_unsound_marker_into_subdir. Qed.
Print Assumptions c27_page_sound_refuted_marker_into_subdir.

Theorem c27_page_sound_refuted_too_many :
  wf t_k3 = true /\
  pg_keys (list_objects false t_k3 "" 1 "d/e/a" false) = ["d/e/b"; "da"] /\
  page_sound_b false t_k3 "" 1 false "" (list_objects false t_k3 "" 1 "d/e/a" false) = false.
Proof. exact page_unsound_too_many. Qed.
Print Assumptions c27_page_sound_refuted_too_many.

Theorem c27_page_sound_refuted_uploads_prefix :
  wf t_k4 = true /\
  pg_keys (list_objects false t_k4 ".uploads/" 1000 "" false) = [".uploads/x/0001.part"] /\
  page_sound_b false t_k4 ".uploads/" 1000 false "" (list_objects false t_k4 ".uploads/" 1000 "" false) = false.
Proof. exact page_unsound_uploads_prefix. Qed.
Print Assumptions c27_page_sound_refuted_uploads_prefix.

(* Strongest true statement: for a marker without "/" and a clean prefix that does not
   point into the multipart area, on EVERY well-formed tree (any depth, with ".uploads",
   with empty folders) the items of a page are, in order, a subsequence of the reference
   listing, and there are at most max-keys of them. *)
Theorem c27_page_sound_partial : forall ae rootk prefix M marker delim,
  wf rootk = true -> count_slash marker = 0 -> bad_prefix prefix = false ->
  subseq (r_items (list_items ae rootk prefix M marker delim)) (ref_list ae rootk prefix delim) /\
  (Z.of_nat (List.length (r_items (list_items ae rootk prefix M marker delim))) <= Z.max 0 M)%Z.
Proof. exact page_sound_partial. Qed.
Print Assumptions c27_page_sound_partial.

(* What the reference listing consists of: keys are paths of files of the tree ... *)
Theorem c27_ref_keys_are_files : forall ae delim D K p,
  In (IKey p) (ref_forest ae delim D K) -> In p (files_under D K).
Proof. exact ref_keys_real. Qed.
Print Assumptions c27_ref_keys_are_files.

(* ... below an entry of the prefix directory that carries the name prefix ... *)
Theorem c27_ref_under_prefix : forall ae rootk prefix delim it, In it (ref_list ae rootk prefix delim) ->
  exists n q, item_path it = req_dir prefix ++ n :: q /\ String.prefix (snd (split_prefix prefix)) n = true.
Proof. exact ref_list_under_prefix. Qed.
Print Assumptions c27_ref_under_prefix.

(* ... never from a ".uploads" directory ... *)
Theorem c27_ref_skips_uploads : forall ae delim D k, ref_tree ae delim D (Dir uploads k) = [].
Proof. exact ref_skips_uploads. Qed.
Print Assumptions c27_ref_skips_uploads.

(* ... with delimiter "/": the files of the directory itself as keys, its sub
   directories as common prefixes ... *)
Theorem c27_ref_delimiter : forall ae D K it, In it (ref_forest ae true D K) ->
  match it with
  | IKey p => exists n, p = D ++ [n] /\ In (File n) K
  | ICP p => exists n k, p = D ++ [n] /\ In (Dir n k) K /\ n <> uploads /\ (ae = true \/ has_file k = true)
  end.
Proof. exact ref_delim_shape. Qed.
Print Assumptions c27_ref_delimiter.

(* ... and without delimiter no common prefixes. *)
Theorem c27_ref_no_delimiter : forall ae D K it, In it (ref_forest ae false D K) -> exists p, it = IKey p.
Proof. exact ref_nodelim_keys. Qed.
Print Assumptions c27_ref_no_delimiter.

(* ================= complete pagination ================= *)

(* FULL statement (every tree, every continuation style): REFUTED. *)
Theorem c27_paginate_complete_refuted_lastkey_prefix_dir :
  let pages := paginate 14 false t_k0 "d/" 1 false V1LastKey "" in
  wf t_k0 = true /\ ended pages = true /\ all_keys pages = ["d/a"; "d/e/a"] /\
  spec_keys t_k0 "d/" false "" = ["d/a"; "d/b"; "d/e/a"] /\
  enumerates_b false t_k0 "d/" false "" pages = false.
Proof. exact paginate_incomplete_lastkey_prefix_dir. Qed.
Print Assumptions c27_paginate_complete_refuted_lastkey_prefix_dir.

Theorem c27_paginate_complete_refuted_zero_yield :
  let pages := paginate 14 false t_k1 "" 2 false V2Token "" in
  wf t_k1 = true /\ ended pages = true /\ all_keys pages = ["a"; "b"] /\
  spec_keys t_k1 "" false "" = ["a"; "b"; "da"] /\
  enumerates_b false t_k1 "" false "" pages = false.
Proof. exact paginate_incomplete_zero_yield. Qed.
Print Assumptions c27_paginate_complete_refuted_zero_yield.

Theorem c27_paginate_complete_refuted_delim_lastkey :
  let pages := paginate 14 false t_k2 "" 1 true V1LastKey "" in
  wf t_k2 = true /\ ended pages = true /\ all_keys pages = ["a"; "d/a"; "d/b"; "da"] /\
  spec_keys t_k2 "" true "" = ["a"; "da"] /\
  enumerates_b false t_k2 "" true "" pages = false.
Proof. exact paginate_unsound_delim_lastkey. Qed.
Print Assumptions c27_paginate_complete_refuted_delim_lastkey.

Theorem c27_paginate_complete_refuted_deep_token :
  let pages := paginate 14 false t_k3 "" 1 false V2Token "" in
  wf t_k3 = true /\ ended pages = true /\
  map pg_keys pages = [["d/e/a"]; ["d/e/b"; "da"]; []] /\
  spec_keys t_k3 "" false "" = ["d/e/a"; "d/e/b"; "d/f"; "da"] /\
  enumerates_b false t_k3 "" false "" pages = false.
Proof. exact paginate_incomplete_deep_token. Qed.
Print Assumptions c27_paginate_complete_refuted_deep_token.

Theorem c27_paginate_complete_refuted_start_is_dir :
  let pages := paginate 14 false t_k5 "" 1000 false V2StartAfter "d" in
  wf t_k5 = true /\ ended pages = true /\ all_keys pages = ["da"] /\
  spec_keys t_k5 "" false "d" = ["d/e/a"; "da"] /\
  enumerates_b false t_k5 "" false "d" pages = false.
Proof. exact paginate_incomplete_start_is_dir. Qed.
Print Assumptions c27_paginate_complete_refuted_start_is_dir.

(* Strongest true statements.
   (i) With delimiter "/": if every entry of the prefix directory that carries the name
   prefix yields an item (no ".uploads" directory among them, no all-empty folder unless
   -allowEmptyFolder), a client that follows the continuation token / NextMarker receives
   every key and every common prefix of the reference listing, in order, nothing else,
   and the last page says "not truncated" — for trees of any depth. *)
Theorem c27_paginate_complete_delim_partial : forall ae rootk prefix K M n st,
  wf rootk = true -> bad_prefix prefix = false -> walk rootk (req_dir prefix) = Some K -> (1 <= M)%Z ->
  (snd (split_prefix prefix) =? "/") = false ->
  forallb (productive ae true) (filter (fun t => String.prefix (snd (split_prefix prefix)) (tname t)) K) = true ->
  (st = V2Token \/ st = V1NextMarker) ->
  List.length (ref_list ae rootk prefix true) < n ->
  let pages := paginate n ae rootk prefix M true st "" in
  flat_map pg_keys pages = flat_map key_of (ref_list ae rootk prefix true) /\
  flat_map pg_cps pages = flat_map cp_of (ref_list ae rootk prefix true) /\
  exists l p, pages = l ++ [p] /\ pg_trunc p = false.
Proof. exact paginate_complete_delim. Qed.
Print Assumptions c27_paginate_complete_delim_partial.

(* (ii) Without delimiter: if the entries of the prefix directory that carry the name
   prefix are files or directories (not ".uploads") holding at least one file and only
   files, the same holds for the continuation token / NextMarker, and — when the prefix
   has no directory part — also for a client that continues from the last key (V1
   marker, V2 start-after).  (One more directory level is refuted above.) *)
Theorem c27_paginate_complete_flat_partial : forall ae rootk prefix K M n st,
  wf rootk = true -> bad_prefix prefix = false -> walk rootk (req_dir prefix) = Some K -> (1 <= M)%Z ->
  forallb flat1 (filter (fun t => String.prefix (snd (split_prefix prefix)) (tname t)) K) = true ->
  (st = V2Token \/ st = V1NextMarker \/ (req_dir prefix = [] /\ (st = V1LastKey \/ st = V2StartAfter))) ->
  List.length (ref_list ae rootk prefix false) < n ->
  let pages := paginate n ae rootk prefix M false st "" in
  flat_map pg_keys pages = flat_map key_of (ref_list ae rootk prefix false) /\
  flat_map pg_cps pages = flat_map cp_of (ref_list ae rootk prefix false) /\
  exists l p, pages = l ++ [p] /\ pg_trunc p = false.
Proof. exact paginate_complete_flat. Qed.
Print Assumptions c27_paginate_complete_flat_partial.

(* One page, exactly: on a tree whose listed entries all yield something, a marker
   without "/" returns the first max-keys items behind it, "truncated" exactly when more
   remain, and the next marker is the position of the last item returned. *)
Theorem c27_page_exact : forall ae rootk delim f D K pfx M m,
  wf rootk = true -> plain D -> walk rootk D = Some K -> wf K = true ->
  forallb (productive ae delim) (filter (fun t => String.prefix pfx (tname t) && String.ltb m (tname t)) K) = true ->
  forest_height K <= f -> (1 <= M)%Z -> count_slash m = 0 -> ((pfx =? "/") && delim) = false ->
  let E := filter (fun t => String.prefix pfx (tname t) && String.ltb m (tname t)) K in
  let r := do_list ae rootk delim (S f) D pfx M m in
  r_items r = firstn (Z.to_nat M) (ref_forest ae delim D E) /\
  r_count r = Z.of_nat (List.length (r_items r)) /\
  r_trunc r = (Z.of_nat (List.length (ref_forest ae delim D E)) >? M)%Z /\
  r_next r = last_marker D "" (r_items r).
Proof. exact (fun ae rootk delim f D K pfx M m _ => page_exact ae rootk delim f D K pfx M m). Qed.
Print Assumptions c27_page_exact.

(* non-vacuity: a bucket with files and a directory of files satisfies the hypotheses of
   (ii); three pages of two keys enumerate it *)
Example c27_example :
  let t := [File "a"; Dir "d" [File "a"; File "b"; File "c"]; File "da"] in
  wf t = true /\ bad_prefix "" = false /\ walk t (req_dir "") = Some t /\
  forallb flat1 (filter (fun x => String.prefix (snd (split_prefix "")) (tname x)) t) = true /\
  map pg_keys (paginate 6 false t "" 2 false V2Token "") = [["a"; "d/a"]; ["d/b"; "d/c"]; ["da"]] /\
  map pg_next (paginate 6 false t "" 2 false V2Token "") = ["d/a"; "d/c"; ""].
Proof. exact flat_example. Qed.
Print Assumptions c27_example.

(* (iii) Trees of ANY depth, with or without delimiter: ONE request whose max-keys is at
   least the size of the listing (every listed entry yields something) returns the whole
   reference listing, "not truncated".  (Paginating a listing two or more directories deep
   is refuted above: c27_paginate_complete_refuted_deep_token.) *)
Theorem c27_single_page_complete : forall ae rootk prefix K M delim,
  wf rootk = true -> bad_prefix prefix = false -> walk rootk (req_dir prefix) = Some K ->
  ((snd (split_prefix prefix) =? "/") && delim) = false ->
  forallb (productive ae delim) (filter (fun t => String.prefix (snd (split_prefix prefix)) (tname t)) K) = true ->
  (1 <= M)%Z -> (Z.of_nat (List.length (ref_list ae rootk prefix delim)) <= M)%Z ->
  let p := list_objects ae rootk prefix M "" delim in
  pg_keys p = flat_map key_of (ref_list ae rootk prefix delim) /\
  pg_cps p = flat_map cp_of (ref_list ae rootk prefix delim) /\
  pg_trunc p = false /\ pg_next p = "".
Proof. exact single_page_complete. Qed.
Print Assumptions c27_single_page_complete.

Example c27_single_page_example :
  let t := [File "a"; Dir "d" [File "a"; Dir "e" [File "a"; Dir "f" [File "x"]]]; File "d.x"] in
  wf t = true /\ bad_prefix "" = false /\ walk t (req_dir "") = Some t /\
  forallb (productive false false) (filter (fun x => String.prefix (snd (split_prefix "")) (tname x)) t) = true /\
  (Z.of_nat (List.length (ref_list false t "" false)) <= 1000)%Z /\
  pg_keys (list_objects false t "" 1000 "" false) = ["a"; "d/a"; "d/e/a"; "d/e/f/x"; "d.x"].
Proof. exact single_page_example. Qed.
Print Assumptions c27_single_page_example.

(* ================= listing order (finding 6) ================= *)

(* "Every key behind the marker / start-after" is REFUTED where a name extends a directory
   name by a character below "/": start-after d.x never returns d/a ... *)
Theorem c27_paginate_complete_refuted_order_clash :
  let pages := paginate 14 false t_k6 "" 1000 false V2StartAfter "d.x" in
  wf t_k6 = true /\ ended pages = true /\ all_keys pages = [] /\
  spec_keys t_k6 "" false "d.x" = ["d/a"] /\
  enumerates_b false t_k6 "" false "d.x" pages = false /\
  trigger_of false t_k6 "" false V2StartAfter "d.x" ["d.x"] t_k6 = Some 6%N.
Proof. exact paginate_incomplete_order_clash. Qed.
Print Assumptions c27_paginate_complete_refuted_order_clash.

(* ... marker d/a returns d.x, which sorts before the marker ... *)
Theorem c27_page_sound_refuted_order_clash :
  wf t_k6b = true /\
  pg_keys (list_objects false t_k6b "" 1000 "d/a" false) = ["d/b"; "d.x"] /\
  String.ltb "d.x" "d/a" = true /\
  page_sound_b false t_k6b "" 1000 false "d/a" (list_objects false t_k6b "" 1000 "d/a" false) = false /\
  trigger_of false t_k6b "" false V1NextMarker "d/a" ["d/a"] t_k6b = Some 6%N.
Proof. exact page_unsound_order_clash. Qed.
Print Assumptions c27_page_sound_refuted_order_clash.

(* ... and the unpaginated listing is not in key order.  (What holds instead: the order
   of the reference listing, c27_page_sound_partial / c27_page_exact; and complete
   pagination from the beginning, (i)-(iii), which never sends a client-chosen marker.) *)
Theorem c27_key_order_refuted :
  pg_keys (list_objects false t_k6 "" 1000 "" false) = ["d/a"; "d.x"] /\ String.ltb "d.x" "d/a" = true.
Proof. exact listing_not_in_key_order. Qed.
Print Assumptions c27_key_order_refuted.

(* ================= a LIST request changes the bucket (finding 7) ================= *)

(* `run_m` (model/S3ListMut.v) is the model the correspondence check evaluates: the
   pagination loop with the bucket tree threaded through doListFilerEntries and
   isDirectoryAllEmpty (which deletes what it takes for empty).
   FULL statement "listing never removes an object": REFUTED, two ways. *)
Theorem c27_list_readonly_refuted_marker :
  let r := run_m 14 false t_k7 "" 1000 true V1NextMarker "/" in
  wf t_k7 = true /\
  bucket_keys t_k7 = ["a"; "d/a"; "d/e/a"; "da"] /\
  map (fun mp => pg_keys (snd mp)) (fst r) = [["/a"; "/da"; "a"; "da"]] /\
  snd r = [File "a"; File "da"] /\
  bucket_keys (snd r) = ["a"; "da"] /\
  trigger_of false t_k7 "" true V1NextMarker "/" (map fst (fst r)) (snd r) = Some 7%N.
Proof. exact list_deletes_objects_marker. Qed.
Print Assumptions c27_list_readonly_refuted_marker.

Theorem c27_list_readonly_refuted_prefix :
  let r := run_m 14 false t_k7 "d//" 1000 true V2Token "" in
  snd r = [File "a"; Dir "d" [File "a"]; File "da"] /\
  bucket_keys (snd r) = ["a"; "d/a"; "da"] /\
  trigger_of false t_k7 "d//" true V2Token "" (map fst (fst r)) (snd r) = Some 7%N.
Proof. exact list_deletes_objects_prefix. Qed.
Print Assumptions c27_list_readonly_refuted_prefix.

(* Strongest statement proved: without delimiter, or with -allowEmptyFolder, for EVERY
   tree, prefix, marker, max-keys and continuation style the threaded model answers
   exactly as the immutable model of the theorems above (same pages, same markers) and
   the bucket afterwards is the bucket before. *)
Theorem c27_list_readonly_partial : forall ae delim, ae = true \/ delim = false ->
  forall n rootk prefix maxKeys st marker,
    map snd (fst (run_m n ae rootk prefix maxKeys delim st marker)) =
      paginate n ae rootk prefix maxKeys delim st marker /\
    map fst (fst (run_m n ae rootk prefix maxKeys delim st marker)) =
      markers n ae rootk prefix maxKeys delim st marker /\
    snd (run_m n ae rootk prefix maxKeys delim st marker) = rootk.
Proof. exact run_m_eq. Qed.
Print Assumptions c27_list_readonly_partial.

(* With delimiter and without -allowEmptyFolder folders ARE deleted (by design those
   without any file); non-vacuity of the threaded model on such a bucket: *)
Example c27_list_deletes_empty_folders_example :
  let t := [File "a"; Dir "d" [Dir "g" []; Dir "k" [File "a"]]; Dir "e" [Dir "h" []]; File "f"] in
  let r := run_m 14 false t "" 1 true V2Token "" in
  wf t = true /\
  snd r = [File "a"; Dir "d" [Dir "k" [File "a"]]; File "f"] /\
  lists_equal_keys t (snd r) = true.
Proof. exact list_deletes_empty_folders. Qed.
Print Assumptions c27_list_deletes_empty_folders_example.

(* ================= the request forms: V1 marker, V2 continuation-token / start-after ================= *)

(* The run the correspondence check evaluates is the REQUEST-level client of model/S3ListV2.v
   (run_client: list-type=2 or not, marker, continuation-token, start-after, fetch-owner,
   encoding-type; the handler derives its marker by handler_marker).  The theorems above speak
   about the marker-level client run_m / paginate; these link the two. *)

(* ListObjectsV2Handler: a non-empty continuation token wins over start-after, whatever
   the byte order of the two; fetch-owner, encoding-type and a stray V1 marker do not matter. *)
Theorem c27_v2_token_wins : forall m token startAfter fo enc,
  token <> "" -> handler_marker (mk_req true m token startAfter fo enc) = token.
Proof. exact handler_marker_v2_token_wins. Qed.
Print Assumptions c27_v2_token_wins.

Theorem c27_v2_first_request : forall m startAfter fo enc,
  handler_marker (mk_req true m "" startAfter fo enc) = startAfter.
Proof. exact handler_marker_v2_no_token. Qed.
Print Assumptions c27_v2_first_request.

(* ListObjectsV1Handler reads the marker only *)
Theorem c27_v1_marker_only : forall m t s fo enc, handler_marker (mk_req false m t s fo enc) = m.
Proof. exact handler_marker_v1. Qed.
Print Assumptions c27_v1_marker_only.

(* a request is served according to its derived marker alone *)
Theorem c27_serve_only_marker : forall ae rootk prefix M delim rq rq',
  handler_marker rq = handler_marker rq' ->
  serve ae rootk prefix M delim rq = serve ae rootk prefix M delim rq'.
Proof. exact serve_only_marker. Qed.
Print Assumptions c27_serve_only_marker.

(* FULL for clients that do not resend: every style of the request-level client, any first
   marker / start-after, any stray parameters, fetch-owner, encoding-type: same pages and
   same final bucket as the marker-level client of the theorems above. *)
Theorem c27_request_client_is_marker_client : forall n ae rootk prefix M delim st start stray fo enc,
  let cl := mk_client st false start stray fo enc in
  map snd (fst (run_client n ae rootk prefix M delim cl)) =
    map snd (fst (run_m n ae rootk prefix M delim st start)) /\
  snd (run_client n ae rootk prefix M delim cl) = snd (run_m n ae rootk prefix M delim st start).
Proof. exact plain_client_is_run_m. Qed.
Print Assumptions c27_request_client_is_marker_client.

(* The SDK-paginator form: the ORIGINAL start-after is resent with every continuation
   token.  As long as every truncated page carries a non-empty token (decidable on the
   marker-level run), resending changes nothing: same pages, same final bucket -- in
   particular also where a token sorts BELOW the resent start-after. *)
Theorem c27_resend_start_after_same_pages : forall n ae rootk prefix M delim start stray fo enc resend,
  let cl := mk_client V2Token resend start stray fo enc in
  tokens_nonempty (fst (run_m n ae rootk prefix M delim V2Token start)) = true ->
  map snd (fst (run_client n ae rootk prefix M delim cl)) =
    map snd (fst (run_m n ae rootk prefix M delim V2Token start)) /\
  snd (run_client n ae rootk prefix M delim cl) = snd (run_m n ae rootk prefix M delim V2Token start).
Proof. exact resend_start_after_same_pages. Qed.
Print Assumptions c27_resend_start_after_same_pages.

(* non-vacuity: logs/a..c beside logs.tar.gz ('.' sorts below '/'), start-after = logs/a
   resent, max-keys 1: the token "logs.tar.gz" sorts below the start-after and is followed *)
Example c27_resend_example :
  wf t_v2 = true /\
  tokens_nonempty (fst (run_m 10 true t_v2 "" 1 false V2Token "logs/a")) = true /\
  map (fun x => pg_keys (snd x))
      (fst (run_client 10 true t_v2 "" 1 false (mk_client V2Token true "logs/a" "" true true))) =
    [["logs/b"]; ["logs/c"]; ["logs.tar.gz"]; ["m"]] /\
  map (fun x => (rq_token (fst x), rq_start_after (fst x)))
      (fst (run_client 10 true t_v2 "" 1 false (mk_client V2Token true "logs/a" "" true true))) =
    [("", "logs/a"); ("logs/b", "logs/a"); ("logs/c", "logs/a"); ("logs.tar.gz", "logs/a")].
Proof. exact resend_example. Qed.
Print Assumptions c27_resend_example.
