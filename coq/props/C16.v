(* C16 — EC shard balancing never loses, duplicates or overfills.
   Only statements closed by [exact]; proofs live in proof/EcBalance{Base,Inv,Spread,Proofs,Key,Rack}.v.

   Vocabulary (model/EcBalance.v): the books are [nodes] (per node: free EC slots and,
   per volume, a shard bit set) and [racks] (free slot counter per rack id).
   [run_plan false st o] is ec.balance in dry run (balanceEcVolumes for every
   collection, then balanceEcRacks) under the oracle [o] (map iteration orders, sort
   tie orders, choices); it returns the books after and the log of printed lines,
   recorded moves ([IMove], with the facts of the books at the moment of the move)
   and abandoned picks ([IDrop]).  [total ns v s] = number of nodes whose books
   hold shard s of volume v.  All theorems quantify over every snapshot and every
   oracle the model accepts. *)
From Coq Require Import List NArith ZArith Bool.
From SW Require Import model.EcBalance proof.EcBalanceBase proof.EcBalanceInv proof.EcBalanceSpread proof.EcBalanceProofs proof.EcBalanceKey proof.EcBalanceRack.
Import ListNotations.

(* ---- one move (moveMountedShardToEcNode bookkeeping) : FULL ----
   moving a shard the source holds to another node that does not hold it conserves the
   number of copies of every (volume, shard), keeps the books well formed, and moves
   exactly one free slot. *)
Theorem c16_move_conserves : forall ns src v c s dst,
  wf ns -> present ns dst -> src <> dst -> In s shard_range ->
  hb ns src v s = true -> hb ns dst v s = false ->
  let ns' := move_shard ns src v c s dst in
  wf ns' /\
  (forall v' s', total ns' v' s' = total ns v' s') /\
  hb ns' dst v s = true /\ hb ns' src v s = false /\
  node_free ns' dst = (node_free ns dst - 1)%Z /\ node_free ns' src = (node_free ns src + 1)%Z /\
  (forall x, x <> src -> x <> dst -> node_free ns' x = node_free ns x).
Proof. exact move_conserves. Qed.
Print Assumptions c16_move_conserves.

(* ---- targets of the planned moves : FULL, every phase ----
   no move (across racks, within racks, balanceEcRacks) targets a node that already holds
   the shard or has no free EC slot.  (doBalanceEcRack was repaired in the working tree:
   `&& emptyNode.freeEcSlot > 0`; before the repair it moved shards onto full servers.) *)
Theorem c16_move_targets : forall st o st' its,
  run_plan false st o = Some (st', its) -> wf (nodes st) -> unique (nodes st) ->
  forall e m, In (IMove e m) its -> m_dst_held m = false /\ (0 < m_dst_free m)%Z.
Proof. exact plan_targets. Qed.
Print Assumptions c16_move_targets.

(* FULL, needs neither uniqueness nor absence of drops: every guard of every phase tests
   freeEcSlot of the destination on the books of that moment, so "planned onto a server without
   a free slot" can never hide inside the trigger set of a finding. *)
Theorem c16_move_free : forall st o st' its,
  run_plan false st o = Some (st', its) -> wf (nodes st) ->
  forall e m, In (IMove e m) its -> (0 < m_dst_free m)%Z.
Proof. exact plan_move_free. Qed.
Print Assumptions c16_move_free.

(* the witness of the repaired defect (full node with 8 shards, free -1, next to an empty
   node with 0 free slots): the repaired planner moves nothing *)
Theorem c16_rack_full_witness_quiet :
  run_plan false (init_state w_full_nodes) w_full_orc = Some (init_state w_full_nodes, []).
Proof. exact rack_full_witness_quiet. Qed.
Print Assumptions c16_rack_full_witness_quiet.

(* ---- the whole plan ----
   REFUTED (finding 0): a shard picked by pickNEcShardsToMoveFrom for which no destination
   rack / node is found has already been removed from the source's books and is never
   put back: present before, absent after, although the plan never moves it. *)
Theorem c16_plan_conserves_refuted :
  ~ (forall st o st' its, wf (nodes st) -> unique (nodes st) ->
       run_plan false st o = Some (st', its) -> exactly_once_after (nodes st) (nodes st')).
Proof. exact plan_conserves_refuted. Qed.
Print Assumptions c16_plan_conserves_refuted.

(* REFUTED (finding 1): in dry run deleteDuplicatedEcShards prints "keeping X" but leaves the
   other copies in the books, so the rest of the dry run plans on duplicated books. *)
Theorem c16_dry_run_dedup_refuted :
  ~ (forall st o st' its, wf (nodes st) -> run_plan false st o = Some (st', its) -> has_drop its = false ->
       exactly_once_after (nodes st) (nodes st')).
Proof. exact dry_run_dedup_refuted. Qed.
Print Assumptions c16_dry_run_dedup_refuted.

(* PARTIAL: snapshot without duplicated shards ([unique], decidable: [has_dup] below) and a
   run that abandons no picked shard ([has_drop], decidable on the trace): every shard of every
   volume is on exactly the same number of nodes before and after — present exactly once if
   it was present, absent if it was absent. *)
Theorem c16_plan_conserves_partial : forall st o st' its,
  run_plan false st o = Some (st', its) -> wf (nodes st) -> unique (nodes st) -> has_drop its = false ->
  (forall v s, total (nodes st') v s = total (nodes st) v s) /\ exactly_once_after (nodes st) (nodes st').
Proof. exact plan_conserves_partial. Qed.
Print Assumptions c16_plan_conserves_partial.

(* PARTIAL, PER KEY (strictly stronger than c16_plan_conserves_partial): the two findings are about one
   (volume, shard) each and nothing else is affected.  Whatever happens to other shards - duplicates
   in the snapshot, picks that are abandoned - a shard (v,s) that is on at most one node in the
   snapshot ([dup_key] false) is never on more nodes afterwards, is on exactly as many nodes afterwards
   unless the run abandoned a pick of THAT shard ([drops_key]), and is never planned onto a node that
   already holds it. *)
Theorem c16_plan_conserves_key : forall st o st' its,
  run_plan false st o = Some (st', its) -> wf (nodes st) ->
  forall v s, (total (nodes st) v s <= 1)%nat ->
    (total (nodes st') v s <= total (nodes st) v s)%nat /\
    (drops_key its v s = false -> total (nodes st') v s = total (nodes st) v s) /\
    (forall e m, In (IMove e m) its -> m_vid m = v -> m_shard m = s -> m_dst_held m = false).
Proof. exact plan_conserves_key. Qed.
Print Assumptions c16_plan_conserves_key.

(* FULL: the drop trigger is decidable on the PRINTED plan.  On the racks collectRacks builds
   ([init_state]) EcRack.freeEcSlot never exceeds the free slots of the rack's nodes, so when pickOneRack
   finds a rack pickOneEcNodeAndMoveOneShard finds a node in it: a pick is never abandoned silently, and
   the abandoned picks of (v,s) are exactly the lines "ec shard v.s at X can not find a destination rack". *)
Theorem c16_drops_are_printed : forall ns o st' its,
  run_plan false (init_state ns) o = Some (st', its) -> wf ns ->
  (forall i, In i its -> is_silent_drop i = false) /\
  (forall v s, drops_key its v s = printed_norack (events_of its) v s).
Proof. exact plan_drops_are_printed. Qed.
Print Assumptions c16_drops_are_printed.

(* PARTIAL, per key, every hypothesis decidable on the snapshot and the printed plan *)
Theorem c16_plan_conserves_key_printed : forall ns o st' its,
  run_plan false (init_state ns) o = Some (st', its) -> wf ns ->
  forall v s, dup_key ns v s = false -> printed_norack (events_of its) v s = false ->
    total (nodes st') v s = total ns v s.
Proof. exact plan_conserves_key_printed. Qed.
Print Assumptions c16_plan_conserves_key_printed.

(* PARTIAL, every hypothesis decidable on the SNAPSHOT: books where every volume already respects the
   spread limit on every rack ([rack_balanced]) abandon nothing and move nothing across racks; without
   duplicated shards they conserve every shard. *)
Theorem c16_balanced_no_drop : forall ns o st' its,
  run_plan false (init_state ns) o = Some (st', its) -> wf ns -> rack_balanced ns = true ->
  has_drop its = false /\ forall e m, In (IMove e m) its -> m_kind m <> KAcross.
Proof. exact plan_balanced_calm. Qed.
Print Assumptions c16_balanced_no_drop.

Theorem c16_plan_conserves_snapshot : forall ns o st' its,
  run_plan false (init_state ns) o = Some (st', its) ->
  wf ns -> bits32 ns = true -> has_dup ns = false -> rack_balanced ns = true ->
  (forall v s, total (nodes st') v s = total ns v s) /\ exactly_once_after ns (nodes st').
Proof. exact plan_conserves_snapshot. Qed.
Print Assumptions c16_plan_conserves_snapshot.

(* FULL (no duplication): whatever is abandoned, a plan on duplicate-free books never
   creates a second copy and never raises a copy count. *)
Theorem c16_plan_never_duplicates : forall st o st' its,
  run_plan false st o = Some (st', its) -> wf (nodes st) -> unique (nodes st) ->
  wf (nodes st') /\ unique (nodes st') /\ forall v s, (total (nodes st') v s <= total (nodes st) v s)%nat.
Proof. exact plan_never_duplicates. Qed.
Print Assumptions c16_plan_never_duplicates.

(* the snapshot trigger is decidable: uint32 shard bits and [has_dup = false] give [unique] *)
Theorem c16_unique_decidable : forall ns, bits32 ns = true -> has_dup ns = false -> unique ns.
Proof. exact unique_of_snapshot. Qed.
Print Assumptions c16_unique_decidable.

(* ---- rack spread : FULL (needs neither uniqueness nor absence of drops) ----
   a move across racks leaves at most m_limit = ceil(14 / #racks) shards of the volume on the
   destination rack; every other move stays inside its rack. *)
Theorem c16_rack_spread : forall st o st' its,
  run_plan false st o = Some (st', its) -> wf (nodes st) ->
  forall e m, In (IMove e m) its ->
    (m_kind m = KAcross -> (m_dst_rack_count m <= m_limit m)%Z) /\
    (m_kind m <> KAcross -> m_src_rack m = m_dst_rack m).
Proof. exact plan_rack_spread. Qed.
Print Assumptions c16_rack_spread.

(* non-vacuity: a concrete layout and oracle satisfy every hypothesis above; the run makes
   8 moves (7 across racks, 1 inside a rack) and loses nothing. *)
Example c16_example :
  wf ex_nodes /\ bits32 ex_nodes = true /\ has_dup ex_nodes = false /\
  exists st' its, run_plan false (init_state ex_nodes) ex_orc = Some (st', its) /\
    has_drop its = false /\
    length (filter (fun i => match i with IMove _ _ => true | _ => false end) its) = 8%nat /\
    map (fun n => find n 1%N) (nodes st') = [16256; 126; 1]%N.
Proof. exact example_run. Qed.
Print Assumptions c16_example.

(* non-vacuity for balanceEcRacks (and for [rack_balanced], [gate]): one rack, a loaded server and an empty
   one; the plan is two rack moves (1.0 then 2.0), nothing is lost, free slots move with the shards. *)
Example c16_example_rack :
  wf ex_rack_nodes /\ bits32 ex_rack_nodes = true /\ has_dup ex_rack_nodes = false /\ gate ex_rack_nodes = true /\
  exists st' its, run_plan false (init_state ex_rack_nodes) ex_rack_orc = Some (st', its) /\
    has_drop its = false /\
    events_of its = [ERackMove 0 1 0 1; ERackMove 0 2 0 1]%N /\
    length (filter is_rack_move its) = 2%nat /\
    map (fun n => (n_free n, find n 1%N, find n 2%N)) (nodes st') = [(8%Z, 1%N, 1%N); (4%Z, 14%N, 2%N)].
Proof. exact example_rack_run. Qed.
Print Assumptions c16_example_rack.

Example c16_example_rack_balanced : rack_balanced ex_rack_nodes = true /\ rack_balanced ex_nodes = false.
Proof. exact example_balanced. Qed.
Print Assumptions c16_example_rack_balanced.
