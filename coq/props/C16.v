(* C16 — EC shard balancing never loses, duplicates or overfills.
   Only statements closed by [exact]; proofs live in proof/EcBalance{Base,Inv,Spread,Proofs}.v.

   Vocabulary (model/EcBalance.v): the books are [nodes] (per node: free EC slots and,
   per volume, a shard bit set) and [racks] (free slot counter per rack id).
   [run_plan false st o] is ec.balance in dry run (balanceEcVolumes for every
   collection, then balanceEcRacks) under the oracle [o] (map iteration orders, sort
   tie orders, choices); it returns the books after and the log of printed lines,
   recorded moves ([IMove], with the facts of the books at the moment of the move)
   and abandoned picks ([IDrop]).  [total ns v s] = number of nodes whose books
   hold shard s of volume v.  All theorems quantify over every snapshot and every
   oracle the model accepts. *)
From Coq Require Import List NArith ZArith Bool.
From SW Require Import model.EcBalance proof.EcBalanceBase proof.EcBalanceInv proof.EcBalanceSpread proof.EcBalanceProofs.
Import ListNotations.

(* ---- one move (moveMountedShardToEcNode bookkeeping) : FULL ----
   moving a shard the source holds to another node that does not hold it conserves the
   number of copies of every (volume, shard), keeps the books well formed, and moves
   exactly one free slot. *)
Theorem c16_move_conserves : forall ns src v c s dst,
  wf ns -> present ns dst -> src <> dst -> In s shard_range ->
  hb ns src v s = true -> hb ns dst v s = false ->
  let ns' := move_shard ns src v c s dst in
  wf ns' /\
  (forall v' s', total ns' v' s' = total ns v' s') /\
  hb ns' dst v s = true /\ hb ns' src v s = false /\
  node_free ns' dst = (node_free ns dst - 1)%Z /\ node_free ns' src = (node_free ns src + 1)%Z /\
  (forall x, x <> src -> x <> dst -> node_free ns' x = node_free ns x).
Proof. exact move_conserves. Qed.
Print Assumptions c16_move_conserves.

(* ---- targets of the planned moves : FULL, every phase ----
   no move (across racks, within racks, balanceEcRacks) targets a node that already holds
   the shard or has no free EC slot.  (doBalanceEcRack was repaired in the working tree:
   `&& emptyNode.freeEcSlot > 0`; before the repair it moved shards onto full servers.) *)
Theorem c16_move_targets : forall st o st' its,
  run_plan false st o = Some (st', its) -> wf (nodes st) -> unique (nodes st) ->
  forall e m, In (IMove e m) its -> m_dst_held m = false /\ (0 < m_dst_free m)%Z.
Proof. exact plan_targets. Qed.
Print Assumptions c16_move_targets.

(* the witness of the repaired defect (full node with 8 shards, free -1, next to an empty
   node with 0 free slots): the repaired planner moves nothing *)
Theorem c16_rack_full_witness_quiet :
  run_plan false (init_state w_full_nodes) w_full_orc = Some (init_state w_full_nodes, []).
Proof. exact rack_full_witness_quiet. Qed.
Print Assumptions c16_rack_full_witness_quiet.

(* ---- the whole plan ----
   REFUTED (finding 0): a shard picked by pickNEcShardsToMoveFrom for which no destination
   rack / node is found has already been removed from the source's books and is never
   put back: present before, absent after, although the plan never moves it. *)
Theorem c16_plan_conserves_refuted :
  ~ (forall st o st' its, wf (nodes st) -> unique (nodes st) ->
       run_plan false st o = Some (st', its) -> exactly_once_after (nodes st) (nodes st')).
Proof. exact plan_conserves_refuted. Qed.
Print Assumptions c16_plan_conserves_refuted.

(* REFUTED (finding 1): in dry run deleteDuplicatedEcShards prints "keeping X" but leaves the
   other copies in the books, so the rest of the dry run plans on duplicated books. *)
Theorem c16_dry_run_dedup_refuted :
  ~ (forall st o st' its, wf (nodes st) -> run_plan false st o = Some (st', its) -> has_drop its = false ->
       exactly_once_after (nodes st) (nodes st')).
Proof. exact dry_run_dedup_refuted. Qed.
Print Assumptions c16_dry_run_dedup_refuted.

(* PARTIAL: snapshot without duplicated shards ([unique], decidable: [has_dup] below) and a
   run that abandons no picked shard ([has_drop], decidable on the trace): every shard of every
   volume is on exactly the same number of nodes before and after — present exactly once if
   it was present, absent if it was absent. *)
Theorem c16_plan_conserves_partial : forall st o st' its,
  run_plan false st o = Some (st', its) -> wf (nodes st) -> unique (nodes st) -> has_drop its = false ->
  (forall v s, total (nodes st') v s = total (nodes st) v s) /\ exactly_once_after (nodes st) (nodes st').
Proof. exact plan_conserves_partial. Qed.
Print Assumptions c16_plan_conserves_partial.

(* FULL (no duplication): whatever is abandoned, a plan on duplicate-free books never
   creates a second copy and never raises a copy count. *)
Theorem c16_plan_never_duplicates : forall st o st' its,
  run_plan false st o = Some (st', its) -> wf (nodes st) -> unique (nodes st) ->
  wf (nodes st') /\ unique (nodes st') /\ forall v s, (total (nodes st') v s <= total (nodes st) v s)%nat.
Proof. exact plan_never_duplicates. Qed.
Print Assumptions c16_plan_never_duplicates.

(* the snapshot trigger is decidable: uint32 shard bits and [has_dup = false] give [unique] *)
Theorem c16_unique_decidable : forall ns, bits32 ns = true -> has_dup ns = false -> unique ns.
Proof. exact unique_of_snapshot. Qed.
Print Assumptions c16_unique_decidable.

(* ---- rack spread : FULL (needs neither uniqueness nor absence of drops) ----
   a move across racks leaves at most m_limit = ceil(14 / #racks) shards of the volume on the
   destination rack; every other move stays inside its rack. *)
Theorem c16_rack_spread : forall st o st' its,
  run_plan false st o = Some (st', its) -> wf (nodes st) ->
  forall e m, In (IMove e m) its ->
    (m_kind m = KAcross -> (m_dst_rack_count m <= m_limit m)%Z) /\
    (m_kind m <> KAcross -> m_src_rack m = m_dst_rack m).
Proof. exact plan_rack_spread. Qed.
Print Assumptions c16_rack_spread.

(* non-vacuity: a concrete layout and oracle satisfy every hypothesis above; the run makes
   8 moves (7 across racks, 1 inside a rack) and loses nothing. *)
Example c16_example :
  wf ex_nodes /\ bits32 ex_nodes = true /\ has_dup ex_nodes = false /\
  exists st' its, run_plan false (init_state ex_nodes) ex_orc = Some (st', its) /\
    has_drop its = false /\
    length (filter (fun i => match i with IMove _ _ => true | _ => false end) its) = 8%nat /\
    map (fun n => find n 1%N) (nodes st') = [16256; 126; 1]%N.
Proof. exact example_run. Qed.
