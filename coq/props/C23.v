(* C23 — Path-specific storage rules resolve by longest matching prefix.
   Only statements closed by [exact]; proofs live in proof/FilerConfProofs.v.

   Reading of "a rule SETS a field": the field has a non-zero value (non-empty string,
   true, growth > 0) — [c23_unset_is_zero_value].  A longer rule therefore can only
   override a shorter one with a non-zero value; it cannot clear fsync / read_only /
   growth back to the zero value ([c23_cannot_clear]).  This is how mergePathConf is
   written and is part of the statement proved here, not a finding. *)
From Coq Require Import List NArith Bool String.
From SW Require Import model.FilerConf proof.FilerConfProofs.
Import ListNotations.
Local Open Scope string_scope.
Local Open Scope list_scope.

(* Every rule set reachable by AddLocationConf / DeleteLocationConf / LoadFromBytes /
   ToText+LoadFromBytes has one value per prefix, and no empty prefix. *)
Theorem c23_reachable_wf : forall rs o, wf rs -> wf (fst (step rs o)).
Proof. exact (step_wf match_rule). Qed.
Print Assumptions c23_reachable_wf.

Theorem c23_reachable_keys_nonempty : forall rs o, keys_ok rs -> keys_ok (fst (step rs o)).
Proof. exact (step_keys_ok match_rule). Qed.
Print Assumptions c23_reachable_keys_nonempty.

(* Field-wise longest-prefix resolution, for any field whose merge is "b's value if b sets it":
   the resolved value is that of a longest matching rule that sets the field, or the
   default when no matching rule sets it. *)
Theorem c23_fieldwise_longest : forall {A} (set : conf -> bool) (get : conf -> A) rs path,
  (forall a b, get (merge a b) = if set b then get b else get a) ->
  (exists r, is_longest_setting set rs path r /\ get (match_rule rs path) = get (snd r)) \/
  (none_sets set rs path /\ get (match_rule rs path) = get empty_conf).
Proof. exact @match_field_spec. Qed.
Print Assumptions c23_fieldwise_longest.

(* ... and all seven fields of the real record are such fields. *)
Theorem c23_all_fields_are_fieldwise :
  (forall a b, collection (merge a b) = if set_collection b then collection b else collection a) /\
  (forall a b, replication (merge a b) = if set_replication b then replication b else replication a) /\
  (forall a b, ttl (merge a b) = if set_ttl b then ttl b else ttl a) /\
  (forall a b, disk_type (merge a b) = if set_disk_type b then disk_type b else disk_type a) /\
  (forall a b, fsync (merge a b) = if set_fsync b then fsync b else fsync a) /\
  (forall a b, growth (merge a b) = if set_growth b then growth b else growth a) /\
  (forall a b, read_only (merge a b) = if set_read_only b then read_only b else read_only a).
Proof.
  exact (conj merge_collection (conj merge_replication (conj merge_ttl (conj merge_disk_type
        (conj merge_fsync (conj merge_growth merge_read_only)))))).
Qed.
Print Assumptions c23_all_fields_are_fieldwise.

(* "sets" means: has a non-zero value. *)
Theorem c23_unset_is_zero_value : forall c,
  (set_collection c = false <-> collection c = ""%string) /\
  (set_replication c = false <-> replication c = ""%string) /\
  (set_ttl c = false <-> ttl c = ""%string) /\
  (set_disk_type c = false <-> disk_type c = ""%string) /\
  (set_fsync c = false <-> fsync c = false) /\
  (set_growth c = false <-> growth c = 0%N) /\
  (set_read_only c = false <-> read_only c = false).
Proof. exact unset_is_zero. Qed.
Print Assumptions c23_unset_is_zero_value.

Theorem c23_cannot_clear : forall a b,
  (fsync a = true -> fsync (merge a b) = true) /\
  (read_only a = true -> read_only (merge a b) = true) /\
  (growth b = 0%N -> growth (merge a b) = growth a).
Proof. exact merge_cannot_clear. Qed.
Print Assumptions c23_cannot_clear.

(* The longest setter is unique, so the resolution is a function of the rule set. *)
Theorem c23_longest_unique : forall set rs path r1 r2, wf rs ->
  is_longest_setting set rs path r1 -> is_longest_setting set rs path r2 -> r1 = r2.
Proof. exact longest_unique. Qed.
Print Assumptions c23_longest_unique.

(* ... of the SET of stored rules: order and representation do not matter. *)
Theorem c23_resolution_depends_on_rule_set_only : forall rs1 rs2 path,
  wf rs2 -> (forall x, In x rs1 <-> In x rs2) -> match_rule rs1 path = match_rule rs2 path.
Proof. exact match_rule_ext. Qed.
Print Assumptions c23_resolution_depends_on_rule_set_only.

(* The executable oracle used by the correspondence check on the IMPLEMENTATION's answers is
   exactly the declarative statement (no model function occurs on the right-hand side) ... *)
Theorem c23_oracle_is_declarative : forall {A} (eqb : A -> A -> bool) set (get : conf -> A) dflt rs path v,
  (forall x y, eqb x y = true <-> x = y) ->
  (field_ok eqb set get dflt rs path v = true <->
   (exists r, is_longest_setting set rs path r /\ v = get (snd r)) \/
   (none_sets set rs path /\ v = dflt)).
Proof. exact @field_ok_spec. Qed.
Print Assumptions c23_oracle_is_declarative.

(* ... and over a one-value-per-prefix rule set it accepts the model's answer and nothing else. *)
Theorem c23_oracle_accepts_exactly_the_model : forall rs path c, wf rs ->
  (match_ok rs path c = true <-> c = match_rule rs path).
Proof. exact match_ok_iff. Qed.
Print Assumptions c23_oracle_accepts_exactly_the_model.

(* The model's resolver equals the executable reference resolver — on every history
   (Add / Del / Match / Load / Reload / Dump). *)
Theorem c23_history_refines_reference : forall ops rs, wf rs -> run rs ops = ref_run rs ops.
Proof. exact run_is_ref_run. Qed.
Print Assumptions c23_history_refines_reference.

(* Removing a rule restores the settings computed without it:
   (1) a freshly added prefix, *)
Theorem c23_delete_restores : forall rs p c path, wf rs -> ~ In p (map fst rs) ->
  match_rule (del (put rs p c) p) path = match_rule rs path.
Proof. exact del_put_restores. Qed.
Print Assumptions c23_delete_restores.

(* (2) any prefix: the rules left are exactly the others, *)
Theorem c23_delete_removes_exactly_p : forall rs p r, In r (del rs p) <-> In r rs /\ fst r <> p.
Proof. exact del_spec. Qed.
Print Assumptions c23_delete_removes_exactly_p.

(* and the answers are those of the reference resolver over the rules other than p, *)
Theorem c23_delete_resolves_without_p : forall rs p path, wf rs ->
  match_rule (del rs p) path = ref_match (filter (fun r => negb (String.eqb (fst r) p)) rs) path.
Proof. exact del_match_ref. Qed.
Print Assumptions c23_delete_resolves_without_p.

(* (3) delete after add / after replace forgets every value ever stored under p
   (no hypothesis: also when p was present before). *)
Theorem c23_delete_after_add : forall rs p c path,
  match_rule (del (put rs p c) p) path = match_rule (del rs p) path.
Proof. exact del_put_match. Qed.
Print Assumptions c23_delete_after_add.

Theorem c23_delete_after_replace : forall rs p c1 c2, del (put (put rs p c1) p c2) p = del rs p.
Proof. exact del_put_put. Qed.
Print Assumptions c23_delete_after_replace.

(* Serialising the configuration and loading it into a fresh FilerConf (what every filer does
   when /etc/seaweedfs/filer.conf changes) changes no answer; ToProto lists exactly the stored rules. *)
Theorem c23_reload_preserves_answers : forall m rs, wf rs -> keys_ok rs ->
  snd (step_with m rs Reload) = ODone /\
  forall path, match_rule (fst (step_with m rs Reload)) path = match_rule rs path.
Proof. exact reload_same. Qed.
Print Assumptions c23_reload_preserves_answers.

Theorem c23_dump_lists_exactly_the_rules : forall rs r, In r (dump rs) <-> In r rs.
Proof. exact dump_in. Qed.
Print Assumptions c23_dump_lists_exactly_the_rules.

(* Finding 0 (c23-empty-prefix-panic): "every configured rule is accepted" fails — an empty
   location prefix makes AddLocationConf / LoadFromBytes panic (ptrie indexes key[0]). *)
Theorem c23_no_panic_refuted : exists ops, In OPanic (run [] ops).
Proof. exact no_panic_refuted. Qed.
Print Assumptions c23_no_panic_refuted.

(* Outside the trigger (no op of the history carries an empty prefix) no call panics,
   and Add / Load store exactly what they were given. *)
Theorem c23_no_panic_partial : forall m ops rs, wf rs -> keys_ok rs ->
  existsb op_empty_prefix ops = false -> ~ In OPanic (run_with m rs ops).
Proof. exact no_panic_partial. Qed.
Print Assumptions c23_no_panic_partial.

Theorem c23_add_partial : forall m rs p c, op_empty_prefix (Add p c) = false ->
  step_with m rs (Add p c) = (put rs p c, ODone).
Proof. exact add_partial. Qed.
Print Assumptions c23_add_partial.

Theorem c23_load_partial : forall m rs l, op_empty_prefix (Load l) = false ->
  step_with m rs (Load l) = (fold_left (fun acc r => put acc (fst r) (snd r)) l rs, ODone).
Proof. exact load_partial. Qed.
Print Assumptions c23_load_partial.

(* non-vacuity: a concrete nested rule set is well formed, resolves field-wise (the longer
   rule's disk type wins), passes the oracle, a delete restores, and a history with Load /
   Reload lies outside the trigger of finding 0 *)
Example c23_example :
  wf ex_rules /\ keys_ok ex_rules /\
  match_rule ex_rules "/a/b/c" =
    {| collection := "x"; replication := "001"; ttl := "2d"; disk_type := "ssd";
       fsync := true; growth := 2; read_only := false |} /\
  match_ok ex_rules "/a/b/c" (match_rule ex_rules "/a/b/c") = true /\
  match_rule (del ex_rules "/a/b") "/a/b/c" = ex_a /\
  existsb op_empty_prefix [Add "/a" ex_a; Load [("/a/b", ex_ab)]; Reload; Match "/a/b/c"; Dump] = false.
Proof. exact example_holds. Qed.
Print Assumptions c23_example.
