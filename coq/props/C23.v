(* C23 — Path-specific storage rules resolve by longest matching prefix.
   Only statements closed by [exact]; proofs live in proof/FilerConfProofs.v. *)
From Coq Require Import List NArith Bool String.
From SW Require Import model.FilerConf proof.FilerConfProofs.
Import ListNotations.

(* Every rule set reachable by AddLocationConf/DeleteLocationConf has one value per prefix. *)
Theorem c23_reachable_wf : forall rs o, wf rs -> wf (fst (step rs o)).
Proof. exact step_wf. Qed.
Print Assumptions c23_reachable_wf.

(* Field-wise longest-prefix resolution, for any field whose merge is "b's value if b sets it":
   the resolved value is that of a longest matching rule that sets the field, or the
   default when no matching rule sets it. *)
Theorem c23_fieldwise_longest : forall {A} (set : conf -> bool) (get : conf -> A) rs path,
  (forall a b, get (merge a b) = if set b then get b else get a) ->
  (exists r, is_longest_setting set rs path r /\ get (match_rule rs path) = get (snd r)) \/
  (none_sets set rs path /\ get (match_rule rs path) = get empty_conf).
Proof. exact @match_field_spec. Qed.
Print Assumptions c23_fieldwise_longest.

(* ... and all seven fields of the real record are such fields. *)
Theorem c23_all_fields_are_fieldwise :
  (forall a b, collection (merge a b) = if set_collection b then collection b else collection a) /\
  (forall a b, replication (merge a b) = if set_replication b then replication b else replication a) /\
  (forall a b, ttl (merge a b) = if set_ttl b then ttl b else ttl a) /\
  (forall a b, disk_type (merge a b) = if set_disk_type b then disk_type b else disk_type a) /\
  (forall a b, fsync (merge a b) = if set_fsync b then fsync b else fsync a) /\
  (forall a b, growth (merge a b) = if set_growth b then growth b else growth a) /\
  (forall a b, read_only (merge a b) = if set_read_only b then read_only b else read_only a).
Proof.
  exact (conj merge_collection (conj merge_replication (conj merge_ttl (conj merge_disk_type
        (conj merge_fsync (conj merge_growth merge_read_only)))))).
Qed.
Print Assumptions c23_all_fields_are_fieldwise.

(* The longest setter is unique, so the resolution is a function of the rule set. *)
Theorem c23_longest_unique : forall set rs path r1 r2, wf rs ->
  is_longest_setting set rs path r1 -> is_longest_setting set rs path r2 -> r1 = r2.
Proof. exact longest_unique. Qed.
Print Assumptions c23_longest_unique.

(* The model's resolver equals the executable reference resolver that the
   correspondence check uses as the property oracle — on every history. *)
Theorem c23_history_refines_reference : forall ops rs, wf rs -> run rs ops = ref_run rs ops.
Proof. exact run_is_ref_run. Qed.
Print Assumptions c23_history_refines_reference.

(* Removing a rule restores the settings computed without it. *)
Theorem c23_delete_restores : forall rs p c path, wf rs -> ~ In p (map fst rs) ->
  match_rule (del (put rs p c) p) path = match_rule rs path.
Proof. exact del_put_restores. Qed.
Print Assumptions c23_delete_restores.

(* non-vacuity: a concrete nested rule set is well formed and resolves field-wise *)
Example c23_example :
  let rs := put (put (put [] "/a" {| collection := "x"; replication := ""; ttl := "1d"; disk_type := "";
                                     fsync := false; growth := 0; read_only := false |})
                     "/a/b" {| collection := ""; replication := "001"; ttl := "2d"; disk_type := "ssd";
                               fsync := true; growth := 2; read_only := false |})
                "/ab" empty_conf in
  wf rs /\ match_rule rs "/a/b/c" =
    {| collection := "x"; replication := "001"; ttl := "2d"; disk_type := "ssd";
       fsync := true; growth := 2; read_only := false |}.
Proof. split; [repeat apply put_wf; constructor | vm_compute; reflexivity]. Qed.
