(* C31 — The mount's chunk cache is transparent.
   Only statements closed by [exact]; proofs live in proof/ChunkCacheProofs.v. *)
From Coq Require Import List NArith Bool.
From SW Require Import model.ChunkCache proof.ChunkCacheProofs.
Import ListNotations.
Local Open Scope N_scope.

(* The full statement — for every cache geometry and every history of stores,
   lookups (GetChunk / GetChunkSlice) and restarts (any segment order, leveldb
   rebuilt or not), every answer the model admits for a lookup is empty or what
   a store FOR THE SAME FILE ID allows — is false: the disk tiers are keyed by
   the needle key only (finding 0). *)
Theorem c31_transparent_refuted : ~ transparent_full.
Proof. exact transparent_refuted. Qed.
Print Assumptions c31_transparent_refuted.

(* the witness: store "3,01637037d6", look up "4,01637037d6" *)
Theorem c31_witness :
  keys_unique w_ops = false /\
  run w_params init_state w_ops = [[]; [[104; 101; 108; 108; 111]]].
Proof. exact witness_facts. Qed.
Print Assumptions c31_witness.

(* PARTIAL: it holds for every history in which no two distinct file ids share a
   needle key (which one SeaweedFS cluster guarantees: C13). *)
Theorem c31_transparent_partial : forall p ops,
  keys_unique ops = true -> transparent_from [] ops (run p init_state ops) = true.
Proof. exact transparent_partial. Qed.
Print Assumptions c31_transparent_partial.

(* The invariant behind it, for any state: everything held by the memory tier
   or by a disk segment was stored, under a file id with that needle key. *)
Theorem c31_invariant_step : forall p stored st o,
  inv stored st -> inv (remember stored o) (step p st o).
Proof. exact step_inv. Qed.
Print Assumptions c31_invariant_step.

(* The correspondence relation: an implementation answer is accepted iff the
   model admits it; the answer with the memory entry evicted is always admitted;
   and every accepted answer is transparent under unique keys. *)
Theorem c31_miss_admitted : forall p st f m,
  In (get_with p st None f m) (answers p st (Get f m)).
Proof. exact miss_admitted. Qed.
Print Assumptions c31_miss_admitted.

Theorem c31_admitted_hit_is_spec : forall p ops impl,
  keys_unique ops = true -> admitted_all ops (run p init_state ops) impl = true ->
  impl_transparent [] ops impl = true.
Proof. exact admitted_hit_is_spec. Qed.
Print Assumptions c31_admitted_hit_is_spec.

(* non-vacuity: a history with unique keys that rotates tier 0 (segments of 32
   bytes), restarts with the leveldb rebuilt (records at offset 0 are lost), and
   still answers from disk *)
Example c31_example :
  let p := {| unit_size := 16; disk_units := 32 |} in
  let a := Fid 3 1 7 in let b := Fid 3 2 8 in let c := Fid 4 3 9 in
  let ops := [Store a [1; 2; 3; 4; 5; 6; 7; 8; 9]; Store b [10; 11; 12; 13; 14; 15; 16; 17; 18; 19];
              Store c [20; 21; 22]; Restart true [0; 1] [0; 1; 2] [0; 1];
              Get a 1; Get b 4; Get c 1; GetSlice b 0 3] in
  keys_unique ops = true /\
  run p init_state ops = [[]; []; []; []; [[]]; [[10; 11; 12; 13; 14; 15; 16; 17; 18; 19]]; [[]]; [[10; 11; 12]]].
Proof. vm_compute. split; reflexivity. Qed.
