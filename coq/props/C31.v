(* C31 — The mount's chunk cache is transparent.
   Only statements closed by [exact]; proofs live in proof/ChunkCacheProofs.v. *)
From Coq Require Import List NArith Bool.
From SW Require Import model.ChunkCache proof.ChunkCacheProofs.
Import ListNotations.
Local Open Scope N_scope.

(* The full statement — for every cache geometry and every history of stores,
   lookups (GetChunk / GetChunkSlice) and restarts (any segment order, each
   segment's leveldb rebuilt or not), every answer the model admits for a lookup is
   empty or what a store FOR THE SAME FILE ID allows — is false: the disk tiers are
   keyed by the needle key only (finding 0). *)
Theorem c31_transparent_refuted : ~ transparent_full.
Proof. exact transparent_refuted. Qed.
Print Assumptions c31_transparent_refuted.

(* the witness: store "3,01637037d6", look up "4,01637037d6" *)
Theorem c31_witness :
  keys_unique w_ops = false /\
  run w_params init_state w_ops = [[]; [[104; 101; 108; 108; 111]]].
Proof. exact witness_facts. Qed.
Print Assumptions c31_witness.

(* FULL, no hypothesis: transparent modulo the needle key.  Every admitted answer
   of every lookup of every history is empty, or what an earlier store allows whose
   file id is the same or has the same needle key; "allows" is the property's
   [expected] (the answer has at least the minimum size and is exactly the stored
   bytes / the leading [len] bytes of the window), for EVERY minimum size, offset
   and length (the former findings 1 and 2 — sizes and offsets from 2^63 on — are
   repaired: such lookups miss, see c31_huge_* below). *)
Theorem c31_transparent_modulo_key : forall p ops,
  all_from explained [] ops (run p init_state ops) = true.
Proof. exact explained_full. Qed.
Print Assumptions c31_transparent_modulo_key.

(* PARTIAL, per lookup (no hypothesis on the history): the property's own statement
   holds at every lookup that is not preceded by a store for ANOTHER file id with
   the same needle key. *)
Theorem c31_transparent_partial_step : forall p ops,
  all_from narrow_answer [] ops (run p init_state ops) = true.
Proof. exact transparent_narrow. Qed.
Print Assumptions c31_transparent_partial_step.

Theorem c31_narrow_answer_spec : forall stored o r,
  narrow_answer stored o r = true -> alias_before stored o = false ->
  transparent_answer stored o r = true.
Proof. exact narrow_spec. Qed.
Print Assumptions c31_narrow_answer_spec.

(* PARTIAL, history-wide (the only remaining hypothesis is the trigger of finding
   0): for every history in which no two distinct file ids share a needle key (which
   one SeaweedFS cluster guarantees: C13) — every minimum size, offset and length. *)
Theorem c31_transparent_partial : forall p ops,
  keys_unique ops = true ->
  transparent_from [] ops (run p init_state ops) = true.
Proof. exact transparent_partial. Qed.
Print Assumptions c31_transparent_partial.

(* The repaired conversions (former findings 1 and 2, commit b3a266ba): a lookup whose
   minimum size, or whose offset + length, is 2^63 or more misses in every tier,
   whatever the cache holds — in particular for a slice offset or length from 2^63
   on; the guard of doGetChunkSlice (wrapped uint64 sum below the offset or above
   math.MaxInt64) is exactly that condition. *)
Theorem c31_huge_get_misses : forall p st md f m,
  two63 <= m -> get_with p st md f m = [].
Proof. exact huge_get_misses. Qed.
Print Assumptions c31_huge_get_misses.

Theorem c31_slice_guard_spec : forall off len, off < two64 -> len < two64 ->
  slice_guard off len = (two63 <=? off + len).
Proof. exact slice_guard_spec. Qed.
Print Assumptions c31_slice_guard_spec.

Theorem c31_huge_slice_misses : forall p st md f off len,
  off < two64 -> len < two64 -> two63 <= off + len -> get_slice_with p st md f off len = [].
Proof. exact huge_slice_misses. Qed.
Print Assumptions c31_huge_slice_misses.

Theorem c31_huge_offset_misses : forall p st md f off len,
  off < two64 -> len < two64 -> two63 <= off \/ two63 <= len -> get_slice_with p st md f off len = [].
Proof. exact huge_offset_misses. Qed.
Print Assumptions c31_huge_offset_misses.

(* the former witnesses: GetChunk(id, 2^63) and GetChunkSlice(id, 1, 2^63-1) on a
   cached 5-byte chunk miss, a plain lookup still hits *)
Theorem c31_witness1 :
  keys_unique w1_ops = true /\ hist_ok w1_ops = true /\
  run w1_params init_state w1_ops = [[]; [[]]; [[]]; [[104; 101; 108; 108; 111]]] /\
  transparent_from [] w1_ops (run w1_params init_state w1_ops) = true.
Proof. exact witness1_facts. Qed.
Print Assumptions c31_witness1.

(* GetChunkSlice(id, 2^64-1, 2) (used to panic in the memory tier) and, after a
   restart, GetChunkSlice(id, 2^64-4, 6) (used to return bytes in front of the chunk)
   miss with and without the memory entry *)
Theorem c31_witness2 :
  keys_unique w2_ops = true /\ hist_ok w2_ops = true /\
  run w2_params init_state w2_ops = [[]; []; [[]; []]; []; [[]]; [[88; 89; 90]]] /\
  transparent_from [] w2_ops (run w2_params init_state w2_ops) = true.
Proof. exact witness2_facts. Qed.
Print Assumptions c31_witness2.

(* GetChunkSlice with an offset above 0 never hits (every tier hands back at most
   [length] bytes, the result is tested against offset + length): the cache is
   dead for such reads, hence trivially transparent *)
Theorem c31_slice_offset_dead : forall p st md f off len,
  0 < off -> get_slice_with p st md f off len = [].
Proof. exact slice_dead. Qed.
Print Assumptions c31_slice_offset_dead.

(* The invariant behind it, for any state: everything held by the memory tier
   or by a disk segment was stored, under a file id with that needle key. *)
Theorem c31_invariant_step : forall p stored st o,
  inv stored st -> inv (remember stored o) (step p st o).
Proof. exact step_inv. Qed.
Print Assumptions c31_invariant_step.

(* The correspondence relation: an implementation answer is accepted iff the
   model admits it; the answer with the memory entry evicted is always admitted;
   every accepted answer is explained / transparent at clean lookups; under the
   history-wide hypothesis (unique keys) every accepted answer is transparent. *)
Theorem c31_miss_admitted : forall p st f m,
  In (get_with p st None f m) (answers p st (Get f m)).
Proof. exact miss_admitted. Qed.
Print Assumptions c31_miss_admitted.

Theorem c31_admitted_explained : forall p ops impl,
  admitted_all ops (run p init_state ops) impl = true ->
  impl_from explained [] ops impl = true /\ impl_from narrow_answer [] ops impl = true.
Proof. exact admitted_explained. Qed.
Print Assumptions c31_admitted_explained.

Theorem c31_admitted_hit_is_spec : forall p ops impl,
  keys_unique ops = true ->
  admitted_all ops (run p init_state ops) impl = true ->
  impl_transparent [] ops impl = true.
Proof. exact admitted_hit_is_spec. Qed.
Print Assumptions c31_admitted_hit_is_spec.

(* The check's trigger is exact: a failure the model reproduces is always labelled
   with finding 0 AT THE FAILING LOOKUP (the alias store must explain that very
   answer); anything else gets no trigger.  The trigger emits no other number
   (1 and 2 belonged to the repaired findings). *)
Theorem c31_trigger_total : forall p ops impl,
  admitted_all ops (run p init_state ops) impl = true ->
  Nat.leb (List.length ops) (List.length impl) = true ->
  impl_transparent [] ops impl = false -> trigger ops impl <> None.
Proof. exact trigger_total. Qed.
Print Assumptions c31_trigger_total.

Theorem c31_trigger_only_zero : forall ops impl,
  trigger ops impl = None \/ trigger ops impl = Some 0.
Proof. exact trigger_only_zero. Qed.
Print Assumptions c31_trigger_only_zero.

(* a fid whose stores all carry the same contents: the answer is what THAT content
   allows (the disk tiers can hold stale contents of a file id: the statement above
   accepts any earlier store; with one content per file id nothing is stale) *)
Theorem c31_single_content : forall stored o f d r,
  op_fid o = Some f -> (forall x, In (f, x) stored -> x = d) ->
  transparent_answer stored o r = true -> r = [] \/ expected o d = Some r.
Proof. exact single_content. Qed.
Print Assumptions c31_single_content.

(* non-vacuity: a history with unique keys that rotates tier 0 (segments of 32
   bytes), restarts with the leveldb of every segment rebuilt (records at offset 0
   are lost), and still answers from disk *)
Example c31_example :
  let p := {| unit_size := 16; disk_units := 32 |} in
  let a := Fid 3 1 7 in let b := Fid 3 2 8 in let c := Fid 4 3 9 in
  let ops := [Store a [1; 2; 3; 4; 5; 6; 7; 8; 9]; Store b [10; 11; 12; 13; 14; 15; 16; 17; 18; 19];
              Store c [20; 21; 22];
              Restart [(0, true); (1, true)] [(0, true); (1, true); (2, true)] [(0, true); (1, true)];
              Get a 1; Get b 4; Get c 1; GetSlice b 0 3] in
  keys_unique ops = true /\ hist_ok ops = true /\
  run p init_state ops = [[]; []; []; []; [[]]; [[10; 11; 12; 13; 14; 15; 16; 17; 18; 19]]; [[]]; [[10; 11; 12]]].
Proof. exact example_facts. Qed.
Print Assumptions c31_example.

(* mixed restart: only segment 1 of tier 0 is rebuilt; segment 1 is the segment
   written first, so [a] (offset 0 there) is lost while [b] (offset 8) survives *)
Example c31_example_mixed :
  let p := {| unit_size := 16; disk_units := 32 |} in
  let a := Fid 3 1 7 in let b := Fid 3 2 8 in
  let ops := [Store a [1; 2; 3]; Store b [4; 5; 6];
              Restart [(1, true); (0, false)] [(0, false); (1, false); (2, false)] [(0, false); (1, false)];
              Get a 1; Get b 1] in
  hist_ok ops = true /\
  run p init_state ops = [[]; []; []; [[]]; [[4; 5; 6]]].
Proof. exact example_mixed_facts. Qed.
Print Assumptions c31_example_mixed.

(* rotation: ChunkCacheVolume.Reset (doReset truncates .dat AND .idx, removes the
   leveldb; the reload regenerates the map from the emptied .idx) leaves nothing of
   the volume's old contents: a reset volume answers for no key ... *)
Theorem c31_reset_forgets : forall s k, seg_get (reset_seg s) k = None.
Proof. exact reset_forgets. Qed.
Print Assumptions c31_reset_forgets.

(* ... and the volume a rotation moved to the front answers for the key just
   written and for no other key; its size is that of the one new needle *)
Theorem c31_rotation_front_only_new : forall limit front rest key d k,
  (limit <? sg_size front + blen d) = true -> k <> key ->
  match layer_set limit (front :: rest) key d with
  | s :: _ => seg_get s k = None /\ seg_get s key = Some d /\ sg_size s = pad8 (blen d)
  | [] => False
  end.
Proof. exact rotation_front_only_new. Qed.
Print Assumptions c31_rotation_front_only_new.

(* non-vacuity of the rotation path: a full rotation cycle of the middle tier and
   the refill of the reset volume, every id ever stored looked up after every
   store (deterministic case "fixed-rotation" of the harness) *)
Example c31_rotation_witness :
  keys_unique (rot_ops 10) = true /\ hist_ok (rot_ops 10) = true /\
  transparent_from [] (rot_ops 10) (run rot_params init_state (rot_ops 10)) = true /\
  skipn 55 (run rot_params init_state (rot_ops 10)) =
    [[[]]; [[]]; [[]]; [[]]; [rot_data 5]; [rot_data 6];
     [rot_data 7]; [rot_data 8]; [rot_data 9]; [rot_data 10]].
Proof. exact rotation_witness_facts. Qed.
Print Assumptions c31_rotation_witness.
