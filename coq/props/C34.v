(* C34 — Volume server access control with signed tokens.
   Only statements closed by [exact]; proofs live in proof/JwtProofs.v.  The model
   (model/Jwt.v) is the code as it is; the JWT library is an oracle (token facts).

   c34_accept_sound at FULL strength says: whenever the key of the request's class
   (write key for POST/PUT/DELETE, read key for GET/HEAD) is configured and a handler
   reaches the store, the request carries a well-formed, unexpired HMAC token signed
   with THAT key whose fid claim is textually "<vid>,<fid>" (after _n stripping) of
   the file the store operation addresses.  The code violates the last clause for
   uploads whose path is read differently by parseURLPath (token check) and by
   needle.CreateNeedleFromRequest (write): known finding 0, witness below.  It is
   proved for every request outside that decidable trigger; the token part is
   proved for every request. *)
From Coq Require Import List NArith Bool String.
From SW Require Import model.Jwt proof.JwtProofs.
Import ListNotations.
Local Open Scope string_scope.

(* FULL on the token, all requests *)
Theorem c34_accept_token_sound : forall tab cfg rq v f,
  key_for cfg (is_write_method (rq_method rq)) <> "" ->
  handle tab cfg rq = Proceed v f ->
  exists fid, parse_url_path (rq_path rq) = Some (v, fid) /\
    valid_token_for tab (key_for cfg (is_write_method (rq_method rq))) rq (v ++ "," ++ strip_suffix fid).
Proof. exact accept_token_sound. Qed.
Print Assumptions c34_accept_token_sound.

(* PARTIAL: the claim names the file the store is addressed with *)
Theorem c34_accept_sound_partial : forall tab cfg rq v f,
  key_for cfg (is_write_method (rq_method rq)) <> "" ->
  trig_upload_target rq = false ->
  handle tab cfg rq = Proceed v f ->
  valid_token_for tab (key_for cfg (is_write_method (rq_method rq))) rq (v ++ "," ++ strip_suffix f).
Proof. exact accept_sound_partial. Qed.
Print Assumptions c34_accept_sound_partial.

(* REFUTED: PUT /3/01637037d6/x,02637037d6 with a token for 3,01637037d6 writes 3,02637037d6 *)
Theorem c34_accept_sound_refuted :
  handle [("T", w_tok)] w_cfg w_rq = Proceed "3" "02637037d6" /\
  parse_url_path (rq_path w_rq) = Some ("3", "01637037d6") /\
  t_fid w_tok <> "3" ++ "," ++ strip_suffix "02637037d6" /\
  trig_upload_target w_rq = true.
Proof. exact accept_sound_refuted. Qed.
Print Assumptions c34_accept_sound_refuted.

(* reads and deletes are never inside the trigger *)
Theorem c34_trigger_only_uploads : forall rq, is_upload (rq_method rq) = false -> trig_upload_target rq = false.
Proof. exact trigger_only_uploads. Qed.
Print Assumptions c34_trigger_only_uploads.

(* c34_reject_before_touch (FULL): a request whose check fails is answered 401 (400 when an
   upload's volume id does not parse first; not routed on the public port) — the store step
   is not reached *)
Theorem c34_reject_before_touch : forall tab cfg rq vid fid,
  parse_url_path (rq_path rq) = Some (vid, fid) ->
  check_jwt tab cfg (is_write_method (rq_method rq)) rq vid fid = false ->
  handle tab cfg rq = Unauthorized \/
  (handle tab cfg rq = BadRequest /\ is_upload (rq_method rq) = true /\ rq_vid_ok rq = false) \/
  (handle tab cfg rq = NoRoute /\ is_write_method (rq_method rq) = true /\ rq_public rq = true).
Proof. exact reject_before_touch. Qed.
Print Assumptions c34_reject_before_touch.

Theorem c34_reject_not_proceed : forall tab cfg rq vid fid,
  parse_url_path (rq_path rq) = Some (vid, fid) ->
  check_jwt tab cfg (is_write_method (rq_method rq)) rq vid fid = false ->
  is_proceed (handle tab cfg rq) = false.
Proof. exact reject_not_proceed. Qed.
Print Assumptions c34_reject_not_proceed.

Theorem c34_panic_not_proceed : forall tab cfg rq, parse_url_path (rq_path rq) = None ->
  is_proceed (handle tab cfg rq) = false.
Proof. exact panic_not_proceed. Qed.
Print Assumptions c34_panic_not_proceed.

(* the store is reached only through a successful check, on the private port, past the white list *)
Theorem c34_proceed_authorized : forall tab cfg rq v f, handle tab cfg rq = Proceed v f ->
  exists fid, parse_url_path (rq_path rq) = Some (v, fid) /\
    check_jwt tab cfg (is_write_method (rq_method rq)) rq v fid = true /\
    target_fid rq fid = Some f /\
    (is_write_method (rq_method rq) = true -> rq_public rq = false /\ whitelist_blocks cfg rq = false).
Proof. exact proceed_authorized. Qed.
Print Assumptions c34_proceed_authorized.

(* the check itself *)
Theorem c34_check_sound : forall tab cfg w rq vid fid,
  key_for cfg w <> "" -> check_jwt tab cfg w rq vid fid = true ->
  valid_token_for tab (key_for cfg w) rq (vid ++ "," ++ strip_suffix fid).
Proof. exact check_jwt_sound. Qed.
Print Assumptions c34_check_sound.

Theorem c34_no_key_allows : forall tab cfg w rq vid fid, key_for cfg w = "" -> check_jwt tab cfg w rq vid fid = true.
Proof. exact check_jwt_no_key. Qed.
Print Assumptions c34_no_key_allows.

Theorem c34_missing_token_refused : forall tab cfg w rq vid fid, key_for cfg w <> "" -> get_jwt rq = "" ->
  check_jwt tab cfg w rq vid fid = false.
Proof. exact check_jwt_missing. Qed.
Print Assumptions c34_missing_token_refused.

(* token source: the query parameter wins; otherwise the Authorization header after a 7-character
   prefix whose first six letters are "bearer" in any case *)
Theorem c34_token_source : forall rq,
  (rq_query_jwt rq <> "" /\ get_jwt rq = rq_query_jwt rq) \/
  (rq_query_jwt rq = "" /\
   ((7 < String.length (rq_auth rq) /\ upper_s (substring 0 6 (rq_auth rq)) = "BEARER" /\
     get_jwt rq = substring 7 (String.length (rq_auth rq) - 7) (rq_auth rq)) \/
    get_jwt rq = "")).
Proof. exact get_jwt_source. Qed.
Print Assumptions c34_token_source.

(* the sub-file suffix: a token for "<fid>" opens "<fid>_<n>" *)
Theorem c34_suffix_ignored : forall tab cfg w rq vid base n,
  base <> "" -> no_us base = true -> no_us n = true ->
  check_jwt tab cfg w rq vid (base ++ String c_us n) = check_jwt tab cfg w rq vid base.
Proof. exact check_jwt_suffix. Qed.
Print Assumptions c34_suffix_ignored.

(* acceptance implies the reference used by the correspondence check, outside the trigger *)
Theorem c34_proceed_allowed : forall tab cfg rq presented v f,
  In (get_jwt rq) presented ->
  trig_upload_target rq = false ->
  (forall t, lookup (get_jwt rq) tab = Some t ->
             t_fid t = v ++ "," ++ strip_suffix f -> t_names_target t = true) ->
  handle tab cfg rq = Proceed v f -> spec_allows tab cfg rq presented = true.
Proof. exact proceed_allowed. Qed.
Print Assumptions c34_proceed_allowed.

(* non-vacuity; and the comparison is textual, so "03,..." is refused (stricter than needed) *)
Example c34_example :
  let rq := {| rq_public := false; rq_method := DELETE; rq_query_jwt := ""; rq_auth := "Bearer T";
               rq_path := "/3,01637037d6_1"; rq_vid_ok := true; rq_fid_ok := true; rq_upfid_ok := true; rq_wl_pass := false |} in
  trig_upload_target rq = false /\
  handle [("T", w_tok)] w_cfg rq = Proceed "3" "01637037d6_1" /\
  handle [("T", {| t_wellformed := true; t_alg := AlgHMAC; t_signed_with := w_key; t_exp_ok := true; t_nbf_ok := true;
                   t_iat_ok := true; t_fid := "03,01637037d6"; t_names_target := true |})] w_cfg rq = Unauthorized /\
  handle [("T", {| t_wellformed := true; t_alg := AlgNone; t_signed_with := ""; t_exp_ok := true; t_nbf_ok := true;
                   t_iat_ok := true; t_fid := "3,01637037d6"; t_names_target := true |})] w_cfg rq = Unauthorized /\
  handle [] w_cfg rq = Unauthorized.
Proof. exact accept_example. Qed.
