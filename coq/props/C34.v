(* C34 — Volume server access control with signed tokens.
   Only statements closed by [exact]; proofs live in proof/JwtProofs.v.  The model
   (model/Jwt.v) is the code as it is: parseURLPath, the upload's own path reader, GetJwt,
   maybeCheckJwtAuthorization and the order of the steps of the three HTTP handlers,
   NewVolumeId / ParseNeedleIdCookie / ParsePath / ParseFileIdFromString as numbers; the JWT
   library is an oracle (token facts).

   c34_accept_sound (FULL): whenever the key of the request's class (write key for
   POST/PUT/DELETE, read key for GET/HEAD) is configured and a handler reaches the
   store, the request carries a well-formed, unexpired HMAC token signed with THAT key
   whose fid claim is textually "<vid>,<fid>" (after _n stripping) of the path.
   c34_names_target (FULL, every method): that claim DENOTES (ParseFileIdFromString) the volume,
   cookie and - up to the added _delta - needle id the store operation is called with.  (Formerly
   refuted for DELETE, finding C34/0: DeleteHandler ignored the errors of NewVolumeId / ParsePath;
   repaired in the Go code: 400 after the token check, c34_delete_unparsed_bad_request.)
   c34_reject_before_touch (FULL): a request whose check fails never reaches the store. *)
From Coq Require Import List NArith Bool String.
From SW Require Import model.Jwt proof.JwtProofs.
Import ListNotations.
Local Open Scope string_scope.

Theorem c34_accept_sound : forall tab cfg rq v f a,
  key_for cfg (is_write_method (rq_method rq)) <> "" ->
  handle tab cfg rq = Proceed v f a ->
  valid_token_for tab (key_for cfg (is_write_method (rq_method rq))) rq (v ++ "," ++ strip_suffix f).
Proof. exact accept_sound. Qed.
Print Assumptions c34_accept_sound.

(* what "Proceed v f a" stands for: v,f are parseURLPath's reading of the path, the check passed on
   them; for every method (reads, uploads, deletes) a is what NewVolumeId v / ParsePath f give (both
   succeed), an upload's own needle (CreateNeedleFromRequest) is that same needle; writes come through
   the private port and past the white list *)
Theorem c34_proceed_authorized : forall tab cfg rq v f a, handle tab cfg rq = Proceed v f a ->
  parse_url_path (rq_path rq) = Some (v, f) /\
  check_jwt tab cfg (is_write_method (rq_method rq)) rq v f = true /\
  (exists vol id ck, parse_vid v = Some vol /\ parse_path f = Some (id, ck) /\ a = (vol, id, ck)) /\
  (is_upload (rq_method rq) = true ->
     exists u, upload_fid (rq_path rq) = Some u /\ parse_path u = parse_path f) /\
  (is_write_method (rq_method rq) = true -> rq_public rq = false /\ whitelist_blocks cfg rq = false).
Proof. exact proceed_authorized. Qed.
Print Assumptions c34_proceed_authorized.

(* "names the target file", FULL for every method (the former finding C34/0 is repaired): the compared
   text denotes the volume and cookie the store is called with and the needle id up to the _delta
   ParsePath adds: "ignoring the sub-file suffix" means a token for key k opens key k+n *)
Theorem c34_names_target : forall tab cfg rq v f a,
  handle tab cfg rq = Proceed v f a ->
  exists vol id ck d, claim_den (v ++ "," ++ strip_suffix f) = Some (vol, id, ck) /\
  a = (vol, ((id + d) mod 2 ^ 64)%N, ck).
Proof. exact proceed_names_target. Qed.
Print Assumptions c34_names_target.

Theorem c34_accept_names_target : forall tab cfg rq v f a,
  key_for cfg (is_write_method (rq_method rq)) <> "" ->
  handle tab cfg rq = Proceed v f a ->
  exists t vol id ck d, lookup (get_jwt rq) tab = Some t /\
  decode_ok (key_for cfg (is_write_method (rq_method rq))) t = true /\
  claim_den (t_fid t) = Some (vol, id, ck) /\ a = (vol, ((id + d) mod 2 ^ 64)%N, ck).
Proof. exact accept_names_target. Qed.
Print Assumptions c34_accept_names_target.

(* the negation of the formerly refuted statement: under a configured key the store is not reached with a
   token whose claim denotes no file *)
Theorem c34_accept_claim_denotes : forall tab cfg rq v f a,
  key_for cfg (is_write_method (rq_method rq)) <> "" ->
  handle tab cfg rq = Proceed v f a ->
  exists t, lookup (get_jwt rq) tab = Some t /\ claim_den (t_fid t) <> None.
Proof. exact accept_claim_denotes. Qed.
Print Assumptions c34_accept_claim_denotes.

(* FULL for a file id without _suffix, every method: the claim denotes exactly the addressed needle *)
Theorem c34_names_exact : forall tab cfg rq v f a,
  handle tab cfg rq = Proceed v f a -> no_us f = true ->
  claim_den (v ++ "," ++ strip_suffix f) = Some a.
Proof. exact proceed_names_exact. Qed.
Print Assumptions c34_names_exact.

(* the repair in DeleteHandler, stated for every method: a path whose volume id or file id does not parse
   never reaches the store; an authorized DELETE of such a path is answered 400 *)
Theorem c34_unparsed_not_proceed : forall tab cfg rq v f,
  parse_url_path (rq_path rq) = Some (v, f) ->
  parse_vid v = None \/ parse_path f = None ->
  is_proceed (handle tab cfg rq) = false.
Proof. exact unparsed_not_proceed. Qed.
Print Assumptions c34_unparsed_not_proceed.

Theorem c34_delete_unparsed_bad_request : forall tab cfg rq v f,
  rq_method rq = DELETE -> rq_public rq = false -> whitelist_blocks cfg rq = false ->
  parse_url_path (rq_path rq) = Some (v, f) ->
  check_jwt tab cfg true rq v f = true ->
  parse_vid v = None \/ parse_path f = None ->
  handle tab cfg rq = BadRequest.
Proof. exact delete_unparsed_bad_request. Qed.
Print Assumptions c34_delete_unparsed_bad_request.

(* the numbers behind the texts *)
Theorem c34_claim_den_app : forall v b vol id ck,
  parse_vid v = Some vol -> parse_nic b = Some (id, ck) -> claim_den (v ++ "," ++ b) = Some (vol, id, ck).
Proof. exact claim_den_app. Qed.
Print Assumptions c34_claim_den_app.

Theorem c34_suffix_adds : forall base n id ck d,
  no_us n = true -> n <> "" -> parse_nic base = Some (id, ck) -> parse_uint false 64 n = Some d ->
  parse_path (base ++ String c_us n) = Some (((id + d) mod 2 ^ 64)%N, ck).
Proof. exact parse_path_suffix_adds. Qed.
Print Assumptions c34_suffix_adds.

(* the repair in PostHandler: an upload addressed (by its own path reader) to another needle is refused *)
Theorem c34_upload_other_needle_refused : forall tab cfg rq v f u,
  is_upload (rq_method rq) = true ->
  parse_url_path (rq_path rq) = Some (v, f) -> upload_fid (rq_path rq) = Some u ->
  parse_path u <> parse_path f ->
  is_proceed (handle tab cfg rq) = false.
Proof. exact upload_other_needle_refused. Qed.
Print Assumptions c34_upload_other_needle_refused.

(* c34_reject_before_touch (FULL): a request whose check fails is answered 401 (400 when an
   upload's volume id does not parse first; not routed on the public port) — the store step
   is not reached *)
Theorem c34_reject_before_touch : forall tab cfg rq vid fid,
  parse_url_path (rq_path rq) = Some (vid, fid) ->
  check_jwt tab cfg (is_write_method (rq_method rq)) rq vid fid = false ->
  handle tab cfg rq = Unauthorized \/
  (handle tab cfg rq = BadRequest /\ is_upload (rq_method rq) = true /\ parse_vid vid = None) \/
  (handle tab cfg rq = NoRoute /\ is_write_method (rq_method rq) = true /\ rq_public rq = true).
Proof. exact reject_before_touch. Qed.
Print Assumptions c34_reject_before_touch.

Theorem c34_reject_not_proceed : forall tab cfg rq vid fid,
  parse_url_path (rq_path rq) = Some (vid, fid) ->
  check_jwt tab cfg (is_write_method (rq_method rq)) rq vid fid = false ->
  is_proceed (handle tab cfg rq) = false.
Proof. exact reject_not_proceed. Qed.
Print Assumptions c34_reject_not_proceed.

Theorem c34_panic_not_proceed : forall tab cfg rq, parse_url_path (rq_path rq) = None ->
  is_proceed (handle tab cfg rq) = false.
Proof. exact panic_not_proceed. Qed.
Print Assumptions c34_panic_not_proceed.

(* the check itself *)
Theorem c34_check_sound : forall tab cfg w rq vid fid,
  key_for cfg w <> "" -> check_jwt tab cfg w rq vid fid = true ->
  valid_token_for tab (key_for cfg w) rq (vid ++ "," ++ strip_suffix fid).
Proof. exact check_jwt_sound. Qed.
Print Assumptions c34_check_sound.

Theorem c34_no_key_allows : forall tab cfg w rq vid fid, key_for cfg w = "" -> check_jwt tab cfg w rq vid fid = true.
Proof. exact check_jwt_no_key. Qed.
Print Assumptions c34_no_key_allows.

Theorem c34_missing_token_refused : forall tab cfg w rq vid fid, key_for cfg w <> "" -> get_jwt rq = "" ->
  check_jwt tab cfg w rq vid fid = false.
Proof. exact check_jwt_missing. Qed.
Print Assumptions c34_missing_token_refused.

(* token source: the query parameter wins; otherwise the Authorization header after a 7-character
   prefix whose first six letters are "bearer" in any case *)
Theorem c34_token_source : forall rq,
  (rq_query_jwt rq <> "" /\ get_jwt rq = rq_query_jwt rq) \/
  (rq_query_jwt rq = "" /\
   ((7 < String.length (rq_auth rq) /\ upper_s (substring 0 6 (rq_auth rq)) = "BEARER" /\
     get_jwt rq = substring 7 (String.length (rq_auth rq) - 7) (rq_auth rq)) \/
    get_jwt rq = "")).
Proof. exact get_jwt_source. Qed.
Print Assumptions c34_token_source.

(* the sub-file suffix: a token for "<fid>" opens "<fid>_<n>" *)
Theorem c34_suffix_ignored : forall tab cfg w rq vid base n,
  base <> "" -> no_us base = true -> no_us n = true ->
  check_jwt tab cfg w rq vid (base ++ String c_us n) = check_jwt tab cfg w rq vid base.
Proof. exact check_jwt_suffix. Qed.
Print Assumptions c34_suffix_ignored.

(* the former witnesses of finding C34/0 (a write token whose claim repeats the unparsable text): 400
   before the store, volume 0 / needle 1 untouched; beside it the same path on GET and PUT *)
Example c34_repaired_delete_witness :
  check_jwt r_tab w_cfg true r_rq "x3" "01637037d6" = true /\
  claim_den "x3,01637037d6" = None /\
  handle r_tab w_cfg r_rq = BadRequest /\
  store_step (handle r_tab w_cfg r_rq) DELETE
    {| w_vols := [0%N; 3%N]; w_live := [{| n_vol := 0; n_id := 1; n_ck := 1668298710; n_content := 1 |}] |}
  = {| e_status := 400; e_live := [{| n_vol := 0; n_id := 1; n_ck := 1668298710; n_content := 1 |}]; e_disclosed := [] |} /\
  handle [("T", mk_tok "3,zz637037d6")] w_cfg (mk_rq DELETE "/3,zz637037d6") = BadRequest /\
  handle [("T", mk_tok "3,01637037d6")] w_cfg (mk_rq DELETE "/3,01637037d6_x") = BadRequest /\
  handle r_tab w_cfg (mk_rq GET "/x3,01637037d6") = BadRequest /\
  handle r_tab {| write_key := ""; read_key := w_key; wl_active := false |} (mk_rq GET "/x3,01637037d6") = BadRequest /\
  handle r_tab w_cfg (mk_rq PUT "/x3,01637037d6") = BadRequest.
Proof. exact repaired_delete_witness. Qed.
Print Assumptions c34_repaired_delete_witness.

(* the former defect of PostHandler (token for file 1, file name carrying file 2) is refused with 400 *)
Example c34_repaired_witness :
  parse_url_path (rq_path w_rq) = Some ("3", "01637037d6") /\
  upload_fid (rq_path w_rq) = Some "02637037d6" /\
  parse_path "01637037d6" = Some (1, 1668298710)%N /\ parse_path "02637037d6" = Some (2, 1668298710)%N /\
  handle [("T", w_tok)] w_cfg w_rq = BadRequest.
Proof. exact repaired_witness. Qed.
Print Assumptions c34_repaired_witness.

(* non-vacuity (the hypotheses of c34_names_target / c34_accept_names_target hold on the first request,
   a DELETE which addresses needle 2 under the token of needle 1 through "_1"); the comparison is textual, so "03,..." is refused
   although it denotes the same file (stricter than needed) *)
Example c34_example :
  let rq := {| rq_public := false; rq_method := DELETE; rq_query_jwt := ""; rq_auth := "Bearer T";
               rq_path := "/3,01637037d6_1"; rq_wl_pass := false |} in
  let up := mk_rq PUT "/3,01637037d6.txt" in
  handle [("T", w_tok)] w_cfg rq = Proceed "3" "01637037d6_1" (3, 2, 1668298710)%N /\
  handle [("T", w_tok)] w_cfg up = Proceed "3" "01637037d6" (3, 1, 1668298710)%N /\
  claim_den "3,01637037d6" = Some (3, 1, 1668298710)%N /\ claim_den "03,01637037d6" = Some (3, 1, 1668298710)%N /\
  handle [("T", mk_tok "03,01637037d6")] w_cfg rq = Unauthorized /\
  handle [("T", {| t_wellformed := true; t_alg := AlgNone; t_signed_with := ""; t_exp_ok := true; t_nbf_ok := true;
                   t_iat_ok := true; t_fid := "3,01637037d6"; t_den := None; t_names_target := true |})] w_cfg rq = Unauthorized /\
  handle [] w_cfg rq = Unauthorized.
Proof. exact accept_example. Qed.
Print Assumptions c34_example.
