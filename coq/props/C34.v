(* C34 — Volume server access control with signed tokens.
   Only statements closed by [exact]; proofs live in proof/JwtProofs.v.  The model
   (model/Jwt.v) is the code as it is — with the repair of finding C34/0 in PostHandler
   (an upload whose own reading of the path gives another needle than the checked file
   id is answered 400); the JWT library is an oracle (token facts).

   c34_accept_sound (FULL): whenever the key of the request's class (write key for
   POST/PUT/DELETE, read key for GET/HEAD) is configured and a handler reaches the
   store, the request carries a well-formed, unexpired HMAC token signed with THAT key
   whose fid claim is textually "<vid>,<fid>" (after _n stripping) of the file the
   store operation addresses.
   c34_reject_before_touch (FULL): a request whose check fails never reaches the store. *)
From Coq Require Import List NArith Bool String.
From SW Require Import model.Jwt proof.JwtProofs.
Import ListNotations.
Local Open Scope string_scope.

Theorem c34_accept_sound : forall tab cfg rq v f,
  key_for cfg (is_write_method (rq_method rq)) <> "" ->
  handle tab cfg rq = Proceed v f ->
  valid_token_for tab (key_for cfg (is_write_method (rq_method rq))) rq (v ++ "," ++ strip_suffix f).
Proof. exact accept_sound. Qed.
Print Assumptions c34_accept_sound.

(* what "Proceed v f" stands for: v,f are parseURLPath's reading of the path, the check passed on
   them, an upload's needle is the needle f denotes, writes come through the private port and
   past the white list *)
Theorem c34_proceed_authorized : forall tab cfg rq v f, handle tab cfg rq = Proceed v f ->
  parse_url_path (rq_path rq) = Some (v, f) /\
  check_jwt tab cfg (is_write_method (rq_method rq)) rq v f = true /\
  (is_upload (rq_method rq) = true -> rq_same_needle rq = true) /\
  (is_write_method (rq_method rq) = true -> rq_public rq = false /\ whitelist_blocks cfg rq = false).
Proof. exact proceed_authorized. Qed.
Print Assumptions c34_proceed_authorized.

(* the repair: an upload addressed (by its own path reader) to another needle is refused *)
Theorem c34_upload_other_needle_refused : forall tab cfg rq,
  is_upload (rq_method rq) = true -> rq_same_needle rq = false ->
  is_proceed (handle tab cfg rq) = false.
Proof. exact upload_other_needle_refused. Qed.
Print Assumptions c34_upload_other_needle_refused.

(* c34_reject_before_touch (FULL): a request whose check fails is answered 401 (400 when an
   upload's volume id does not parse first; not routed on the public port) — the store step
   is not reached *)
Theorem c34_reject_before_touch : forall tab cfg rq vid fid,
  parse_url_path (rq_path rq) = Some (vid, fid) ->
  check_jwt tab cfg (is_write_method (rq_method rq)) rq vid fid = false ->
  handle tab cfg rq = Unauthorized \/
  (handle tab cfg rq = BadRequest /\ is_upload (rq_method rq) = true /\ rq_vid_ok rq = false) \/
  (handle tab cfg rq = NoRoute /\ is_write_method (rq_method rq) = true /\ rq_public rq = true).
Proof. exact reject_before_touch. Qed.
Print Assumptions c34_reject_before_touch.

Theorem c34_reject_not_proceed : forall tab cfg rq vid fid,
  parse_url_path (rq_path rq) = Some (vid, fid) ->
  check_jwt tab cfg (is_write_method (rq_method rq)) rq vid fid = false ->
  is_proceed (handle tab cfg rq) = false.
Proof. exact reject_not_proceed. Qed.
Print Assumptions c34_reject_not_proceed.

Theorem c34_panic_not_proceed : forall tab cfg rq, parse_url_path (rq_path rq) = None ->
  is_proceed (handle tab cfg rq) = false.
Proof. exact panic_not_proceed. Qed.
Print Assumptions c34_panic_not_proceed.

(* the check itself *)
Theorem c34_check_sound : forall tab cfg w rq vid fid,
  key_for cfg w <> "" -> check_jwt tab cfg w rq vid fid = true ->
  valid_token_for tab (key_for cfg w) rq (vid ++ "," ++ strip_suffix fid).
Proof. exact check_jwt_sound. Qed.
Print Assumptions c34_check_sound.

Theorem c34_no_key_allows : forall tab cfg w rq vid fid, key_for cfg w = "" -> check_jwt tab cfg w rq vid fid = true.
Proof. exact check_jwt_no_key. Qed.
Print Assumptions c34_no_key_allows.

Theorem c34_missing_token_refused : forall tab cfg w rq vid fid, key_for cfg w <> "" -> get_jwt rq = "" ->
  check_jwt tab cfg w rq vid fid = false.
Proof. exact check_jwt_missing. Qed.
Print Assumptions c34_missing_token_refused.

(* token source: the query parameter wins; otherwise the Authorization header after a 7-character
   prefix whose first six letters are "bearer" in any case *)
Theorem c34_token_source : forall rq,
  (rq_query_jwt rq <> "" /\ get_jwt rq = rq_query_jwt rq) \/
  (rq_query_jwt rq = "" /\
   ((7 < String.length (rq_auth rq) /\ upper_s (substring 0 6 (rq_auth rq)) = "BEARER" /\
     get_jwt rq = substring 7 (String.length (rq_auth rq) - 7) (rq_auth rq)) \/
    get_jwt rq = "")).
Proof. exact get_jwt_source. Qed.
Print Assumptions c34_token_source.

(* the sub-file suffix: a token for "<fid>" opens "<fid>_<n>" *)
Theorem c34_suffix_ignored : forall tab cfg w rq vid base n,
  base <> "" -> no_us base = true -> no_us n = true ->
  check_jwt tab cfg w rq vid (base ++ String c_us n) = check_jwt tab cfg w rq vid base.
Proof. exact check_jwt_suffix. Qed.
Print Assumptions c34_suffix_ignored.

(* acceptance implies the reference used by the correspondence check *)
Theorem c34_proceed_allowed : forall tab cfg rq presented v f,
  In (get_jwt rq) presented ->
  (forall t, lookup (get_jwt rq) tab = Some t ->
             t_fid t = v ++ "," ++ strip_suffix f -> t_names_target t = true) ->
  handle tab cfg rq = Proceed v f -> spec_allows tab cfg rq presented = true.
Proof. exact proceed_allowed. Qed.
Print Assumptions c34_proceed_allowed.

(* the former witness of finding C34/0 is now refused with 400 before the store *)
Example c34_repaired_witness :
  parse_url_path (rq_path w_rq) = Some ("3", "01637037d6") /\
  upload_fid (rq_path w_rq) = Some "02637037d6" /\
  handle [("T", w_tok)] w_cfg w_rq = BadRequest.
Proof. exact repaired_witness. Qed.

(* non-vacuity; and the comparison is textual, so "03,..." is refused (stricter than needed) *)
Example c34_example :
  let rq := {| rq_public := false; rq_method := DELETE; rq_query_jwt := ""; rq_auth := "Bearer T";
               rq_path := "/3,01637037d6_1"; rq_vid_ok := true; rq_fid_ok := true; rq_upfid_ok := true;
               rq_same_needle := true; rq_wl_pass := false |} in
  let up := {| rq_public := false; rq_method := PUT; rq_query_jwt := "T"; rq_auth := "";
               rq_path := "/3,01637037d6.txt"; rq_vid_ok := true; rq_fid_ok := true; rq_upfid_ok := true;
               rq_same_needle := true; rq_wl_pass := false |} in
  handle [("T", w_tok)] w_cfg rq = Proceed "3" "01637037d6_1" /\
  handle [("T", w_tok)] w_cfg up = Proceed "3" "01637037d6" /\
  handle [("T", {| t_wellformed := true; t_alg := AlgHMAC; t_signed_with := w_key; t_exp_ok := true; t_nbf_ok := true;
                   t_iat_ok := true; t_fid := "03,01637037d6"; t_names_target := true |})] w_cfg rq = Unauthorized /\
  handle [("T", {| t_wellformed := true; t_alg := AlgNone; t_signed_with := ""; t_exp_ok := true; t_nbf_ok := true;
                   t_iat_ok := true; t_fid := "3,01637037d6"; t_names_target := true |})] w_cfg rq = Unauthorized /\
  handle [] w_cfg rq = Unauthorized.
Proof. exact accept_example. Qed.
