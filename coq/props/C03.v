(* C03 — A volume survives a crash at any point without serving wrong data.
   Only statements closed by [exact]; proofs live in proof/VolumeCrash{Proofs,Load,Spec,Safe}.v.

   [crc] is the CRC32-Castagnoli oracle (any function list N -> N).  A history [h] is a list of
   Write / Delete operations on a version-3 volume; [p_run h] is the running volume (its .dat as a
   byte string built with the needle codec of C02, its .idx, its needle map); [crash st dcut icut]
   keeps the first dcut bytes of the .dat and the first icut bytes of the .idx; [load] is
   Volume.load with CheckAndFixVolumeDataIntegrity as written (with the two repairs: a deletion
   entry is verified at the tombstone record it points to, a torn trailing index entry is
   dropped); [l_read] / [l_write] are readNeedle / Store.WriteVolumeNeedle on the reopened volume.
   [wf_op]: a write carries a representable needle with a non-empty payload and
   Checksum = NewCRC(Data). *)
From Coq Require Import List NArith ZArith Bool.
From SW Require Import model.Needle proof.NeedleProofs model.VolumeCrash proof.VolumeCrashProofs
  proof.VolumeCrashLoad proof.VolumeCrashSpec proof.VolumeCrashSafe.
Import ListNotations.
Local Open Scope N_scope.

(* SAFETY, full strength: for every history and EVERY pair of cut points (admissible by write
   order or not, torn records and torn index entries included), whatever a reopened volume serves
   for key k is exactly a blob that some Write of the history stored under k. *)
Theorem c03_no_foreign_data : forall crc h dcut icut L k d, Forall (wf_op crc) h ->
  load crc (crash (p_run h) dcut icut) = Loaded L -> l_read crc L k = ROk d ->
  exists n, In (Write n) h /\ id n = k /\ d = dview Ver n.
Proof. exact no_foreign_data. Qed.
Print Assumptions c03_no_foreign_data.

(* THE FULL PROPERTY, at every crash point that write order allows ([admissible]: the records
   of the surviving whole index entries are in the data file in full; torn records and a torn
   index entry included): the reopen succeeds, the volume is writable, every key reads exactly
   as in the running volume after the operations h1 whose index entries survived, and a fresh
   blob can be written and read back ([crash_safe_at]). *)
Theorem c03_crash_safe : forall crc h dcut icut, Forall (wf_op crc) h ->
  admissible (p_run h) dcut icut = true ->
  crash_safe_at crc h dcut icut.
Proof. exact crash_safe. Qed.
Print Assumptions c03_crash_safe.

(* ... and "reads as in the running volume" means "reads per specification": [s_run] is the
   operation-level specification (key -> cookie, last stored needle or deleted; a write with a
   foreign cookie is refused, a repeated write changes nothing, deleted stays deleted).  At every
   admissible crash point the reopened volume answers every key as the specification does after
   the operations h1 whose [icut / 16] index entries survived. *)
Theorem c03_crash_safe_per_spec : forall crc h dcut icut, Forall (wf_op crc) h ->
  admissible (p_run h) dcut icut = true ->
  exists h1 h2 L, h = h1 ++ h2 /\ snd (s_run h1) = icut / NeedleMapEntrySize /\
    load crc (crash (p_run h) dcut icut) = Loaded L /\ l_nwod L = false /\
    forall k, l_read crc L k = s_read (fst (s_run h1)) k.
Proof. exact crash_safe_per_spec. Qed.
Print Assumptions c03_crash_safe_per_spec.

(* the running volume itself reads per specification, for every history *)
Theorem c03_running_reads_per_spec : forall crc h, Forall (wf_op crc) h ->
  snd (s_run h) = len (p_idx (p_run h)) /\ forall k, p_read (p_run h) k = s_read (fst (s_run h)) k.
Proof. exact running_reads_spec. Qed.
Print Assumptions c03_running_reads_per_spec.

(* The integrity check never invents bytes or entries: both files of a reopened volume are
   prefixes / sub-lists of what the crash left, and every binding of its needle map comes from a
   surviving index entry. *)
Theorem c03_load_only_shrinks : forall crc f L, load crc f = Loaded L ->
  pref (d_bytes (l_dat L)) (f_dat f) /\ incl (l_idx L) (f_idx f) /\ map_from (l_idx L) (l_map L).
Proof. exact load_loaded. Qed.
Print Assumptions c03_load_only_shrinks.

(* Every reachable running volume satisfies the layout invariant the proofs rest on: the .dat is
   the super block followed by the encoded records back to back, the .idx holds one entry per
   record, the needle map is the replay of the .idx. *)
Theorem c03_running_invariant : forall crc h, Forall (wf_op crc) h -> Inv crc (p_run h).
Proof. exact inv_run. Qed.
Print Assumptions c03_running_invariant.

(* non-vacuity, on the history hello / world!! / delete 1 / second version (harness cases 0, 1):
   it is well formed; the crash points of the two repaired findings are admissible and the model
   now reopens them writable (tombstone last in the index + 5 torn bytes behind it: the tail is
   cut and key 1 stays deleted; second index entry torn after 7 bytes: one entry remains); a
   third admissible point; and a point that write order excludes. *)
Example c03_example :
  Forall (wf_op toy_crc) w_history /\
  (admissible (p_run w_history) 133 48 = true /\ tombstone_tail (p_run w_history) 133 48 = true /\
   observe toy_crc (crash (p_run w_history) 133 48) [1; 2; 3] w_fresh =
     {| o_load := 0; o_readonly := false; o_dat_len := 128; o_idx_len := 48;
        o_reads := [(2, 0, []); (0, 305419896, [119; 111; 114; 108; 100; 33; 33]); (1, 0, [])];
        o_write := 0; o_fresh := (0, 7, [102; 114; 101; 115; 104]); o_dat_len2 := 168; o_idx_len2 := 64 |}) /\
  (admissible (p_run w_history) 96 23 = true /\ torn_index 23 = true /\
   observe toy_crc (crash (p_run w_history) 96 23) [1; 2; 3] w_fresh =
     {| o_load := 0; o_readonly := false; o_dat_len := 48; o_idx_len := 16;
        o_reads := [(0, 17, [104; 101; 108; 108; 111]); (1, 0, []); (1, 0, [])];
        o_write := 0; o_fresh := (0, 7, [102; 114; 101; 115; 104]); o_dat_len2 := 88; o_idx_len2 := 32 |}) /\
  (admissible (p_run w_history) 105 32 = true /\
   observe toy_crc (crash (p_run w_history) 105 32) [1; 2; 3] w_fresh =
     {| o_load := 0; o_readonly := false; o_dat_len := 96; o_idx_len := 32;
        o_reads := [(0, 17, [104; 101; 108; 108; 111]); (0, 305419896, [119; 111; 114; 108; 100; 33; 33]); (1, 0, [])];
        o_write := 0; o_fresh := (0, 7, [102; 114; 101; 115; 104]); o_dat_len2 := 136; o_idx_len2 := 48 |}) /\
  admissible (p_run w_history) 60 32 = false.
Proof.
  exact (conj w_history_wf (conj witness_tombstone_tail (conj witness_torn_index
        (conj witness_torn_record not_admissible_example)))).
Qed.
