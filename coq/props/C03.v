(* C03 — A volume survives a crash at any point without serving wrong data.
   Only statements closed by [exact]; proofs live in proof/VolumeCrash{Proofs,Load,Spec,Sim,Safe}.v.

   [crc] is the CRC32-Castagnoli oracle (any function list N -> N).  A history [h] is a list of
   Write / Delete operations on a version-3 volume; [p_run h] is the running volume (its .dat as a
   byte string built with the needle codec of C02, its .idx, its needle map); [crash st dcut icut]
   keeps the first dcut bytes of the .dat and the first icut bytes of the .idx; [load] is
   Volume.load with CheckAndFixVolumeDataIntegrity as written (with the two repairs: a deletion
   entry is verified at the tombstone record it points to, a torn trailing index entry is
   dropped); [l_read] / [l_write] are readNeedle / Store.WriteVolumeNeedle on the reopened volume.
   [wf_op]: a write carries a representable needle with a non-empty payload and
   Checksum = NewCRC(Data); [wf_any]: the same without "non-empty" (finding 0).
   [admissible] requires the super block (8 bytes, written when the volume is created) to have
   survived: the property speaks of a stop "while appending blobs or tombstones"; a shorter
   .dat is refused by Volume.load ("not initialized"), modelled as LNotLoaded and exercised. *)
From Coq Require Import List NArith ZArith Bool.
From SW Require Import model.Needle proof.NeedleProofs model.VolumeCrash proof.VolumeCrashProofs
  proof.VolumeCrashLoad proof.VolumeCrashSpec proof.VolumeCrashSim proof.VolumeCrashSafe.
Import ListNotations.
Local Open Scope N_scope.

(* SAFETY, full strength: for every history and EVERY pair of cut points (admissible by write
   order or not, torn records and torn index entries included), whatever a reopened volume serves
   for key k is exactly a blob that some Write of the history stored under k. *)
Theorem c03_no_foreign_data : forall crc h dcut icut L k d, Forall (wf_op crc) h ->
  load crc (crash (p_run h) dcut icut) = Loaded L -> l_read crc L k = ROk d ->
  exists n, In (Write n) h /\ id n = k /\ d = dview Ver n.
Proof. exact no_foreign_data. Qed.
Print Assumptions c03_no_foreign_data.

(* THE FULL PROPERTY, at every crash point that write order allows ([admissible]: the records
   of the surviving whole index entries are in the data file in full; torn records and a torn
   index entry included): the reopen succeeds, the volume is writable, every key reads exactly
   as in the running volume after the operations h1 whose index entries survived, and a fresh
   blob can be written and read back ([crash_safe_at]). *)
Theorem c03_crash_safe : forall crc h dcut icut, Forall (wf_op crc) h ->
  admissible (p_run h) dcut icut = true ->
  crash_safe_at crc h dcut icut.
Proof. exact crash_safe. Qed.
Print Assumptions c03_crash_safe.

(* ... and "reads as in the running volume" means "reads per specification": [s_run] is the
   operation-level specification (key -> cookie, last stored needle or deleted; a write with a
   foreign cookie is refused, a repeated write changes nothing, deleted stays deleted).  At every
   admissible crash point the reopened volume answers every key as the specification does after
   the operations h1 whose [icut / 16] index entries survived. *)
Theorem c03_crash_safe_per_spec : forall crc h dcut icut, Forall (wf_op crc) h ->
  admissible (p_run h) dcut icut = true ->
  exists h1 h2 L, h = h1 ++ h2 /\ snd (s_run h1) = icut / NeedleMapEntrySize /\
    load crc (crash (p_run h) dcut icut) = Loaded L /\ l_nwod L = false /\
    forall k, l_read crc L k = s_read (fst (s_run h1)) k.
Proof. exact crash_safe_per_spec. Qed.
Print Assumptions c03_crash_safe_per_spec.

(* "ACCEPTS AND SERVES NEW WRITES AFTERWARDS", at full strength: the reopened volume is from then on
   indistinguishable from the volume that ran h1 and never stopped.  After ANY further well-formed
   operations h' -- overwrites of existing keys, rewrites of deleted keys, deletes, refused
   (other cookie) and repeated writes, fresh keys -- every key reads exactly as in the running
   volume after h1 ++ h', and every further operation [o] is answered ([l_step]: done / unchanged /
   refused / read-only, size deleted) exactly as the running volume answers it ([p_res]).  Proved by
   a per-key simulation between the byte-level reopened volume and the record-level running one
   (proof/VolumeCrashSim.v); it also holds when garbage of a torn first record stays in the .dat. *)
Theorem c03_crash_safe_forever : forall crc h dcut icut, Forall (wf_op crc) h ->
  admissible (p_run h) dcut icut = true ->
  exists h1 h2 L,
    h = h1 ++ h2 /\ len (p_idx (p_run h1)) = icut / NeedleMapEntrySize /\
    load crc (crash (p_run h) dcut icut) = Loaded L /\ l_nwod L = false /\
    forall h', Forall (wf_op crc) h' ->
      (forall k, l_read crc (l_after crc L h') k = p_read (p_run (h1 ++ h')) k) /\
      (forall o, wf_op crc o -> snd (l_step crc (l_after crc L h') o) = p_res (p_run (h1 ++ h')) o).
Proof. exact crash_safe_forever. Qed.
Print Assumptions c03_crash_safe_forever.

(* ... and per specification: after the reopen and any further operations h' the volume answers
   every key as the operation-level specification does after h1 ++ h' *)
Theorem c03_crash_safe_forever_per_spec : forall crc h dcut icut, Forall (wf_op crc) h ->
  admissible (p_run h) dcut icut = true ->
  exists h1 h2 L, h = h1 ++ h2 /\ snd (s_run h1) = icut / NeedleMapEntrySize /\
    load crc (crash (p_run h) dcut icut) = Loaded L /\ l_nwod L = false /\
    forall h', Forall (wf_op crc) h' ->
      forall k, l_read crc (l_after crc L h') k = s_read (fst (s_run (h1 ++ h'))) k.
Proof. exact crash_safe_forever_per_spec. Qed.
Print Assumptions c03_crash_safe_forever_per_spec.

(* the running volume itself reads per specification, for every history *)
Theorem c03_running_reads_per_spec : forall crc h, Forall (wf_op crc) h ->
  snd (s_run h) = len (p_idx (p_run h)) /\ forall k, p_read (p_run h) k = s_read (fst (s_run h)) k.
Proof. exact running_reads_spec. Qed.
Print Assumptions c03_running_reads_per_spec.

(* The integrity check never invents bytes or entries: both files of a reopened volume are
   prefixes / sub-lists of what the crash left, and every binding of its needle map comes from a
   surviving index entry. *)
Theorem c03_load_only_shrinks : forall crc f L, load crc f = Loaded L ->
  pref (d_bytes (l_dat L)) (f_dat f) /\ incl (l_idx L) (f_idx f) /\ map_from (l_idx L) (l_map L).
Proof. exact load_loaded. Qed.
Print Assumptions c03_load_only_shrinks.

(* Every reachable running volume satisfies the layout invariant the proofs rest on: the .dat is
   the super block followed by the encoded records back to back, the .idx holds one entry per
   record, the needle map is the replay of the .idx. *)
Theorem c03_running_invariant : forall crc h, Forall (wf_op crc) h -> Inv crc (p_run h).
Proof. exact inv_run. Qed.
Print Assumptions c03_running_invariant.

(* FINDING 0 (c03-empty-blob-gone-after-restart).  [wf_any] is [wf_op] without "the payload is not
   empty".  With empty payloads the full statement is false, even for a clean stop: the blob is
   stored as a record of Size 0 with an index entry of size 0, and replaying the index
   (needle_map_memory.go doLoading) treats a size-0 entry as a deletion. *)
Theorem c03_crash_safe_refuted : exists crc h dcut icut, Forall (wf_any crc) h /\
  admissible (p_run h) dcut icut = true /\ ~ crash_safe_at crc h dcut icut.
Proof. exact crash_safe_refuted. Qed.
Print Assumptions c03_crash_safe_refuted.

(* ... and holds for every history that stores no empty blob (decidable trigger
   [has_empty_write]; the correspondence check uses the narrower per-key trigger
   [key_has_empty_write] and checks every other key of such a history in full) *)
Theorem c03_crash_safe_partial : forall crc h dcut icut, Forall (wf_any crc) h ->
  has_empty_write h = false -> admissible (p_run h) dcut icut = true ->
  crash_safe_at crc h dcut icut.
Proof. exact crash_safe_partial. Qed.
Print Assumptions c03_crash_safe_partial.

(* the witness of finding 0 (harness case 2): hello / EMPTY / x stopped with both files whole;
   the running volume answers (0, nil) for key 2 (class 3), the reopened one "not found" (1) *)
Example c03_finding0_witness :
  admissible (p_run w_empty_history) 120 48 = true /\
  len (p_dat (p_run w_empty_history)) = 120 /\ len (p_idx (p_run w_empty_history)) = 3 /\
  empty_live (p_run w_empty_history) 2 = true /\ key_has_empty_write w_empty_history 2 = true /\
  map (fun k => rres_proj (p_read (p_run w_empty_history) k)) [1; 2; 3] =
    [(0, 17, [104; 101; 108; 108; 111]); (3, 0, []); (0, 4294967283, [120])] /\
  o_reads (observe toy_crc (crash (p_run w_empty_history) 120 48) [1; 2; 3] [] 0) =
    [(0, 17, [104; 101; 108; 108; 111]); (1, 0, []); (0, 4294967283, [120])].
Proof. exact witness_empty_blob. Qed.
Print Assumptions c03_finding0_witness.

(* non-vacuity, on the history hello / world!! / delete 1 / second version (harness cases 0, 1)
   followed on every reopened volume by [w_post] (rewrite of the deleted key 1, delete of key 2, a
   fresh key 9, the same bytes again, key 1 with another cookie) and a second stop: the history
   is well formed; the crash points of the two repaired findings are admissible and the model now
   reopens them writable; a third admissible point; and a point that write order excludes.  The
   full observations (three stages each) are the lemmas witness_* of proof/VolumeCrashSafe.v. *)
Example c03_example :
  Forall (wf_op toy_crc) w_history /\
  (admissible (p_run w_history) 133 48 = true /\ tombstone_tail (p_run w_history) 133 48 = true /\
   observe toy_crc (crash (p_run w_history) 133 48) [1; 2; 9] w_post 9 =
    {| o_load := 0; o_readonly := false; o_dat_len := 128; o_idx_len := 48;
       o_reads := [(2, 0, []); (0, 305419896, [119; 111; 114; 108; 100; 33; 33]); (1, 0, [])];
       o_post := [(0, 0%Z); (0, 12%Z); (0, 0%Z); (1, 0%Z); (3, 0%Z)];
       o_reads2 := [(0, 17, [97; 103; 97; 105; 110]); (2, 0, []); (0, 7, [102; 114; 101; 115; 104])];
       o_dat_len2 := 240; o_idx_len2 := 96; o_load3 := 0; o_readonly3 := false;
       o_reads3 := [(0, 17, [97; 103; 97; 105; 110]); (2, 0, []); (1, 0, [])];
       o_dat_len3 := 200; o_idx_len3 := 80 |}) /\
  (admissible (p_run w_history) 96 23 = true /\ torn_index 23 = true /\
   observe toy_crc (crash (p_run w_history) 96 23) [1; 2; 9] w_post 0 =
    {| o_load := 0; o_readonly := false; o_dat_len := 48; o_idx_len := 16;
       o_reads := [(0, 17, [104; 101; 108; 108; 111]); (1, 0, []); (1, 0, [])];
       o_post := [(0, 0%Z); (0, 0%Z); (0, 0%Z); (1, 0%Z); (3, 0%Z)];
       o_reads2 := [(0, 17, [97; 103; 97; 105; 110]); (1, 0, []); (0, 7, [102; 114; 101; 115; 104])];
       o_dat_len2 := 128; o_idx_len2 := 48; o_load3 := 0; o_readonly3 := false;
       o_reads3 := [(0, 17, [97; 103; 97; 105; 110]); (1, 0, []); (0, 7, [102; 114; 101; 115; 104])];
       o_dat_len3 := 128; o_idx_len3 := 48 |}) /\
  admissible (p_run w_history) 105 32 = true /\
  admissible (p_run w_history) 60 32 = false.
Proof.
  exact (conj w_history_wf (conj witness_tombstone_tail (conj witness_torn_index
        (conj (proj1 witness_torn_record) not_admissible_example)))).
Qed.
Print Assumptions c03_example.
