(* C12 — Master capacity accounting matches the registered volumes and shards.
   Only statements closed by [exact]; proofs live in proof/TopoCountProofs.v.
   Model: model/TopoCount.v (the topology tree as a table of node objects keyed by id
   path; UpdateVolumes, DeltaUpdateVolumes, AdjustMaxVolumeCounts, UpdateEcShards,
   DeltaUpdateEcShards, GetOrCreateDataNode, UnRegisterDataNode exactly as written). *)
From Coq Require Import String List ZArith NArith Bool.
From SW Require Import model.TopoPlace model.TopoCount proof.TopoCountProofs.
Import ListNotations.
Local Open Scope Z_scope.

(* Core lemma (full): UpAdjustDiskUsageDelta started at a node adds the delta to that node and
   to every ancestor, by the same amount, and changes nothing else (no other node's counters,
   no registration, no node added or removed). *)
Theorem c12_propagation : forall st q d,
  keys (up_adjust st q d) = keys st /\
  (forall p t, In p (keys st) ->
     U (up_adjust st q d) p t = if is_prefix p q then cadd (U st p t) (uget d t) else U st p t) /\
  (forall p, i_vols (info (up_adjust st q d) p) = i_vols (info st p) /\
             i_ecs (info (up_adjust st q d) p) = i_ecs (info st p)).
Proof. exact propagation. Qed.
Print Assumptions c12_propagation.

(* The property at full strength reads: for EVERY history of joins, max-count changes, full and
   incremental volume / EC heartbeats and unregistrations, and every Go map order, after every
   event the volume, remote-volume, EC-shard and max-volume counters of every disk, server,
   rack, data center and the cluster equal the recomputation from what is registered beneath
   them ([exact_b], the oracle the correspondence check evaluates on the implementation).
   With the three repairs of data_node.go / data_node_ec.go (incremental deletes, per-volume EC
   counters, per-disk-type max delta) the faithful model violates it in ONE remaining way
   (UpdateEcShards keys EC volumes by id only); that one is exhibited and the property is proved
   for every history that avoids its decidable trigger. *)

(* Strongest true statement: no trigger along the run  ==>  exact after every event. *)
Theorem c12_counts_exact_partial : forall ops orders,
  forallb wf_op ops = true ->
  first_trigger orders init_state ops = None ->
  all_exact (run orders init_state ops) (ref_run [] ops) = true.
Proof. exact (fun ops orders => run_exact ops orders init_state [] init_inv). Qed.
Print Assumptions c12_counts_exact_partial.

(* one event preserves the invariant behind [exact_b] when its trigger is off *)
Theorem c12_step_preserves : forall st r o order, Inv st r -> wf_op o = true -> trigger st o = None ->
  Inv (step order st o) (ref_step r o).
Proof. exact step_inv. Qed.
Print Assumptions c12_step_preserves.

Theorem c12_invariant_gives_exact : forall st r, Inv st r -> exact_b st r = true.
Proof. exact inv_exact_b. Qed.
Print Assumptions c12_invariant_gives_exact.

(* the successor enumeration used by the correspondence check is exactly the set of states the
   model reaches under some Go map order *)
Theorem c12_step_all_iff_some_order : forall st o s,
  In s (step_all st o) <-> exists order, step order st o = s.
Proof. exact step_all_spec. Qed.
Print Assumptions c12_step_all_iff_some_order.

(* ---- the remaining refutation of the full statement ---- *)
Definition w_n1 : path := ["dc1"; "r1"; "n1:80"]%string.
Definition w_join (maxs : list (string * Z)) : op := Join "dc1" "r1" "n1:80" maxs.
Definition refutes (k : N) (ops : list op) : Prop :=
  forallb wf_op ops = true /\ first_trigger [] init_state ops = Some k /\
  all_exact (run [] init_state ops) (ref_run [] ops) = false.

(* k = 0: one EC volume id listed twice in a full EC heartbeat: both counted, one registered *)
Theorem c12_counts_exact_refuted_ec_duplicate :
  refutes 0 [w_join [(""%string, 10)];
             FullEc w_n1 [mkE 1 "" 1; mkE 1 "" 2]].
Proof. exact (conj eq_refl (conj eq_refl eq_refl)). Qed.
Print Assumptions c12_counts_exact_refuted_ec_duplicate.

(* the same finding: an EC volume reported on another disk type than the one it is registered on *)
Theorem c12_counts_exact_refuted_ec_moved :
  refutes 0 [w_join [(""%string, 10); ("ssd"%string, 4)];
             FullEc w_n1 [mkE 1 "" 1];
             FullEc w_n1 [mkE 1 "ssd" 3]].
Proof. exact (conj eq_refl (conj eq_refl eq_refl)). Qed.
Print Assumptions c12_counts_exact_refuted_ec_moved.

(* the witnesses of the four repaired defects are now trigger-free and exact *)
Definition repaired (ops : list op) : Prop :=
  forallb wf_op ops = true /\ first_trigger [] init_state ops = None /\
  all_exact (run [] init_state ops) (ref_run [] ops) = true.
Example c12_repaired_witnesses :
  repaired [w_join [(""%string, 10)]; IncVol w_n1 [] [(7%N, ""%string)]] /\
  repaired [w_join [(""%string, 10)]; FullEc w_n1 [mkE 1 "" 1; mkE 2 "" 1]; FullEc w_n1 [mkE 1 "" 3; mkE 2 "" 3]] /\
  repaired [w_join [(""%string, 10); ("ssd"%string, 5)]; AdjustMax w_n1 [(""%string, 12); ("ssd"%string, 8)]] /\
  repaired [w_join [(""%string, 10)]; FullVol w_n1 [mkV 1 "" true true]; IncVol w_n1 [] [(1%N, ""%string)]].
Proof. repeat split; vm_compute; reflexivity. Qed.

(* ---- non-vacuity: a trigger-free history with two servers, two disk types, volumes (one remote),
        EC shards (two EC volumes changing in one full heartbeat), max counts of two disk types
        changing at once, a stale and a remote incremental delete, and an unregistration; it is well formed, meets no trigger,
        registers something, and (by the partial theorem) is exact after every event ---- *)
Definition ex_n2 : path := ["dc1"; "r2"; "n2:80"]%string.
Definition ex_history : list op :=
  [ w_join [(""%string, 5); ("ssd"%string, 3)];
    FullVol w_n1 [mkV 1 "" false false; mkV 2 "ssd" true true];
    IncVol w_n1 [(3%N, ""%string)] [(1%N, ""%string); (9%N, ""%string)];
    FullEc w_n1 [mkE 10 "" 3; mkE 11 "ssd" 1];
    IncEc w_n1 [mkE 10 "" 4] [mkE 10 "" 1];
    FullEc w_n1 [mkE 10 "" 14; mkE 11 "ssd" 3];
    AdjustMax w_n1 [(""%string, 7); ("ssd"%string, 6)];
    Join "dc1" "r2" "n2:80" [(""%string, 4)];
    FullVol ex_n2 [mkV 3 "" false false];
    Unregister w_n1 ].
Example c12_example :
  forallb wf_op ex_history = true /\ first_trigger [] init_state ex_history = None /\
  all_exact (run [] init_state ex_history) (ref_run [] ex_history) = true /\
  (exists s, nth_error (run [] init_state ex_history) 6 = Some s /\
             volumeCount (U s [] ""%string) = 1 /\ remoteVolumeCount (U s [] "ssd"%string) = 1 /\
             ecShardCount (U s ["dc1"%string] ""%string) = 3 /\ ecShardCount (U s ["dc1"%string] "ssd"%string) = 2 /\
             maxVolumeCount (U s w_n1 ""%string) = 7 /\ maxVolumeCount (U s w_n1 "ssd"%string) = 6).
Proof.
  split; [vm_compute; reflexivity|]. split; [vm_compute; reflexivity|]. split; [vm_compute; reflexivity|].
  eexists. split; [vm_compute; reflexivity|]. repeat split; vm_compute; reflexivity.
Qed.
