(* C12 — Master capacity accounting matches the registered volumes and shards.
   Only statements closed by [exact]; proofs live in proof/TopoCountProofs.v.
   Model: model/TopoCount.v (the topology tree as a table of node objects keyed by id
   path; UpdateVolumes, DeltaUpdateVolumes, AdjustMaxVolumeCounts, UpdateEcShards,
   DeltaUpdateEcShards, GetOrCreateDataNode, UnRegisterDataNode exactly as written). *)
From Coq Require Import String List ZArith NArith Bool.
From SW Require Import model.TopoPlace model.TopoCount proof.TopoCountProofs proof.TopoCountReg.
Import ListNotations.
Local Open Scope Z_scope.

(* Core lemma (full): UpAdjustDiskUsageDelta started at a node adds the delta to that node and
   to every ancestor, by the same amount, and changes nothing else (no other node's counters,
   no registration, no node added or removed). *)
Theorem c12_propagation : forall st q d,
  keys (up_adjust st q d) = keys st /\
  (forall p t, In p (keys st) ->
     U (up_adjust st q d) p t = if is_prefix p q then cadd (U st p t) (uget d t) else U st p t) /\
  (forall p, i_vols (info (up_adjust st q d) p) = i_vols (info st p) /\
             i_ecs (info (up_adjust st q d) p) = i_ecs (info st p)).
Proof. exact propagation. Qed.
Print Assumptions c12_propagation.

(* The property at full strength reads: for EVERY history of joins, max-count changes, full and
   incremental volume / EC heartbeats and unregistrations, and every Go map order, after every
   event the volume, remote-volume, EC-shard and max-volume counters of every disk, server,
   rack, data center and the cluster equal the recomputation from what is registered beneath
   them ([exact_b], the oracle the correspondence check evaluates on the implementation).
   With the three repairs of data_node.go / data_node_ec.go (incremental deletes, per-volume EC
   counters, per-disk-type max delta) the faithful model violates the COUNTING clause in ONE
   remaining way (finding 0: UpdateEcShards keys EC volumes by id only); that one is exhibited and
   the clause is proved for every history that avoids its decidable trigger.  "Currently
   registered" is given its meaning by the registration clause below (finding 1). *)

(* Strongest true statement: no trigger along the run  ==>  exact after every event. *)
Theorem c12_counts_exact_partial : forall ops orders,
  forallb wf_op ops = true ->
  first_trigger orders init_state ops = None ->
  all_exact (run orders init_state ops) (ref_run [] ops) = true.
Proof. exact (fun ops orders => run_exact ops orders init_state [] init_inv). Qed.
Print Assumptions c12_counts_exact_partial.

(* one event preserves the invariant behind [exact_b] when its trigger is off *)
Theorem c12_step_preserves : forall st r o order, Inv st r -> wf_op o = true -> trigger st o = None ->
  Inv (step order st o) (ref_step r o).
Proof. exact step_inv. Qed.
Print Assumptions c12_step_preserves.

Theorem c12_invariant_gives_exact : forall st r, Inv st r -> exact_b st r = true.
Proof. exact inv_exact_b. Qed.
Print Assumptions c12_invariant_gives_exact.

(* the successor enumeration used by the correspondence check is exactly the set of states the
   model reaches under some Go map order *)
Theorem c12_step_all_iff_some_order : forall st o s,
  In s (step_all st o) <-> exists order, step order st o = s.
Proof. exact step_all_spec. Qed.
Print Assumptions c12_step_all_iff_some_order.

(* ---- "(and hence free slots)": NodeImpl.AvailableSpaceFor (TopoPlace.free_space, the quantity
        volume growth reserves from, C10) of every disk, server, rack, data center and the cluster
        equals the free slots of the recomputed counters, after every event of a trigger-free run ---- *)
Theorem c12_free_slots_exact : forall ops orders,
  forallb wf_op ops = true ->
  first_trigger orders init_state ops = None ->
  all2 free_exact_b (run orders init_state ops) (ref_run [] ops) = true.
Proof. exact run_free_exact. Qed.
Print Assumptions c12_free_slots_exact.

Theorem c12_invariant_gives_free_slots : forall st r, Inv st r -> free_exact_b st r = true.
Proof. exact inv_free_exact. Qed.
Print Assumptions c12_invariant_gives_free_slots.

(* ---- the registration clause: the counters are compared with what is registered, so the
        property also needs the registered set to be the reported one.  For EVERY state and input,
        what DataNode.UpdateVolumes leaves registered at (id, disk) ---- *)
Theorem c12_update_volumes_registered : forall st n actual id d,
  vreg (update_volumes st n actual) n id d =
  existsb (hits id d) actual ||
  (negb (existsb (hits id d)
           (filter (fun v => negb (existsb (fun a => N.eqb (v_id a) (v_id v)) actual)) (node_volumes st n))) &&
   vreg st n id d).
Proof. exact update_volumes_vreg. Qed.
Print Assumptions c12_update_volumes_registered.

(* partial (finding 1 excluded, per event): along every run the counting theorem covers, every full
   volume heartbeat that does not re-report a registered volume id on another disk leaves exactly
   the reported (id, disk) set registered on the server *)
Theorem c12_fullvol_registered_partial : forall ops orders,
  forallb wf_op ops = true ->
  first_trigger orders init_state ops = None ->
  reg_run true orders init_state ops = true.
Proof. exact (fun ops orders => run_full_vol_registered ops orders init_state [] init_inv). Qed.
Print Assumptions c12_fullvol_registered_partial.

Theorem c12_fullvol_registered_step : forall st r n actual, Inv st r -> In n (keys st) -> length n = 3%nat ->
  trig_vol_moved st n actual = false ->
  reg_vol_ok (update_volumes st n actual) n actual = true.
Proof. exact full_vol_registered. Qed.
Print Assumptions c12_fullvol_registered_step.

(* refuted at full strength (k = 1): one volume re-reported on another disk type of the same server
   stays registered AND counted on the old disk too; every counter still equals the recomputation
   (first_trigger = None: the counting theorem applies), so only this clause sees it *)
Theorem c12_fullvol_registered_refuted :
  forallb wf_op w_vol_moved = true /\ first_trigger [] init_state w_vol_moved = None /\
  reg_run false [] init_state w_vol_moved = false /\
  reg_run true [] init_state w_vol_moved = true /\
  (exists s, nth_error (run [] init_state w_vol_moved) 2 = Some s /\
             vpairs (node_volumes s w_n1) = [(1%N, ""%string); (1%N, "ssd"%string)] /\
             volumeCount (U s [] ""%string) = 1 /\ volumeCount (U s [] "ssd"%string) = 1).
Proof. exact refuted_vol_moved. Qed.
Print Assumptions c12_fullvol_registered_refuted.

(* ---- the remaining refutation of the counting clause (k = 0) ---- *)
(* one EC volume id listed twice in a full EC heartbeat: both counted, one registered *)
Theorem c12_counts_exact_refuted_ec_duplicate : refutes 0 w_ec_dup.
Proof. exact refuted_ec_duplicate. Qed.
Print Assumptions c12_counts_exact_refuted_ec_duplicate.

(* the same finding: an EC volume reported on another disk type than the one it is registered on *)
Theorem c12_counts_exact_refuted_ec_moved : refutes 0 w_ec_moved.
Proof. exact refuted_ec_moved. Qed.
Print Assumptions c12_counts_exact_refuted_ec_moved.

(* the correspondence check files a case under finding 0 only inside the NARROWED per-event
   trigger (trig_ec_narrow); it lies inside the trigger of the counting theorem, and both
   witnesses are inside it *)
Theorem c12_narrow_trigger_inside : forall st n actual,
  trig_ec_irregular st n actual = false -> trig_ec_narrow st n actual = false.
Proof. exact narrow_in_wide. Qed.
Print Assumptions c12_narrow_trigger_inside.

(* the witnesses of the four repaired defects are now trigger-free and exact *)
Example c12_repaired_witnesses :
  repaired [w_join [(""%string, 10)]; IncVol w_n1 [] [(7%N, ""%string)]] /\
  repaired [w_join [(""%string, 10)]; FullEc w_n1 [mkE 1 "" 1; mkE 2 "" 1]; FullEc w_n1 [mkE 1 "" 3; mkE 2 "" 3]] /\
  repaired [w_join [(""%string, 10); ("ssd"%string, 5)]; AdjustMax w_n1 [(""%string, 12); ("ssd"%string, 8)]] /\
  repaired [w_join [(""%string, 10)]; FullVol w_n1 [mkV 1 "" true true]; IncVol w_n1 [] [(1%N, ""%string)]].
Proof. exact repaired_witnesses. Qed.
Print Assumptions c12_repaired_witnesses.

(* ---- non-vacuity: ex_history (proof/TopoCountReg.v: two servers, two disk types, a remote volume,
        a volume created by growth, two EC volumes changing in one full heartbeat, two max counts
        changing at once, a stale and a remote incremental delete, an unregistration) is well formed,
        meets no trigger, is exact, has exact free slots and satisfies the registration clause
        WITHOUT the excuse of finding 1 ---- *)
Example c12_example :
  forallb wf_op ex_history = true /\ first_trigger [] init_state ex_history = None /\
  all_exact (run [] init_state ex_history) (ref_run [] ex_history) = true /\
  all2 free_exact_b (run [] init_state ex_history) (ref_run [] ex_history) = true /\
  reg_run false [] init_state ex_history = true /\
  (exists s, nth_error (run [] init_state ex_history) 6 = Some s /\
             volumeCount (U s [] ""%string) = 1 /\ remoteVolumeCount (U s [] "ssd"%string) = 1 /\
             ecShardCount (U s ["dc1"%string] ""%string) = 3 /\ ecShardCount (U s ["dc1"%string] "ssd"%string) = 2 /\
             maxVolumeCount (U s w_n1 ""%string) = 7 /\ maxVolumeCount (U s w_n1 "ssd"%string) = 6 /\
             free_space (U s w_n1 ""%string) = 5 /\ free_space (U s w_n1 "ssd"%string) = 5).
Proof. exact example_history. Qed.
Print Assumptions c12_example.
