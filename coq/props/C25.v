(* C25 — Filer HTTP writes store exactly the request body.
   Only statements closed by [exact]; proofs live in proof/FilerWriteProofs.v.

   The model (model/FilerWrite.v, the code after the five C25 repairs) is
   parametric in the chunk size, the inline limit, the body and the md5 function;
   every theorem below holds for all of them (so also for the 1 MiB multiples the
   real autoChunk produces).  [read_entry] is the reference reader (inline
   content, else the chunks painted in order over max(FileSize, extent) zero
   bytes); [file_end] is that length; [existing rq pre] is the entry
   saveMetaData merges into (pre when op=append, else none). *)
From Coq Require Import List NArith ZArith Bool.
From SW Require Import model.FilerWrite proof.FilerWriteProofs proof.FilerWriteFs.
Import ListNotations.

(* ------------------------------------------------------------------ *)
(* 1. a PUT/POST stores exactly the body: inline or chunked, EVERY chunk size >= 1,
      EVERY inline limit, /etc or not, replacing any previous entry (full) *)
Theorem c25_stored_equals_body : forall md5 rq pre,
  rq_method rq <> PostRaw -> (1 <= rq_cs rq)%Z -> rq_end rq = Eof -> no_upfail (rq_upfail rq) ->
  existing rq pre = None ->
  exists e, handle_write md5 rq pre = (Created, Some e) /\
            read_entry e = rq_body rq /\
            e_size e = N.of_nat (length (rq_body rq)) /\
            e_md5 e = Some (md5 (rq_body rq)).
Proof. exact stored_equals_body. Qed.
Print Assumptions c25_stored_equals_body.

(* "at any chunk size": whenever autoChunk lets a request through, its int32 chunk
   size is the requested number of MiB, at least 1 and not wrapped (full) *)
Theorem c25_chunk_size : forall q opt cs,
  auto_chunk_size q opt = Some cs ->
  (exists m, 1 <= m <= 2047 /\ cs = 1048576 * m /\ 1 <= cs)%Z.
Proof. exact auto_chunk_size_ok. Qed.
Print Assumptions c25_chunk_size.

(* ... and every maxMB in 1..2047 (query, or option when the query is absent) is accepted *)
Theorem c25_chunk_size_accepts : forall q opt,
  ((1 <= q <= 2047 -> auto_chunk_size q opt = Some (1048576 * q)) /\
   (q = 0 -> 1 <= opt <= 2047 -> auto_chunk_size q opt = Some (1048576 * opt)))%Z.
Proof. exact auto_chunk_size_accepts. Qed.
Print Assumptions c25_chunk_size_accepts.

(* ------------------------------------------------------------------ *)
(* 2. an append places the new bytes immediately after the current end of the
      file, whatever the FileSize attribute of the existing chunked entry (full) *)
Theorem c25_append_at_end : forall md5 rq e0,
  rq_method rq <> PostRaw -> (1 <= rq_cs rq)%Z -> rq_end rq = Eof -> no_upfail (rq_upfail rq) ->
  rq_append rq = true -> e_content e0 = [] -> wf_entry e0 ->
  exists e1, handle_write md5 rq (Some e0) = (Created, Some e1) /\
             read_entry e1 = read_entry e0 ++ rq_body rq /\
             file_end e1 = (file_end e0 + N.of_nat (length (rq_body rq)))%N /\
             e_size e1 = file_end e1.
Proof. exact append_at_end. Qed.
Print Assumptions c25_append_at_end.

(* an append to an entry with inline content is refused and changes nothing (full) *)
Theorem c25_append_inline_refused : forall md5 rq e0 pre,
  rq_append rq = true -> pre = Some e0 -> e_content e0 <> [] ->
  handle_write md5 rq pre = (Failed, pre).
Proof. exact append_inline_refused. Qed.
Print Assumptions c25_append_inline_refused.

(* ------------------------------------------------------------------ *)
(* 3. a request whose body fails part-way (the reader fails at any offset, with or
      without data in the failing Read) or one of whose uploads fails is reported
      as failed and nothing is committed (full) *)
Theorem c25_fail_no_commit : forall md5 rq pre,
  (1 <= rq_cs rq)%Z -> request_fails rq = true ->
  handle_write md5 rq pre = (Failed, pre).
Proof. exact fail_no_commit. Qed.
Print Assumptions c25_fail_no_commit.

(* the failure of any chunk that is reached is noticed (full) *)
Theorem c25_upload_failure_detected : forall md5 rq pre j,
  (1 <= rq_cs rq)%Z -> rq_end rq = Eof ->
  rq_append rq = true \/
  inline_cond (rq_cs rq) (rq_limit rq) (rq_etc rq) (length (rq_body rq)) = false ->
  nth j (rq_upfail rq) false = true ->
  (Z.of_nat j * rq_cs rq < Z.of_nat (length (rq_body rq)))%Z ->
  handle_write md5 rq pre = (Failed, pre).
Proof. exact upload_failure_detected. Qed.
Print Assumptions c25_upload_failure_detected.

(* every answer other than 201 leaves the stored entry as it was (full) *)
Theorem c25_nonsuccess_no_commit : forall md5 rq pre st post,
  handle_write md5 rq pre = (st, post) -> st <> Created -> st = Failed /\ post = pre.
Proof. exact nonsuccess_no_commit. Qed.
Print Assumptions c25_nonsuccess_no_commit.

(* ------------------------------------------------------------------ *)
(* 4. the store around the path: [handle_write_fs] adds saveMetaData's path fix
      (a URL path that is an existing directory receives "/" + fileName),
      Filer.CreateEntry's refusals and the fate of the uploaded chunks.
      [target fr st] is the entry under the resolved path, [slot_after fr st st']
      the same path in a later state, [other_after] the other of the two paths. *)

(* handle_write_fs is handle_write on the resolved path whenever neither saveMetaData
   (?op=append onto a directory) nor CreateEntry refuses (full) *)
Theorem c25_fs_refines : forall md5 fr st,
  let rq := fr_rq fr in
  let pre := node_entry (target fr st) in
  append_onto_dir fr st = false ->
  (existing rq pre = None -> create_fails fr st = false) ->
  let r := handle_write_fs md5 fr st in
  fo_status r = fst (handle_write md5 rq pre) /\
  node_entry (slot_after fr st (fo_state r)) = snd (handle_write md5 rq pre) /\
  other_after fr st (fo_state r) = other_after fr st st.
Proof. exact fs_refines. Qed.
Print Assumptions c25_fs_refines.

(* a PUT/POST (or an append to a missing path) that CreateEntry accepts stores
   exactly the body as a regular file under the resolved path - also when the URL
   named a directory -, touches nothing else, leaves no chunk behind and hands
   exactly the replaced file's chunks to DeleteChunks (full) *)
Theorem c25_fs_stored_equals_body : forall md5 fr st,
  let rq := fr_rq fr in
  rq_method rq <> PostRaw -> (1 <= rq_cs rq)%Z -> rq_end rq = Eof -> no_upfail (rq_upfail rq) ->
  existing rq (node_entry (target fr st)) = None -> create_fails fr st = false ->
  let r := handle_write_fs md5 fr st in
  exists e, fo_status r = Created /\
            slot_after fr st (fo_state r) = NFile e /\
            read_entry e = rq_body rq /\
            e_size e = N.of_nat (length (rq_body rq)) /\
            e_md5 e = Some (md5 (rq_body rq)) /\
            other_after fr st (fo_state r) = other_after fr st st /\
            fo_deleted r = [] /\ fo_leaked r = [] /\
            fo_replaced r = match target fr st with NFile e0 => e_chunks e0 | _ => [] end.
Proof. exact fs_stored_equals_body. Qed.
Print Assumptions c25_fs_stored_equals_body.

(* an append to a chunked FILE under the resolved path (full) *)
Theorem c25_fs_append_at_end : forall md5 fr st e0,
  let rq := fr_rq fr in
  rq_method rq <> PostRaw -> (1 <= rq_cs rq)%Z -> rq_end rq = Eof -> no_upfail (rq_upfail rq) ->
  rq_append rq = true -> target fr st = NFile e0 -> e_content e0 = [] -> wf_entry e0 ->
  let r := handle_write_fs md5 fr st in
  exists e1, fo_status r = Created /\
             slot_after fr st (fo_state r) = NFile e1 /\
             read_entry e1 = read_entry e0 ++ rq_body rq /\
             file_end e1 = (file_end e0 + N.of_nat (length (rq_body rq)))%N /\
             e_size e1 = file_end e1 /\
             other_after fr st (fo_state r) = other_after fr st st /\
             fo_deleted r = [] /\ fo_leaked r = [] /\ fo_replaced r = [].
Proof. exact fs_append_at_end. Qed.
Print Assumptions c25_fs_append_at_end.

(* CreateEntry refuses (a regular file above the path -> 409, a directory at the
   path -> 500): failed, nothing committed, exactly the uploaded chunks are handed
   to DeleteChunks, none is left behind (full) *)
Theorem c25_fs_create_failure : forall md5 fr st,
  let rq := fr_rq fr in
  rq_method rq <> PostRaw -> ur_failed (upload_of rq) = false ->
  existing rq (node_entry (target fr st)) = None -> create_fails fr st = true ->
  let r := handle_write_fs md5 fr st in
  fo_status r = Failed /\ fo_state r = st /\
  fo_deleted r = ur_chunks (loop_of rq) /\ fo_leaked r = [] /\ fo_replaced r = [].
Proof. exact fs_create_failure. Qed.
Print Assumptions c25_fs_create_failure.

(* every answer other than 201 leaves both paths as they were (full) *)
Theorem c25_fs_nonsuccess_no_commit : forall md5 fr st,
  fo_status (handle_write_fs md5 fr st) <> Created ->
  fo_status (handle_write_fs md5 fr st) = Failed /\ fo_state (handle_write_fs md5 fr st) = st.
Proof. exact fs_nonsuccess_no_commit. Qed.
Print Assumptions c25_fs_nonsuccess_no_commit.

(* an upload or body-read failure commits nothing and deletes nothing: the chunks
   uploaded before the failure stay on the volume servers, referenced by no entry
   (exact description of the code; a storage leak, not a truncated file) (full) *)
Theorem c25_fs_upload_failure_leaks : forall md5 fr st,
  let rq := fr_rq fr in
  rq_method rq <> PostRaw -> ur_failed (upload_of rq) = true ->
  let r := handle_write_fs md5 fr st in
  fo_status r = Failed /\ fo_state r = st /\
  fo_deleted r = [] /\ fo_leaked r = ur_chunks (loop_of rq).
Proof. exact fs_upload_failure_leaks. Qed.
Print Assumptions c25_fs_upload_failure_leaks.

(* an append to an entry with inline content is refused, nothing committed (full) *)
Theorem c25_fs_append_inline_refused : forall md5 fr st e0,
  let rq := fr_rq fr in
  rq_append rq = true -> node_entry (target fr st) = Some e0 -> e_content e0 <> [] ->
  let r := handle_write_fs md5 fr st in
  fo_status r = Failed /\ fo_state r = st /\
  (is_dir (target fr st) = false -> fo_deleted r = []).
Proof. exact fs_append_inline_refused. Qed.
Print Assumptions c25_fs_append_inline_refused.

(* every 201 leaves a regular file under the resolved path (full; formerly refuted
   by ?op=append onto a directory, finding c25-append-onto-directory, repaired) *)
Theorem c25_created_is_file : forall md5 fr st,
  fo_status (handle_write_fs md5 fr st) = Created ->
  exists e, slot_after fr st (fo_state (handle_write_fs md5 fr st)) = NFile e.
Proof. exact created_is_file. Qed.
Print Assumptions c25_created_is_file.

(* no request, whatever its answer, changes a directory entry under either path (full) *)
Theorem c25_fs_dir_untouched : forall md5 fr st,
  let st' := fo_state (handle_write_fs md5 fr st) in
  (is_dir (fs_a st) = true -> fs_a st' = fs_a st) /\
  (is_dir (fs_b st) = true -> fs_b st' = fs_b st).
Proof. exact fs_dir_untouched. Qed.
Print Assumptions c25_fs_dir_untouched.

(* ?op=append whose resolved path holds a directory: failed ("... is a directory",
   500), nothing committed, exactly the uploaded chunks are handed to DeleteChunks,
   none is left behind (full) *)
Theorem c25_fs_append_dir_refused : forall md5 fr st,
  let rq := fr_rq fr in
  rq_method rq <> PostRaw -> ur_failed (upload_of rq) = false ->
  append_onto_dir fr st = true ->
  let r := handle_write_fs md5 fr st in
  fo_status r = Failed /\ fo_state r = st /\
  fo_deleted r = ur_chunks (loop_of rq) /\ fo_leaked r = [] /\ fo_replaced r = [].
Proof. exact fs_append_dir_refused. Qed.
Print Assumptions c25_fs_append_dir_refused.

(* the witness of the former finding: POST /d?op=append (multipart, no file name)
   onto the directory /d *)
Example c25_example_append_dir_refused :
  let fr := mk_fr (mk_rq PostForm true false 2 0 [1;2;3]%N Eof []) false false false in
  let st := {| fs_a := NDir empty_dir; fs_b := NMissing |} in
  rq_method (fr_rq fr) <> PostRaw /\ ur_failed (upload_of (fr_rq fr)) = false /\
  append_onto_dir fr st = true /\
  handle_write_fs (fun _ => 0%N) fr st =
    {| fo_status := Failed; fo_state := st;
       fo_deleted := [Ck 0 2 [1;2]; Ck 2 1 [3]]%N; fo_leaked := []; fo_replaced := [] |}.
Proof. exact example_append_dir_refused. Qed.
Print Assumptions c25_example_append_dir_refused.

(* PUT /d onto a directory /d: the body lands under /d/d, /d stays a directory *)
Example c25_example_redirect :
  let fr := mk_fr (mk_rq Put false false 2 0 [1;2;3]%N Eof []) false true false in
  let st := {| fs_a := NDir empty_dir; fs_b := NMissing |} in
  create_fails fr st = false /\
  handle_write_fs (fun _ => 0%N) fr st =
    {| fo_status := Created;
       fo_state := {| fs_a := NDir empty_dir;
                      fs_b := NFile {| e_size := 3; e_content := [];
                                       e_chunks := [Ck 0 2 [1;2]; Ck 2 1 [3]]%N; e_md5 := Some 0%N |} |};
       fo_deleted := []; fo_leaked := []; fo_replaced := [] |}.
Proof. exact example_redirect. Qed.
Print Assumptions c25_example_redirect.

(* PUT below a regular file: failed, nothing committed, both uploaded chunks deleted *)
Example c25_example_parent_file :
  let fr := mk_fr (mk_rq Put false false 2 0 [1;2;3]%N Eof []) false true true in
  let st := {| fs_a := NMissing; fs_b := NMissing |} in
  create_fails fr st = true /\ ur_failed (upload_of (fr_rq fr)) = false /\
  handle_write_fs (fun _ => 0%N) fr st =
    {| fo_status := Failed; fo_state := st;
       fo_deleted := [Ck 0 2 [1;2]; Ck 2 1 [3]]%N; fo_leaked := []; fo_replaced := [] |}.
Proof. exact example_parent_file. Qed.
Print Assumptions c25_example_parent_file.

(* the second of two uploads fails: the first chunk stays behind, unreferenced *)
Example c25_example_leak :
  let fr := mk_fr (mk_rq Put false false 2 0 [1;2;3]%N Eof [false;true]) false true false in
  let st := {| fs_a := NMissing; fs_b := NMissing |} in
  ur_failed (upload_of (fr_rq fr)) = true /\
  handle_write_fs (fun _ => 0%N) fr st =
    {| fo_status := Failed; fo_state := st;
       fo_deleted := []; fo_leaked := [Ck 0 2 [1;2]%N]; fo_replaced := [] |}.
Proof. exact example_leak. Qed.
Print Assumptions c25_example_leak.

(* an append onto a file reached through a directory redirect is accepted *)
Example c25_example_append_redirected :
  let fr := mk_fr (mk_rq Put true false 2 0 [9]%N Eof []) false true false in
  let st := {| fs_a := NDir empty_dir;
               fs_b := NFile {| e_size := 0; e_content := []; e_chunks := [Ck 0 3 [1;2;3]%N]; e_md5 := None |} |} in
  append_onto_dir fr st = false /\
  handle_write_fs (fun _ => 0%N) fr st =
    {| fo_status := Created;
       fo_state := {| fs_a := NDir empty_dir;
                      fs_b := NFile {| e_size := 4; e_content := [];
                                       e_chunks := [Ck 0 3 [1;2;3]; Ck 3 1 [9]]%N; e_md5 := None |} |};
       fo_deleted := []; fo_leaked := []; fo_replaced := [] |}.
Proof. exact example_append_redirected. Qed.
Print Assumptions c25_example_append_redirected.

(* ------------------------------------------------------------------ *)
(* the length-level plan used for the 1 MiB cases is the shape of the byte-level model *)
Theorem c25_plan_is_shape : forall cs limit inl etc bytes e upfail,
  shape (upload_reader_to_chunks cs limit inl etc bytes e upfail) =
  plan_upload cs limit inl etc (N.of_nat (length bytes)) e upfail.
Proof. exact shape_upload. Qed.
Print Assumptions c25_plan_is_shape.

(* ------------------------------------------------------------------ *)
(* non-vacuity, and the inputs on which the unrepaired code failed *)

(* 7 bytes, chunk size 3, limit 2: three chunks 3+3+1 *)
Example c25_example_chunked :
  let rq := mk_rq PostForm false false 3 2 [1;2;3;4;5;6;7]%N Eof [false;false;false] in
  rq_method rq <> PostRaw /\ (1 <= rq_cs rq)%Z /\ rq_end rq = Eof /\ no_upfail (rq_upfail rq) /\
  existing rq None = None /\
  handle_write (fun l => N.of_nat (length l)) rq None =
    (Created, Some {| e_size := 7; e_content := [];
                      e_chunks := [Ck 0 3 [1;2;3]; Ck 3 3 [4;5;6]; Ck 6 1 [7]]%N; e_md5 := Some 7%N |}).
Proof. exact example_chunked. Qed.
Print Assumptions c25_example_chunked.

(* 2 bytes below the limit 5, chunk size 4: inline *)
Example c25_example_inline :
  let rq := mk_rq Put false false 4 5 [8;9]%N Eof [] in
  handle_write (fun l => N.of_nat (length l)) rq None =
    (Created, Some {| e_size := 2; e_content := [8;9]%N; e_chunks := []; e_md5 := Some 2%N |}).
Proof. exact example_inline. Qed.
Print Assumptions c25_example_inline.

(* limit 4 above the chunk size 2, body of 3 bytes: chunked, nothing dropped *)
Example c25_example_limit_above_chunk :
  let rq := mk_rq Put false false 2 4 [1;2;3]%N Eof [] in
  exists e, handle_write (fun _ => 0%N) rq None = (Created, Some e) /\
            e_content e = [] /\ read_entry e = [1;2;3]%N.
Proof. exact example_limit_above_chunk. Qed.
Print Assumptions c25_example_limit_above_chunk.

(* the same under /etc *)
Example c25_example_etc :
  let rq := mk_rq Put false true 2 0 [1;2;3]%N Eof [] in
  exists e, handle_write (fun _ => 0%N) rq None = (Created, Some e) /\ read_entry e = [1;2;3]%N.
Proof. exact example_etc. Qed.
Print Assumptions c25_example_etc.

(* append to an entry with chunk [0,3) and FileSize attribute 0 (as S3 multipart
   completion creates): the new byte lands at offset 3 *)
Example c25_example_append_filesize0 :
  let e0 := {| e_size := 0; e_content := []; e_chunks := [Ck 0 3 [97;98;99]%N]; e_md5 := None |} in
  let rq := mk_rq Put true false 4 0 [90]%N Eof [] in
  wf_entry e0 /\
  exists e1, handle_write (fun _ => 0%N) rq (Some e0) = (Created, Some e1) /\
             read_entry e1 = [97;98;99;90]%N /\ e_size e1 = 4%N.
Proof. exact example_append_filesize0. Qed.
Print Assumptions c25_example_append_filesize0.

(* the reader fails after 3 bytes: reported, nothing committed *)
Example c25_example_read_error :
  let rq := mk_rq Put false false 2 0 [1;2;3]%N ReadErr [] in
  request_fails rq = true /\ handle_write (fun _ => 0%N) rq None = (Failed, None).
Proof. exact example_read_error. Qed.
Print Assumptions c25_example_read_error.

(* the second upload fails: reported, nothing committed *)
Example c25_example_upload_failure :
  let rq := mk_rq Put false false 2 0 [1;2;3]%N Eof [false;true] in
  request_fails rq = true /\ handle_write (fun _ => 0%N) rq None = (Failed, None).
Proof. exact example_upload_failure. Qed.
Print Assumptions c25_example_upload_failure.

(* maxMB=2048 and maxMB=0 are rejected; 2047 is the largest accepted value *)
Example c25_example_maxmb :
  auto_chunk_size 2048 4 = None /\ auto_chunk_size 0 0 = None /\
  auto_chunk_size 2047 4 = Some 2146435072%Z /\ auto_chunk_size 0 4 = Some 4194304%Z.
Proof. exact example_maxmb. Qed.
Print Assumptions c25_example_maxmb.
