(* C25 — Filer HTTP writes store exactly the request body.
   Only statements closed by [exact]; proofs live in proof/FilerWriteProofs.v.

   The model (model/FilerWrite.v) is parametric in the chunk size, the inline
   limit, the body and the md5 function; every theorem below holds for all of
   them (so also for the 1 MiB multiples the real autoChunk produces).
   [read_entry] is the reference reader (inline content, else the chunks painted
   in order over max(FileSize, extent) zero bytes); [existing rq pre] is the
   entry saveMetaData merges into (pre when op=append, else none).

   Four statements of the property are FALSE for the code as it is (confirmed on
   the real handlers, see checks/C25.json): each has a [_refuted] theorem with a
   concrete witness and a [_partial] theorem under a decidable trigger. *)
From Coq Require Import List NArith ZArith Bool.
From SW Require Import model.FilerWrite proof.FilerWriteProofs.
Import ListNotations.

(* ------------------------------------------------------------------ *)
(* 1. a PUT/POST stores exactly the body (inline or chunked, any chunk size >= 1, any limit) *)

(* full statement: refuted — saveToFilerLimit (4) above the chunk size (2), body
   of 3 bytes: the first chunk is inlined, the loop stops, 201 *)
Theorem c25_stored_equals_body_refuted : exists md5 rq pre e,
  rq_method rq <> PostRaw /\ (1 <= rq_cs rq)%Z /\ rq_end rq = Eof /\ no_upfail (rq_upfail rq) /\
  existing rq pre = None /\
  handle_write md5 rq pre = (Created, Some e) /\ read_entry e <> rq_body rq.
Proof. exact stored_equals_body_refuted. Qed.
Print Assumptions c25_stored_equals_body_refuted.

(* ... and so does any path under /etc, with the default limit 0 *)
Theorem c25_stored_equals_body_refuted_etc : exists md5 rq pre e,
  rq_method rq <> PostRaw /\ (1 <= rq_cs rq)%Z /\ rq_end rq = Eof /\ no_upfail (rq_upfail rq) /\
  existing rq pre = None /\ rq_limit rq = 0%Z /\
  handle_write md5 rq pre = (Created, Some e) /\ read_entry e <> rq_body rq.
Proof. exact stored_equals_body_refuted_etc. Qed.
Print Assumptions c25_stored_equals_body_refuted_etc.

(* partial: outside the trigger (inlining possible AND body longer than one chunk):
   every body, every chunk size >= 1, every limit, replacing any previous entry *)
Theorem c25_stored_equals_body_partial : forall md5 rq pre,
  rq_method rq <> PostRaw -> (1 <= rq_cs rq)%Z -> rq_end rq = Eof -> no_upfail (rq_upfail rq) ->
  existing rq pre = None ->
  inline_trunc_trigger rq = false ->
  exists e, handle_write md5 rq pre = (Created, Some e) /\
            read_entry e = rq_body rq /\
            e_size e = N.of_nat (length (rq_body rq)) /\
            e_md5 e = Some (md5 (rq_body rq)).
Proof. exact stored_equals_body. Qed.
Print Assumptions c25_stored_equals_body_partial.

(* "at any chunk size": the chunk size autoChunk computes is the requested number
   of MiB only for 1..2047; maxMB=2048 wraps to -2^31 and the body is dropped with 201 *)
Theorem c25_chunk_size_refuted : exists md5 q opt body e,
  handle_write md5 (mk_rq Put false false (chunk_size_of q opt) 0 body Eof []) None = (Created, Some e) /\
  body <> [] /\ read_entry e = [].
Proof. exact chunk_size_refuted. Qed.
Print Assumptions c25_chunk_size_refuted.

Theorem c25_chunk_size_partial : forall q opt,
  ((1 <= q <= 2047 -> chunk_size_of q opt = 1048576 * q) /\
   (q = 0 -> 1 <= opt <= 2047 -> chunk_size_of q opt = 1048576 * opt))%Z.
Proof. exact chunk_size_ok. Qed.
Print Assumptions c25_chunk_size_partial.

(* what happens for every chunk size <= 0 *)
Theorem c25_nonpositive_chunk_size : forall md5 rq pre,
  rq_method rq <> PostRaw -> (rq_cs rq <= 0)%Z -> existing rq pre = None ->
  handle_write md5 rq pre =
    (Created, Some {| e_size := 0; e_content := []; e_chunks := []; e_md5 := Some (md5 []) |}).
Proof. exact nonpositive_chunk_size_stores_nothing. Qed.
Print Assumptions c25_nonpositive_chunk_size.

(* ------------------------------------------------------------------ *)
(* 2. an append places the new bytes immediately after the current end of the file *)

(* full statement: refuted — an entry with chunk [0,3) and FileSize attribute 0
   (as S3 multipart completion and other gRPC writers create): the appended byte
   lands at offset 0 *)
Theorem c25_append_at_end_refuted : exists md5 rq e0 e1,
  rq_method rq <> PostRaw /\ (1 <= rq_cs rq)%Z /\ rq_end rq = Eof /\ no_upfail (rq_upfail rq) /\
  rq_append rq = true /\ e_content e0 = [] /\ wf_entry e0 /\
  handle_write md5 rq (Some e0) = (Created, Some e1) /\
  read_entry e1 <> read_entry e0 ++ rq_body rq.
Proof. exact append_at_end_refuted. Qed.
Print Assumptions c25_append_at_end_refuted.

(* partial: whenever the FileSize attribute is not below the extent of the chunks *)
Theorem c25_append_at_end_partial : forall md5 rq e0,
  rq_method rq <> PostRaw -> (1 <= rq_cs rq)%Z -> rq_end rq = Eof -> no_upfail (rq_upfail rq) ->
  rq_append rq = true -> e_content e0 = [] -> wf_entry e0 ->
  append_trigger rq (Some e0) = false ->
  exists e1, handle_write md5 rq (Some e0) = (Created, Some e1) /\
             read_entry e1 = read_entry e0 ++ rq_body rq /\
             e_size e1 = (e_size e0 + N.of_nat (length (rq_body rq)))%N /\
             file_end e1 = (file_end e0 + N.of_nat (length (rq_body rq)))%N.
Proof. exact append_at_end. Qed.
Print Assumptions c25_append_at_end_partial.

(* an append to an entry with inline content is refused and changes nothing (full) *)
Theorem c25_append_inline_refused : forall md5 rq e0 pre,
  rq_append rq = true -> pre = Some e0 -> e_content e0 <> [] ->
  handle_write md5 rq pre = (Failed, pre).
Proof. exact append_inline_refused. Qed.
Print Assumptions c25_append_inline_refused.

(* ------------------------------------------------------------------ *)
(* 3. a request whose body fails part-way is reported as failed and nothing is committed *)

(* full statement: refuted — the reader fails after 3 bytes, chunk size 2: the
   first chunk is committed and the answer is 201 *)
Theorem c25_fail_no_commit_refuted : exists md5 rq pre e,
  request_fails rq = true /\ handle_write md5 rq pre = (Created, Some e) /\
  read_entry e = [1;2]%N.
Proof. exact fail_no_commit_refuted. Qed.
Print Assumptions c25_fail_no_commit_refuted.

(* partial: every failure other than a body read error (i.e. an upload/assign
   failure of any chunk) is reported and commits nothing *)
Theorem c25_fail_no_commit_partial : forall md5 rq pre,
  read_err_trigger rq = false -> request_fails rq = true ->
  handle_write md5 rq pre = (Failed, pre).
Proof. exact fail_no_commit_partial. Qed.
Print Assumptions c25_fail_no_commit_partial.

(* the failure of any chunk that is reached is noticed (full) *)
Theorem c25_upload_failure_detected : forall md5 rq pre j,
  (1 <= rq_cs rq)%Z -> rq_end rq = Eof ->
  rq_append rq = true \/
  inline_cond (rq_cs rq) (rq_limit rq) (rq_etc rq) (length (rq_body rq)) = false ->
  nth j (rq_upfail rq) false = true ->
  (Z.of_nat j * rq_cs rq < Z.of_nat (length (rq_body rq)))%Z ->
  handle_write md5 rq pre = (Failed, pre).
Proof. exact upload_failure_detected. Qed.
Print Assumptions c25_upload_failure_detected.

(* every answer other than 201 leaves the stored entry as it was (full) *)
Theorem c25_nonsuccess_no_commit : forall md5 rq pre st post,
  handle_write md5 rq pre = (st, post) -> st <> Created -> st = Failed /\ post = pre.
Proof. exact nonsuccess_no_commit. Qed.
Print Assumptions c25_nonsuccess_no_commit.

(* the exact shape of the defect: a failing body is committed as a chunk-rounded
   prefix (at most one chunk short) with 201 *)
Theorem c25_read_error_commits_prefix : forall md5 rq pre,
  rq_method rq <> PostRaw -> (1 <= rq_cs rq)%Z -> is_err (rq_end rq) = true ->
  no_upfail (rq_upfail rq) -> existing rq pre = None ->
  rq_append rq = true \/
  inline_cond (rq_cs rq) (rq_limit rq) (rq_etc rq) (length (rq_body rq)) = false ->
  exists e n k, handle_write md5 rq pre = (Created, Some e) /\
                read_entry e = firstn n (rq_body rq) /\ e_size e = N.of_nat n /\
                (n = k * Z.to_nat (rq_cs rq))%nat /\ (n <= length (rq_body rq))%nat /\
                (length (rq_body rq) - n <= Z.to_nat (rq_cs rq))%nat.
Proof. exact read_error_commits_prefix. Qed.
Print Assumptions c25_read_error_commits_prefix.

(* ------------------------------------------------------------------ *)
(* the length-level plan used for the 1 MiB cases is the shape of the byte-level model *)
Theorem c25_plan_is_shape : forall cs limit inl etc bytes e upfail,
  shape (upload_reader_to_chunks cs limit inl etc bytes e upfail) =
  plan_upload cs limit inl etc (N.of_nat (length bytes)) e upfail.
Proof. exact shape_upload. Qed.
Print Assumptions c25_plan_is_shape.

(* ------------------------------------------------------------------ *)
(* non-vacuity: the hypotheses of the partial theorems hold on concrete non-trivial inputs *)

(* 7 bytes, chunk size 3, limit 2: three chunks 3+3+1 *)
Example c25_example_chunked :
  let rq := mk_rq PostForm false false 3 2 [1;2;3;4;5;6;7]%N Eof [false;false;false] in
  rq_method rq <> PostRaw /\ (1 <= rq_cs rq)%Z /\ rq_end rq = Eof /\ no_upfail (rq_upfail rq) /\
  existing rq None = None /\ inline_trunc_trigger rq = false /\
  handle_write (fun l => N.of_nat (length l)) rq None =
    (Created, Some {| e_size := 7; e_content := [];
                      e_chunks := [Ck 0 3 [1;2;3]; Ck 3 3 [4;5;6]; Ck 6 1 [7]]%N; e_md5 := Some 7%N |}).
Proof. exact example_chunked. Qed.

(* 2 bytes below the limit 5, chunk size 4: inline *)
Example c25_example_inline :
  let rq := mk_rq Put false false 4 5 [8;9]%N Eof [] in
  inline_trunc_trigger rq = false /\
  handle_write (fun l => N.of_nat (length l)) rq None =
    (Created, Some {| e_size := 2; e_content := [8;9]%N; e_chunks := []; e_md5 := Some 2%N |}).
Proof. exact example_inline. Qed.

(* append of 3 bytes (chunk size 2) to a 4-byte chunked file whose FileSize agrees *)
Example c25_example_append :
  let e0 := {| e_size := 4; e_content := []; e_chunks := [Ck 0 4 [1;2;3;4]%N]; e_md5 := None |} in
  let rq := mk_rq Put true false 2 0 [5;6;7]%N Eof [] in
  append_trigger rq (Some e0) = false /\ wf_entry e0 /\
  exists e1, handle_write (fun _ => 0%N) rq (Some e0) = (Created, Some e1) /\
             read_entry e1 = [1;2;3;4;5;6;7]%N.
Proof. exact example_append. Qed.

(* the second upload fails: reported, nothing committed *)
Example c25_example_upload_failure :
  let rq := mk_rq Put false false 2 0 [1;2;3]%N Eof [false;true] in
  read_err_trigger rq = false /\ request_fails rq = true /\
  handle_write (fun _ => 0%N) rq None = (Failed, None).
Proof. exact example_upload_failure. Qed.
