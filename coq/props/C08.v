(* C08 — Persistent identifiers and headers round-trip exactly.
   Only statements closed by [exact]; proofs live in proof/CodecsProofs.v.
   Four decoders are modelled as REPAIRED in the working tree: ReadTTL (counts outside 0..255
   and unknown unit letters are errors), NewVolumeId (parsed as 32-bit),
   NewReplicaPlacementFromString (lengths other than 0 and 3 are errors) and ReadSuperBlock
   (the extra metadata is read from the file). *)
From Coq Require Import List NArith ZArith Bool.
From SW Require Import model.Needle model.Codecs proof.NeedleProofs proof.CodecsProofs.
Import ListNotations.
Local Open Scope N_scope.

(* ---------- replica placement: all 27 placements ---------- *)
Theorem c08_rp_string_roundtrip : forall dc rack same, dc <= 2 -> rack <= 2 -> same <= 2 ->
  rp_from_string (rp_string (dc, rack, same)) = Some (dc, rack, same).
Proof. exact rp_string_roundtrip. Qed.
Print Assumptions c08_rp_string_roundtrip.

Theorem c08_rp_byte_roundtrip : forall dc rack same, dc <= 2 -> rack <= 2 -> same <= 2 ->
  rp_from_byte (rp_byte (dc, rack, same)) = Some (dc, rack, same).
Proof. exact rp_byte_roundtrip. Qed.
Print Assumptions c08_rp_byte_roundtrip.

(* every one of the 256 bytes is either rejected or is the byte of the valid placement returned *)
Theorem c08_rp_byte_reject : forall b r, b < 256 -> rp_from_byte b = Some r ->
  rp_valid r = true /\ rp_byte r = b.
Proof. exact rp_byte_reject. Qed.
Print Assumptions c08_rp_byte_reject.

(* strings (repaired code: lengths other than 0 and 3 are errors), FULL statement: an accepted
   string is the empty string (the default placement 000) or exactly the encoding of the valid
   placement returned *)
Theorem c08_rp_string_reject : forall s r, rp_from_string s = Some r ->
  rp_valid r = true /\ ((s = [] /\ r = (0, 0, 0)) \/ rp_string r = s).
Proof. exact rp_string_reject. Qed.
Print Assumptions c08_rp_string_reject.

(* every accepted string consists of the characters '0'..'2' only *)
Theorem c08_rp_string_chars : forall s r, rp_from_string s = Some r -> Forall (fun c => 48 <= c <= 50) s.
Proof. exact rp_string_chars. Qed.
Print Assumptions c08_rp_string_chars.

(* ---------- TTL: all 256 x 256 (count, unit) pairs ---------- *)
Theorem c08_ttl_string_roundtrip : forall c u, c < 256 -> u < 256 ->
  read_ttl (ttl_string (c, u)) = Some (if ttl_canon (c, u) then (c, u) else (0, 0)).
Proof. exact ttl_string_roundtrip. Qed.
Print Assumptions c08_ttl_string_roundtrip.

Theorem c08_ttl_bytes_roundtrip : forall t, load_ttl_bytes (ttl_to_bytes t) = t.
Proof. exact ttl_bytes_roundtrip. Qed.
Print Assumptions c08_ttl_bytes_roundtrip.

Theorem c08_ttl_u32_roundtrip : forall c u, c < 256 -> u < 256 ->
  load_ttl_u32 (ttl_to_u32 (c, u)) = if c =? 0 then (0, 0) else (c, u).
Proof. exact ttl_u32_roundtrip. Qed.
Print Assumptions c08_ttl_u32_roundtrip.

(* rejection (repaired code): an accepted TTL string denotes exactly the TTL returned — the
   count is the integer written, without wrap-around, and the unit letter is known *)
Theorem c08_ttl_reject : forall s c u, s <> [] -> read_ttl s = Some (c, u) ->
  atoi (fst (ttl_split s)) = Some (Z.of_N c) /\ c <= 255 /\
  u = to_stored_byte (snd (ttl_split s)) /\ 1 <= u <= 6.
Proof. exact read_ttl_sound. Qed.
Print Assumptions c08_ttl_reject.

(* ---------- volume id ---------- *)
Theorem c08_volume_id_roundtrip : forall v, v < 2 ^ 32 -> new_volume_id (vid_string v) = Some v.
Proof. exact volume_id_roundtrip. Qed.
Print Assumptions c08_volume_id_roundtrip.

(* rejection (repaired code): an accepted string is a decimal numeral of exactly the id returned *)
Theorem c08_volume_id_reject : forall s v, new_volume_id s = Some v ->
  s <> [] /\ dec_val s 0 = Some v /\ v < 2 ^ 32.
Proof. exact volume_id_reject. Qed.
Print Assumptions c08_volume_id_reject.

(* ---------- file ids: every volume, key >= 1, cookie ---------- *)
Theorem c08_file_id_roundtrip : forall vid key cookie, vid < 2 ^ 32 -> 1 <= key -> key < 2 ^ 64 ->
  cookie < 2 ^ 32 -> parse_file_id (fid_string vid key cookie) = Some (vid, key, cookie).
Proof. exact file_id_roundtrip. Qed.
Print Assumptions c08_file_id_roundtrip.

Theorem c08_parse_path_roundtrip : forall key cookie, 1 <= key -> key < 2 ^ 64 -> cookie < 2 ^ 32 ->
  parse_path (format_key_cookie key cookie) = Some (key, cookie).
Proof. exact parse_path_plain. Qed.
Print Assumptions c08_parse_path_roundtrip.

Theorem c08_parse_path_delta : forall key cookie d, 1 <= key -> key < 2 ^ 64 -> cookie < 2 ^ 32 ->
  d < 2 ^ 64 ->
  parse_path (format_key_cookie key cookie ++ [95] ++ itoa d) =
    Some ((key + d) mod 18446744073709551616, cookie).
Proof. exact parse_path_delta. Qed.
Print Assumptions c08_parse_path_delta.

(* rejection: an accepted key/cookie string has 9..24 characters, all hexadecimal, and key and
   cookie are the values of its two parts (the cookie is the last 8 characters) *)
Theorem c08_key_cookie_reject : forall s key cookie, parse_key_cookie s = Some (key, cookie) ->
  8 < len s <= 24 /\ hex_val (takeN (len s - 8) s) 0 = Some key /\ key < 2 ^ 64 /\
  hex_val (dropN (len s - 8) s) 0 = Some cookie /\ cookie < 2 ^ 32.
Proof. exact parse_key_cookie_sound. Qed.
Print Assumptions c08_key_cookie_reject.

(* ---------- super block ---------- *)
(* FULL round trip (repaired code: the extra bytes are read from the file), with or without
   extra metadata, whatever follows the super block in the file.  [pb] is the protobuf oracle
   (Marshal after Unmarshal); its only hypothesis is the round-trip law on the bytes that
   proto.Marshal produced for this super block. *)
Theorem c08_superblock_roundtrip : forall pb s tail, sb_ok s -> len (sb_extra s) < 65536 ->
  (sb_has_extra s = true -> pb (sb_extra s) = Some (sb_extra s)) ->
  sb_read pb (sb_bytes s ++ tail) = Some s.
Proof. exact sb_roundtrip. Qed.
Print Assumptions c08_superblock_roundtrip.

(* rejection: whatever ReadSuperBlock accepts is the super block the header bytes denote; a
   truncated extra or one that protobuf rejects is an error *)
Theorem c08_superblock_reject : forall pb file s, sb_read pb file = Some s ->
  8 <= len file /\ rp_from_byte (nth 1 file 0) = Some (sb_rp s) /\
  sb_version s = nth 0 file 0 /\ sb_ttl s = (nth 2 file 0, nth 3 file 0) /\
  sb_compaction s = be_decode (takeN 2 (dropN 4 file)) /\
  let extra_size := be_decode (takeN 2 (dropN 6 file)) in
  (if 0 <? extra_size
   then len (takeN extra_size (dropN 8 file)) = extra_size /\ pb (takeN extra_size (dropN 8 file)) = Some (sb_extra s)
   else sb_extra s = []).
Proof. exact sb_read_sound. Qed.
Print Assumptions c08_superblock_reject.

(* ---------- index entries ---------- *)
Theorem c08_idx_roundtrip : forall key off size, key < 2 ^ 64 -> off < 2 ^ 32 ->
  (- 2147483648 <= size < 2147483648)%Z ->
  idx_parse (idx_bytes key off size) = (key, off, size) /\ len (idx_bytes key off size) = 16.
Proof. exact idx_roundtrip. Qed.
Print Assumptions c08_idx_roundtrip.

Theorem c08_offset_roundtrip : forall a, a mod 8 = 0 -> a < 34359738368 ->
  to_actual_offset (to_offset a) = a.
Proof. exact offset_roundtrip. Qed.
Print Assumptions c08_offset_roundtrip.

(* ---------- concrete rejections (the repaired defects among them) and non-vacuity ---------- *)
Example c08_reject_examples :
  read_ttl [51; 48; 48; 109] = None            (* "300m" *)
  /\ read_ttl [53; 120] = None                 (* "5x" *)
  /\ read_ttl [45; 53; 109] = None             (* "-5m" *)
  /\ read_ttl [50; 53; 54; 104] = None         (* "256h" *)
  /\ read_ttl [109] = None                     (* "m" *)
  /\ new_volume_id [52; 50; 57; 52; 57; 54; 55; 50; 57; 55] = None   (* "4294967297" *)
  /\ new_volume_id [] = None
  /\ parse_file_id [51; 44; 48; 49; 54; 51; 55; 48; 51; 122; 100; 54] = None  (* "3,0163703zd6" *)
  /\ rp_from_string [48; 48; 51] = None        (* "003" *)
  /\ rp_from_string [49] = None                (* "1" *)
  /\ rp_from_string [48; 48; 49; 49] = None    (* "0011" *)
  /\ rp_from_byte 3 = None /\ rp_from_byte 255 = None.
Proof. exact reject_examples. Qed.

Example c08_example :
  fid_string 3 1 1668298710 = [51; 44; 48; 49; 54; 51; 55; 48; 51; 55; 100; 54]   (* "3,01637037d6" *)
  /\ parse_file_id [51; 44; 48; 49; 54; 51; 55; 48; 51; 55; 100; 54] = Some (3, 1, 1668298710)
  /\ read_ttl [49; 53; 100] = Some (15, 3) /\ ttl_string (15, 3) = [49; 53; 100]     (* "15d" *)
  /\ sb_read (fun b => Some b)
       (sb_bytes {| sb_version := 3; sb_rp := (0, 1, 2); sb_ttl := (15, 3); sb_compaction := 7; sb_extra := [10; 9; 8] |} ++ [1; 2])
     = Some {| sb_version := 3; sb_rp := (0, 1, 2); sb_ttl := (15, 3); sb_compaction := 7; sb_extra := [10; 9; 8] |}
  /\ sb_read (fun b => Some b) [3; 12; 15; 3; 0; 7; 0; 3; 10; 9] = None      (* truncated extra *)
  /\ idx_parse (idx_bytes 5 9 (-1)) = (5, 9, (-1)%Z).
Proof. vm_compute. repeat split; reflexivity. Qed.
