(* C08 — Persistent identifiers and headers round-trip exactly.
   Only statements closed by [exact]; proofs live in proof/CodecsProofs.v.
   Four decoders and one encoder are modelled as REPAIRED in the working tree: ReadTTL (counts
   outside 0..255 and unknown unit letters are errors), NewVolumeId (parsed as 32-bit),
   NewReplicaPlacementFromString (lengths other than 0 and 3 are errors), ReadSuperBlock
   (the extra metadata is read from the file) and formatNeedleIdCookie (at least one key byte
   is printed: former finding 0, a file id with needle key 0 printed without key digits).
   Known finding (kept in the model as the code is): 1 = LoadTTLFromUint32 decodes integers
   that are not the ToUint32 of any TTL (c08_ttl_u32_refuted / c08_ttl_u32_accept_iff). *)
From Coq Require Import List NArith ZArith Bool.
From SW Require Import model.Needle model.Codecs proof.NeedleProofs proof.CodecsProofs proof.CodecsAccept.
Import ListNotations.
Local Open Scope N_scope.

(* ---------- replica placement: all 27 placements ---------- *)
Theorem c08_rp_string_roundtrip : forall dc rack same, dc <= 2 -> rack <= 2 -> same <= 2 ->
  rp_from_string (rp_string (dc, rack, same)) = Some (dc, rack, same).
Proof. exact rp_string_roundtrip. Qed.
Print Assumptions c08_rp_string_roundtrip.

Theorem c08_rp_byte_roundtrip : forall dc rack same, dc <= 2 -> rack <= 2 -> same <= 2 ->
  rp_from_byte (rp_byte (dc, rack, same)) = Some (dc, rack, same).
Proof. exact rp_byte_roundtrip. Qed.
Print Assumptions c08_rp_byte_roundtrip.

(* every one of the 256 bytes is either rejected or is the byte of the valid placement returned *)
Theorem c08_rp_byte_reject : forall b r, b < 256 -> rp_from_byte b = Some r ->
  rp_valid r = true /\ rp_byte r = b.
Proof. exact rp_byte_reject. Qed.
Print Assumptions c08_rp_byte_reject.

(* strings (repaired code: lengths other than 0 and 3 are errors), FULL statement: an accepted
   string is the empty string (the default placement 000) or exactly the encoding of the valid
   placement returned *)
Theorem c08_rp_string_reject : forall s r, rp_from_string s = Some r ->
  rp_valid r = true /\ ((s = [] /\ r = (0, 0, 0)) \/ rp_string r = s).
Proof. exact rp_string_reject. Qed.
Print Assumptions c08_rp_string_reject.

(* every accepted string consists of the characters '0'..'2' only *)
Theorem c08_rp_string_chars : forall s r, rp_from_string s = Some r -> Forall (fun c => 48 <= c <= 50) s.
Proof. exact rp_string_chars. Qed.
Print Assumptions c08_rp_string_chars.

(* ---------- TTL: all 256 x 256 (count, unit) pairs ---------- *)
Theorem c08_ttl_string_roundtrip : forall c u, c < 256 -> u < 256 ->
  read_ttl (ttl_string (c, u)) = Some (if ttl_canon (c, u) then (c, u) else (0, 0)).
Proof. exact ttl_string_roundtrip. Qed.
Print Assumptions c08_ttl_string_roundtrip.

Theorem c08_ttl_bytes_roundtrip : forall t, load_ttl_bytes (ttl_to_bytes t) = t.
Proof. exact ttl_bytes_roundtrip. Qed.
Print Assumptions c08_ttl_bytes_roundtrip.

Theorem c08_ttl_u32_roundtrip : forall c u, c < 256 -> u < 256 ->
  load_ttl_u32 (ttl_to_u32 (c, u)) = if c =? 0 then (0, 0) else (c, u).
Proof. exact ttl_u32_roundtrip. Qed.
Print Assumptions c08_ttl_u32_roundtrip.

(* TTL integers, decoder side.  "Every integer that is not an encoding is rejected" is FALSE
   (LoadTTLFromUint32 has no error path and reads the low 16 bits only): finding 1 *)
Theorem c08_ttl_u32_refuted : exists x, x < 2 ^ 32 /\ ttl_to_u32 (load_ttl_u32 x) <> x /\ load_ttl_u32 x = (5, 1).
Proof. exact ttl_u32_refuted. Qed.
Print Assumptions c08_ttl_u32_refuted.

(* the trigger is exact: an integer decodes to a TTL that encodes to it again iff it is outside
   trig_ttl_u32, i.e. below 2^16 and either 0 or with a non-zero count byte *)
Theorem c08_ttl_u32_accept_iff : forall x, ttl_to_u32 (load_ttl_u32 x) = x <-> trig_ttl_u32 x = false.
Proof. exact ttl_u32_accept_iff. Qed.
Print Assumptions c08_ttl_u32_accept_iff.

(* TTL bytes, decoder side: every two bytes are the encoding of exactly the (count, unit) read,
   unknown units included - there is nothing to reject *)
Theorem c08_ttl_bytes_accept_all : forall a b, ttl_to_bytes (load_ttl_bytes [a; b]) = [a; b].
Proof. exact ttl_bytes_accept_all. Qed.
Print Assumptions c08_ttl_bytes_accept_all.

(* rejection (repaired code): an accepted TTL string denotes exactly the TTL returned — the
   count is the integer written, without wrap-around, and the unit letter is known *)
Theorem c08_ttl_reject : forall s c u, s <> [] -> read_ttl s = Some (c, u) ->
  atoi (fst (ttl_split s)) = Some (Z.of_N c) /\ c <= 255 /\
  u = to_stored_byte (snd (ttl_split s)) /\ 1 <= u <= 6.
Proof. exact read_ttl_sound. Qed.
Print Assumptions c08_ttl_reject.

(* ---------- volume id ---------- *)
Theorem c08_volume_id_roundtrip : forall v, v < 2 ^ 32 -> new_volume_id (vid_string v) = Some v.
Proof. exact volume_id_roundtrip. Qed.
Print Assumptions c08_volume_id_roundtrip.

(* rejection (repaired code): an accepted string is a decimal numeral of exactly the id returned *)
Theorem c08_volume_id_reject : forall s v, new_volume_id s = Some v ->
  s <> [] /\ dec_val s 0 = Some v /\ v < 2 ^ 32.
Proof. exact volume_id_reject. Qed.
Print Assumptions c08_volume_id_reject.

(* ---------- file ids ---------- *)
(* FULL statement: every volume, key (0 included) and cookie.  formatNeedleIdCookie is modelled as
   repaired in the working tree (it keeps at least one key byte); on the unrepaired code key 0
   printed as the 8 cookie digits only, which ParseFileIdFromString / ParsePath reject. *)
Theorem c08_file_id_roundtrip : forall vid key cookie, vid < 2 ^ 32 -> key < 2 ^ 64 ->
  cookie < 2 ^ 32 -> parse_file_id (fid_string vid key cookie) = Some (vid, key, cookie).
Proof. exact file_id_roundtrip. Qed.
Print Assumptions c08_file_id_roundtrip.

Theorem c08_parse_path_roundtrip : forall key cookie, key < 2 ^ 64 -> cookie < 2 ^ 32 ->
  parse_path (format_key_cookie key cookie) = Some (key, cookie).
Proof. exact parse_path_plain. Qed.
Print Assumptions c08_parse_path_roundtrip.

Theorem c08_parse_path_delta : forall key cookie d, key < 2 ^ 64 -> cookie < 2 ^ 32 ->
  d < 2 ^ 64 ->
  parse_path (format_key_cookie key cookie ++ [95] ++ itoa d) =
    Some ((key + d) mod 18446744073709551616, cookie).
Proof. exact parse_path_delta. Qed.
Print Assumptions c08_parse_path_delta.

(* the former witness of finding 0, for every volume and cookie *)
Theorem c08_file_id_key0_roundtrip : forall vid cookie, vid < 2 ^ 32 -> cookie < 2 ^ 32 ->
  parse_file_id (fid_string vid 0 cookie) = Some (vid, 0, cookie).
Proof. exact file_id_key0. Qed.
Print Assumptions c08_file_id_key0_roundtrip.

(* what is printed always has a key part: 10..24 characters, inside what ParseNeedleIdCookie accepts *)
Theorem c08_key_cookie_length : forall key cookie, 10 <= len (format_key_cookie key cookie) <= 24.
Proof. exact len_format_range. Qed.
Print Assumptions c08_key_cookie_length.

(* rejection: an accepted key/cookie string has 9..24 characters, all hexadecimal, and key and
   cookie are the values of its two parts (the cookie is the last 8 characters) *)
Theorem c08_key_cookie_reject : forall s key cookie, parse_key_cookie s = Some (key, cookie) ->
  8 < len s <= 24 /\ hex_val (takeN (len s - 8) s) 0 = Some key /\ key < 2 ^ 64 /\
  hex_val (dropN (len s - 8) s) 0 = Some cookie /\ cookie < 2 ^ 32.
Proof. exact parse_key_cookie_sound. Qed.
Print Assumptions c08_key_cookie_reject.

(* ParseFileIdFromString as a whole: split at the FIRST comma; a non-empty decimal volume id
   below 2^32 before it, an accepted key/cookie string after it *)
Theorem c08_file_id_reject : forall s vid key cookie, parse_file_id s = Some (vid, key, cookie) ->
  exists vs ks, s = vs ++ 44 :: ks /\ ~ In 44 vs /\ vs <> [] /\ dec_val vs 0 = Some vid /\ vid < 2 ^ 32 /\
                parse_key_cookie ks = Some (key, cookie).
Proof. exact parse_file_id_sound. Qed.
Print Assumptions c08_file_id_reject.

(* Needle.ParsePath as a whole: an accepted key/cookie string, or one followed by the LAST
   underscore and a delta that is empty (ignored) or a decimal number below 2^64, added to the
   key modulo 2^64; anything else (bad, signed or overflowing delta) is an error *)
Theorem c08_parse_path_reject : forall s k ck, parse_path s = Some (k, ck) ->
  8 < len s /\
  (parse_key_cookie s = Some (k, ck) \/
   exists f d k0, s = f ++ 95 :: d /\ f <> [] /\ ~ In 95 d /\ parse_key_cookie f = Some (k0, ck) /\
     ((d = [] /\ k = k0) \/
      (d <> [] /\ exists dv, dec_val d 0 = Some dv /\ dv < 2 ^ 64 /\ k = (k0 + dv) mod 18446744073709551616))).
Proof. exact parse_path_sound. Qed.
Print Assumptions c08_parse_path_reject.

(* ---------- super block ---------- *)
(* FULL round trip (repaired code: the extra bytes are read from the file), with or without
   extra metadata, whatever follows the super block in the file.  [pb] is the protobuf oracle
   (Marshal after Unmarshal); its only hypothesis is the round-trip law on the bytes that
   proto.Marshal produced for this super block. *)
Theorem c08_superblock_roundtrip : forall pb s tail, sb_ok s -> len (sb_extra s) < 65536 ->
  (sb_has_extra s = true -> pb (sb_extra s) = Some (sb_extra s)) ->
  sb_read pb (sb_bytes s ++ tail) = Some s.
Proof. exact sb_roundtrip. Qed.
Print Assumptions c08_superblock_roundtrip.

(* the same for exactly the super blocks Bytes() can write: Bytes() is a glog.Fatalf when the
   marshalled extra is longer than 256*256-2 = 65534 bytes (sb_bytes_checked = None) *)
Theorem c08_superblock_roundtrip_checked : forall pb s b tail, sb_ok s -> sb_bytes_checked s = Some b ->
  (sb_has_extra s = true -> pb (sb_extra s) = Some (sb_extra s)) ->
  sb_read pb (b ++ tail) = Some s.
Proof. exact sb_roundtrip_checked. Qed.
Print Assumptions c08_superblock_roundtrip_checked.

Theorem c08_superblock_bytes_fatal : forall s, sb_bytes_checked s = None <-> 65534 < len (sb_extra s).
Proof. exact sb_bytes_checked_none. Qed.
Print Assumptions c08_superblock_bytes_fatal.

(* rejection: whatever ReadSuperBlock accepts is the super block the header bytes denote; a
   truncated extra or one that protobuf rejects is an error *)
Theorem c08_superblock_reject : forall pb file s, sb_read pb file = Some s ->
  8 <= len file /\ rp_from_byte (nth 1 file 0) = Some (sb_rp s) /\
  sb_version s = nth 0 file 0 /\ sb_ttl s = (nth 2 file 0, nth 3 file 0) /\
  sb_compaction s = be_decode (takeN 2 (dropN 4 file)) /\
  let extra_size := be_decode (takeN 2 (dropN 6 file)) in
  (if 0 <? extra_size
   then len (takeN extra_size (dropN 8 file)) = extra_size /\ pb (takeN extra_size (dropN 8 file)) = Some (sb_extra s)
   else sb_extra s = []).
Proof. exact sb_read_sound. Qed.
Print Assumptions c08_superblock_reject.

(* ... and that is ALL it checks: the exact set of accepted files.  The version byte and the two
   TTL bytes are unconstrained (every value decodes to itself) *)
Theorem c08_superblock_accept_iff : forall pb file s, sb_read pb file = Some s <->
  (8 <= len file /\ rp_from_byte (nth 1 file 0) = Some (sb_rp s) /\
   sb_version s = nth 0 file 0 /\ sb_ttl s = (nth 2 file 0, nth 3 file 0) /\
   sb_compaction s = be_decode (takeN 2 (dropN 4 file)) /\
   let extra_size := be_decode (takeN 2 (dropN 6 file)) in
   (if 0 <? extra_size
    then len (takeN extra_size (dropN 8 file)) = extra_size /\ pb (takeN extra_size (dropN 8 file)) = Some (sb_extra s)
    else sb_extra s = [])).
Proof. exact sb_read_iff. Qed.
Print Assumptions c08_superblock_accept_iff.

Theorem c08_superblock_any_version : forall pb v c u,
  sb_read pb [v; 0; c; u; 0; 0; 0; 0] =
    Some {| sb_version := v; sb_rp := (0, 0, 0); sb_ttl := (c, u); sb_compaction := 0; sb_extra := [] |}.
Proof. exact sb_read_any_version. Qed.
Print Assumptions c08_superblock_any_version.

(* ---------- index entries ---------- *)
Theorem c08_idx_roundtrip : forall key off size, key < 2 ^ 64 -> off < 2 ^ 32 ->
  (- 2147483648 <= size < 2147483648)%Z ->
  idx_parse (idx_bytes key off size) = (key, off, size) /\ len (idx_bytes key off size) = 16.
Proof. exact idx_roundtrip. Qed.
Print Assumptions c08_idx_roundtrip.

Theorem c08_offset_roundtrip : forall a, a mod 8 = 0 -> a < 34359738368 ->
  to_actual_offset (to_offset a) = a.
Proof. exact offset_roundtrip. Qed.
Print Assumptions c08_offset_roundtrip.

(* both offset widths (osz = types.OffsetSize: 4, or 5 with -tags 5BytesOffset) *)
Theorem c08_idx_roundtrip_w : forall osz key off size, osz = 4 \/ osz = 5 -> key < 2 ^ 64 -> off < off_limit osz ->
  (- 2147483648 <= size < 2147483648)%Z ->
  idx_parse_w osz (idx_bytes_w osz key off size) = (key, off, size) /\
  len (idx_bytes_w osz key off size) = 12 + osz.
Proof. exact idx_roundtrip_w. Qed.
Print Assumptions c08_idx_roundtrip_w.

Theorem c08_idx_bytes_w4 : forall key off size, off < 2 ^ 32 -> idx_bytes_w 4 key off size = idx_bytes key off size.
Proof. exact idx_bytes_w4. Qed.
Print Assumptions c08_idx_bytes_w4.

(* exact: an actual offset survives ToOffset / ToActualOffset iff it is a multiple of 8 below
   MaxPossibleVolumeSize (32 GiB, 8 TiB with 5 bytes); beyond it wraps silently *)
Theorem c08_offset_roundtrip_iff : forall osz a, osz = 4 \/ osz = 5 ->
  (to_actual_offset (to_offset_w osz a) = a <-> a mod 8 = 0 /\ a < max_volume_size osz).
Proof. exact offset_roundtrip_iff. Qed.
Print Assumptions c08_offset_roundtrip_iff.

(* ---------- concrete rejections (the repaired defects among them) and non-vacuity ---------- *)
Example c08_reject_examples :
  read_ttl [51; 48; 48; 109] = None            (* "300m" *)
  /\ read_ttl [53; 120] = None                 (* "5x" *)
  /\ read_ttl [45; 53; 109] = None             (* "-5m" *)
  /\ read_ttl [50; 53; 54; 104] = None         (* "256h" *)
  /\ read_ttl [109] = None                     (* "m" *)
  /\ new_volume_id [52; 50; 57; 52; 57; 54; 55; 50; 57; 55] = None   (* "4294967297" *)
  /\ new_volume_id [] = None
  /\ parse_file_id [51; 44; 48; 49; 54; 51; 55; 48; 51; 122; 100; 54] = None  (* "3,0163703zd6" *)
  /\ rp_from_string [48; 48; 51] = None        (* "003" *)
  /\ rp_from_string [49] = None                (* "1" *)
  /\ rp_from_string [48; 48; 49; 49] = None    (* "0011" *)
  /\ rp_from_byte 3 = None /\ rp_from_byte 255 = None.
Proof. exact reject_examples. Qed.
Print Assumptions c08_reject_examples.

Example c08_example :
  fid_string 3 1 1668298710 = [51; 44; 48; 49; 54; 51; 55; 48; 51; 55; 100; 54]   (* "3,01637037d6" *)
  /\ parse_file_id [51; 44; 48; 49; 54; 51; 55; 48; 51; 55; 100; 54] = Some (3, 1, 1668298710)
  /\ read_ttl [49; 53; 100] = Some (15, 3) /\ ttl_string (15, 3) = [49; 53; 100]     (* "15d" *)
  /\ sb_read (fun b => Some b)
       (sb_bytes {| sb_version := 3; sb_rp := (0, 1, 2); sb_ttl := (15, 3); sb_compaction := 7; sb_extra := [10; 9; 8] |} ++ [1; 2])
     = Some {| sb_version := 3; sb_rp := (0, 1, 2); sb_ttl := (15, 3); sb_compaction := 7; sb_extra := [10; 9; 8] |}
  /\ sb_read (fun b => Some b) [3; 12; 15; 3; 0; 7; 0; 3; 10; 9] = None      (* truncated extra *)
  /\ idx_parse (idx_bytes 5 9 (-1)) = (5, 9, (-1)%Z).
Proof. exact example_ok. Qed.
Print Assumptions c08_example.

(* the findings, the acceptance theorems and the 5-byte definitions on concrete inputs *)
Example c08_example_more :
  fid_string 3 0 1668298710 = [51; 44; 48; 48; 54; 51; 55; 48; 51; 55; 100; 54]   (* "3,00637037d6": key 0 keeps one key byte (repaired) *)
  /\ parse_file_id [51; 44; 48; 48; 54; 51; 55; 48; 51; 55; 100; 54] = Some (3, 0, 1668298710)
  /\ parse_file_id [51; 44; 54; 51; 55; 48; 51; 55; 100; 54] = None                   (* "3,637037d6", what the unrepaired code printed *)
  /\ format_key_cookie 0 0 = [48; 48; 48; 48; 48; 48; 48; 48; 48; 48]
  /\ parse_path [48; 48; 48; 48; 48; 48; 48; 48; 48; 48] = Some (0, 0)
  /\ parse_path [48; 49; 54; 51; 55; 48; 51; 55; 100; 54; 95; 50] = Some (3, 1668298710)       (* "01637037d6_2" *)
  /\ parse_path [48; 49; 54; 51; 55; 48; 51; 55; 100; 54; 95] = Some (1, 1668298710)           (* "01637037d6_" *)
  /\ parse_path [48; 49; 54; 51; 55; 48; 51; 55; 100; 54; 95; 43; 49] = None                   (* "01637037d6_+1" *)
  /\ parse_file_id [51; 44; 44; 48; 49; 54; 51; 55; 48; 51; 55; 100; 54] = None                (* "3,,01637037d6" *)
  /\ load_ttl_u32 66817 = (5, 1) /\ ttl_to_u32 (5, 1) = 1281 /\ trig_ttl_u32 66817 = true      (* 0x10501 *)
  /\ load_ttl_u32 5 = (0, 5) /\ ttl_to_u32 (0, 5) = 0 /\ trig_ttl_u32 5 = true
  /\ trig_ttl_u32 1281 = false /\ trig_ttl_u32 0 = false
  /\ load_ttl_bytes [5; 9] = (5, 9) /\ ttl_string (5, 9) = []                                 (* unknown unit: prints as "" *)
  /\ sb_bytes_checked {| sb_version := 3; sb_rp := (0, 1, 2); sb_ttl := (15, 3); sb_compaction := 7; sb_extra := [10; 9; 8] |}
     = Some [3; 12; 15; 3; 0; 7; 0; 3; 10; 9; 8]
  /\ idx_parse_w 5 (idx_bytes_w 5 5 1099511627775 (-1)) = (5, 1099511627775, (-1)%Z)
  /\ idx_bytes_w 5 5 4294967297 7 = [0; 0; 0; 0; 0; 0; 0; 5; 0; 0; 0; 1; 1; 0; 0; 0; 7]
  /\ to_actual_offset (to_offset_w 5 34359738368) = 34359738368                              (* 32 GiB fits in 5 bytes *)
  /\ to_actual_offset (to_offset_w 4 34359738368) = 0                                        (* and wraps in 4 *)
  /\ to_actual_offset (to_offset_w 5 8796093022208) = 0.                                     (* 8 TiB wraps in 5 *)
Proof. exact example_more. Qed.
Print Assumptions c08_example_more.
