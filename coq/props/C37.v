(* C37 — Incremental volume backup converges to the source.
   Only statements closed by [exact]; proofs live in proof/BackupProofs.v. *)
From Coq Require Import List NArith Bool Sorted.
From SW Require Import model.Backup proof.BackupProofs.
Import ListNotations.
Local Open Scope N_scope.

(* Key lemma (full): if every source record from index position j on is newer than
   [since], BinarySearchByAppendAtNs never starts after j, and it answers "nothing
   newer" only when j is the end of the index.  No assumption on the order of the
   timestamps before j (the key-ordered region a compaction leaves). *)
Theorem c37_search_not_late : forall (l : list rec) since j,
  (j <= length l)%nat ->
  (forall r, In r (skipn j l) -> since < r_ts r) ->
  match binary_search_by_append_ns l since with
  | Some p => (p <= j)%nat /\ (p < length l)%nat
  | None => j = length l
  end.
Proof. exact search_not_late. Qed.
Print Assumptions c37_search_not_late.

(* (full) on ANY index the search stops at a tested boundary: the entry it starts at
   is newer than [since], the entry before it is not — which is all a binary search
   over non-monotone timestamps guarantees. *)
Theorem c37_search_boundary : forall (l : list rec) since,
  let ts := map r_ts l in
  match binary_search_by_append_ns l since with
  | Some p => (p < length l)%nat /\ since < nth p ts 0 /\ (p = 0%nat \/ nth (p - 1) ts 0 <= since)
  | None => l = [] \/ nth (length l - 1) ts 0 <= since
  end.
Proof. exact search_boundary. Qed.
Print Assumptions c37_search_boundary.

(* (full) re-appending records the backup already reflects leaves every read
   unchanged: copying from too early a position is harmless. *)
Theorem c37_replay_idempotent : forall bkv srcv n,
  (forall k, live_lookup (recs bkv) k = live_lookup (recs srcv) k) ->
  forall k, read {| recs := recs bkv ++ skipn n (recs srcv); rev := rev bkv |} k = read srcv k.
Proof. exact replay_idempotent_reads. Qed.
Print Assumptions c37_replay_idempotent.

(* (full) the compaction semantics used here: the compacted index is strictly
   key-ordered, holds only live entries, and serves the same blobs. *)
Theorem c37_compaction_key_ordered : forall l,
  StronglySorted key_lt (compact l) /\ (forall r, In r (compact l) -> r_live r = true).
Proof. exact compact_sorted_live. Qed.
Print Assumptions c37_compaction_key_ordered.

Theorem c37_compaction_preserves_reads : forall l k, live_lookup (compact l) k = live_lookup l k.
Proof. exact live_lookup_compact. Qed.
Print Assumptions c37_compaction_preserves_reads.

(* The property at full strength — for EVERY history of writes, deletes, source
   compactions and backup runs, after a backup run the backup serves what the source
   serves — is false for the code as it is: *)
Theorem c37_converges_refuted : exists h k,
  hist_ok h = true /\
  read (bk (exec init (h ++ [Backup]))) k <> read (src (exec init (h ++ [Backup]))) k.
Proof. exact converges_refuted. Qed.
Print Assumptions c37_converges_refuted.

(* ... and repeating the backup does not help: after the witness history
   [Write 3; Backup; Write 1; Compact] key 1 is missing on the backup after ANY
   number of further runs. *)
Theorem c37_never_recovers : forall n,
  read (bk (exec init (witness_history ++ Backup :: repeat Backup n))) 1 = None /\
  read (src (exec init (witness_history ++ Backup :: repeat Backup n))) 1 = Some (2, 8).
Proof. exact never_recovers. Qed.
Print Assumptions c37_never_recovers.

(* The strongest true statement: for every history in which no source compaction
   happens while the source holds a write or delete the backup has not pulled
   (decidable: [trig_compacted_before_pull h = false]), after every backup run the
   backup serves exactly the source's live blobs. *)
Theorem c37_converges_partial : forall h,
  trig_compacted_before_pull h = false ->
  forall k, read (bk (exec init (h ++ [Backup]))) k = read (src (exec init (h ++ [Backup]))) k.
Proof. exact (fun h H => converges_if_pulled h (proj1 (negb_false_iff _) H)). Qed.
Print Assumptions c37_converges_partial.

(* non-vacuity: a history with overwrites, deletes, two compactions (each preceded by
   a pull), a destroy-and-full-copy and repeated runs satisfies the hypothesis and
   ends with a non-empty, equal pair of volumes *)
Example c37_example :
  let h := [Write 2 1 8; Write 1 1 300; Backup; Write 1 2 17; Delete 2; Write 3 0 3; Backup; Compact;
            Write 2 3 40; Backup; Backup; Compact; Compact; Write 1 0 1] in
  trig_compacted_before_pull h = false /\ hist_ok h = true /\
  map (read (bk (exec init (h ++ [Backup])))) [1; 2; 3; 4] = [Some (0, 1); Some (3, 40); Some (0, 3); None] /\
  map (read (src (exec init (h ++ [Backup])))) [1; 2; 3; 4] = [Some (0, 1); Some (3, 40); Some (0, 3); None].
Proof. vm_compute. repeat split. Qed.
