(* C37 — Incremental volume backup converges to the source.
   Only statements closed by [exact]; proofs live in proof/BackupProofs.v. *)
From Coq Require Import List NArith Bool Sorted.
From SW Require Import model.Backup proof.BackupProofs.
Import ListNotations.
Local Open Scope N_scope.

(* Key lemma (full): if every source record from index position j on is newer than
   [since], BinarySearchByAppendAtNs never starts after j, and it answers "nothing
   newer" only when j is the end of the index.  No assumption on the order of the
   timestamps before j (the key-ordered region a compaction leaves). *)
Theorem c37_search_not_late : forall (l : list rec) since j,
  (j <= length l)%nat ->
  (forall r, In r (skipn j l) -> since < r_ts r) ->
  match binary_search_by_append_ns l since with
  | Some p => (p <= j)%nat /\ (p < length l)%nat
  | None => j = length l
  end.
Proof. exact search_not_late. Qed.
Print Assumptions c37_search_not_late.

(* (full) on ANY index the search stops at a tested boundary: the entry it starts at
   is newer than [since], the entry before it is not — which is all a binary search
   over non-monotone timestamps guarantees. *)
Theorem c37_search_boundary : forall (l : list rec) since,
  let ts := map r_ts l in
  match binary_search_by_append_ns l since with
  | Some p => (p < length l)%nat /\ since < nth p ts 0 /\ (p = 0%nat \/ nth (p - 1) ts 0 <= since)
  | None => l = [] \/ nth (length l - 1) ts 0 <= since
  end.
Proof. exact search_boundary. Qed.
Print Assumptions c37_search_boundary.

(* (full) re-appending records the backup already reflects leaves every read
   unchanged: copying from too early a position is harmless. *)
Theorem c37_replay_idempotent : forall bkv srcv n,
  (forall k, live_lookup (recs bkv) k = live_lookup (recs srcv) k) ->
  forall k, read {| recs := recs bkv ++ skipn n (recs srcv); rev := rev bkv |} k = read srcv k.
Proof. exact replay_idempotent_reads. Qed.
Print Assumptions c37_replay_idempotent.

(* (full) the compaction semantics used here: the compacted index is strictly
   key-ordered, holds only live entries, and serves the same blobs. *)
Theorem c37_compaction_key_ordered : forall l,
  StronglySorted key_lt (compact l) /\ (forall r, In r (compact l) -> r_live r = true).
Proof. exact compact_sorted_live. Qed.
Print Assumptions c37_compaction_key_ordered.

Theorem c37_compaction_preserves_reads : forall l k, live_lookup (compact l) k = live_lookup l k.
Proof. exact live_lookup_compact. Qed.
Print Assumptions c37_compaction_preserves_reads.

(* (full) the .idx observable of the check: idx entry i of a volume carries key and Size
   of .dat record i and its offset leads back to record i — so "the AppendAtNs of idx
   entry m" (readOffsetFromIndex m, readAppendAtNs) is the timestamp of record m, which
   is what find_last_append_ns / binary_search_by_append_ns compute with.  No definition
   of the model takes the NeedleMapper kind as an argument: the entries [idx_of] and the
   answers [read] are what EVERY kind (memory, leveldb, leveldbMedium, leveldbLarge) has
   to produce; the check compares the real .idx of the source after every operation (and
   of the backup after every run) with [idx_of] under each kind. *)
Theorem c37_idx_entry_points_at_record : forall l b i r,
  nth_error l i = Some r ->
  exists off, nth_error (idx_from b l) i = Some (r_key r, off, idx_size r) /\ rec_at_from b l off = Some r.
Proof. exact idx_entry_points_at_record. Qed.
Print Assumptions c37_idx_entry_points_at_record.

Theorem c37_idx_entry_ts : forall v m r,
  nth_error (recs v) m = Some r ->
  exists k off sz, nth_error (idx_of v) m = Some (k, off, sz) /\
                   option_map r_ts (rec_at v off) = Some (nth m (map r_ts (recs v)) 0).
Proof. exact idx_entry_ts. Qed.
Print Assumptions c37_idx_entry_ts.

(* (full) the search's answer is not an artefact of the loop's fuel: any larger fuel
   gives the same position. *)
Theorem c37_search_fuel_irrelevant : forall (l : list rec) since extra,
  let ts := map r_ts l in
  bsearch_loop (S (length ts) + extra) ts since 0 (length ts) = bsearch_loop (S (length ts)) ts since 0 (length ts).
Proof. exact search_fuel_irrelevant. Qed.
Print Assumptions c37_search_fuel_irrelevant.

(* (full) a backup run never invents a record: everything the backup holds afterwards
   was in it before or is a record of the source. *)
Theorem c37_backup_run_subset : forall S B r,
  In r (recs (backup_run S B)) -> In r (recs B) \/ In r (recs S).
Proof. exact backup_run_subset. Qed.
Print Assumptions c37_backup_run_subset.

(* (full) one incremental copy converges from ANY backup state that satisfies the state
   predicate: source = P ++ A, A newer than everything the backup holds, the backup
   serves every key A does not touch as P does — also when the backup is a strict
   superset / re-copies records it already has. *)
Theorem c37_incremental_converges : forall S B P A c,
  recs S = P ++ A ->
  (forall r, In r A -> c < r_ts r) ->
  (forall r, In r (recs B) -> r_ts r <= c) ->
  (forall k, latest A k = None -> live_lookup (recs B) k = live_lookup P k) ->
  forall k, live_lookup (recs (incremental_backup S B)) k = live_lookup (recs S) k.
Proof. exact incremental_converges. Qed.
Print Assumptions c37_incremental_converges.

(* meaning of the decidable state predicate used by the trigger *)
Theorem c37_reflects_sound : forall st, reflects st = true ->
  exists P A, recs (src st) = P ++ A /\
    (forall r, In r A -> maxts (recs (bk st)) < r_ts r) /\
    (forall k, latest A k = None -> live_lookup (recs (bk st)) k = live_lookup P k).
Proof. exact reflects_sound. Qed.
Print Assumptions c37_reflects_sound.

(* The property at full strength — for EVERY history of writes, deletes, source
   compactions and backup runs (clock readings are inputs), after a backup run the
   backup serves what the source serves — is false for the code as it is.
   Finding 0, with strictly increasing clock readings: *)
Theorem c37_converges_refuted : exists h k,
  hist_ok h = true /\ ts_increasing h = true /\ trigger h = Some 0 /\
  read (bk (exec init (h ++ [Backup]))) k <> read (src (exec init (h ++ [Backup]))) k.
Proof. exact converges_refuted. Qed.
Print Assumptions c37_converges_refuted.

(* ... and repeating the backup does not help: after the witness history
   [Write 3; Backup; Write 1; Compact] key 1 is missing on the backup after ANY
   number of further runs. *)
Theorem c37_never_recovers : forall n,
  read (bk (exec init (witness_history ++ Backup :: repeat Backup n))) 1 = None /\
  read (src (exec init (witness_history ++ Backup :: repeat Backup n))) 1 = Some (2, 8).
Proof. exact never_recovers. Qed.
Print Assumptions c37_never_recovers.

(* finding 0, second form: a blob deleted on the source stays served by the backup (the
   compaction dropped the unpulled tombstone; equal .dat sizes, no full copy) *)
Theorem c37_delete_resurrected_refuted :
  hist_ok witness_delete = true /\ ts_increasing witness_delete = true /\ trigger witness_delete = Some 0 /\
  read (bk (exec init (witness_delete ++ [Backup]))) 1 = Some (1, 8) /\
  read (src (exec init (witness_delete ++ [Backup]))) 1 = None.
Proof. exact delete_resurrected. Qed.
Print Assumptions c37_delete_resurrected_refuted.

(* Finding 1, WITHOUT any compaction: the source's clock (time.Now().UnixNano(), stored
   unguarded) reads the same nanosecond as the backup's last record, or steps back:
   the search's [<=] skips the new record, for ever. *)
Theorem c37_equal_ts_refuted :
  hist_ok witness_equal_ts = true /\ pulled_before_each_compaction witness_equal_ts = true /\
  trigger witness_equal_ts = Some 1 /\
  read (bk (exec init (witness_equal_ts ++ [Backup]))) 2 = None /\
  read (src (exec init (witness_equal_ts ++ [Backup]))) 2 = Some (2, 8).
Proof. exact equal_ts_refuted. Qed.
Print Assumptions c37_equal_ts_refuted.

Theorem c37_clock_step_refuted :
  hist_ok witness_clock_step = true /\ pulled_before_each_compaction witness_clock_step = true /\
  trigger witness_clock_step = Some 1 /\
  read (bk (exec init (witness_clock_step ++ [Backup]))) 2 = None /\
  read (src (exec init (witness_clock_step ++ [Backup]))) 2 = Some (2, 8).
Proof. exact clock_step_refuted. Qed.
Print Assumptions c37_clock_step_refuted.

Theorem c37_never_recovers_equal_ts : forall n,
  read (bk (exec init (witness_equal_ts ++ Backup :: repeat Backup n))) 2 = None /\
  read (src (exec init (witness_equal_ts ++ Backup :: repeat Backup n))) 2 = Some (2, 8).
Proof. exact never_recovers_equal_ts. Qed.
Print Assumptions c37_never_recovers_equal_ts.

(* The strongest true statement.  [trigger h] walks the history and answers [Some 0] /
   [Some 1] at the FIRST step that is an instance of a finding: a source compaction
   (0) or an append whose clock reading is not newer than the backup's newest record
   (1) after which the state predicate [reflects] (c37_reflects_sound) no longer
   holds.  For every history without such a step — whatever the clock readings and
   wherever the compactions are — the backup serves exactly the source's live blobs
   after a backup run ... *)
Theorem c37_converges_partial : forall h,
  ts_positive h = true -> trigger h = None ->
  forall k, read (bk (exec init (h ++ [Backup]))) k = read (src (exec init (h ++ [Backup]))) k.
Proof. exact converges_if_no_trigger. Qed.
Print Assumptions c37_converges_partial.

(* ... after EVERY backup run of the history, not only a last one *)
Theorem c37_converges_at_every_run : forall h1 h2,
  ts_positive (h1 ++ Backup :: h2) = true -> trigger (h1 ++ Backup :: h2) = None ->
  forall k, read (bk (exec init (h1 ++ [Backup]))) k = read (src (exec init (h1 ++ [Backup]))) k.
Proof. exact converges_at_every_run. Qed.
Print Assumptions c37_converges_at_every_run.

(* The history-level statement of the first version of this check (clock strictly
   increasing, a backup run before every source compaction) still holds: *)
Theorem c37_converges_if_pulled : forall h,
  ts_increasing h = true -> pulled_before_each_compaction h = true ->
  forall k, read (bk (exec init (h ++ [Backup]))) k = read (src (exec init (h ++ [Backup]))) k.
Proof. exact converges_if_pulled. Qed.
Print Assumptions c37_converges_if_pulled.

(* non-vacuity 1: a history with overwrites, deletes, two compactions (each preceded by
   a pull), repeated runs: both hypotheses hold, non-empty equal volumes *)
Example c37_example : 
  trigger example_history = None /\ hist_ok example_history = true /\
  ts_increasing example_history = true /\ pulled_before_each_compaction example_history = true /\
  map (read (bk (exec init (example_history ++ [Backup])))) [1; 2; 3; 4] = [Some (0, 1); Some (3, 40); Some (0, 3); None] /\
  map (read (src (exec init (example_history ++ [Backup])))) [1; 2; 3; 4] = [Some (0, 1); Some (3, 40); Some (0, 3); None].
Proof. exact example_ok. Qed.
Print Assumptions c37_example.

(* non-vacuity 2: histories OUTSIDE the history-level condition but without a trigger:
   a compaction while dirty that is harmless (the unpulled key is the largest), equal
   clock readings inside the unpulled part, and a run that really re-copies records
   the backup already has (after its local compaction [since] is below its newest
   timestamp) *)
Example c37_example_harmless :
  trigger example_harmless = None /\ hist_ok example_harmless = true /\
  pulled_before_each_compaction example_harmless = false /\ ts_increasing example_harmless = false /\
  (length (recs (bk (exec init (example_harmless ++ [Backup])))) > length (recs (src (exec init (example_harmless ++ [Backup])))))%nat /\
  map (read (bk (exec init (example_harmless ++ [Backup])))) [1; 2; 3; 5; 7] =
  map (read (src (exec init (example_harmless ++ [Backup])))) [1; 2; 3; 5; 7] /\
  map (read (src (exec init (example_harmless ++ [Backup])))) [1; 2; 3; 5; 7] =
  [Some (1, 8); Some (1, 8); Some (1, 8); Some (1, 8); Some (2, 8)].
Proof. exact example_harmless_ok. Qed.
Print Assumptions c37_example_harmless.

(* non-vacuity 3: the run of example 2 left a backup of 9 records for a source of 5 (a
   superset was re-copied); the next run takes the destroy-and-full-copy branch
   ([dat_size bk > dat_size src], equal revisions) and converges with 5 records *)
Example c37_example_destroy :
  trigger example_destroy = None /\ hist_ok example_destroy = true /\
  (let st := exec init example_destroy in
   rev (bk st) <? rev (src st) = false /\ dat_size (src st) <? dat_size (bk st) = true /\
   length (recs (bk st)) = 9%nat /\ length (recs (bk (step st Backup))) = 5%nat) /\
  map (read (bk (exec init (example_destroy ++ [Backup])))) [1; 2; 3; 5; 7] =
  [Some (1, 8); Some (1, 8); Some (1, 8); Some (1, 8); Some (2, 8)] /\
  map (read (src (exec init (example_destroy ++ [Backup])))) [1; 2; 3; 5; 7] =
  [Some (1, 8); Some (1, 8); Some (1, 8); Some (1, 8); Some (2, 8)].
Proof. exact example_destroy_ok. Qed.
Print Assumptions c37_example_destroy.
