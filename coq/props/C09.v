(* C09 — TTL data lives exactly as long as promised.
   Only statements closed by [exact]; proofs live in proof/TtlProofs.v.
   Time: [now] is time.Now() in nanoseconds; second-granular clock reads are now / NS. *)
From Coq Require Import List NArith ZArith Bool String.
From SW Require Import model.Ttl model.TtlHist proof.TtlProofs proof.TtlFilerProofs proof.TtlHistProofs.
Import ListNotations.
Local Open Scope N_scope.

(* ---------------- the read window (full) ---------------- *)

(* A stored blob whose record has the TTL flag, a TTL of m > 0 minutes and the
   last-modified flag is returned by a read iff now < AppendAtNs + m minutes: the base
   is the record's append timestamp (not LastModified), the span is the NEEDLE's TTL. *)
Theorem c09_read_window : forall now n, expiring n = true ->
  (read_visible now n = true <-> now < append_at_ns n + minutes (n_ttl n) * 60000000000).
Proof. exact read_window. Qed.
Print Assumptions c09_read_window.

(* Every other record is always readable (no TTL flag, a TTL of zero minutes, or no
   last-modified flag). *)
Theorem c09_read_never_expires : forall now n, expiring n = false -> read_visible now n = true.
Proof. exact read_never_expires. Qed.
Print Assumptions c09_read_never_expires.

(* For every upload through CreateNeedleFromRequest + writeNeedle2 (any ttl=, any ts=,
   any volume TTL) that ends up with a TTL of m > 0 minutes: readable exactly during
   the m minutes after the append. *)
Theorem c09_read_window_upload : forall u now,
  has_ttl (stored_of u) = true -> 0 < minutes (n_ttl (stored_of u)) ->
  (read_visible now (stored_of u) = true <->
   now < u_append_ns u + minutes (n_ttl (stored_of u)) * 60000000000).
Proof. exact read_window_upload. Qed.
Print Assumptions c09_read_window_upload.

Theorem c09_read_expiry_monotone : forall now now' n, now <= now' ->
  read_visible now n = false -> read_visible now' n = false.
Proof. exact read_expiry_monotone. Qed.
Print Assumptions c09_read_expiry_monotone.

(* ---------------- not removed early: refuted in full, exact partial ---------------- *)

(* The full statement "whenever a read still returns the blob, compaction keeps it and
   the heartbeat does not delete its volume" fails for uploads with ordered clocks:
   1d blob in a 1h volume (dropped by compaction AND deleted with its volume), 1d blob
   in a volume without TTL, a blob inheriting 137y (uint32 wrap of minutes*60), ts= one
   day old, an upload that took 10 s, an old ts= into a volume loaded 67 min earlier. *)
Theorem c09_not_removed_early_refuted :
  (exists now, upload_ordered w_longer_ttl = true /\ read_visible now (stored_of w_longer_ttl) = true /\
     compaction_keeps (now / NS) (read_ttl (u_vttl w_longer_ttl)) (stored_of w_longer_ttl) = false /\
     volume_deleted (now / NS) (volume_of w_longer_ttl) = true) /\
  (exists now, upload_ordered w_no_volume_ttl = true /\ read_visible now (stored_of w_no_volume_ttl) = true /\
     compaction_keeps (now / NS) (read_ttl (u_vttl w_no_volume_ttl)) (stored_of w_no_volume_ttl) = false) /\
  (exists now, upload_ordered w_span_wrap = true /\ read_visible now (stored_of w_span_wrap) = true /\
     compaction_keeps (now / NS) (read_ttl (u_vttl w_span_wrap)) (stored_of w_span_wrap) = false) /\
  (exists now, upload_ordered w_old_ts = true /\ read_visible now (stored_of w_old_ts) = true /\
     compaction_keeps (now / NS) (read_ttl (u_vttl w_old_ts)) (stored_of w_old_ts) = false) /\
  (exists now, upload_ordered w_slow_upload = true /\ read_visible now (stored_of w_slow_upload) = true /\
     compaction_keeps (now / NS) (read_ttl (u_vttl w_slow_upload)) (stored_of w_slow_upload) = false) /\
  (exists now, upload_ordered w_stale_stamp = true /\ read_visible now (stored_of w_stale_stamp) = true /\
     volume_deleted (now / NS) (volume_of w_stale_stamp) = true).
Proof. exact not_removed_early_refuted. Qed.
Print Assumptions c09_not_removed_early_refuted.

(* The strongest true statement: for every upload outside the decidable trigger set,
   at every instant, a readable blob is kept by compaction and its volume is not
   deleted -- and the trigger set is exact (outside it the statement holds at all
   times, inside it some instant violates it). *)
Theorem c09_not_removed_early_partial : forall u, upload_trigger u = false ->
  forall now, read_visible now (stored_of u) = true ->
    compaction_keeps (now / NS) (read_ttl (u_vttl u)) (stored_of u) = true /\
    volume_deleted (now / NS) (volume_of u) = false.
Proof. exact not_removed_early_partial. Qed.
Print Assumptions c09_not_removed_early_partial.

Theorem c09_not_removed_early_exact : forall u,
  (forall now, not_removed_early_at u now) <-> upload_trigger u = false.
Proof. exact not_removed_early_exact. Qed.
Print Assumptions c09_not_removed_early_exact.

(* The same per stored record, for ANY record and volume (not only HTTP uploads). *)
Theorem c09_compaction_early_iff : forall vttl n,
  (exists now, read_visible now n = true /\ compaction_keeps (now / NS) vttl n = false)
  <-> compaction_early vttl n = true.
Proof. exact compaction_early_iff. Qed.
Print Assumptions c09_compaction_early_iff.

Theorem c09_expiry_early_iff : forall v n,
  (exists now, read_visible now n = true /\ volume_deleted (now / NS) v = true)
  <-> expiry_early v n = true.
Proof. exact expiry_early_iff. Qed.
Print Assumptions c09_expiry_early_iff.

(* Why compaction can be early: only through a volume span shorter than the needle's
   TTL (other TTL, no volume TTL, uint32 wrap, a TTL flag that never expires on read)
   or a LastModified earlier than AppendAtNs (ts=, or time spent between parsing and
   appending). *)
Theorem c09_compaction_early_causes : forall vttl n,
  compaction_early vttl n = true -> early_by_ttl vttl n = true \/ early_by_stamp n = true.
Proof. exact compaction_early_causes. Qed.
Print Assumptions c09_compaction_early_causes.

(* With a volume span at least the needle's TTL, compaction is early by at most the
   distance between LastModified and AppendAtNs. *)
Theorem c09_compaction_early_bound : forall vttl n k now_s now,
  expiring n = true ->
  minutes (n_ttl n) * 60 <= volume_span_s vttl ->
  append_at_ns n <= (last_modified n + k) * NS ->
  compaction_keeps now_s vttl n = false ->
  (now_s + k) * NS <= now ->
  read_visible now n = false.
Proof. exact compaction_early_bound. Qed.
Print Assumptions c09_compaction_early_bound.

(* Volume expiry is safe when the needle's TTL is not longer than the volume's and the
   volume's stamp is at most 60 s older than the append. *)
Theorem c09_expiry_safe_sufficient : forall v n,
  expiring n = true ->
  minutes (n_ttl n) <= minutes (v_ttl v) ->
  append_at_ns n <= (v_last_mod v + 60) * NS ->
  expiry_early v n = false.
Proof. exact expiry_safe_sufficient. Qed.
Print Assumptions c09_expiry_safe_sufficient.

(* A readable sufficient condition for the partial statement. *)
Theorem c09_not_removed_early_sufficient : forall u,
  u_ts u = 0 ->
  (u_req_ttl u = EmptyString \/ u_req_ttl u = u_vttl u) ->
  (u_vttl u = EmptyString \/ 0 < minutes (read_ttl (u_vttl u))) ->
  minutes (read_ttl (u_vttl u)) * 60 < 2^32 ->
  u_parse_s u < 2^40 ->
  u_append_ns u = u_parse_s u * NS ->
  upload_trigger u = false.
Proof. exact upload_safe_sufficient. Qed.
Print Assumptions c09_not_removed_early_sufficient.

(* non-vacuity: a 3-day blob inheriting its volume's TTL satisfies the hypotheses, is
   readable two days later, kept by compaction then, and gone after three days *)
Example c09_not_removed_early_example :
  let u := {| u_vttl := "3d"; u_req_ttl := ""; u_ts := 0; u_t0_s := T0; u_parse_s := T0 + 5;
              u_append_ns := (T0 + 5) * NS; u_size := 4096; u_limit := 2^30; u_io_error := false |} in
  upload_ordered u = true /\ upload_trigger u = false /\ expiring (stored_of u) = true /\
  read_visible ((T0 + 2 * 86400) * NS) (stored_of u) = true /\
  compaction_keeps (T0 + 2 * 86400) (read_ttl "3d") (stored_of u) = true /\
  read_visible ((T0 + 5 + 3 * 86400) * NS) (stored_of u) = false /\
  volume_deleted (T0 + 4 * 86400) (volume_of u) = true.
Proof. exact not_removed_early_example. Qed.
Print Assumptions c09_not_removed_early_example.

(* Many uploads into one volume (stamp = the largest LastModified written): outside the
   per-needle trigger (the exact sets of the two iff theorems below, evaluated for every
   stored needle) no readable needle is dropped by compaction and the volume is not
   deleted; inside it some needle is removed while readable.  The check uses the same
   per-needle predicates. *)
Theorem c09_volume_not_removed_early_partial : forall vttl t0 size limit ioerr us,
  let v := volume_of_uploads vttl t0 size limit ioerr us in
  uploads_trigger vttl v us = false ->
  forall u now, In u us -> read_visible now (stored_of u) = true ->
    compaction_keeps (now / NS) (read_ttl vttl) (stored_of u) = true /\
    volume_deleted (now / NS) v = false.
Proof. exact volume_not_removed_early_partial. Qed.
Print Assumptions c09_volume_not_removed_early_partial.

Theorem c09_volume_removed_early_in_trigger : forall vttl v us,
  uploads_trigger vttl v us = true ->
  exists u now, In u us /\ read_visible now (stored_of u) = true /\
    (compaction_keeps (now / NS) (read_ttl vttl) (stored_of u) = false \/ volume_deleted (now / NS) v = true).
Proof. exact volume_removed_early_in_trigger. Qed.
Print Assumptions c09_volume_removed_early_in_trigger.

(* ---------------- filer TtlSec -> volume TTL ---------------- *)

(* Full statement "for all s > 0 the chosen volume TTL covers s" is false: 90 -> 1m. *)
Theorem c09_filer_ttl_covers_refuted :
  exists s, (0 < s < 2^31)%Z /\ ttl_covers (filer_volume_ttl s) s = false /\
            (60 * Z.of_N (minutes (filer_volume_ttl s)) < s)%Z.
Proof. exact filer_covers_refuted. Qed.
Print Assumptions c09_filer_ttl_covers_refuted.

(* Partial: every byte count of every unit is mapped to exactly itself. *)
Theorem c09_filer_ttl_covers_partial : forall U c,
  In U [SEC_YEAR; SEC_MONTH; SEC_WEEK; SEC_DAY; SEC_HOUR; SEC_MINUTE] ->
  (1 <= c <= 255)%Z -> (c * U < 2^31)%Z ->
  (60 * Z.of_N (minutes (filer_volume_ttl (c * U))) = c * U)%Z /\
  ttl_covers (filer_volume_ttl (c * U)) (c * U) = true.
Proof. exact filer_ttl_exact_on_multiples. Qed.
Print Assumptions c09_filer_ttl_covers_partial.

(* Exact failure set over all positive int32 values: the TTL covers s iff s < 60 (the
   volume gets no TTL at all) or s is a byte count of one of the six units. *)
Theorem c09_filer_ttl_covers_iff : forall s, (0 < s < 2^31)%Z ->
  ttl_covers (filer_volume_ttl s) s = (s <? 60)%Z || representable s.
Proof. exact filer_covers_iff. Qed.
Print Assumptions c09_filer_ttl_covers_iff.

(* SecondsToTTL never rounds up; it is exact precisely on the representable values. *)
Theorem c09_filer_ttl_rounds_down : forall s, (0 < s < 2^31)%Z ->
  (60 * Z.of_N (minutes (filer_volume_ttl s)) <= s)%Z /\
  (60 * Z.of_N (minutes (filer_volume_ttl s)) = s <-> representable s = true)%Z.
Proof. exact filer_ttl_rounds_down. Qed.
Print Assumptions c09_filer_ttl_rounds_down.

(* A visible entry's chunk is readable when the TTL covers (and the chunk was appended
   after the second its Crtime was truncated to) ... *)
Theorem c09_visible_entry_chunk_readable : forall s crtime p a now,
  (0 < s < 2^31)%Z ->
  ttl_covers (filer_volume_ttl s) s = true ->
  crtime * NS < a ->
  entry_visible now crtime s = true ->
  read_visible now (chunk_of s p a) = true.
Proof. exact visible_entry_chunk_readable. Qed.
Print Assumptions c09_visible_entry_chunk_readable.

(* ... and not otherwise: TtlSec = 90, the entry is visible for 90 s, its chunk for 60 s. *)
Theorem c09_visible_entry_chunk_refuted :
  exists s crtime p a now, (0 < s < 2^31)%Z /\ crtime * NS < a /\ crtime <= p /\ p * NS <= a /\
    entry_visible now crtime s = true /\ read_visible now (chunk_of s p a) = false.
Proof. exact visible_entry_chunk_expired. Qed.
Print Assumptions c09_visible_entry_chunk_refuted.

Example c09_filer_example :
  filer_volume_ttl 7200 = {| t_count := 2; t_unit := 2 |} /\ ttl_covers (filer_volume_ttl 7200) 7200 = true /\
  filer_volume_ttl 31104000 = {| t_count := 12; t_unit := 5 |} /\
  seconds_to_ttl 90 = "1m"%string /\ seconds_to_ttl 15360 = "4h"%string /\ seconds_to_ttl 30 = "0m"%string.
Proof. exact filer_example. Qed.
Print Assumptions c09_filer_example.

(* The HTTP write path uploads the chunks first and stamps Crtime := time.Now() afterwards,
   so the reachable ordering is a < Crtime (the hypothesis crtime * NS < a above holds only
   when the truncation of Crtime to a whole second swallows the upload latency).  With the
   chunk appended at most k ns before the (truncated) Crtime, the chunk is readable at every
   instant at least k before the end of the entry's life ... *)
Theorem c09_visible_entry_chunk_bound : forall s crtime p a k now,
  (0 < s < 2^31)%Z ->
  ttl_covers (filer_volume_ttl s) s = true ->
  crtime * NS < a + k ->
  entry_visible (now + k) crtime s = true ->
  read_visible now (chunk_of s p a) = true.
Proof. exact visible_entry_chunk_bound. Qed.
Print Assumptions c09_visible_entry_chunk_bound.

(* ... and within those last k ns the full statement fails even for an exactly
   representable TtlSec (60 s, chunk appended 5 ms before Crtime). *)
Theorem c09_visible_entry_chunk_uploaded_first_refuted :
  exists s crtime p a now, (0 < s < 2^31)%Z /\ ttl_covers (filer_volume_ttl s) s = true /\
    p * NS <= a /\ a < crtime * NS /\ crtime * NS <= a + 5000000 /\
    entry_visible now crtime s = true /\ read_visible now (chunk_of s p a) = false.
Proof. exact visible_entry_chunk_uploaded_first. Qed.
Print Assumptions c09_visible_entry_chunk_uploaded_first_refuted.

(* ---------------- filer entries over histories ---------------- *)

(* Filer.FindEntry returns the stored entry exactly while now <= Crtime + TtlSec (always
   when TtlSec <= 0); the base is Crtime, Mtime plays no role. *)
Theorem c09_filer_find_window : forall now st p e,
  snd (filer_find now st p) = Some e <->
  fs_get st p = Some e /\ ((fe_ttl e <= 0)%Z \/ now <= (fe_crtime e + Z.to_N (fe_ttl e)) * NS).
Proof. exact filer_find_window. Qed.
Print Assumptions c09_filer_find_window.

Theorem c09_filer_find_mtime_irrelevant : forall now st p e m,
  fs_get st p = Some e ->
  let e' := {| fe_crtime := fe_crtime e; fe_mtime := m; fe_ttl := fe_ttl e; fe_chunks := fe_chunks e |} in
  (snd (filer_find now st p) = None <-> snd (filer_find now (fs_put st p e') p) = None).
Proof. exact filer_find_mtime_irrelevant. Qed.
Print Assumptions c09_filer_find_mtime_irrelevant.

(* CreateEntry over / UpdateEntry of a visible entry keeps the old Crtime. *)
Theorem c09_filer_write_keeps_crtime : forall now st p oe e o,
  snd (filer_find now st p) = Some oe ->
  o = FCreate p e false \/ o = FUpdate p e ->
  fs_get (fst (filer_step now st o)) p = Some (fe_merge oe e) /\
  fe_crtime (fe_merge oe e) = fe_crtime oe.
Proof. exact filer_write_keeps_crtime. Qed.
Print Assumptions c09_filer_write_keeps_crtime.

(* Over every history of operations on the directory (creates, overwrites, appends,
   updates, lookups, listings on any names; nothing removes or raw-inserts name p; writes
   to p keep TtlSec = s) executed during the life of the entry at p: after Crtime + s the
   entry is gone -- modifying an entry never extends its life -- and until then it is
   visible with its original Crtime. *)
Theorem c09_filer_life_not_extended : forall l st p e0 s now,
  fs_get st p = Some e0 -> fe_ttl e0 = s -> (0 < s)%Z ->
  forallb (fun to => fop_keeps p s (snd to)) l = true ->
  forallb (fun to => fst to <=? (fe_crtime e0 + Z.to_N s) * NS) l = true ->
  (fe_crtime e0 + Z.to_N s) * NS < now ->
  snd (filer_find now (fst (filer_run st l)) p) = None.
Proof. exact filer_life_not_extended. Qed.
Print Assumptions c09_filer_life_not_extended.

Theorem c09_filer_life_not_shortened : forall l st p e0 s now,
  fs_get st p = Some e0 -> fe_ttl e0 = s ->
  forallb (fun to => fop_keeps p s (snd to)) l = true ->
  forallb (fun to => fst to <=? (fe_crtime e0 + Z.to_N s) * NS) l = true ->
  now <= (fe_crtime e0 + Z.to_N s) * NS ->
  exists e, snd (filer_find now (fst (filer_run st l)) p) = Some e /\ fe_crtime e = fe_crtime e0.
Proof. exact filer_life_not_shortened. Qed.
Print Assumptions c09_filer_life_not_shortened.

(* "An entry that is still visible never points at expired data", over all histories
   from the empty directory at any clocks: if whatever each write leaves in the store
   points only at chunks that outlive it (decidable [filer_run_safe]; sufficient per chunk:
   its TTL covers TtlSec and it was appended after the stored Crtime), then every chunk of
   every entry a lookup or a listing returns can be read at that instant. *)
Theorem c09_filer_history_safe : forall tab l now p e,
  filer_run_safe tab [] l = true ->
  snd (filer_find now (fst (filer_run [] l)) p) = Some e ->
  forall c, In c (fe_chunks e) -> read_visible now (tab c) = true.
Proof. exact filer_history_safe. Qed.
Print Assumptions c09_filer_history_safe.

Theorem c09_filer_history_safe_list : forall tab l now q e,
  filer_run_safe tab [] l = true ->
  In (q, e) (fs_expire now (fst (filer_run [] l))) ->
  forall c, In c (fe_chunks e) -> read_visible now (tab c) = true.
Proof. exact filer_history_safe_list. Qed.
Print Assumptions c09_filer_history_safe_list.

Theorem c09_chunk_outlives_sufficient : forall c s n,
  (0 < s)%Z -> (s <= 60 * Z.of_N (minutes (n_ttl n)))%Z -> c * NS < append_at_ns n ->
  chunk_outlives c s n = true.
Proof. exact chunk_outlives_sufficient. Qed.
Print Assumptions c09_chunk_outlives_sufficient.

(* non-vacuity: created at T0 with TtlSec 60, appended to 57 s later (Mtime moves, Crtime
   stays); the history is safe, the entry is visible at T0+60 and gone at T0+61.5, when
   its first chunk is expired *)
Example c09_filer_history_example :
  filer_run_safe ex_tab [] ex_hist = true /\
  snd (filer_find ((T0 + 60) * NS) (fst (filer_run [] ex_hist)) 3) =
    Some {| fe_crtime := T0; fe_mtime := T0 + 57; fe_ttl := 60; fe_chunks := [0; 1] |} /\
  snd (filer_find ((T0 + 61) * NS + 500000000) (fst (filer_run [] ex_hist)) 3) = None /\
  read_visible ((T0 + 61) * NS + 500000000) (ex_tab 0) = false.
Proof. exact filer_history_example. Qed.
Print Assumptions c09_filer_history_example.

(* ---------------- histories of uploads of one key: which upload the lifetime counts from ----------------
   model/TtlHist.v: uploads (any ttl=, ts=, cookie, content), aging, reads and expiry
   questions on ONE key of one volume; [hwant] is the record the LAST ACKNOWLEDGED upload
   asked for (moved by the aging steps after it), [hpromise] what a read must return. *)

(* TTL volumes, full: after every history a read returns exactly what the last
   acknowledged upload promised: its content, while now < ITS append clock + its TTL *)
Theorem c09_hist_window_ttl_volume : forall vttl l st now, ttl_volume vttl = true ->
  hread now (fst (hrun vttl st l)) = hpromise now (hwant vttl st (h_rec st) l).
Proof. exact hist_window_ttl_volume. Qed.
Print Assumptions c09_hist_window_ttl_volume.

(* the explicit window: history, an acknowledged upload, then reads/expiry questions *)
Theorem c09_hist_last_upload_window : forall vttl pre post st req ts cookie data parse_s append_ns u now,
  ttl_volume vttl = true -> forallb hquery post = true ->
  let o := HUpload req ts cookie data parse_s append_ns in
  let n := write_needle vttl (create_needle req ts parse_s) append_ns in
  snd (hstep vttl (fst (hrun vttl st pre)) o) = HAck u ->
  expiring n = true ->
  (hread now (fst (hrun vttl st (pre ++ o :: post))) = Some data <->
   now < append_ns + minutes (n_ttl n) * 60000000000) /\
  (hread now (fst (hrun vttl st (pre ++ o :: post))) = None <->
   append_ns + minutes (n_ttl n) * 60000000000 <= now).
Proof. exact hist_last_upload_window. Qed.
Print Assumptions c09_hist_last_upload_window.

(* an upload into a TTL volume is refused (cookie) or writes a new record with this
   upload's append clock and raises the volume's stamp: never deduplicated *)
Theorem c09_ttl_volume_upload : forall vttl st req ts cookie data parse_s append_ns,
  ttl_volume vttl = true ->
  let o := HUpload req ts cookie data parse_s append_ns in
  (hstep vttl st o = (st, HRefused)) \/
  (snd (hstep vttl st o) = HAck false /\
   h_rec (fst (hstep vttl st o)) = Some (hstored vttl req ts cookie data parse_s append_ns) /\
   h_stamp (fst (hstep vttl st o)) = vol_stamp_after_write (h_stamp st) (last_modified (create_needle req ts parse_s))).
Proof. exact ttl_volume_upload. Qed.
Print Assumptions c09_ttl_volume_upload.

(* the volume is not called expired before its TTL (+1 min) has passed since the last
   acknowledged upload's LastModified *)
Theorem c09_hist_last_upload_volume_alive : forall vttl pre post st req ts cookie data parse_s append_ns u now_s size limit,
  ttl_volume vttl = true -> forallb hquery post = true ->
  let o := HUpload req ts cookie data parse_s append_ns in
  snd (hstep vttl (fst (hrun vttl st pre)) o) = HAck u ->
  volume_expired now_s (hvolume vttl (fst (hrun vttl st (pre ++ o :: post))) size limit) = true ->
  last_modified (create_needle req ts parse_s) + (minutes (read_ttl vttl) + 1) * 60 <= now_s.
Proof. exact hist_last_upload_volume_alive. Qed.
Print Assumptions c09_hist_last_upload_volume_alive.

(* all volumes: refuted in full (finding 6: a volume without TTL acknowledges a
   byte-identical re-upload of a ttl= blob without a new record, so the blob expires
   counted from the FIRST upload); exact partial: no deduplicated step in the history *)
Theorem c09_hist_window_refuted :
  exists vttl l st now, hread now (fst (hrun vttl st l)) <> hpromise now (hwant vttl st (h_rec st) l).
Proof. exact hist_window_refuted. Qed.
Print Assumptions c09_hist_window_refuted.

Theorem c09_hist_window_partial : forall vttl l st now, dedup_trigger vttl st l = false ->
  hread now (fst (hrun vttl st l)) = hpromise now (hwant vttl st (h_rec st) l).
Proof. exact hist_window_partial. Qed.
Print Assumptions c09_hist_window_partial.

Theorem c09_ttl_volume_no_dedup : forall vttl l st, ttl_volume vttl = true -> dedup_trigger vttl st l = false.
Proof. exact ttl_volume_no_dedup. Qed.
Print Assumptions c09_ttl_volume_no_dedup.

(* non-vacuity: 1h volume; upload, aged two hours (expired), the same bytes uploaded
   again: acknowledged, new record, readable again *)
Example c09_hist_example :
  ttl_volume "1h" = true /\
  snd (hstep "1h" (fst (hrun "1h" {| h_rec := None; h_stamp := 0 |} example_hist))
         (HUpload "" 0 7 1 8200 8200000000000)) = HAck false /\
  expiring (write_needle "1h" (create_needle "" 0 8200) 8200000000000) = true /\
  hread 8300000000000 (fst (hrun "1h" {| h_rec := None; h_stamp := 0 |} example_hist)) = None /\
  hread 8300000000000 (fst (hrun "1h" {| h_rec := None; h_stamp := 0 |}
                              (example_hist ++ [HUpload "" 0 7 1 8200 8200000000000]))) = Some 1.
Proof. exact hist_example. Qed.
Print Assumptions c09_hist_example.
