(* C09 — TTL data lives exactly as long as promised.
   Only statements closed by [exact]; proofs live in proof/TtlProofs.v.
   Time: [now] is time.Now() in nanoseconds; second-granular clock reads are now / NS. *)
From Coq Require Import List NArith ZArith Bool String.
From SW Require Import model.Ttl proof.TtlProofs.
Import ListNotations.
Local Open Scope N_scope.

(* ---------------- the read window (full) ---------------- *)

(* A stored blob whose record has the TTL flag, a TTL of m > 0 minutes and the
   last-modified flag is returned by a read iff now < AppendAtNs + m minutes: the base
   is the record's append timestamp (not LastModified), the span is the NEEDLE's TTL. *)
Theorem c09_read_window : forall now n, expiring n = true ->
  (read_visible now n = true <-> now < append_at_ns n + minutes (n_ttl n) * 60000000000).
Proof. exact read_window. Qed.
Print Assumptions c09_read_window.

(* Every other record is always readable (no TTL flag, a TTL of zero minutes, or no
   last-modified flag). *)
Theorem c09_read_never_expires : forall now n, expiring n = false -> read_visible now n = true.
Proof. exact read_never_expires. Qed.
Print Assumptions c09_read_never_expires.

(* For every upload through CreateNeedleFromRequest + writeNeedle2 (any ttl=, any ts=,
   any volume TTL) that ends up with a TTL of m > 0 minutes: readable exactly during
   the m minutes after the append. *)
Theorem c09_read_window_upload : forall u now,
  has_ttl (stored_of u) = true -> 0 < minutes (n_ttl (stored_of u)) ->
  (read_visible now (stored_of u) = true <->
   now < u_append_ns u + minutes (n_ttl (stored_of u)) * 60000000000).
Proof. exact read_window_upload. Qed.
Print Assumptions c09_read_window_upload.

Theorem c09_read_expiry_monotone : forall now now' n, now <= now' ->
  read_visible now n = false -> read_visible now' n = false.
Proof. exact read_expiry_monotone. Qed.
Print Assumptions c09_read_expiry_monotone.

(* ---------------- not removed early: refuted in full, exact partial ---------------- *)

(* The full statement "whenever a read still returns the blob, compaction keeps it and
   the heartbeat does not delete its volume" fails for uploads with ordered clocks:
   1d blob in a 1h volume (dropped by compaction AND deleted with its volume), 1d blob
   in a volume without TTL, a blob inheriting 137y (uint32 wrap of minutes*60), ts= one
   day old, an upload that took 10 s, an old ts= into a volume loaded 67 min earlier. *)
Theorem c09_not_removed_early_refuted :
  (exists now, upload_ordered w_longer_ttl = true /\ read_visible now (stored_of w_longer_ttl) = true /\
     compaction_keeps (now / NS) (read_ttl (u_vttl w_longer_ttl)) (stored_of w_longer_ttl) = false /\
     volume_deleted (now / NS) (volume_of w_longer_ttl) = true) /\
  (exists now, upload_ordered w_no_volume_ttl = true /\ read_visible now (stored_of w_no_volume_ttl) = true /\
     compaction_keeps (now / NS) (read_ttl (u_vttl w_no_volume_ttl)) (stored_of w_no_volume_ttl) = false) /\
  (exists now, upload_ordered w_span_wrap = true /\ read_visible now (stored_of w_span_wrap) = true /\
     compaction_keeps (now / NS) (read_ttl (u_vttl w_span_wrap)) (stored_of w_span_wrap) = false) /\
  (exists now, upload_ordered w_old_ts = true /\ read_visible now (stored_of w_old_ts) = true /\
     compaction_keeps (now / NS) (read_ttl (u_vttl w_old_ts)) (stored_of w_old_ts) = false) /\
  (exists now, upload_ordered w_slow_upload = true /\ read_visible now (stored_of w_slow_upload) = true /\
     compaction_keeps (now / NS) (read_ttl (u_vttl w_slow_upload)) (stored_of w_slow_upload) = false) /\
  (exists now, upload_ordered w_stale_stamp = true /\ read_visible now (stored_of w_stale_stamp) = true /\
     volume_deleted (now / NS) (volume_of w_stale_stamp) = true).
Proof. exact not_removed_early_refuted. Qed.
Print Assumptions c09_not_removed_early_refuted.

(* The strongest true statement: for every upload outside the decidable trigger set,
   at every instant, a readable blob is kept by compaction and its volume is not
   deleted -- and the trigger set is exact (outside it the statement holds at all
   times, inside it some instant violates it). *)
Theorem c09_not_removed_early_partial : forall u, upload_trigger u = false ->
  forall now, read_visible now (stored_of u) = true ->
    compaction_keeps (now / NS) (read_ttl (u_vttl u)) (stored_of u) = true /\
    volume_deleted (now / NS) (volume_of u) = false.
Proof. exact not_removed_early_partial. Qed.
Print Assumptions c09_not_removed_early_partial.

Theorem c09_not_removed_early_exact : forall u,
  (forall now, not_removed_early_at u now) <-> upload_trigger u = false.
Proof. exact not_removed_early_exact. Qed.
Print Assumptions c09_not_removed_early_exact.

(* The same per stored record, for ANY record and volume (not only HTTP uploads). *)
Theorem c09_compaction_early_iff : forall vttl n,
  (exists now, read_visible now n = true /\ compaction_keeps (now / NS) vttl n = false)
  <-> compaction_early vttl n = true.
Proof. exact compaction_early_iff. Qed.
Print Assumptions c09_compaction_early_iff.

Theorem c09_expiry_early_iff : forall v n,
  (exists now, read_visible now n = true /\ volume_deleted (now / NS) v = true)
  <-> expiry_early v n = true.
Proof. exact expiry_early_iff. Qed.
Print Assumptions c09_expiry_early_iff.

(* Why compaction can be early: only through a volume span shorter than the needle's
   TTL (other TTL, no volume TTL, uint32 wrap, a TTL flag that never expires on read)
   or a LastModified earlier than AppendAtNs (ts=, or time spent between parsing and
   appending). *)
Theorem c09_compaction_early_causes : forall vttl n,
  compaction_early vttl n = true -> early_by_ttl vttl n = true \/ early_by_stamp n = true.
Proof. exact compaction_early_causes. Qed.
Print Assumptions c09_compaction_early_causes.

(* With a volume span at least the needle's TTL, compaction is early by at most the
   distance between LastModified and AppendAtNs. *)
Theorem c09_compaction_early_bound : forall vttl n k now_s now,
  expiring n = true ->
  minutes (n_ttl n) * 60 <= volume_span_s vttl ->
  append_at_ns n <= (last_modified n + k) * NS ->
  compaction_keeps now_s vttl n = false ->
  (now_s + k) * NS <= now ->
  read_visible now n = false.
Proof. exact compaction_early_bound. Qed.
Print Assumptions c09_compaction_early_bound.

(* Volume expiry is safe when the needle's TTL is not longer than the volume's and the
   volume's stamp is at most 60 s older than the append. *)
Theorem c09_expiry_safe_sufficient : forall v n,
  expiring n = true ->
  minutes (n_ttl n) <= minutes (v_ttl v) ->
  append_at_ns n <= (v_last_mod v + 60) * NS ->
  expiry_early v n = false.
Proof. exact expiry_safe_sufficient. Qed.
Print Assumptions c09_expiry_safe_sufficient.

(* A readable sufficient condition for the partial statement. *)
Theorem c09_not_removed_early_sufficient : forall u,
  u_ts u = 0 ->
  (u_req_ttl u = EmptyString \/ u_req_ttl u = u_vttl u) ->
  (u_vttl u = EmptyString \/ 0 < minutes (read_ttl (u_vttl u))) ->
  minutes (read_ttl (u_vttl u)) * 60 < 2^32 ->
  u_parse_s u < 2^40 ->
  u_append_ns u = u_parse_s u * NS ->
  upload_trigger u = false.
Proof. exact upload_safe_sufficient. Qed.
Print Assumptions c09_not_removed_early_sufficient.

(* non-vacuity: a 3-day blob inheriting its volume's TTL satisfies the hypotheses, is
   readable two days later, kept by compaction then, and gone after three days *)
Example c09_not_removed_early_example :
  let u := {| u_vttl := "3d"; u_req_ttl := ""; u_ts := 0; u_t0_s := T0; u_parse_s := T0 + 5;
              u_append_ns := (T0 + 5) * NS; u_size := 4096; u_limit := 2^30; u_io_error := false |} in
  upload_ordered u = true /\ upload_trigger u = false /\ expiring (stored_of u) = true /\
  read_visible ((T0 + 2 * 86400) * NS) (stored_of u) = true /\
  compaction_keeps (T0 + 2 * 86400) (read_ttl "3d") (stored_of u) = true /\
  read_visible ((T0 + 5 + 3 * 86400) * NS) (stored_of u) = false /\
  volume_deleted (T0 + 4 * 86400) (volume_of u) = true.
Proof. vm_compute. repeat split. Qed.

(* ---------------- filer TtlSec -> volume TTL ---------------- *)

(* Full statement "for all s > 0 the chosen volume TTL covers s" is false: 90 -> 1m. *)
Theorem c09_filer_ttl_covers_refuted :
  exists s, (0 < s < 2^31)%Z /\ ttl_covers (filer_volume_ttl s) s = false /\
            (60 * Z.of_N (minutes (filer_volume_ttl s)) < s)%Z.
Proof. exact filer_covers_refuted. Qed.
Print Assumptions c09_filer_ttl_covers_refuted.

(* Partial: every byte count of every unit is mapped to exactly itself. *)
Theorem c09_filer_ttl_covers_partial : forall U c,
  In U [SEC_YEAR; SEC_MONTH; SEC_WEEK; SEC_DAY; SEC_HOUR; SEC_MINUTE] ->
  (1 <= c <= 255)%Z -> (c * U < 2^31)%Z ->
  (60 * Z.of_N (minutes (filer_volume_ttl (c * U))) = c * U)%Z /\
  ttl_covers (filer_volume_ttl (c * U)) (c * U) = true.
Proof. exact filer_ttl_exact_on_multiples. Qed.
Print Assumptions c09_filer_ttl_covers_partial.

(* Exact failure set over all positive int32 values: the TTL covers s iff s < 60 (the
   volume gets no TTL at all) or s is a byte count of one of the six units. *)
Theorem c09_filer_ttl_covers_iff : forall s, (0 < s < 2^31)%Z ->
  ttl_covers (filer_volume_ttl s) s = (s <? 60)%Z || representable s.
Proof. exact filer_covers_iff. Qed.
Print Assumptions c09_filer_ttl_covers_iff.

(* SecondsToTTL never rounds up; it is exact precisely on the representable values. *)
Theorem c09_filer_ttl_rounds_down : forall s, (0 < s < 2^31)%Z ->
  (60 * Z.of_N (minutes (filer_volume_ttl s)) <= s)%Z /\
  (60 * Z.of_N (minutes (filer_volume_ttl s)) = s <-> representable s = true)%Z.
Proof. exact filer_ttl_rounds_down. Qed.
Print Assumptions c09_filer_ttl_rounds_down.

(* A visible entry's chunk is readable when the TTL covers (and the chunk was appended
   after the second its Crtime was truncated to) ... *)
Theorem c09_visible_entry_chunk_readable : forall s crtime p a now,
  (0 < s < 2^31)%Z ->
  ttl_covers (filer_volume_ttl s) s = true ->
  crtime * NS < a ->
  entry_visible now crtime s = true ->
  read_visible now (chunk_of s p a) = true.
Proof. exact visible_entry_chunk_readable. Qed.
Print Assumptions c09_visible_entry_chunk_readable.

(* ... and not otherwise: TtlSec = 90, the entry is visible for 90 s, its chunk for 60 s. *)
Theorem c09_visible_entry_chunk_refuted :
  exists s crtime p a now, (0 < s < 2^31)%Z /\ crtime * NS < a /\ crtime <= p /\ p * NS <= a /\
    entry_visible now crtime s = true /\ read_visible now (chunk_of s p a) = false.
Proof. exact visible_entry_chunk_expired. Qed.
Print Assumptions c09_visible_entry_chunk_refuted.

Example c09_filer_example :
  filer_volume_ttl 7200 = {| t_count := 2; t_unit := 2 |} /\ ttl_covers (filer_volume_ttl 7200) 7200 = true /\
  filer_volume_ttl 31104000 = {| t_count := 12; t_unit := 5 |} /\
  seconds_to_ttl 90 = "1m"%string /\ seconds_to_ttl 15360 = "4h"%string /\ seconds_to_ttl 30 = "0m"%string.
Proof. vm_compute. repeat split. Qed.
