(* C21 — Hard links share one file.
   Only statements closed by [exact]; proofs live in proof/HardLink*.v.

   The model (model/HardLink.v) is the filer's store wrapper with its hard-link records,
   Filer.CreateEntry/UpdateEntry/DeleteEntryMetaAndData, the gRPC handlers and the mount's
   link / write / unlink sequences.  The full statement ("after every history that respects
   the client assumptions, every step satisfies the property") is REFUTED; the partial
   theorems hold for every history in which no operation falls under the trigger
     trig_rename_linked     k=0  a rename moves an entry whose blob carries a link id
   (c21_quiet also asks that a renamed entry be a file: directory renames are C18's subject.)
   Two former findings are repaired in the tree and in the model: an entry without link id written
   over a linked name (handleUpdateToHardLinks returned early) and a recursive delete without data
   deletion (maybeDeleteHardLinks was skipped) now decrement the counters; their witnesses are
   inside the hypothesis of the partial theorems (c21_repaired_witnesses).  Since these repairs the
   counter, the gone-iff-last and the shared-view-by-link-id statements are FULL theorems over every
   history that respects the client assumptions (c21_hist_ok), renames included; what remains refuted
   is that a renamed name stays linked (c21_shared_view_refuted, c21_history_refuted). *)
From Coq Require Import List NArith ZArith Bool String.
From SW Require Import model.Chunks model.HardLink proof.HardLinkInv proof.HardLinkProofs.
Import ListNotations.

(* ---------- one step, from any consistent state ---------- *)
(* the whole property for one step: counters = live names, records exist exactly for carried ids,
   names with one id show one entry, linked names stay linked, a link links, a write is shown *)
Theorem c21_step_partial : forall ev s o, Inv s -> c21_quiet ev s o = true ->
  let r := step ev s o in
  c21_step_ok s o (err_of r) (st_of r) (model_view (st_of r)) = true /\ Inv (st_of r).
Proof. exact step_ok_quiet. Qed.
Print Assumptions c21_step_partial.

(* ---------- all histories ---------- *)
Theorem c21_history_partial : forall ev ops,
  c21_hist_quiet ev empty_st ops = true -> c21_run_ok ev empty_st ops = true.
Proof. exact c21_history_partial. Qed.
Print Assumptions c21_history_partial.

Theorem c21_history_refuted :
  exists ev ops, c21_hist_ok ev empty_st ops = true /\ c21_run_ok ev empty_st ops = false.
Proof. exact c21_history_refuted. Qed.
Print Assumptions c21_history_refuted.

(* ---------- shared view ---------- *)
(* all names with the same link id show the same content and attributes ... *)
Theorem c21_shared_view : forall ev ops, c21_hist_ok ev empty_st ops = true ->
  let s := final ev empty_st ops in
  forall p1 e1 p2 e2, nfind s p1 = Some e1 -> nfind s p2 = Some e2 ->
    h_hl e1 <> 0%N -> h_hl e1 = h_hl e2 -> model_view s p1 = model_view s p2.
Proof. exact c21_shared_view_full. Qed.
Print Assumptions c21_shared_view.

(* ... after any update made through any of them *)
Theorem c21_shared_view_write_through : forall ev s p cs mt via, Inv s ->
  c21_quiet ev s (Write p cs mt via) = true ->
  let r := step ev s (Write p cs mt via) in
  err_of r = OK ->
  forall e0 q eq, nfind s p = Some e0 -> nfind s q = Some eq -> h_hl e0 <> 0%N -> h_hl eq = h_hl e0 ->
    exists e', model_view (st_of r) q = Some e' /\ model_view (st_of r) p = Some e' /\ h_mtime e' = mt.
Proof. exact c21_write_through. Qed.
Print Assumptions c21_shared_view_write_through.

(* refuted "including when names are renamed": /a and /b are one file; after rename /a -> /c and a
   write through /b, /c is a plain file with the old chunks *)
Theorem c21_shared_view_refuted :
  c21_hist_ok w_ev empty_st w_rename = true /\
  (let s2 := final w_ev empty_st (firstn 2 w_rename) in
   exists ea eb, nfind s2 pa = Some ea /\ nfind s2 pb = Some eb /\ linked ea eb = true) /\
  (let s := final w_ev empty_st w_rename in
   exists ec eb, model_view s pc = Some ec /\ model_view s pb = Some eb /\
                 h_chunks ec <> h_chunks eb /\ h_hl ec = 0%N).
Proof. exact c21_rename_detaches. Qed.
Print Assumptions c21_shared_view_refuted.

(* ---------- the counter ---------- *)
(* FULL (since the two repairs): after every history that respects the client assumptions *)
Theorem c21_counter : forall ev ops, c21_hist_ok ev empty_st ops = true ->
  let s := final ev empty_st ops in
  forall X b, kv_get s X = Some b -> h_cnt b = Z.of_nat (count_names s X).
Proof. exact c21_counter_full. Qed.
Print Assumptions c21_counter.

(* ---------- the record disappears exactly with the last name ---------- *)
(* FULL (since the two repairs) *)
Theorem c21_gone_iff_last : forall ev ops, c21_hist_ok ev empty_st ops = true ->
  let s := final ev empty_st ops in
  forall X, X <> 0%N -> (kv_get s X <> None <-> (0 < count_names s X)%nat).
Proof. exact c21_gone_iff_last_full. Qed.
Print Assumptions c21_gone_iff_last.

(* the two repaired defects: the former witnesses (plain upload over a linked name, then unlink of
   the other name; recursive delete without data deletion, then unlink of the other name) satisfy
   the property at every step and leave no record behind *)
Theorem c21_repaired_witnesses :
  c21_hist_quiet w_ev empty_st w_overwrite = true /\ kvs (final w_ev empty_st w_overwrite) = [] /\
  (exists b, kv_get (final w_ev empty_st (firstn 3 w_overwrite)) 1%N = Some b /\ h_cnt b = 1%Z) /\
  c21_hist_quiet w_ev empty_st w_rec_nodata = true /\ final w_ev empty_st w_rec_nodata = empty_st.
Proof. exact c21_repaired_witnesses. Qed.
Print Assumptions c21_repaired_witnesses.

(* the remaining witness fails at the step its trigger names; the repaired ones do not fail *)
Theorem c21_witness_triggers :
  c21_first_failure w_ev empty_st w_rename = Some (Some 0%N) /\
  c21_first_failure w_ev empty_st w_overwrite = None /\
  c21_first_failure w_ev empty_st w_rec_nodata = None.
Proof. exact c21_witness_triggers. Qed.
Print Assumptions c21_witness_triggers.

(* outside the property's observation points (FindEntry, the KV record), reported as an observation:
   a directory listing (leveldb2) shows a linked name's per-name blob, not the shared record *)
Theorem c21_listing_stale :
  c21_hist_quiet w_ev empty_st w_listing = true /\
  (let s := final w_ev empty_st w_listing in
   exists e v, In ("b"%string, e) (list_children s []) /\ model_view s pb = Some v /\
               h_chunks e = [w_c 1 0] /\ h_chunks v = [w_c 5 0]).
Proof. exact c21_listing_stale. Qed.
Print Assumptions c21_listing_stale.

(* non-vacuity: two link groups, writes through several names, unlinks and a recursive delete WITH
   data deletion down to the empty filer — all inside the hypothesis of the partial theorems *)
Example c21_example :
  c21_hist_quiet w_ev empty_st w_clean = true /\
  kvs (final w_ev empty_st (firstn 9 w_clean)) <> [] /\
  final w_ev empty_st w_clean = empty_st.
Proof. exact c21_clean_is_quiet. Qed.
Print Assumptions c21_example.
