(* C10 — New volumes are placed according to their replication setting.
   Only statements closed by [exact]; proofs live in proof/TopoPlaceProofs.v.
   Model: model/TopoPlace.v (findEmptySlotsForOneVolume, PickNodesByWeight,
   ReserveOneVolume, AvailableSpaceFor, with explicit oracles for math/rand and for
   Go map iteration order). *)
From Coq Require Import String List ZArith Bool Permutation.
From SW Require Import model.TopoPlace proof.TopoPlaceProofs.
Import ListNotations.
Local Open Scope Z_scope.

(* Main theorem.  For EVERY topology whose sibling ids are distinct (children of a Go map),
   every replication xyz and preference, every counters at every level and EVERY oracle
   (random numbers and map orders): a list returned without error satisfies the placement
   rule — as the executable predicate the correspondence check evaluates on the
   implementation's answers, and spelled out as a proposition:
   1+x+y+z distinct servers, each a data node of the tree with AvailableSpaceFor >= 1 for the
   disk type; z+1 of them in the rack of a main server, y in y distinct other racks of its
   data center, x in x distinct other data centers; requested data center / rack / node are
   those of the main server. *)
Theorem c10_placement : forall orc t o ss,
  wf_topology t = true -> find_empty_slots orc t o = (ss, false) ->
  placement_ok t o ss = true /\ placement t o ss.
Proof. exact c10_placement_thm. Qed.
Print Assumptions c10_placement.

(* If no list of servers satisfies the rule, an error is returned (never a partial or wrong
   placement as success). *)
Theorem c10_error_when_impossible : forall orc t o,
  wf_topology t = true -> (forall ss, placement_ok t o ss = false) ->
  snd (find_empty_slots orc t o) = true.
Proof. exact c10_no_placement_error_thm. Qed.
Print Assumptions c10_error_when_impossible.

(* The executable predicate means what it says. *)
Theorem c10_placement_ok_meaning : forall t o ss, placement_ok t o ss = true -> placement t o ss.
Proof. exact placement_ok_sound. Qed.
Print Assumptions c10_placement_ok_meaning.

(* PickNodesByWeight: for every map order and every random numbers the result is a first node
   accepted by the filter plus numberOfNodes-1 further DISTINCT children, all with free space. *)
Theorem c10_pick_nodes_by_weight : forall A (avail : A -> Z) order rs number filt children first rest,
  NoDup children -> (1 <= number)%nat ->
  pick_nodes avail order rs number filt children = Some (first, rest) ->
  filt first = true /\ NoDup (first :: rest) /\ length rest = (number - 1)%nat /\
  (forall c, In c (first :: rest) -> In c children /\ 0 < avail c).
Proof. exact @pick_nodes_ok. Qed.
Print Assumptions c10_pick_nodes_by_weight.

(* The weighted shuffle returns a permutation of the candidates whatever the random numbers. *)
Theorem c10_weighted_shuffle_is_permutation : forall A (avail : A -> Z) order rs children,
  Permutation (sorted_candidates avail order rs children) (candidates avail order children).
Proof. exact @sorted_candidates_perm. Qed.
Print Assumptions c10_weighted_shuffle_is_permutation.

(* The correspondence test is exact: an answer is admitted iff SOME oracle makes the model
   return exactly that answer (servers in order, error flag, partial list on error). *)
Theorem c10_admits_iff_some_oracle : forall t o res,
  admits t o res = true <-> exists orc, find_empty_slots orc t o = res.
Proof. exact admits_spec. Qed.
Print Assumptions c10_admits_iff_some_oracle.

(* ---- non-vacuity ---- *)
Definition ex_node (id : string) (vol max ec : Z) : dnode :=
  {| n_id := id; n_usage := [(""%string, mkCounts vol 0 vol ec max)] |}.
Definition ex_topo : topology :=
  {| t_usage := [];
     t_dcs := [ {| d_id := "dc1"; d_usage := [(""%string, mkCounts 3 0 3 0 12)];
                   d_racks := [ {| r_id := "r1"; r_usage := [(""%string, mkCounts 1 0 1 0 6)];
                                   r_nodes := [ex_node "n1" 1 3 0; ex_node "n2" 0 3 0] |};
                                {| r_id := "r2"; r_usage := [(""%string, mkCounts 2 0 2 0 6)];
                                   r_nodes := [ex_node "n1" 2 3 0; ex_node "n2" 0 3 0] |} ] |};
                {| d_id := "dc2"; d_usage := [(""%string, mkCounts 0 0 0 0 2)];
                   d_racks := [ {| r_id := "r1"; r_usage := [(""%string, mkCounts 0 0 0 0 2)];
                                   r_nodes := [ex_node "n1" 0 2 0] |} ] |} ] |}.
Definition ex_opt : grow_option :=
  {| go_disk := ""; go_dc := "dc1"; go_rack := ""; go_node := ""; rp_dc := 1; rp_rack := 1; rp_same := 1 |}.
Definition ex_oracle : oracle :=
  {| o_dc_order := [1%nat]; o_dc_rs := [5]; o_rack_order := [1%nat]; o_rack_rs := [7; 1];
     o_node_order := []; o_node_rs := [2]; o_other_racks := [{| ro_r := 4; ro_nodes := [1%nat] |}];
     o_other_dcs := [{| do_r := 1; do_racks := []; do_nodes := [] |}] |}.

(* the hypotheses of c10_placement are satisfiable on a 2-DC topology with replication 111,
   and the model returns 4 servers *)
Example c10_example :
  wf_topology ex_topo = true /\
  exists ss, find_empty_slots ex_oracle ex_topo ex_opt = (ss, false) /\ length ss = 4%nat.
Proof. split; [vm_compute; reflexivity|eexists; split; vm_compute; reflexivity]. Qed.

(* the greedy algorithm can fail although a placement exists: a rack whose own counter hides
   (EC-shard term) that its nodes are full makes ReserveOneVolume fail after the main rack was
   chosen; the result is an error carrying the partial list *)
Definition ex_ec_topo : topology :=
  {| t_usage := [];
     t_dcs := [ {| d_id := "dc1"; d_usage := [(""%string, mkCounts 1 0 1 15 10)];
                   d_racks := [ {| r_id := "r1"; r_usage := [(""%string, mkCounts 1 0 1 0 4)];
                                   r_nodes := [ex_node "n1" 0 2 0; ex_node "n2" 1 2 0] |};
                                {| r_id := "r2"; r_usage := [(""%string, mkCounts 0 0 0 15 6)];
                                   r_nodes := [ex_node "n1" 0 2 5; ex_node "n2" 0 2 5; ex_node "n3" 0 2 5] |} ] |} ] |}.
Example c10_example_error_with_partial_list :
  exists orc ss, find_empty_slots orc ex_ec_topo
                   {| go_disk := ""; go_dc := ""; go_rack := "r1"; go_node := ""; rp_dc := 0; rp_rack := 1; rp_same := 0 |}
                 = (ss, true) /\ length ss = 1%nat.
Proof.
  exists {| o_dc_order := []; o_dc_rs := []; o_rack_order := []; o_rack_rs := []; o_node_order := [];
            o_node_rs := []; o_other_racks := [{| ro_r := 3; ro_nodes := [] |}]; o_other_dcs := [] |}.
  eexists. split; vm_compute; reflexivity.
Qed.
