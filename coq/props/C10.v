(* C10 — New volumes are placed according to their replication setting.
   Only statements closed by [exact]; proofs live in proof/TopoPlaceProofs.v.
   Model: model/TopoPlace.v (findEmptySlotsForOneVolume, PickNodesByWeight,
   ReserveOneVolume, AvailableSpaceFor, with explicit oracles for math/rand and for
   Go map iteration order; VolumeGrowth.grow / findAndGrow with an oracle for the
   AllocateVolume RPC answers). *)
From Coq Require Import String List ZArith Bool Permutation.
From SW Require Import model.TopoPlace proof.TopoPlaceProofs proof.TopoPlaceGrow.
From SW Require model.TopoCount model.TopoPlaceTruth proof.TopoPlaceTruthProofs.
Import ListNotations.
Local Open Scope Z_scope.

(* Main theorem.  For EVERY topology whose sibling ids are distinct (children of a Go map),
   every replication xyz and preference, every counters at every level and EVERY oracle
   (random numbers and map orders): a list returned without error satisfies the placement
   rule — as the executable predicate the correspondence check evaluates on the
   implementation's answers, and spelled out as a proposition:
   1+x+y+z distinct servers, each a data node of the tree with AvailableSpaceFor >= 1 for the
   disk type; z+1 of them in the rack of a main server, y in y distinct other racks of its
   data center, x in x distinct other data centers; requested data center / rack / node are
   those of the main server. *)
Theorem c10_placement : forall orc t o ss,
  wf_topology t = true -> find_empty_slots orc t o = (ss, false) ->
  placement_ok t o ss = true /\ placement t o ss.
Proof. exact c10_placement_thm. Qed.
Print Assumptions c10_placement.

(* If no list of servers satisfies the rule, an error is returned (never a partial or wrong
   placement as success). *)
Theorem c10_error_when_impossible : forall orc t o,
  wf_topology t = true -> (forall ss, placement_ok t o ss = false) ->
  snd (find_empty_slots orc t o) = true.
Proof. exact c10_no_placement_error_thm. Qed.
Print Assumptions c10_error_when_impossible.

(* The executable predicate means what it says. *)
Theorem c10_placement_ok_meaning : forall t o ss, placement_ok t o ss = true -> placement t o ss.
Proof. exact placement_ok_sound. Qed.
Print Assumptions c10_placement_ok_meaning.

(* PickNodesByWeight: for every map order and every random numbers the result is a first node
   accepted by the filter plus numberOfNodes-1 further DISTINCT children, all with free space. *)
Theorem c10_pick_nodes_by_weight : forall A (avail : A -> Z) order rs number filt children first rest,
  NoDup children -> (1 <= number)%nat ->
  pick_nodes avail order rs number filt children = Some (first, rest) ->
  filt first = true /\ NoDup (first :: rest) /\ length rest = (number - 1)%nat /\
  (forall c, In c (first :: rest) -> In c children /\ 0 < avail c).
Proof. exact @pick_nodes_ok. Qed.
Print Assumptions c10_pick_nodes_by_weight.

(* The weighted shuffle returns a permutation of the candidates whatever the random numbers. *)
Theorem c10_weighted_shuffle_is_permutation : forall A (avail : A -> Z) order rs children,
  Permutation (sorted_candidates avail order rs children) (candidates avail order children).
Proof. exact @sorted_candidates_perm. Qed.
Print Assumptions c10_weighted_shuffle_is_permutation.

(* The correspondence test is exact: an answer is admitted iff SOME oracle makes the model
   return exactly that answer (servers in order, error flag, partial list on error). *)
Theorem c10_admits_iff_some_oracle : forall t o res,
  admits t o res = true <-> exists orc, find_empty_slots orc t o = res.
Proof. exact admits_spec. Qed.
Print Assumptions c10_admits_iff_some_oracle.

(* ---- completeness ---- *)
(* all_paths_ok is decidable (counters of every level do not promise more than the children
   hold, and every data center / rack the weighted pick may choose as the main one has enough
   candidates): then the search succeeds for EVERY map order and random numbers.  The check
   evaluates it on every case: the implementation must not report an error there. *)
Theorem c10_success_when_all_paths_ok : forall orc t o,
  wf_topology t = true -> all_paths_ok t o = true -> snd (find_empty_slots orc t o) = false.
Proof. exact all_paths_ok_success_thm. Qed.
Print Assumptions c10_success_when_all_paths_ok.

(* PickNodesByWeight's failure does not depend on map order or random numbers *)
Theorem c10_pick_succeeds_unless_pick_fails : forall A (avail : A -> Z) order rs number filt children,
  pick_fails avail number filt children = false ->
  exists first rest, pick_nodes avail order rs number filt children = Some (first, rest).
Proof. exact pick_nodes_some. Qed.
Print Assumptions c10_pick_succeeds_unless_pick_fails.

(* every rand.Int63n(n) of the reserve loops has n > 0 (Go would panic on 0; the model's
   Z.modulo _ 0 is never evaluated) *)
Theorem c10_int63n_args_positive : forall orc t o, int63n_args_positive orc t o = true.
Proof. exact int63n_args_positive_thm. Qed.
Print Assumptions c10_int63n_args_positive.

(* ---- allocation (findAndGrow = search, then grow) ---- *)
(* No error: for EVERY fail plan of the AllocateVolume RPCs the new volume is held and
   registered by exactly the servers of a valid placement, and the counters of exactly those
   servers and their ancestors were raised. *)
Theorem c10_grow_success_is_full_placement : forall orc fl t o,
  wf_topology t = true -> gr_err (find_and_grow orc fl t o) = false ->
  gr_allocated (find_and_grow orc fl t o) = gr_found (find_and_grow orc fl t o) /\
  placement_ok t o (gr_allocated (find_and_grow orc fl t o)) = true /\
  gr_topo (find_and_grow orc fl t o) =
    fold_left (add_volume (go_disk o)) (gr_found (find_and_grow orc fl t o)) t.
Proof. exact find_and_grow_success_thm. Qed.
Print Assumptions c10_grow_success_is_full_placement.

(* "An error instead of a partial placement" is FALSE for the allocation (known finding 0):
   grow returns at the first refused AllocateVolume and leaves the earlier replicas allocated,
   counted and registered. *)
Theorem c10_grow_all_or_none_refuted :
  exists orc fl t o,
    wf_topology t = true /\ trigger_partial_grow fl o = true /\
    gr_err (find_and_grow orc fl t o) = true /\
    gr_allocated (find_and_grow orc fl t o) = [("dc1", "r1", "n1")%string] /\
    length (gr_found (find_and_grow orc fl t o)) = 2%nat /\
    node_counts (gr_topo (find_and_grow orc fl t o)) "" ("dc1", "r1", "n1")%string = Some (mkCounts 1 0 1 0 2) /\
    node_counts (gr_topo (find_and_grow orc fl t o)) "" ("dc1", "r1", "n2")%string = Some (mkCounts 0 0 0 0 2).
Proof. exact find_and_grow_all_or_none_refuted_thm. Qed.
Print Assumptions c10_grow_all_or_none_refuted.

(* Outside the trigger (per grow call: the first refused AllocateVolume is the first call, or
   none of the 1+x+y+z calls is refused) an error leaves nothing behind. *)
Theorem c10_grow_all_or_none_partial : forall orc fl t o,
  wf_topology t = true -> trigger_partial_grow fl o = false ->
  gr_err (find_and_grow orc fl t o) = true ->
  gr_allocated (find_and_grow orc fl t o) = [] /\ gr_topo (find_and_grow orc fl t o) = t.
Proof. exact find_and_grow_partial_thm. Qed.
Print Assumptions c10_grow_all_or_none_partial.

(* ---- placement against what the servers REALLY hold (model/TopoPlaceTruth.v) ----
   The theorems above take the counters as given, as the code does.  [truth_of ops] is what every
   registered server holds after the heartbeat history [ops] (joins, max counts, full and
   incremental volume and EC-shard heartbeats, unregistrations) computed from the events alone;
   [truth_topology t tr] carries, on the id tree of t, the counts that follow from it, so that
   AvailableSpaceFor on it is the number of really free slots.  [counters_true t T]: the four
   counters AvailableSpaceFor reads agree at every level -- the invariant of property C12. *)
Import TopoPlaceTruth TopoPlaceTruthProofs.

(* If the counters equal the truth, the placement rule gives the same verdict on both -- for all
   topologies, options and server lists. *)
Theorem c10_placement_ok_counters_vs_truth : forall t T o ss, counters_true t T = true ->
  placement_ok t o ss = placement_ok T o ss.
Proof. exact placement_ok_true_iff_thm. Qed.
Print Assumptions c10_placement_ok_counters_vs_truth.

(* Hence: for every heartbeat history, if the master's counters equal what the history left on
   the servers, every list the search returns without error satisfies the placement rule
   against the truth; in particular no chosen server is really full. *)
Theorem c10_placement_on_truth : forall ops orc t o ss,
  wf_topology t = true ->
  counters_true t (truth_topology t (truth_of ops)) = true ->
  find_empty_slots orc t o = (ss, false) ->
  placement_ok (truth_topology t (truth_of ops)) o ss = true.
Proof. exact placement_on_truth_thm. Qed.
Print Assumptions c10_placement_on_truth.

Theorem c10_no_full_server_chosen : forall ops orc t o ss s,
  wf_topology t = true ->
  counters_true t (truth_topology t (truth_of ops)) = true ->
  find_empty_slots orc t o = (ss, false) -> In s ss ->
  has_free_slot (truth_topology t (truth_of ops)) o s = true.
Proof. exact no_full_server_chosen_thm. Qed.
Print Assumptions c10_no_full_server_chosen.

(* The success condition too has the same value on the counters and on the truth ... *)
Theorem c10_all_paths_ok_counters_vs_truth : forall t T o, counters_true t T = true ->
  all_paths_ok t o = all_paths_ok T o.
Proof. exact all_paths_ok_true_iff_thm. Qed.
Print Assumptions c10_all_paths_ok_counters_vs_truth.

(* ... hence completeness against the truth: if the counters equal the truth and the TRUTH
   satisfies the success condition, the search succeeds for every map order and random numbers
   (the check requires of every history case that reported an error that the truth does not
   satisfy the condition). *)
Theorem c10_success_on_truth : forall ops orc t o,
  wf_topology t = true ->
  counters_true t (truth_topology t (truth_of ops)) = true ->
  all_paths_ok (truth_topology t (truth_of ops)) o = true ->
  snd (find_empty_slots orc t o) = false.
Proof. exact success_on_truth_thm. Qed.
Print Assumptions c10_success_on_truth.

(* The hypothesis cannot be dropped: after a stale incremental EC delete (shards 3-6 of a volume
   of which the server holds shards 0-2) a master whose ecShardCount fell by the four NAMED
   shards sees a free slot on a server that has none, and replication 001 is placed on it: the
   rule holds on the counters and fails on the truth. *)
Theorem c10_placement_needs_true_counters :
  wf_topology w_drifted = true /\
  true_free (truth_of w_hist) ["dc1"; "r1"; "n2"]%string "" = 0 /\
  counters_true w_drifted (truth_topology w_drifted (truth_of w_hist)) = false /\
  exists ss, find_empty_slots w_oracle w_drifted w_opt = (ss, false) /\
             placement_ok w_drifted w_opt ss = true /\
             placement_ok (truth_topology w_drifted (truth_of w_hist)) w_opt ss = false.
Proof. exact placement_needs_true_counters_thm. Qed.
Print Assumptions c10_placement_needs_true_counters.

(* non-vacuity: the same history with the counters the unchanged code keeps satisfies the
   hypotheses of c10_placement_on_truth; 001 is refused, 000 goes to the server with room *)
Example c10_example_placement_on_truth :
  wf_topology w_exact = true /\ hist_wf w_hist = true /\ same_nodes w_exact (truth_of w_hist) = true /\
  counters_true w_exact (truth_topology w_exact (truth_of w_hist)) = true /\
  snd (find_empty_slots w_oracle w_exact w_opt) = true /\
  (let o0 := {| go_disk := ""; go_dc := ""; go_rack := ""; go_node := ""; rp_dc := 0; rp_rack := 0; rp_same := 0 |} in
   find_empty_slots w_oracle w_exact o0 = ([("dc1", "r1", "n1")%string], false)).
Proof. exact placement_on_truth_example. Qed.
Print Assumptions c10_example_placement_on_truth.

(* ---- non-vacuity (definitions and proofs in proof/TopoPlaceGrow.v) ---- *)
(* the hypotheses of c10_placement are satisfiable on a 2-DC topology with replication 111,
   and the model returns 4 servers *)
Example c10_example :
  wf_topology ex_topo = true /\
  exists ss, find_empty_slots ex_oracle ex_topo ex_opt = (ss, false) /\ length ss = 4%nat.
Proof. exact placement_example. Qed.
Print Assumptions c10_example.

(* the greedy algorithm can fail after the main rack was chosen: a rack whose own counter hides
   (EC-shard term) that its nodes are full makes ReserveOneVolume fail; the result is an error
   carrying the partial list; counters_sound is false there *)
Example c10_example_error_with_partial_list :
  counters_sound ex_ec_topo ex_ec_opt = false /\
  exists orc ss, find_empty_slots orc ex_ec_topo ex_ec_opt = (ss, true) /\ length ss = 1%nat.
Proof. exact error_with_partial_list_example. Qed.
Print Assumptions c10_example_error_with_partial_list.

(* all_paths_ok is satisfiable (2 DCs, replication 110, preferred data center) *)
Example c10_example_all_paths_ok :
  wf_topology cp_topo = true /\ all_paths_ok cp_topo cp_opt = true /\
  length (fst (find_empty_slots gw_oracle cp_topo cp_opt)) = 3%nat.
Proof. exact all_paths_ok_example. Qed.
Print Assumptions c10_example_all_paths_ok.

(* the hypotheses of c10_grow_all_or_none_partial are satisfiable: first call refused -> error
   and nothing allocated; no call refused -> both replicas allocated *)
Example c10_example_grow :
  wf_topology gw_topo = true /\ trigger_partial_grow [true] gw_opt = false /\
  gr_err (find_and_grow gw_oracle [true] gw_topo gw_opt) = true /\
  gr_err (find_and_grow gw_oracle [] gw_topo gw_opt) = false /\
  length (gr_allocated (find_and_grow gw_oracle [] gw_topo gw_opt)) = 2%nat.
Proof. exact find_and_grow_partial_example. Qed.
Print Assumptions c10_example_grow.
