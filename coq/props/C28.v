(* C28 — S3 objects and multipart uploads round-trip.
   Only statements closed by [exact]; proofs live in proof/S3Multipart{Names,Parts,NS,Proofs}.v.
   The model (model/S3Multipart.v) is faithful to the code as it is now — after the repairs of
   completeMultipartUpload (numeric part order, explicit listing limit), doDeleteEmptyDirectories,
   CopyObject (source status), CopyObjectPart (upload must exist) and of the part-number test of
   PutObjectPart / CopyObjectPart (1..10000; former finding 5) — INCLUDING its remaining
   defects (known findings 0..4, 6 and 7 = the raw key in the filer URL of the copy handlers; the number 5 is not reused); every full statement that the code still violates comes as
   _partial (under a decidable trigger) + _refuted.  The triggers of the history theorem are raised
   per request by the model run (the flag list of [run]), never history-wide. *)
From Coq Require Import List NArith ZArith Bool String.
From SW Require Import model.HttpRange model.S3Multipart
  proof.S3MultipartNames proof.S3MultipartParts proof.S3MultipartNS proof.S3MultipartProofs.
Import ListNotations.
Local Open Scope N_scope.

(* ================= part file names (facts about the names; ListParts still follows them) ================= *)

(* for part numbers below 10000 the listing order of the "%04d.part" names is the numeric order
   (finite sweep over 0..9999 lifted by transitivity; bound stated here) *)
Theorem c28_part_name_order : forall n m, n < 10000 -> m < 10000 ->
  lex_cmp (part_name n) (part_name m) = N.compare n m.
Proof. exact name_order_below_10000. Qed.
Print Assumptions c28_part_name_order.

(* .. and over the whole S3 range 0..10000 for every pair except (10000, 1001..9999) *)
Theorem c28_part_name_order_partial : forall n m, n <= 10000 -> m <= 10000 -> bad_pair n m = false ->
  lex_cmp (part_name n) (part_name m) = N.compare n m.
Proof. exact name_order. Qed.
Print Assumptions c28_part_name_order_partial.

Theorem c28_part_name_order_refuted : exists n m, n <= 10000 /\ m <= 10000 /\ n < m /\
  lex_cmp (part_name n) (part_name m) = Gt.
Proof. exact name_order_refuted. Qed.
Print Assumptions c28_part_name_order_refuted.

(* ================= multipart completion ================= *)

(* whatever was uploaded: the completed object is the concatenation of the chunk bytes of the
   listed entries, ordered by part number, laid out with running offsets (no holes, no overlap) *)
Theorem c28_complete_running_offsets : forall d,
  (forall e, In e (sort_by_number (listed d)) -> has_part_suffix (fst e) = true) ->
  seq_from 0 (f_chunks (completed_file d)) /\
  file_bytes (completed_file d) = List.concat (map entry_bytes (sort_by_number (listed d))).
Proof. exact complete_is_listing_concat. Qed.
Print Assumptions c28_complete_running_offsets.

(* the reference: parts in ascending part-number order, the last upload of a number wins *)
Theorem c28_parts_ascending : forall h, ascending (parts_of h).
Proof. exact parts_of_ascending. Qed.
Print Assumptions c28_parts_ascending.
Theorem c28_parts_last_writer : forall h n, pfind n (parts_of h) = last_body n h.
Proof. exact parts_of_last. Qed.
Print Assumptions c28_parts_last_writer.

(* for EVERY set of part numbers up to 10000 (10000 next to 1001..9999 included) the name-ordered
   directory, sorted by part number, is the list of parts in ascending part-number order; and the
   explicit listing limit never cuts it *)
Theorem c28_sorted_listing_is_ascending : forall c h, (forall n, In n (map fst h) -> n <= 10000) ->
  sort_by_number (dir_of c h) = map (enc c) (parts_of h).
Proof. exact sorted_dir_is_parts. Qed.
Print Assumptions c28_sorted_listing_is_ascending.
Theorem c28_listing_complete : forall c h, (forall n, In n (map fst h) -> n <= 10000) ->
  listed (dir_of c h) = dir_of c h.
Proof. exact listed_all. Qed.
Print Assumptions c28_listing_complete.

(* c28_multipart_concat: for every history h of accepted part uploads (number, body) with
   numbers <= 10000, any chunk size > 0: completed object = concatenation of the parts in
   ASCENDING PART-NUMBER order — outside trigger 0 (parts stored inline because of -saveToFilerLimit) *)
Theorem c28_multipart_concat_partial : forall c h,
  0 < c_chunk c ->
  (forall n, In n (map fst h) -> n <= 10000) ->
  trig_inline (dir_of c h) = false ->
  file_bytes (completed_file (dir_of c h)) = List.concat (map snd (parts_of h)).
Proof. exact complete_concat. Qed.
Print Assumptions c28_multipart_concat_partial.

(* finding 0: with -saveToFilerLimit 4 the parts shorter than 4 bytes are silently dropped *)
Theorem c28_multipart_concat_refuted_inline :
  let c := {| c_inline := 4; c_chunk := 8 |} in
  let h := [(1, [1; 1]); (2, [2; 2; 2; 2; 2]); (3, [3])] in
  (forall n, In n (map fst h) -> n <= 10000) /\
  List.concat (map snd (parts_of h)) = [1; 1; 2; 2; 2; 2; 2; 3] /\
  file_bytes (completed_file (dir_of c h)) = [2; 2; 2; 2; 2].
Proof. exact complete_concat_refuted_inline. Qed.
Print Assumptions c28_multipart_concat_refuted_inline.

(* the trigger of finding 4 (ListParts order) as evaluated by the check (on the names found in
   the directory) is the trigger on the uploaded part numbers *)
Theorem c28_trigger_order_agrees : forall c h, (forall n, In n (map fst h) -> n <= 10000) ->
  trig_order (map (fun e => part_number_of (fst e)) (dir_of c h)) = trig_order (map fst h).
Proof. exact trig_order_dir. Qed.
Print Assumptions c28_trigger_order_agrees.

(* ================= single objects ================= *)

(* a body written over the filer's HTTP PUT — inline, one chunk or many — reads back unchanged *)
Theorem c28_store_roundtrip : forall c b, 0 < c_chunk c -> file_bytes (store_body c b) = b.
Proof. exact store_body_bytes. Qed.
Print Assumptions c28_store_roundtrip.

(* PUT then GET, other keys untouched — outside trigger 2 (the key is a directory, or lies below a file) *)
Theorem c28_put_get_partial : forall s p f, p <> [] -> trig_write s p = false ->
  exists s', http_put s p f = (s', true) /\
             obj_at s' p = Some (file_bytes f) /\
             forall q, q <> p -> obj_at s' q = obj_at s q.
Proof. exact put_then_get. Qed.
Print Assumptions c28_put_get_partial.

(* finding 2 *)
Theorem c28_put_get_refuted :
  (exists s p f, p <> [] /\ trig_write s p = true /\ fst (http_put s p f) <> s /\
                 obj_at (fst (http_put s p f)) p = None) /\
  (exists s p f, p <> [] /\ trig_write s p = true /\ snd (http_put s p f) = false).
Proof. exact put_then_get_refuted. Qed.
Print Assumptions c28_put_get_refuted.

(* GET returns the object; GET with a satisfiable byte range returns exactly that slice.
   Assumed from C32: the filer's range parser computes the reference range (parse_spec_ref). *)
Theorem c28_get_whole : forall s k f, k <> [] -> find s k = Some (File f) ->
  get_obj s k None = RData (file_bytes f).
Proof. exact get_whole. Qed.
Print Assumptions c28_get_whole.

Theorem c28_range : forall s k f sp o l, k <> [] -> find s k = Some (File f) -> file_ok f ->
  ref_spec sp (Z.of_N (blen (file_bytes f))) = Some (o, l) ->
  get_obj s k (Some sp) = RData (slice (file_bytes f) (Z.to_N o) (Z.to_N l)).
Proof. exact get_range. Qed.
Print Assumptions c28_range.

(* every file the gateway creates satisfies the side condition of c28_range *)
Theorem c28_files_ok : forall c,  0 < c_chunk c ->
  (forall b, file_ok (store_body c b)) /\
  (forall d, (forall e, In e (sort_by_number (listed d)) -> has_part_suffix (fst e) = true) ->
             file_ok (completed_file d)).
Proof. exact (fun c H => conj (fun b => store_body_ok c b H) completed_file_ok). Qed.
Print Assumptions c28_files_ok.

(* ================= deletes ================= *)

(* c28_delete_exact, single DELETE: removes exactly the named key — outside trigger 1
   (objects live below the key: the filer is asked to delete recursively) *)
Theorem c28_delete_exact_single_partial : forall s p, has_file_below s p = false ->
  forall q, obj_at (delete_recursive s p) q = if path_eqb q p then None else obj_at s q.
Proof. exact delete_exact. Qed.
Print Assumptions c28_delete_exact_single_partial.

(* finding 1 *)
Theorem c28_delete_exact_single_refuted : exists s p q, q <> p /\ obj_at s q <> None /\
  obj_at (delete_recursive s p) q = None.
Proof. exact delete_exact_refuted. Qed.
Print Assumptions c28_delete_exact_single_refuted.

(* c28_delete_exact, batch delete (including the purge of emptied directories), FULL: on every
   store a batch delete removes exactly the named keys *)
Theorem c28_delete_exact_batch : forall s ks, (forall k, In k ks -> k <> []) ->
  forall q, obj_at (batch_delete s ks) q = if existsb (path_eqb q) ks then None else obj_at s q.
Proof. exact batch_delete_exact. Qed.
Print Assumptions c28_delete_exact_batch.

(* ================= whole histories ================= *)

(* C28 at full strength over histories: from the empty bucket, for every configuration with
   positive chunk size, every history of PUT / streaming PUT / copy / GET (whole and ranged) /
   DELETE / batch delete / multipart create, part upload, part copy, complete (with ANY part list in
   the request body), abort, list requests with non-empty keys and ANY part numbers, on which NO
   known-finding trigger (0..4, 6) fires — the triggers are raised per request by the model run, so
   the hypothesis [run .. = (rs, [], fin)] says that no single request of the history is inside a
   trigger set: every answer meets the flat key -> bytes specification — GET and ListParts payloads,
   and the status class of every write (EOk: acknowledged; EFail: refused, e.g. a tampered chunk
   signature, a missing copy source, a dead upload, a part number outside 1..10000: no hypothesis
   about part numbers is needed since the repair of former finding 5) —
   where a completed upload is the concatenation of the parts its request lists (which must be
   uploaded parts in ascending part-number order); and at the end the file entries under the
   bucket are exactly the specification's objects.
   This is the _partial statement of finding 6 (c28_complete_part_list_refuted) as well as of 0..4. *)
Theorem c28_history_refines_spec : forall c ops rs fin es sfin,
  0 < c_chunk c -> forallb op_in_domain ops = true ->
  run c init_state ops = (rs, [], fin) -> srun sinit ops = (es, sfin) ->
  all2 meets es rs = true /\
  forall q, obj_at (st_store fin) q = sfind (ss_objs sfin) q.
Proof. exact history_refines_spec. Qed.
Print Assumptions c28_history_refines_spec.

(* finding 6: the part list of CompleteMultipartUpload is never read *)
Theorem c28_complete_part_list_refuted :
  let kf := ["f"%string] in
  let ops := [MpCreate kf; MpPut 0 1 [1; 1]; MpPut 0 2 [2]; MpPut 0 3 [3; 3]; MpComplete 0 [1; 3]; Get kf None] in
  forallb op_in_domain ops = true /\
  run cfg_plain init_state ops =
    ([ROk; ROk; ROk; ROk; ROk; RData [1; 1; 2; 3; 3]], [6], snd (run cfg_plain init_state ops)) /\
  fst (srun sinit ops) = [EOk; EOk; EOk; EOk; EOk; EData [1; 1; 3; 3]] /\
  all2 meets (fst (srun sinit ops)) (fst (fst (run cfg_plain init_state ops))) = false.
Proof. exact complete_list_refuted. Qed.
Print Assumptions c28_complete_part_list_refuted.

(* finding 7: CopyObject / UploadPartCopy paste the RAW key into the filer URL, where PutObject /
   GetObject / HeadObject / DeleteObject escape it (urlPathEscape) and CompleteMultipartUpload /
   DeleteMultipleObjects hand the literal key to the filer: a key with '%', '?' or '#' is read from /
   written to another path by the copies.  Full statement "every route addresses a key by its
   literal name" refuted by a concrete history; its _partial statements: c28_history_refines_spec
   (no request raises trigger 7) and, per key, c28_raw_url_key_literal / c28_copy_literal_keys: on
   every key without those three characters (blank, '+', '&', '=' included) the raw-URL route sees
   the literal key. *)
Theorem c28_copy_raw_key_refuted :
  let kt := ["t"%string] in let kq := ["t?u"%string] in let kf := ["f"%string] in
  let ops := [Put kt [1]; Put kq [2; 3]; Copy kq kf; Get kf None] in
  forallb op_in_domain ops = true /\
  run cfg_plain init_state ops = ([ROk; ROk; ROk; RData [1]], [7], snd (run cfg_plain init_state ops)) /\
  fst (srun sinit ops) = [EOk; EOk; EOk; EData [2; 3]] /\
  all2 meets (fst (srun sinit ops)) (fst (fst (run cfg_plain init_state ops))) = false.
Proof. exact copy_raw_key_refuted. Qed.
Print Assumptions c28_copy_raw_key_refuted.

Theorem c28_raw_url_key_literal : forall k, raw_meta k = false -> raw_path k = Some k.
Proof. exact raw_path_literal. Qed.
Print Assumptions c28_raw_url_key_literal.

Theorem c28_copy_literal_keys : forall c st src dst, raw_meta src = false -> raw_meta dst = false ->
  step c st (Copy src dst) =
    (if path_eqb src dst then (st, RErr, []) else copy_obj c st (raw_path src) (raw_path dst)) /\
  raw_path src = Some src /\ raw_path dst = Some dst /\
  forall u n r, step c st (MpCopy u n src r) = mp_copy c st u n false (raw_path src) r.
Proof. exact copy_literal_keys. Qed.
Print Assumptions c28_copy_literal_keys.

Example c28_cross_routes_example :
  let kb := ["x y"%string] in let kp := ["dir one"%string; "i+n&a=b"%string] in
  let ops := [Put kb [1; 2; 3]; BatchDel [kb]; Get kb None;
              MpCreate kb; MpPut 0 2 [5; 5]; MpPut 0 1 [4]; MpComplete 0 [1; 2]; Get kb None;
              Copy kb kp; Get kp (Some (RClosed 1 2)); Del kb; Get kb None;
              MpCreate kb; MpCopy 1 1 kp None; MpComplete 1 [1]; Get kb None; BatchDel [kp; kb]; Get kp None] in
  raw_meta kb = false /\ raw_meta kp = false /\
  forallb op_in_domain ops = true /\
  snd (fst (run cfg_plain init_state ops)) = [] /\
  fst (fst (run cfg_plain init_state ops)) =
    [ROk; ROk; RNotFound; ROk; ROk; ROk; ROk; RData [4; 5; 5]; ROk; RData [5; 5]; ROk; RNotFound;
     ROk; ROk; ROk; RData [4; 5; 5]; ROk; RNotFound] /\
  all2 meets (fst (srun sinit ops)) (fst (fst (run cfg_plain init_state ops))) = true.
Proof. exact cross_routes_example. Qed.
Print Assumptions c28_cross_routes_example.

(* what the specification's completion selects: exactly the listed parts' bodies, in request order;
   and the list that raises no trigger 6 (all uploaded numbers, ascending) selects every part *)
Theorem c28_complete_selects_listed : forall ns ps bs, pick ns ps = Some bs ->
  map Some bs = map (fun n => pget n ps) ns.
Proof. exact pick_listed. Qed.
Print Assumptions c28_complete_selects_listed.
Theorem c28_complete_full_list : forall h,
  pick (map fst (parts_of h)) (parts_of h) = Some (map snd (parts_of h)).
Proof. exact pick_all. Qed.
Print Assumptions c28_complete_full_list.

(* former finding 5, repaired in the code (PutObjectPartHandler / CopyObjectPartHandler refuse
   partID < 1 || partID > globalMaxPartID = 10000): FULL statement over every configuration and every
   state — a part upload, streaming part upload or part copy with a number outside 1..10000 is
   refused, raises no trigger and changes nothing .. *)
Theorem c28_part_number_range : forall c st o n, part_op_number o = Some n -> valid_part n = false ->
  exists r, step c st o = (st, r, []) /\ refusal r = true.
Proof. exact part_number_range. Qed.
Print Assumptions c28_part_number_range.

(* .. the gateway's test IS the S3 range .. *)
Theorem c28_part_refused_iff : forall n, part_refused n = negb (valid_part n).
Proof. exact part_refused_valid. Qed.
Print Assumptions c28_part_refused_iff.

(* .. and inside the range a part upload to a live upload is acknowledged and stored *)
Theorem c28_part_number_accepted : forall c st u up d n b,
  get_upload st u = Some up -> u_dir up = Some d -> valid_part n = true ->
  step c st (MpPut u n b) =
    (set_updir st u up (Some (dir_put (part_name n) (store_body c b) d)), ROk, []).
Proof. exact part_number_accepted. Qed.
Print Assumptions c28_part_number_accepted.

(* the former witness of finding 5 now meets the specification (no trigger, ListParts = part 1) *)
Example c28_part_range_repaired :
  let kf := ["f"%string] in
  let ops := [MpCreate kf; MpPut 0 0 [7]; MpPut 0 1 [1]; MpPut 0 10001 [9]; MpPut 0 100000 [8]; MpList 0;
              MpComplete 0 [1]; Get kf None] in
  forallb op_in_domain ops = true /\
  run cfg_plain init_state ops =
    ([ROk; RErr; ROk; RErr; RErr; RParts [(1, 1)]; ROk; RData [1]], [], snd (run cfg_plain init_state ops)) /\
  fst (srun sinit ops) = [EOk; EFail; EOk; EFail; EFail; EParts [(1, 1)]; EOk; EData [1]] /\
  all2 meets (fst (srun sinit ops)) (fst (fst (run cfg_plain init_state ops))) = true.
Proof. exact part_range_repaired. Qed.
Print Assumptions c28_part_range_repaired.

(* non-vacuity *)
Example c28_multipart_example :
  let h := [(9999, [9; 9; 9; 9; 9; 9]); (2, [7]); (1000, [5; 5; 5; 5; 5]); (2, [2; 2]); (10000, [4]); (1, [])] in
  trig_inline (dir_of cfg_plain h) = false /\
  file_bytes (completed_file (dir_of cfg_plain h)) = [2; 2; 5; 5; 5; 5; 5; 9; 9; 9; 9; 9; 9; 4] /\
  map (fun e => List.length (f_chunks (snd e))) (dir_of cfg_plain h) = [0; 1; 2; 1; 2]%nat.
Proof. exact complete_concat_example. Qed.
Print Assumptions c28_multipart_example.

(* the repaired order defect as a concrete fact: the names list 10000 before 1001, the object does not *)
Example c28_multipart_10000_example :
  let h := [(1001, [1; 1]); (10000, [2; 2; 2]); (2, [3])] in
  map (fun e => part_number_of (fst e)) (dir_of cfg_plain h) = [2; 10000; 1001] /\
  file_bytes (completed_file (dir_of cfg_plain h)) = [3; 1; 1; 2; 2; 2].
Proof. exact complete_concat_10000. Qed.
Print Assumptions c28_multipart_10000_example.

Example c28_history_example :
  let c := {| c_inline := 0; c_chunk := 4 |} in
  let ka := ["a"%string; "b"%string] in let kf := ["f"%string] in let kg := ["g"%string; "h"%string] in
  let ops := [Put ka [1; 2; 3; 4; 5; 6]; Copy ka kg; MpCreate kf; MpPut 0 10000 [7; 7; 7; 7; 7];
              MpPut 0 2 [8]; MpPut 0 2 [9; 9]; MpCopy 0 1001 ka (Some (1, 3)); MpComplete 0 [2; 1001; 10000];
              Get kf None; Get kf (Some (RClosed 1 6)); Del ka; BatchDel [kg; ka]; Get kg None] in
  forallb op_in_domain ops = true /\
  snd (fst (run c init_state ops)) = [] /\
  fst (fst (run c init_state ops)) =
    [ROk; ROk; ROk; ROk; ROk; ROk; ROk; ROk;
     RData [9; 9; 2; 3; 4; 7; 7; 7; 7; 7]; RData [9; 2; 3; 4; 7; 7]; ROk; ROk; RNotFound] /\
  objects (st_store (snd (run c init_state ops))) = [(kf, [9; 9; 2; 3; 4; 7; 7; 7; 7; 7])].
Proof. exact history_example. Qed.
Print Assumptions c28_history_example.
