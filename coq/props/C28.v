From SW Require Import model.S3Multipart.
