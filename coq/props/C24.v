(* C24 — Filer metadata stores return what was stored.
   Only statements closed by [exact]; proofs live in proof/EntryCodecProofs.v.
   protobuf and gzip are oracles; [codec_laws] are the laws they must satisfy:
   decode . encode = id, gunzip . gzip = id, gzip output starts with 1f 8b, and the
   first byte of a marshalled Entry is the tag of its first populated field (that
   last one is re-checked on every generated entry by the correspondence check). *)
From Coq Require Import List NArith ZArith Bool String.
From SW Require Import model.UploadCodec model.EntryCodec proof.UploadCodecProofs proof.EntryCodecProofs.
Import ListNotations.
Local Open Scope N_scope.

(* Whatever the store held before, after a successful InsertEntry / UpdateEntry of
   e at p (any attributes, any number of chunks — compressed or not —, extended,
   hard-link fields, content, remote), both the lookup and the listing return
   [canon e] = AfterEntryDeserialization . BeforeEntrySerialization, Mime rule. *)
Theorem c24_roundtrip : forall (blob : Type) (C : codec blob), codec_laws C ->
  forall st p e st', wrapper_insert C st p e = Some st' ->
  wrapper_find C st' p = SOk (canon e) /\
  In (snd p, Some (canon e)) (wrapper_list C st' (fst p)).
Proof. exact (@insert_then_find). Qed.
Print Assumptions c24_roundtrip.

Theorem c24_insert_into_empty_succeeds : forall (blob : Type) (C : codec blob) p e,
  wrapper_insert C empty_state p e <> None.
Proof. exact (@insert_empty_ok). Qed.
Print Assumptions c24_insert_into_empty_succeeds.

(* A marshalled entry never looks like gzip, so MaybeDecompressData cannot
   mistake it: rests only on the first-byte hypothesis, made explicit here. *)
Theorem c24_no_false_gzip : forall (blob : Type) (C : codec blob),
  (forall m a b, gz_head2 (cd_gz C) (cd_encode C m) = Some (a, b) -> pb_first_byte m = Some a) ->
  forall m, is_gzipped_content (cd_gz C) (cd_encode C m) = false.
Proof. exact (@no_false_gzip). Qed.
Print Assumptions c24_no_false_gzip.

(* what is kept: the marshalled entry, or (more than 50 chunks and the 10 % rule) its gzip *)
Theorem c24_stored_value : forall (blob : Type) (C : codec blob), codec_laws C -> forall e,
  stored_value C e = encode_entry C e \/
  (50 < len (e_chunks e) /\ stored_value C e = gz_gzip (cd_gz C) (encode_entry C e)).
Proof. exact (@stored_value_cases). Qed.
Print Assumptions c24_stored_value.

(* Every field of Attr survives EntryAttributeToPb / PbToEntryAttribute (Mtime and
   Crtime at the wire format's granularity of one second), and every field of the
   entry survives ToExistingProtoEntry / FromPbEntryToExistingEntry. *)
Theorem c24_attr_roundtrip : forall a, pb_to_attr (Some (attr_to_pb a)) = a.
Proof. exact attr_pb_roundtrip. Qed.
Print Assumptions c24_attr_roundtrip.

Theorem c24_entry_pb_roundtrip : forall e, from_pb (to_pb e) = e.
Proof. exact from_to_pb. Qed.
Print Assumptions c24_entry_pb_roundtrip.

(* "reads back equal": as a reader sees it (file ids through GetFileIdString),
   canon is the identity on entries whose file id strings are canonical ...
   KNOWN FINDING 0: not for Mime = "application/octet-stream" (stored as ""). *)
Theorem c24_reads_back_equal_refuted : exists e,
  forallb chunk_canonical (e_chunks e) = true /\ view (canon e) <> view e.
Proof. exact canon_identity_refuted. Qed.
Print Assumptions c24_reads_back_equal_refuted.

Theorem c24_reads_back_equal_partial : forall e,
  trigger_octet e = false -> forallb chunk_canonical (e_chunks e) = true -> view (canon e) = view e.
Proof. exact view_canon. Qed.
Print Assumptions c24_reads_back_equal_partial.

(* file ids: what comes back is canonical (a fixed point of canonicalisation) ... *)
Theorem c24_read_back_ids_canonical : forall e,
  (forall c, In c (e_chunks e) -> chunk_fids_wf c) ->
  forall c, In c (e_chunks (view (canon e))) -> chunk_canonical c = true.
Proof. exact canon_ids_canonical. Qed.
Print Assumptions c24_read_back_ids_canonical.

Theorem c24_canon_str_idempotent : forall s, canon_str (canon_str s) = canon_str s.
Proof. exact canon_str_idempotent. Qed.
Print Assumptions c24_canon_str_idempotent.

(* ... an id that does not parse is kept verbatim ... *)
Theorem c24_unparsable_verbatim : forall s, parse_fid s = None -> canon_str s = s.
Proof. exact canon_str_unparsable. Qed.
Print Assumptions c24_unparsable_verbatim.

(* ... and "equal to what was written": the (volume, key, cookie) a written string
   denotes is the one the read-back string denotes.
   KNOWN FINDING 1: not for needle key 0, whose canonical text does not parse. *)
Theorem c24_same_file_id_refuted : exists s f, parse_fid s = Some f /\ parse_fid (canon_str s) = None.
Proof. exact canon_str_loses_key_zero. Qed.
Print Assumptions c24_same_file_id_refuted.

Theorem c24_same_file_id_partial : forall s f, parse_fid s = Some f -> str_key_zero s = false ->
  parse_fid (canon_str s) = Some f.
Proof. exact canon_str_preserves_id. Qed.
Print Assumptions c24_same_file_id_partial.

Theorem c24_parse_format : forall f, fid_wf f = true ->
  parse_fid (format_fid f) = if f_key f =? 0 then None else Some f.
Proof. exact parse_format_fid. Qed.
Print Assumptions c24_parse_format.

(* non-vacuity: a codec satisfying the laws exists; on it an entry with a
   non-canonical id, a source id, an unparsable id and a hard link is inserted
   over an older version and read back canonically, by lookup and by listing *)
Example c24_example :
  (forall blen glen, codec_laws (sym_codec blen glen)) /\
  (let mk := fun (id src : string) =>
       {| c_file_id := s2b id; c_offset := 0%Z; c_size := 5; c_mtime := 7%Z; c_etag := "e"%string;
          c_source_file_id := s2b src; c_fid := None; c_source_fid := None; c_cipher_key := [1; 2];
          c_is_compressed := true; c_is_manifest := false |} in
   let e := {| e_attr := set_mime zero_attr "text/plain"%string; e_extended := [("k"%string, [1])];
               e_chunks := [mk "3,1637037D6"%string "4,02aabbccdd"%string; mk "abc"%string ""%string];
               e_hard_link_id := [9; 9; 1]; e_hard_link_counter := 2%Z; e_content := [31; 139; 0];
               e_remote := Some {| rm_last_modified_at := 1%Z; rm_size := 2%Z; rm_etag := "r"%string |} |} in
   let C := sym_codec 100 50 in
   match wrapper_insert C empty_state ("/d"%string, "f"%string) e with
   | Some st1 =>
       match wrapper_insert C st1 ("/d"%string, "f"%string) e with
       | Some st2 =>
           wrapper_find C st2 ("/d"%string, "f"%string) = SOk (canon e) /\
           map (fun c => c_file_id c) (e_chunks (canon e)) = [s2b "3,01637037d6"; s2b "abc"] /\
           view (canon e) <> view e
       | None => False
       end
   | None => False
   end).
Proof. split; [exact sym_codec_laws | vm_compute; repeat split; try reflexivity; discriminate]. Qed.
