(* C24 — Filer metadata stores return what was stored.
   Only statements closed by [exact]; proofs live in proof/EntryCodecProofs.v.
   protobuf and gzip are oracles; [codec_laws] are the laws they must satisfy:
   decode . encode = id, gunzip . gzip = id, gzip output starts with 1f 8b, and the
   first byte of a marshalled Entry is the tag of its first populated field (that
   last one is re-checked on every generated entry by the correspondence check). *)
From Coq Require Import List NArith ZArith Bool String.
From SW Require Import model.UploadCodec model.EntryCodec proof.UploadCodecProofs proof.EntryCodecProofs.
Import ListNotations.
Local Open Scope N_scope.

(* Whatever the store held before, after a successful InsertEntry / UpdateEntry of
   e at p (any attributes, any number of chunks -- compressed or not --, extended,
   hard-link fields, content, remote):
   - the lookup returns [read_back e] = wire (canon e): AfterEntryDeserialization .
     BeforeEntrySerialization, the Mime rule, times in whole seconds;
   - the wrapper's listing (ListDirectoryEntries), for every start name / inclusive flag
     that lets the name pass, contains the name with the same [read_back e];
   - the embedded stores' own prefixed listing (FilerStoreWrapper.ListDirectoryPrefixedEntries
     hands the callback to leveldb/leveldb2/leveldb3 unwrapped: the path of
     Filer.doListDirectoryEntries), for every prefix / start / inclusive that lets the name
     pass, contains the name with [wire (prepare e)]: the same entry before
     AfterEntryDeserialization (c24_listing_paths_agree: identical for a reader).
   A page (limit) is a prefix of these lists (c24_listing_page). *)
Theorem c24_roundtrip : forall (blob : Type) (C : codec blob), codec_laws C ->
  forall st p e st', wrapper_insert C st p e = Some st' ->
  wrapper_find C st' p = SOk (read_back e) /\
  (forall start incl, list_filter start incl "" (snd p) = true ->
     In (snd p, Some (read_back e)) (wrapper_list_all C st' (fst p) start incl)) /\
  (forall start incl pfx, list_filter start incl pfx (snd p) = true ->
     In (snd p, Some (wire (prepare e))) (store_list_all C st' (fst p) start incl pfx)).
Proof. exact (@insert_then_find). Qed.
Print Assumptions c24_roundtrip.

(* the listing of a store, exactly: the names stored under the directory that pass the
   prefix / start / inclusive filter, each with the decoding of the value at its own path
   (needs no oracle law) *)
Theorem c24_listing_spec : forall (blob : Type) (C : codec blob) st dir start incl pfx n oe,
  In (n, oe) (store_list_all C st dir start incl pfx) <->
  (list_filter start incl pfx n = true /\
   exists b, aget path_eqb (dir, n) (st_entries st) = Some b /\
             oe = decode_entry C (maybe_decompress C b)).
Proof. exact (@store_list_spec). Qed.
Print Assumptions c24_listing_spec.

Theorem c24_listing_page : forall (blob : Type) (C : codec blob) st dir start incl limit pfx,
  store_list C st dir start incl limit pfx = firstn limit (store_list_all C st dir start incl pfx).
Proof. exact (@store_list_page). Qed.
Print Assumptions c24_listing_page.

(* a (paged, prefixed) listing never invents or mixes entries: what it returns under a
   name is what the store's FindEntry returns for that path *)
Theorem c24_listing_returns_stored : forall (blob : Type) (C : codec blob) st dir start incl limit pfx n oe,
  In (n, oe) (wrapper_list_prefixed C st dir start incl limit pfx) ->
  list_filter start incl pfx n = true /\
  match store_find C st (dir, n) with
  | SOk e => oe = Some e
  | SErr => oe = None
  | SNotFound => False
  end.
Proof. exact (@listing_returns_stored). Qed.
Print Assumptions c24_listing_returns_stored.

(* the two read paths agree in the reader's view (file ids through GetFileIdString) *)
Theorem c24_listing_paths_agree : forall e, view (wire (prepare e)) = view (read_back e).
Proof. exact view_paths_agree. Qed.
Print Assumptions c24_listing_paths_agree.

Theorem c24_insert_into_empty_succeeds : forall (blob : Type) (C : codec blob) p e,
  wrapper_insert C empty_state p e <> None.
Proof. exact (@insert_empty_ok). Qed.
Print Assumptions c24_insert_into_empty_succeeds.

(* A marshalled entry never looks like gzip, so MaybeDecompressData cannot
   mistake it: rests only on the first-byte hypothesis, made explicit here. *)
Theorem c24_no_false_gzip : forall (blob : Type) (C : codec blob),
  (forall m a b, gz_head2 (cd_gz C) (cd_encode C m) = Some (a, b) -> pb_first_byte m = Some a) ->
  forall m, is_gzipped_content (cd_gz C) (cd_encode C m) = false.
Proof. exact (@no_false_gzip). Qed.
Print Assumptions c24_no_false_gzip.

(* what is kept: the marshalled entry, or (more than 50 chunks and the 10 % rule) its gzip *)
Theorem c24_stored_value : forall (blob : Type) (C : codec blob), codec_laws C -> forall e,
  stored_value C e = encode_entry C e \/
  (50 < len (e_chunks e) /\ stored_value C e = gz_gzip (cd_gz C) (encode_entry C e)).
Proof. exact (@stored_value_cases). Qed.
Print Assumptions c24_stored_value.

(* Every field of Attr survives EntryAttributeToPb / PbToEntryAttribute EXCEPT the
   sub-second part of Mtime and Crtime (FuseAttributes.mtime/crtime are int64 seconds;
   PbToEntryAttribute rebuilds time.Unix(sec, 0)): c24_time_granularity says exactly when
   nothing is lost.  Every other field of the entry survives ToExistingProtoEntry /
   FromPbEntryToExistingEntry. *)
Theorem c24_attr_roundtrip : forall a, pb_to_attr (Some (attr_to_pb a)) = wire_attr a.
Proof. exact attr_pb_roundtrip. Qed.
Print Assumptions c24_attr_roundtrip.

Theorem c24_time_granularity : forall a, wire_attr a = a <-> (a_mtime_ns a = 0 /\ a_crtime_ns a = 0).
Proof. exact wire_attr_id_iff. Qed.
Print Assumptions c24_time_granularity.

Theorem c24_entry_pb_roundtrip : forall e, from_pb (to_pb e) = wire e.
Proof. exact from_to_pb. Qed.
Print Assumptions c24_entry_pb_roundtrip.

Theorem c24_wire_exact : forall e, wire e = e <-> trigger_subsec e = false.
Proof. exact wire_id_iff. Qed.
Print Assumptions c24_wire_exact.

(* "reads back equal": as a reader sees it (file ids through GetFileIdString), on
   entries whose file id strings are canonical.
   KNOWN FINDING 0: not for Mime = "application/octet-stream" (stored as "").
   KNOWN FINDING 2: not for a Mtime / Crtime with a sub-second part (dropped).
   Each is refuted on an entry that is outside the other trigger. *)
Theorem c24_reads_back_equal_refuted : exists e,
  forallb chunk_canonical (e_chunks e) = true /\ trigger_subsec e = false /\ view (read_back e) <> view e.
Proof. exact canon_identity_refuted. Qed.
Print Assumptions c24_reads_back_equal_refuted.

Theorem c24_subsecond_time_refuted : exists e,
  forallb chunk_canonical (e_chunks e) = true /\ trigger_octet e = false /\ view (read_back e) <> view e.
Proof. exact subsec_refuted. Qed.
Print Assumptions c24_subsecond_time_refuted.

(* outside both triggers: equal by lookup / wrapper listing AND by the stores' prefixed listing *)
Theorem c24_reads_back_equal_partial : forall e,
  trigger_octet e = false -> trigger_subsec e = false ->
  forallb chunk_canonical (e_chunks e) = true ->
  view (read_back e) = view e /\ view (wire (prepare e)) = view e.
Proof. exact view_read_back. Qed.
Print Assumptions c24_reads_back_equal_partial.

(* trigger 2 is exact: nothing but the sub-second parts separates read_back from canon *)
Theorem c24_subsecond_exact : forall e, read_back e = canon e <-> trigger_subsec e = false.
Proof. exact read_back_canon_iff. Qed.
Print Assumptions c24_subsecond_exact.

(* file ids: what comes back is canonical (a fixed point of canonicalisation) ... *)
Theorem c24_read_back_ids_canonical : forall e,
  (forall c, In c (e_chunks e) -> chunk_fids_wf c) ->
  forall c, In c (e_chunks (view (read_back e))) -> chunk_canonical c = true.
Proof. exact canon_ids_canonical. Qed.
Print Assumptions c24_read_back_ids_canonical.

Theorem c24_canon_str_idempotent : forall s, canon_str (canon_str s) = canon_str s.
Proof. exact canon_str_idempotent. Qed.
Print Assumptions c24_canon_str_idempotent.

(* ... an id that does not parse is kept verbatim ... *)
Theorem c24_unparsable_verbatim : forall s, parse_fid s = None -> canon_str s = s.
Proof. exact canon_str_unparsable. Qed.
Print Assumptions c24_unparsable_verbatim.

(* ... and "equal to what was written", FULL: the (volume, key, cookie) a written string
   denotes is the one the read-back string denotes, needle key 0 included
   (formatNeedleIdCookie is modelled as repaired in the working tree; former finding 1). *)
Theorem c24_same_file_id : forall s f, parse_fid s = Some f -> parse_fid (canon_str s) = Some f.
Proof. exact canon_str_preserves_id. Qed.
Print Assumptions c24_same_file_id.

Theorem c24_parse_format : forall f, fid_wf f = true -> parse_fid (format_fid f) = Some f.
Proof. exact parse_format_fid. Qed.
Print Assumptions c24_parse_format.

(* the former witness of finding 1: now a fixed point that denotes (3, 0, 0x637037d6) *)
Example c24_key_zero_example :
  canon_str (s2b "3,00637037d6") = s2b "3,00637037d6" /\
  canon_str (s2b "3,0000000000000000637037D6") = s2b "3,00637037d6" /\
  parse_fid (s2b "3,00637037d6") = Some {| f_vid := 3; f_key := 0; f_cookie := 1668298710 |} /\
  parse_fid (s2b "3,637037d6") = None.
Proof. exact canon_str_key_zero_example. Qed.
Print Assumptions c24_key_zero_example.

(* non-vacuity: a codec satisfying the laws exists; on it an entry with a
   non-canonical id, a source id, an unparsable id and a hard link is inserted
   over an older version next to two siblings and read back canonically by lookup, by the
   wrapper's listing and (one page) by the prefixed listing, in byte order of the names *)
Example c24_example :
  (forall blen glen, codec_laws (sym_codec blen glen)) /\ c24_example_stmt.
Proof. exact (conj sym_codec_laws c24_example_ok). Qed.
Print Assumptions c24_example.
