(* C30 — Mount write buffering preserves POSIX byte semantics.
   Only statements closed by [exact]; proofs live in proof/DirtyPages*.v.

   Vocabulary (model/DirtyPages.v, proof/DirtyPagesIntervals.v):
     m_* = in-memory buffer (ContinuousIntervals / ContinuousDirtyPages), t_* = temp-file buffer
     wf P valid c     every list of c is a non-empty chain of valid, contiguous nodes, and the lists are
                      pairwise disjoint and NOT adjacent (sepd l m := te l < hd m \/ te m < hd l)
     cat ... c p      the byte the buffer holds for file offset p (None = not buffered)
     latest ws p      the byte of the last write of ws that covers p
     exec / run       the model run on a history of Write / Trunc / Flush / Read
     pfile ops        the POSIX file (list of bytes) after the history
     op_ok            the domain: writes are NON-EMPTY (the mount never issues zero-length writes) and
                      offsets / sizes are non-negative
     m_trigger/t_trigger = None   the history meets none of the known findings' triggers:
                      0 truncate below the file size while a dirty list reaches beyond the new size
                      1 a Read served from a stale visible-interval cache
     xop / m_xrun / m_xtrigger   extended histories: WriteRead off data roff rlen = a Write followed by a Read that
                      arrives while the chunk uploads started by that Write are still in flight (FileHandle.Read
                      does not wait for the writers); FlushClose = the real FileHandle.Flush (compaction + CreateEntry)
                      2 (extended histories only) a WriteRead whose Write started a save
                    (File.Setattr dropping the chunks that lie wholly inside the new size has been
                     repaired in weed/filesys/file.go; the model follows the repaired code) *)
From Coq Require Import List ZArith NArith Bool.
From SW Require Import proof.DirtyPagesProofs proof.DirtyPagesInflight.
Import ListNotations.
Local Open Scope Z_scope.

(* ---------- c30_lists_wellformed (full): along EVERY history the interval lists are contiguous,
   pairwise disjoint and non-adjacent ---------- *)
Theorem c30_lists_wellformed_mem : forall limit ops, Forall op_ok ops ->
  wf (list N) m_valid (m_iv (exec mstate (m_step limit) mstate0 ops)).
Proof. exact m_lists_wellformed. Qed.
Print Assumptions c30_lists_wellformed_mem.

Theorem c30_lists_wellformed_temp : forall limit ops, Forall op_ok ops ->
  let s := exec tstate (t_step limit) tstate0 ops in
  wf Z (t_valid (t_file s)) (t_iv s) /\ (t_tf s = None -> t_iv s = []).
Proof. exact t_lists_wellformed. Qed.
Print Assumptions c30_lists_wellformed_temp.

(* AddInterval on any well-formed collection: well-formed again, and the buffer holds the new bytes
   on the written range and what it held before elsewhere *)
Theorem c30_add_interval_mem : forall c off data, wf (list N) m_valid c -> data <> [] ->
  wf (list N) m_valid (m_add c (m_node off data)) /\
  forall p, cat (list N) m_fetch (m_add c (m_node off data)) p =
            if (off <=? p) && (p <? off + zlen data) then zget data (p - off) else cat (list N) m_fetch c p.
Proof. exact m_add_spec. Qed.
Print Assumptions c30_add_interval_mem.

Theorem c30_add_interval_temp : forall tf c off data, wf Z (t_valid tf) c -> data <> [] ->
  wf Z (t_valid (tf ++ data)) (t_add c (t_node off data tf)) /\
  forall p, cat Z (t_fetch (tf ++ data)) (t_add c (t_node off data tf)) p =
            if (off <=? p) && (p <? off + zlen data) then zget data (p - off) else cat Z (t_fetch tf) c p.
Proof. exact t_add_spec. Qed.
Print Assumptions c30_add_interval_temp.

(* ---------- c30_read_is_posix (full): for every sequence of non-empty writes, ReadDataAt returns,
   for every buffered position, the LATEST write, and leaves the caller's buffer elsewhere ---------- *)
Theorem c30_read_is_posix_mem : forall ws buf so i, Forall (fun w => snd w <> []) ws -> 0 <= i < zlen buf ->
  zget (fst (read_data_at (list N) m_fetch (m_adds ws []) buf so)) i =
  match latest ws (so + i) with Some b => Some b | None => zget buf i end.
Proof. exact m_read_is_posix. Qed.
Print Assumptions c30_read_is_posix_mem.

Theorem c30_read_is_posix_temp : forall ws buf so i, Forall (fun w => snd w <> []) ws -> 0 <= i < zlen buf ->
  zget (fst (t_dirty_read (t_adds ws tstate0) buf so)) i =
  match latest ws (so + i) with Some b => Some b | None => zget buf i end.
Proof. exact t_read_is_posix. Qed.
Print Assumptions c30_read_is_posix_temp.

(* ReadDataAt on any well-formed collection: length kept, overlay of the buffered bytes,
   maxStop lies beyond every buffered position of the window *)
Theorem c30_read_data_at_mem : forall c buf so, wf (list N) m_valid c ->
  zlen (fst (read_data_at (list N) m_fetch c buf so)) = zlen buf /\
  (forall i, 0 <= i < zlen buf ->
     zget (fst (read_data_at (list N) m_fetch c buf so)) i =
     match cat (list N) m_fetch c (so + i) with Some b => Some b | None => zget buf i end) /\
  (forall p b, so <= p < so + zlen buf -> cat (list N) m_fetch c p = Some b ->
     p < snd (read_data_at (list N) m_fetch c buf so)).
Proof. exact m_read_data_at. Qed.
Print Assumptions c30_read_data_at_mem.

(* ---------- c30_flush_is_posix ----------
   FULL statement: for every history in the domain, after a Flush the stored chunks resolve
   (last saved wins, zeros in holes, length = filer.FileSize) to the POSIX file.
   It is REFUTED for both buffers; the strongest true statement is the partial one below. *)
Theorem c30_flush_is_posix_refuted_mem : exists limit pre, 0 < limit /\ Forall op_ok (pre ++ [Flush]) /\
  content_of (m_meta (exec mstate (m_step limit) mstate0 (pre ++ [Flush]))) <> pfile (pre ++ [Flush]).
Proof. exact m_flush_refuted. Qed.
Print Assumptions c30_flush_is_posix_refuted_mem.

Theorem c30_flush_is_posix_refuted_temp : exists limit pre, 0 < limit /\ Forall op_ok (pre ++ [Flush]) /\
  content_of (t_meta (exec tstate (t_step limit) tstate0 (pre ++ [Flush]))) <> pfile (pre ++ [Flush]).
Proof. exact t_flush_refuted. Qed.
Print Assumptions c30_flush_is_posix_refuted_temp.

(* PARTIAL: every history that meets no trigger — in particular every history of writes, flushes,
   reads and truncates in which no truncate cuts into (or before) data that is still dirty *)
Theorem c30_flush_is_posix_partial_mem : forall limit pre post,
  Forall op_ok (pre ++ Flush :: post) ->
  m_trigger limit (pre ++ Flush :: post) = None ->
  content_of (m_meta (exec mstate (m_step limit) mstate0 (pre ++ [Flush]))) = pfile (pre ++ [Flush]).
Proof. exact m_flush_is_posix. Qed.
Print Assumptions c30_flush_is_posix_partial_mem.

Theorem c30_flush_is_posix_partial_temp : forall limit pre post, 0 < limit ->
  Forall op_ok (pre ++ Flush :: post) ->
  t_trigger limit (pre ++ Flush :: post) = None ->
  content_of (t_meta (exec tstate (t_step limit) tstate0 (pre ++ [Flush]))) = pfile (pre ++ [Flush]).
Proof. exact t_flush_is_posix. Qed.
Print Assumptions c30_flush_is_posix_partial_temp.

(* ---------- FileHandle.Read (chunk layer + dirty overlay): the full statement "every read returns
   the POSIX bytes" is refuted by the never-refreshed visible-interval cache (trigger 1) ---------- *)
Theorem c30_handle_read_refuted : exists limit ops, 0 < limit /\ Forall op_ok ops /\
  m_trigger limit ops = Some 1%N /\ t_trigger limit ops = Some 1%N /\
  read_data (last (m_run limit ops) (OTrunc [] 0)) <> pread (pfile ops) 0 8 /\
  read_data (last (t_run limit ops) (OTrunc [] 0)) <> pread (pfile ops) 0 8.
Proof. exact handle_read_refuted. Qed.
Print Assumptions c30_handle_read_refuted.

(* PARTIAL: on every trigger-free history each Read (offset >= 0, length > 0) returns exactly the
   POSIX bytes of its window (short at the end of the file) *)
Theorem c30_handle_read_partial_mem : forall limit pre off len post,
  Forall op_ok (pre ++ Read off len :: post) -> 0 <= off -> 0 < len ->
  m_trigger limit (pre ++ Read off len :: post) = None ->
  exists d ms, snd (m_step limit (exec mstate (m_step limit) mstate0 pre) (Read off len))
               = ORead d ms (pread (pfile pre) off len).
Proof. exact m_read_is_posix_history. Qed.
Print Assumptions c30_handle_read_partial_mem.

Theorem c30_handle_read_partial_temp : forall limit pre off len post, 0 < limit ->
  Forall op_ok (pre ++ Read off len :: post) -> 0 <= off -> 0 < len ->
  t_trigger limit (pre ++ Read off len :: post) = None ->
  exists d ms, snd (t_step limit (exec tstate (t_step limit) tstate0 pre) (Read off len))
               = ORead d ms (pread (pfile pre) off len).
Proof. exact t_read_is_posix_history. Qed.
Print Assumptions c30_handle_read_partial_temp.

(* ---------- non-vacuity: a trigger-free history with a page larger than the chunk limit, an
   automatic save, a hole and a shrinking truncate ---------- *)
Example c30_example_trigger_free :
  m_trigger 4 ex_ops = None /\ t_trigger 4 ex_ops = None /\ Forall op_ok ex_ops.
Proof. exact ex_trigger_free. Qed.
Print Assumptions c30_example_trigger_free.

(* the former witness of the repaired Setattr defect (a truncate that leaves a whole chunk inside the
   new size) is now trigger-free and resolves to the POSIX file *)
Example c30_example_truncate_keeps_chunks :
  m_trigger 16 (w_kept ++ [Flush]) = None /\ t_trigger 16 (w_kept ++ [Flush]) = None /\
  content_of (m_meta (exec mstate (m_step 16) mstate0 (w_kept ++ [Flush]))) = [1;2;3;4;5;6]%N /\
  content_of (t_meta (exec tstate (t_step 16) tstate0 (w_kept ++ [Flush]))) = [1;2;3;4;5;6]%N /\
  pfile (w_kept ++ [Flush]) = [1;2;3;4;5;6]%N.
Proof. exact w_kept_values. Qed.
Print Assumptions c30_example_truncate_keeps_chunks.

Example c30_example_content :
  content_of (m_meta (exec mstate (m_step 4) mstate0 ex_ops)) = [1;2;3;0;0;9;0;0;0;0]%N /\
  content_of (t_meta (exec tstate (t_step 4) tstate0 ex_ops)) = [1;2;3;0;0;9;0;0;0;0]%N /\
  pfile ex_ops = [1;2;3;0;0;9;0;0;0;0]%N /\
  length (f_chunks (m_meta (exec mstate (m_step 4) mstate0 ex_ops))) = 3%nat.
Proof. exact ex_content. Qed.
Print Assumptions c30_example_content.

(* ---------- reads while a save is in flight (extended histories) ----------
   FULL statement "every read returns the POSIX bytes" REFUTED for the in-memory buffer: AddPage hands a list
   to an upload goroutine and removes it from the intervals; until the upload completes the bytes are neither
   in the dirty pages nor in entry.Chunks, and FileHandle.Read does not wait (finding 2). *)
Theorem c30_inflight_read_refuted : exists limit xs, 0 < limit /\ Forall op_ok (xflat xs) /\
  m_xtrigger limit xs = Some 2%N /\
  xread_data (last (m_xrun limit xs) (XObs (OTrunc [] 0) 0)) <> pread (pfile (xflat xs)) 0 4.
Proof. exact inflight_read_refuted. Qed.
Print Assumptions c30_inflight_read_refuted.

(* PARTIAL (refinement): an extended history meeting no trigger - every WriteRead's Write starts no save - is
   observation by observation the plain history Write; Read, which meets no trigger either: all the
   theorems above apply to it *)
Theorem c30_inflight_refines_mem : forall limit xs, m_xtrigger limit xs = None ->
  m_trigger limit (xflat xs) = None /\ xobs_flat (m_xrun limit xs) = m_run limit (xflat xs).
Proof. exact m_x_refines. Qed.
Print Assumptions c30_inflight_refines_mem.

Theorem c30_inflight_refines_temp : forall limit xs, t_xtrigger limit xs = None ->
  t_trigger limit (xflat xs) = None /\ xobs_flat (t_xrun limit xs) = t_run limit (xflat xs).
Proof. exact t_x_refines. Qed.
Print Assumptions c30_inflight_refines_temp.

Theorem c30_inflight_read_partial_mem : forall limit xpre off data roff rlen xpost,
  Forall op_ok (xflat (xpre ++ WriteRead off data roff rlen :: xpost)) -> 0 <= roff -> 0 < rlen ->
  m_xtrigger limit (xpre ++ WriteRead off data roff rlen :: xpost) = None ->
  exists ow d ms a,
    snd (m_xstep limit (exec_x mstate (m_xstep limit) mstate0 xpre) (WriteRead off data roff rlen)) =
    XWriteRead ow (ORead d ms (pread (pfile (xflat xpre ++ [Write off data])) roff rlen)) a.
Proof. exact m_inflight_read_posix. Qed.
Print Assumptions c30_inflight_read_partial_mem.

Theorem c30_inflight_read_partial_temp : forall limit xpre off data roff rlen xpost, 0 < limit ->
  Forall op_ok (xflat (xpre ++ WriteRead off data roff rlen :: xpost)) -> 0 <= roff -> 0 < rlen ->
  t_xtrigger limit (xpre ++ WriteRead off data roff rlen :: xpost) = None ->
  exists ow d ms a,
    snd (t_xstep limit (exec_x tstate (t_xstep limit) tstate0 xpre) (WriteRead off data roff rlen)) =
    XWriteRead ow (ORead d ms (pread (pfile (xflat xpre ++ [Write off data])) roff rlen)) a.
Proof. exact t_inflight_read_posix. Qed.
Print Assumptions c30_inflight_read_partial_temp.

(* FULL for the temp-file buffer: its Write never starts a save (uploads happen inside FlushData, which
   waits for them), so trigger 2 never fires there *)
Theorem c30_temp_never_inflight : forall limit xs, t_xtrigger limit xs <> Some 2%N.
Proof. exact t_never_inflight. Qed.
Print Assumptions c30_temp_never_inflight.

(* what the witness of finding 2 returns: zeros from the in-memory buffer, the written bytes from the temp file *)
Example c30_example_inflight_values :
  xread_data (last (m_xrun 4 w3) (XObs (OTrunc [] 0) 0)) = [0;0;0;0]%N /\ pread (pfile (xflat w3)) 0 4 = [1;2;3;4]%N /\
  xread_data (last (t_xrun 4 w3) (XObs (OTrunc [] 0) 0)) = [1;2;3;4]%N.
Proof. exact w3_values. Qed.
Print Assumptions c30_example_inflight_values.

(* the closing FileHandle.Flush on a trigger-free history with a completely overwritten chunk:
   CompactFileChunks drops it (3 chunks -> 2) and the entry the filer receives resolves to the POSIX file *)
Example c30_example_closing_flush :
  xcreated (last (m_xrun 16 w_close) (XObs (OTrunc [] 0) 0)) = pfile (xflat w_close) /\
  xcreated (last (t_xrun 16 w_close) (XObs (OTrunc [] 0) 0)) = pfile (xflat w_close) /\
  pfile (xflat w_close) = [5;6;7;7;9;9;9;9]%N /\
  length (compact_chunks (f_chunks (m_meta (exec_x mstate (m_xstep 16) mstate0 w_close)))) = 2%nat /\
  length (f_chunks (m_meta (exec_x mstate (m_xstep 16) mstate0 w_close))) = 3%nat /\
  m_xtrigger 16 w_close = None /\ t_xtrigger 16 w_close = None.
Proof. exact w_close_values. Qed.
Print Assumptions c30_example_closing_flush.
