(* Translator tie for constants (DESIGN.md section 3.1).
   gen/Consts.v is REGENERATED from the source tree on every run by harness/cmd/constgen
   (it imports the repo's packages and prints their constants).  The models write the
   same constants as literals; every lemma below re-checks one of them against what
   the code says now.  A changed constant in the source therefore breaks a proof
   obligation here, before any sampled case runs. *)
From Coq Require Import NArith ZArith List.
From SW Require gen.Consts.
From SW Require model.Needle model.EcIndex model.NeedleMap model.Seq model.TopoPlace
                model.EcBalance model.Ttl model.VolumeCrash.
Local Open Scope N_scope.

Example tie_needle_sizes :
  Needle.CookieSize = Consts.CookieSize /\ Needle.NeedleIdSize = Consts.NeedleIdSize /\
  Needle.SizeSize = Consts.SizeSize /\ Needle.NeedleHeaderSize = Consts.NeedleHeaderSize /\
  Needle.NeedleChecksumSize = Consts.NeedleChecksumSize /\ Needle.TimestampSize = Consts.TimestampSize /\
  Needle.NeedlePaddingSize = Consts.NeedlePaddingSize /\
  Needle.LastModifiedBytesLength = Consts.LastModifiedBytesLength /\
  Needle.TtlBytesLength = Consts.TtlBytesLength.
Proof. repeat split; reflexivity. Qed.

Example tie_needle_flags :
  Needle.FlagIsCompressed = Consts.FlagIsCompressed /\ Needle.FlagHasName = Consts.FlagHasName /\
  Needle.FlagHasMime = Consts.FlagHasMime /\ Needle.FlagHasLastModifiedDate = Consts.FlagHasLastModifiedDate /\
  Needle.FlagHasTtl = Consts.FlagHasTtl /\ Needle.FlagHasPairs = Consts.FlagHasPairs /\
  Needle.FlagIsChunkManifest = Consts.FlagIsChunkManifest.
Proof. repeat split; reflexivity. Qed.

(* default build: 4-byte offsets; the 5BytesOffset harness variants pass the width inside every case *)
Example tie_index_entry :
  EcIndex.entry_size Consts.OffsetSize = Consts.NeedleMapEntrySize /\
  EcIndex.header_size = Consts.NeedleHeaderSize /\ EcIndex.tombstone = Consts.TombstoneFileSize_Z /\
  VolumeCrash.NeedleMapEntrySize = Consts.NeedleMapEntrySize /\
  VolumeCrash.TombstoneFileSize = Consts.TombstoneFileSize_Z /\
  VolumeCrash.SuperBlockSize = Consts.SuperBlockSize /\ VolumeCrash.Ver = Consts.CurrentVersion /\
  VolumeCrash.MaxPossibleVolumeSize = Consts.MaxPossibleVolumeSize.
Proof. repeat split; reflexivity. Qed.

Example tie_compact_map : NeedleMap.sec_lim = Consts.SectionalNeedleIdLimit.
Proof. reflexivity. Qed.

Example tie_sequencer : Seq.etcd_steps = Consts.DefaultEtcdSteps.
Proof. reflexivity. Qed.

Example tie_ec_counts :
  TopoPlace.DataShardsCount = Consts.DataShardsCount_Z /\ EcBalance.total_shards = Consts.TotalShardsCount_Z /\
  (Consts.DataShardsCount + Consts.ParityShardsCount = Consts.TotalShardsCount) /\
  Consts.DataShardsCount = 10 /\ Consts.ParityShardsCount = 4 /\
  (* the scaled-down block sizes used by the C06 harness keep the shape of the real ones *)
  (Consts.ErasureCodingLargeBlockSize mod Consts.ErasureCodingSmallBlockSize = 0).
Proof. repeat split; reflexivity. Qed.

(* TTL: minutes per unit and stored unit codes, obtained by CALLING ReadTTL/Minutes in constgen *)
Example tie_ttl_units :
  Ttl.minutes {| Ttl.t_count := 1; Ttl.t_unit := Consts.TtlUnitCodeMinute |} = Consts.TtlMinutesPerMinute /\
  Ttl.minutes {| Ttl.t_count := 1; Ttl.t_unit := Consts.TtlUnitCodeHour |} = Consts.TtlMinutesPerHour /\
  Ttl.minutes {| Ttl.t_count := 1; Ttl.t_unit := Consts.TtlUnitCodeDay |} = Consts.TtlMinutesPerDay /\
  Ttl.minutes {| Ttl.t_count := 1; Ttl.t_unit := Consts.TtlUnitCodeWeek |} = Consts.TtlMinutesPerWeek /\
  Ttl.minutes {| Ttl.t_count := 1; Ttl.t_unit := Consts.TtlUnitCodeMonth |} = Consts.TtlMinutesPerMonth /\
  Ttl.minutes {| Ttl.t_count := 1; Ttl.t_unit := Consts.TtlUnitCodeYear |} = Consts.TtlMinutesPerYear /\
  Ttl.SUPER_BLOCK_SIZE = Consts.SuperBlockSize /\
  Ttl.MAX_TTL_VOLUME_REMOVAL_DELAY = Consts.MaxTtlVolumeRemovalDelay.
Proof. repeat split; reflexivity. Qed.
