(* Translator tie for constants (DESIGN.md section 3.1).
   gen/Consts.v is REGENERATED from the source tree on every run by harness/cmd/constgen
   (it imports the repo's packages and prints their constants).  The models write the
   same constants as literals; every lemma below re-checks one of them against what
   the code says now.  A changed constant in the source therefore breaks a proof
   obligation here, before any sampled case runs. *)
From Coq Require Import NArith ZArith List.
From SW Require gen.Consts.
From SW Require model.Needle model.EcIndex model.NeedleMap model.Seq model.TopoPlace
                model.EcBalance model.Ttl model.VolumeCrash model.Codecs model.EC.
Import ListNotations.
Local Open Scope N_scope.

Example tie_needle_sizes :
  Needle.CookieSize = Consts.CookieSize /\ Needle.NeedleIdSize = Consts.NeedleIdSize /\
  Needle.SizeSize = Consts.SizeSize /\ Needle.NeedleHeaderSize = Consts.NeedleHeaderSize /\
  Needle.NeedleChecksumSize = Consts.NeedleChecksumSize /\ Needle.TimestampSize = Consts.TimestampSize /\
  Needle.NeedlePaddingSize = Consts.NeedlePaddingSize /\
  Needle.LastModifiedBytesLength = Consts.LastModifiedBytesLength /\
  Needle.TtlBytesLength = Consts.TtlBytesLength.
Proof. repeat split; reflexivity. Qed.

Example tie_needle_flags :
  Needle.FlagIsCompressed = Consts.FlagIsCompressed /\ Needle.FlagHasName = Consts.FlagHasName /\
  Needle.FlagHasMime = Consts.FlagHasMime /\ Needle.FlagHasLastModifiedDate = Consts.FlagHasLastModifiedDate /\
  Needle.FlagHasTtl = Consts.FlagHasTtl /\ Needle.FlagHasPairs = Consts.FlagHasPairs /\
  Needle.FlagIsChunkManifest = Consts.FlagIsChunkManifest.
Proof. repeat split; reflexivity. Qed.

(* default build: 4-byte offsets; the 5BytesOffset harness variants pass the width inside every case *)
Example tie_index_entry :
  EcIndex.entry_size Consts.OffsetSize = Consts.NeedleMapEntrySize /\
  EcIndex.header_size = Consts.NeedleHeaderSize /\ EcIndex.tombstone = Consts.TombstoneFileSize_Z /\
  VolumeCrash.NeedleMapEntrySize = Consts.NeedleMapEntrySize /\
  VolumeCrash.TombstoneFileSize = Consts.TombstoneFileSize_Z /\
  VolumeCrash.SuperBlockSize = Consts.SuperBlockSize /\ VolumeCrash.Ver = Consts.CurrentVersion /\
  VolumeCrash.MaxPossibleVolumeSize = Consts.MaxPossibleVolumeSize.
Proof. repeat split; reflexivity. Qed.

Example tie_compact_map : NeedleMap.sec_lim = Consts.SectionalNeedleIdLimit.
Proof. reflexivity. Qed.

Example tie_sequencer : Seq.etcd_steps = Consts.DefaultEtcdSteps.
Proof. reflexivity. Qed.

Example tie_ec_counts :
  TopoPlace.DataShardsCount = Consts.DataShardsCount_Z /\ EcBalance.total_shards = Consts.TotalShardsCount_Z /\
  (Consts.DataShardsCount + Consts.ParityShardsCount = Consts.TotalShardsCount) /\
  Consts.DataShardsCount = 10 /\ Consts.ParityShardsCount = 4 /\
  (* the scaled-down block sizes used by the C06 harness keep the shape of the real ones *)
  (Consts.ErasureCodingLargeBlockSize mod Consts.ErasureCodingSmallBlockSize = 0).
Proof. repeat split; reflexivity. Qed.

(* TTL: minutes per unit and stored unit codes, obtained by CALLING ReadTTL/Minutes in constgen *)
Example tie_ttl_units :
  Ttl.minutes {| Ttl.t_count := 1; Ttl.t_unit := Consts.TtlUnitCodeMinute |} = Consts.TtlMinutesPerMinute /\
  Ttl.minutes {| Ttl.t_count := 1; Ttl.t_unit := Consts.TtlUnitCodeHour |} = Consts.TtlMinutesPerHour /\
  Ttl.minutes {| Ttl.t_count := 1; Ttl.t_unit := Consts.TtlUnitCodeDay |} = Consts.TtlMinutesPerDay /\
  Ttl.minutes {| Ttl.t_count := 1; Ttl.t_unit := Consts.TtlUnitCodeWeek |} = Consts.TtlMinutesPerWeek /\
  Ttl.minutes {| Ttl.t_count := 1; Ttl.t_unit := Consts.TtlUnitCodeMonth |} = Consts.TtlMinutesPerMonth /\
  Ttl.minutes {| Ttl.t_count := 1; Ttl.t_unit := Consts.TtlUnitCodeYear |} = Consts.TtlMinutesPerYear /\
  Ttl.SUPER_BLOCK_SIZE = Consts.SuperBlockSize /\
  Ttl.MAX_TTL_VOLUME_REMOVAL_DELAY = Consts.MaxTtlVolumeRemovalDelay.
Proof. repeat split; reflexivity. Qed.

(* ---- added in session 3: literals reported by the per-property audits ---- *)

(* C08: offset width -> largest volume; TTL unit letters -> stored unit codes *)
Example tie_codecs_offsets :
  Codecs.max_volume_size Consts.OffsetSize = Consts.MaxPossibleVolumeSize /\
  Codecs.off_limit Consts.OffsetSize * Consts.NeedlePaddingSize = Consts.MaxPossibleVolumeSize.
Proof. repeat split; reflexivity. Qed.

Example tie_codecs_ttl_letters :
  Codecs.to_stored_byte 109 = Consts.TtlUnitCodeMinute /\ Codecs.to_stored_byte 104 = Consts.TtlUnitCodeHour /\
  Codecs.to_stored_byte 100 = Consts.TtlUnitCodeDay /\ Codecs.to_stored_byte 119 = Consts.TtlUnitCodeWeek /\
  Codecs.to_stored_byte 77 = Consts.TtlUnitCodeMonth /\ Codecs.to_stored_byte 121 = Consts.TtlUnitCodeYear.
Proof. repeat split; reflexivity. Qed.

(* C13: bit layout of a snowflake id (github.com/bwmarrin/snowflake NodeBits / StepBits) *)
Example tie_snowflake_layout :
  Seq.sf_id 1 0 0 = 2 ^ (Consts.SnowflakeNodeBits + Consts.SnowflakeStepBits) /\
  Seq.sf_id 0 1 0 = 2 ^ Consts.SnowflakeStepBits /\
  Seq.sf_nodes_ok [2 ^ Consts.SnowflakeNodeBits - 1] = true /\
  Seq.sf_nodes_ok [2 ^ Consts.SnowflakeNodeBits] = false /\
  (* the step counter rolls over at 2^StepBits *)
  snd (Seq.sf_generate 0 {| Seq.sf_time := 5; Seq.sf_step := 2 ^ Consts.SnowflakeStepBits - 2 |} 5 6) =
    Seq.sf_id 5 0 (2 ^ Consts.SnowflakeStepBits - 1) /\
  snd (Seq.sf_generate 0 {| Seq.sf_time := 5; Seq.sf_step := 2 ^ Consts.SnowflakeStepBits - 1 |} 5 6) =
    Seq.sf_id 6 0 0.
Proof. repeat split; reflexivity. Qed.

(* C07/C06: the record span used by the decode+mount model = needle.GetActualSize(size, Version3),
   obtained by CALLING the function in constgen on sample sizes around the padding boundaries *)
Example tie_record_span :
  EcIndex.dm_span 0 = Consts.ActualSizeV3_0 /\ EcIndex.dm_span 1 = Consts.ActualSizeV3_1 /\
  EcIndex.dm_span 3 = Consts.ActualSizeV3_3 /\ EcIndex.dm_span 4 = Consts.ActualSizeV3_4 /\
  EcIndex.dm_span 5 = Consts.ActualSizeV3_5 /\ EcIndex.dm_span 11 = Consts.ActualSizeV3_11 /\
  EcIndex.dm_span 12 = Consts.ActualSizeV3_12 /\ EcIndex.dm_span 13 = Consts.ActualSizeV3_13 /\
  EcIndex.dm_span 100 = Consts.ActualSizeV3_100 /\ EcIndex.dm_span 4095 = Consts.ActualSizeV3_4095.
Proof. repeat split; reflexivity. Qed.

(* C06: the shard counts written as literals in model/EC.v *)
Example tie_ec_model_counts : forall dat L S buf D,
  Z.of_nat (length (EC.data_shards dat L S buf D)) = Consts.DataShardsCount_Z.
Proof. intros. reflexivity. Qed.
