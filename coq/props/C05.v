(* C05 — Volume index: in-memory map, on-disk index and counters agree.
   Only statements closed by [exact]; proofs live in proof/NeedleMap*.v and proof/EcIndexProofs.v.

   [batch] is the section capacity of compact_map.go (100000 in the Go code; every theorem is
   for ALL values), [osz] the build configuration types.OffsetSize (4, or 5 under -tags
   5BytesOffset; [ok_osz]).  Histories are lists of Put / Del / Get over keys < 2^64
   ([keys_ok]); [ref_run] is the reference association list, [ref_metric] the reference
   counters.  The model follows the Go tree with repairs (i) span check in
   CompactMap.Get/Delete, (ii) high offset byte on overflow overwrite and (iii) valid-size
   check in CompactSection.Delete's overflow branch applied. *)
From Coq Require Import List NArith ZArith Bool.
From SW Require Import model.NeedleMap proof.EcIndexProofs proof.NeedleMapSearch proof.NeedleMapSec
  proof.NeedleMapCm proof.NeedleMapRefine proof.NeedleMapProofs proof.NeedleMapKinds
  proof.NeedleMapCounters proof.NeedleMapCountersMain proof.NeedleMapRunning proof.NeedleMapExact
  proof.NeedleMapFill.
Import ListNotations.
Local Open Scope N_scope.

(* ---- invariants of every reachable CompactMap ---- *)
(* sections are ordered: each one's keys end before the next one starts *)
Theorem c05_sections_sorted : forall batch ops, keys_ok ops ->
  let cm := snd (cm_run batch [] ops) in
  forall i j a b, (i < j)%nat -> nth_error cm i = Some a -> nth_error cm j = Some b ->
    s_start a <= s_end a /\ s_end a < s_start b /\ s_start a < s_start b.
Proof. exact reachable_sections_sorted. Qed.
Print Assumptions c05_sections_sorted.

(* inside every section: values and overflow strictly sorted by key, disjoint, and every
   stored key within the section's 32-bit span and below its recorded end *)
Theorem c05_values_sorted : forall batch ops, keys_ok ops ->
  let cm := snd (cm_run batch [] ops) in
  forall i s, nth_error cm i = Some s ->
    sorted (s_values s) /\ sorted (s_overflow s) /\
    (forall k, In k (map sk (s_overflow s)) -> ~ In k (map sk (s_values s))) /\
    (forall v, In v (s_values s ++ s_overflow s) -> sk v <= sec_lim /\ s_start s + sk v <= s_end s).
Proof. exact reachable_values_sorted. Qed.
Print Assumptions c05_values_sorted.

(* ---- refinement of the reference map ---- *)
(* FULL: after ANY history (any key order, keys far apart, any sizes and offsets) Get of ANY
   key returns exactly the latest (offset, size) of the reference, deleted keys with their
   negated size, absent keys as absent *)
Theorem c05_get_refines : forall batch ops key, keys_ok ops -> key < two64 ->
  cm_get batch (snd (cm_run batch [] ops)) key =
  match ref_get (snd (ref_run [] ops)) key with Some (off, sz) => Some (key, off, sz) | None => None end.
Proof. exact lookup_refines. Qed.
Print Assumptions c05_get_refines.

(* FULL: ALL return values (old (offset,size) of Set, removed size of Delete, answer of Get)
   equal the reference's, for every history (CompactSection.Delete repaired: the size of an
   overflow entry is returned only when it is valid) *)
Theorem c05_results_refine : forall batch ops, keys_ok ops ->
  fst (cm_run batch [] ops) = fst (ref_run [] ops).
Proof. exact results_refine. Qed.
Print Assumptions c05_results_refine.

(* the former exception, evaluated with the real capacity 100000: 140 ascending keys, key 55
   goes to the overflow list, its first Delete returns 778, its second Delete returns 0 *)
Theorem c05_redelete_real_batch :
  keys_ok redelete_real /\
  map (fun s => map sk (s_overflow s)) (snd (cm_run 100000 [] redelete_real)) = [[55]] /\
  nth 141 (fst (cm_run 100000 [] redelete_real)) (RGet None) = RDel 778%Z /\
  nth 142 (fst (cm_run 100000 [] redelete_real)) (RGet None) = RDel 0%Z.
Proof. exact redelete_real_witness. Qed.
Print Assumptions c05_redelete_real_batch.

(* FULL: the LevelDB-backed map answers like the reference after any history *)
Theorem c05_leveldb_refines : forall osz ops k,
  ldb_get (snd (ldb_run osz ldb0 ops)) k =
  match ref_get (snd (ref_run [] ops)) k with Some (off, sz) => Some (k, off, sz) | None => None end.
Proof. exact ldb_refines. Qed.
Print Assumptions c05_leveldb_refines.

(* ---- counters while running ---- *)
(* FULL: file/deletion counters, byte totals and max key of the in-memory and of the LevelDB
   kind are the reference counters after any history *)
Theorem c05_counters_running_memory : forall osz batch ops, keys_ok ops ->
  nm_met (snd (nm_run osz batch nm0 ops)) = ref_metric ops.
Proof. exact nm_counters_running. Qed.
Print Assumptions c05_counters_running_memory.
Theorem c05_counters_running_leveldb : forall osz ops,
  l_met (snd (ldb_run osz ldb0 ops)) = ref_metric ops.
Proof. exact ldb_counters_running. Qed.
Print Assumptions c05_counters_running_leveldb.

(* ---- reload of the in-memory map from its .idx (doLoading) ---- *)
(* the statement: same map (hence same lookups) and same counters.  It FAILS for histories a
   volume can issue (known finding 0: an empty-size Put) ... *)
Theorem c05_reload_refuted : exists osz batch ops, ok_osz osz /\
  forallb (op_in_range osz) ops = true /\ disciplined ops = true /\ ~ reload_ok osz batch ops.
Proof. exact reload_refuted. Qed.
Print Assumptions c05_reload_refuted.

(* ... and holds for every disciplined history (nonzero offsets, Delete only of live keys)
   without an empty-size Put, under both offset widths *)
Theorem c05_reload_partial : forall osz batch ops, ok_osz osz ->
  forallb (op_in_range osz) ops = true -> disciplined ops = true -> trig_empty_put ops = false ->
  reload_ok osz batch ops.
Proof. exact reload_partial. Qed.
Print Assumptions c05_reload_partial.

(* ---- reopening the LevelDB kind / generating the sorted-file kind from the .idx ---- *)
(* lookups: the reopened LevelDB map and the sorted-file map serve exactly the live entries *)
Theorem c05_reload_leveldb_lookups : forall osz ops k, ok_osz osz ->
  forallb (op_in_range osz) ops = true -> disciplined ops = true -> trig_empty_put ops = false ->
  let s := snd (ldb_run osz ldb0 ops) in
  live_view (ldb_get (ldb_load osz (l_idx s)) k) = live_view (ldb_get s k).
Proof. exact ldb_reload_lookups. Qed.
Print Assumptions c05_reload_leveldb_lookups.

Theorem c05_sorted_file_get : forall osz batch ops k, ok_osz osz -> k < two64 ->
  forallb (op_in_range osz) ops = true -> disciplined ops = true -> trig_empty_put ops = false ->
  let s := snd (nm_run osz batch nm0 ops) in
  sf_get osz (write_sorted_from_idx osz (nm_idx s)) k = live_view (nm_get batch s k).
Proof. exact sorted_file_get. Qed.
Print Assumptions c05_sorted_file_get.

(* counters recomputed from the .idx (newNeedleMapMetricFromIndexFile): equal to the running
   counters FAILS (known finding 1: a key written twice) ... *)
Theorem c05_reload_counters_refuted : exists osz ops, ok_osz osz /\
  forallb (op_in_range osz) ops = true /\ disciplined ops = true /\ trig_empty_put ops = false /\
  l_met (ldb_load osz (l_idx (snd (ldb_run osz ldb0 ops)))) <> l_met (snd (ldb_run osz ldb0 ops)).
Proof. exact ldb_reload_counters_refuted. Qed.
Print Assumptions c05_reload_counters_refuted.

(* ... and holds for disciplined histories that write no key twice *)
Theorem c05_reload_counters_partial : forall osz ops, ok_osz osz ->
  forallb (op_in_range osz) ops = true ->
  disciplined ops = true -> trig_empty_put ops = false -> trig_rewrite ops = false ->
  let s := snd (ldb_run osz ldb0 ops) in
  l_met (ldb_load osz (l_idx s)) = l_met s.
Proof. exact ldb_reload_counters_partial. Qed.
Print Assumptions c05_reload_counters_partial.

Theorem c05_sorted_file_counters_partial : forall osz batch ops, ok_osz osz ->
  forallb (op_in_range osz) ops = true ->
  disciplined ops = true -> trig_empty_put ops = false -> trig_rewrite ops = false ->
  let s := snd (nm_run osz batch nm0 ops) in
  metric_from_index osz (nm_idx s) = nm_met s.
Proof. exact sorted_file_counters_partial. Qed.
Print Assumptions c05_sorted_file_counters_partial.

(* The two theorems above model the bloom filter of newNeedleMapMetricFromIndexFile as an exact
   set.  With the filter's real answers as an oracle ([metric_from_index_o]) they carry over
   whenever no answer is a false positive; one false positive already turns a file into a
   deletion (known finding 2). *)
Theorem c05_bloom_oracle_partial : forall osz idx ans, trig_bloom_fp osz idx ans = false ->
  metric_from_index_o osz idx ans = metric_from_index osz idx.
Proof. exact bloom_no_false_positive. Qed.
Print Assumptions c05_bloom_oracle_partial.

Theorem c05_bloom_oracle_refuted :
  let idx := encode 4 [mk_entry 1 1 10%Z; mk_entry 2 2 20%Z] in
  trig_bloom_fp 4 idx [false; true] = true /\
  metric_from_index 4 idx = {| m_del := 0; m_file := 2; m_delb := 0; m_fileb := 30; m_max := 2 |} /\
  metric_from_index_o 4 idx [false; true] = {| m_del := 1; m_file := 1; m_delb := 10; m_fileb := 30; m_max := 2 |}.
Proof. exact bloom_false_positive_witness. Qed.
Print Assumptions c05_bloom_oracle_refuted.

(* ---- the recomputed counters, exactly (keys may be written any number of times) ---- *)
(* EVERY index file of well-formed entries: FileCounter = distinct keys, DeletionCounter =
   entries - distinct keys, FileByteCounter = valid sizes of all entries, DeletionByteCounter =
   valid sizes of the entries that are not the last of their key, MaximumFileKey = largest key *)
Theorem c05_index_metric_exact : forall osz es, ok_osz osz -> Forall (wf_entry osz) es ->
  metric_from_index osz (encode osz es) = exact_metric es.
Proof. exact index_metric_exact. Qed.
Print Assumptions c05_index_metric_exact.

(* every disciplined history without an empty Put: the LevelDB map regenerated from the .idx and
   the one reopened with its db kept (isLevelDbFresh) both show [reload_metric]: FileCounter = keys
   ever put, DeletionCounter = puts + deletes - keys ever put, byte totals and max key as running *)
Theorem c05_reload_counters_exact : forall osz ops, ok_osz osz ->
  forallb (op_in_range osz) ops = true -> disciplined ops = true -> trig_empty_put ops = false ->
  let s := snd (ldb_run osz ldb0 ops) in
  l_met (ldb_load osz (l_idx s)) = reload_metric ops (l_met s) /\
  l_met (ldb_reopen_fresh osz s) = reload_metric ops (l_met s).
Proof. exact reload_counters_exact. Qed.
Print Assumptions c05_reload_counters_exact.

Theorem c05_sorted_file_counters_exact : forall osz batch ops, ok_osz osz ->
  forallb (op_in_range osz) ops = true -> disciplined ops = true -> trig_empty_put ops = false ->
  let s := snd (nm_run osz batch nm0 ops) in
  metric_from_index osz (nm_idx s) = reload_metric ops (nm_met s).
Proof. exact sorted_file_counters_exact. Qed.
Print Assumptions c05_sorted_file_counters_exact.

(* the trigger of known finding 1 is exact: below 2^32 operations the recomputed counters
   equal the running ones IF AND ONLY IF no key was put twice *)
Theorem c05_reload_counters_iff : forall osz ops, ok_osz osz ->
  forallb (op_in_range osz) ops = true -> disciplined ops = true -> trig_empty_put ops = false ->
  N.of_nat (length ops) < two32 ->
  let s := snd (ldb_run osz ldb0 ops) in
  (l_met (ldb_load osz (l_idx s)) = l_met s <-> trig_rewrite ops = false).
Proof. exact reload_counters_iff. Qed.
Print Assumptions c05_reload_counters_iff.

(* ---- closed forms used by the correspondence check for long inputs ---- *)
(* n ascending Puts (n up to the section capacity) leave exactly the one section [fill_cm] and
   the reference [fill_ref]; a history fill ++ tail can be evaluated from there *)
Theorem c05_fill_then_run : forall batch base step n tail, fill_ok batch base step n = true ->
  cm_run batch [] (fill_ops base step n ++ tail) =
    (repeat (RSet 0 0%Z) (N.to_nat n) ++ fst (cm_run batch (fill_cm base step n) tail),
     snd (cm_run batch (fill_cm base step n) tail)) /\
  ref_run [] (fill_ops base step n ++ tail) =
    (repeat (RSet 0 0%Z) (N.to_nat n) ++ fst (ref_run (fill_ref base step n) tail),
     snd (ref_run (fill_ref base step n) tail)).
Proof. exact fill_then_run_both. Qed.
Print Assumptions c05_fill_then_run.

(* the readers of an index file evaluated on its entry list = the byte-level model *)
Theorem c05_long_index_readers : forall osz head base step n tail ans, ok_osz osz ->
  Forall (wf_entry osz) (long_entries head base step n tail) ->
  let es := long_entries head base step n tail in
  l_db (ldb_load osz (encode osz es)) = ldb_load_entries es /\
  write_sorted_from_idx osz (encode osz es) = encode osz (sorted_entries es) /\
  metric_from_index_o osz (encode osz es) ans = metric_entries_o es ans.
Proof. exact long_index_readers. Qed.
Print Assumptions c05_long_index_readers.

(* non-vacuity: a disciplined, write-once history over three sections (keys 2^32 apart, out
   of order, one delete) under the 5-byte build satisfies every hypothesis above, and the
   model answers as the reference says *)
Example c05_example :
  ok_osz 5 /\ keys_ok c05_ex /\ forallb (op_in_range 5) c05_ex = true /\
  disciplined c05_ex = true /\ trig_empty_put c05_ex = false /\ trig_rewrite c05_ex = false /\
  length (snd (cm_run 100000 [] c05_ex)) = 3%nat /\
  fst (cm_run 100000 [] c05_ex) =
    [RSet 0 0%Z; RSet 0 0%Z; RSet 0 0%Z; RSet 0 0%Z; RDel 20%Z;
     RGet (Some (3, 4294967296, (-20)%Z)); RGet (Some (5, 1, 10%Z));
     RGet (Some (4294967301, 1099511627775, 7%Z)); RGet None] /\
  ref_metric c05_ex = {| m_del := 1; m_file := 4; m_delb := 20; m_fileb := 67; m_max := 4294967301 |}.
Proof. exact c05_example_holds. Qed.
Print Assumptions c05_example.

(* non-vacuity of the exact counter theorems on a history that rewrites keys, and of [fill_ok]
   at the real capacity *)
Example c05_example_rewrite :
  forallb (op_in_range 4) c05_ex_rewrite = true /\ disciplined c05_ex_rewrite = true /\
  trig_empty_put c05_ex_rewrite = false /\ trig_rewrite c05_ex_rewrite = true /\
  ref_metric c05_ex_rewrite = {| m_del := 2; m_file := 4; m_delb := 40; m_fileb := 100; m_max := 2 |} /\
  reload_metric c05_ex_rewrite (ref_metric c05_ex_rewrite) =
    {| m_del := 3; m_file := 2; m_delb := 40; m_fileb := 100; m_max := 2 |} /\
  fill_ok 100000 0 2 100000 = true.
Proof. exact c05_example_rewrite_holds. Qed.
Print Assumptions c05_example_rewrite.
