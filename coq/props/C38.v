(* C38 — Concurrent volume operations are linearizable per file id.
   Only statements closed by [exact]; proofs live in proof/VolumeConcProofs.v.

   [mrun (minit st0 stop) sched = Some m]  the machine of model/VolumeConc.v (clients calling
        Store.Write/Read/DeleteVolumeNeedle, the immediate path under dataFileAccessLock, the
        batched path through asyncRequestsChan and the worker of startWorker, SetStopping) runs
        the schedule [sched] from the volume [st0]; a schedule names every step, so "for all
        sched" is: all programs, all interleavings, all clock readings
   [history m]   the calls of the run: stamps of Inv and Res, operation, result
   [linearizable nxt acc s0 fin h]   some total order of h respects real time (Res a before
        Inv b => a before b), the sequential specification (nxt, acc) from s0 accepts every
        result in that order, and the state it ends in satisfies fin *)
From Coq Require Import List NArith ZArith Bool Permutation.
From SW Require Import model.Volume model.VolumeConc proof.VolumeProofs proof.VolumeConcProofs.
Import ListNotations.
Local Open Scope N_scope.

(* Every complete history of the machine, from any volume state, is linearizable w.r.t. the
   sequential volume model (Volume.step: exactly its results), and the volume at the end IS the
   state of that order.  No hypothesis on the operations. *)
Theorem c38_linearizable : forall st0 stop sched m,
  mrun (minit st0 stop) sched = Some m -> complete m = true ->
  linearizable vol_nxt vol_acc st0 (fun st => st = m_vol m) (history m).
Proof. exact machine_linearizable. Qed.
Print Assumptions c38_linearizable.

(* The linearization point: the critical section of every call lies between its Inv and its Res
   (in every reachable state, complete or not). *)
Theorem c38_apply_between_inv_res : forall st0 stop sched m a,
  mrun (minit st0 stop) sched = Some m -> In a (m_lin m) ->
  a_inv a <= a_at a /\ match a_stat a with ADone r => a_at a < r | _ => True end.
Proof. exact machine_apply_between. Qed.
Print Assumptions c38_apply_between_inv_res.

(* W.r.t. the per-key register specification of C01 (id -> cookie, last written needle): every
   complete history from an empty volume (either read-only flag set or not) is linearizable,
   and every read of the final volume (any key, cookie, time) answers what the register state of
   that order expects.  Inside the hypotheses of C01's refinement (c01_refines_partial), stated
   order-independently: needles representable and non-empty, no two writes with the same
   id+cookie+bytes but other metadata. *)
Theorem c38_linearizable_register_partial : forall a b stop sched m,
  mrun (minit (init_flags a b) stop) sched = Some m -> complete m = true ->
  conc_ok (map o_op (history m)) = true ->
  linearizable reg_nxt reg_acc (spec_flags a b) (agrees (m_vol m)) (history m).
Proof. exact machine_linearizable_reg. Qed.
Print Assumptions c38_linearizable_register_partial.

(* Without the non-empty hypothesis the register statement is false already for a sequential
   schedule (C01's finding 0: a zero-byte needle is served to any cookie). *)
Theorem c38_linearizable_register_refuted :
  exists stop sched m,
    mrun (minit init stop) sched = Some m /\ complete m = true /\
    wf_history (map o_op (history m)) = true /\ pairwise_nc (needles_of (map o_op (history m))) = true /\
    ~ linearizable reg_nxt reg_acc spec_init (fun _ => True) (history m).
Proof. exact register_refuted. Qed.
Print Assumptions c38_linearizable_register_refuted.

(* The transfer is a fact about histories, not about the machine: the SAME order works. *)
Theorem c38_volume_order_is_register_order : forall a b (h : hist) V,
  conc_ok (map o_op h) = true ->
  linearizable vol_nxt vol_acc (init_flags a b) (fun st => st = V) h ->
  linearizable reg_nxt reg_acc (spec_flags a b) (agrees V) h.
Proof. exact vol_lin_to_reg. Qed.
Print Assumptions c38_volume_order_is_register_order.

(* The decision procedure (depth-first search over the orders that respect real time) is sound
   and complete, for every sequential specification and every history length. *)
Theorem c38_lin_check_sound : forall (Op Out St : Type) (nxt : St -> Op -> St) (acc : St -> Op -> Out -> bool)
    s0 (fin : St -> Prop) finb (h : list (orec Op Out)),
  (forall s, finb s = true -> fin s) ->
  lin_check nxt acc s0 finb h = true -> linearizable nxt acc s0 fin h.
Proof. exact @lin_check_sound. Qed.
Print Assumptions c38_lin_check_sound.

Theorem c38_lin_check_complete : forall (Op Out St : Type) (nxt : St -> Op -> St) (acc : St -> Op -> Out -> bool)
    s0 (fin : St -> Prop) finb (h : list (orec Op Out)),
  (forall s, fin s -> finb s = true) ->
  linearizable nxt acc s0 fin h -> lin_check nxt acc s0 finb h = true.
Proof. exact @lin_check_complete. Qed.
Print Assumptions c38_lin_check_complete.

(* the two instances evaluated by the correspondence check *)
Theorem c38_lin_check_reg_sound : forall fr (h : hist),
  lin_check_reg fr h = true ->
  linearizable reg_nxt reg_acc spec_init (fun sp => agrees_on fr sp = true) h.
Proof. exact lin_check_reg_sound. Qed.
Print Assumptions c38_lin_check_reg_sound.

Theorem c38_lin_check_vol_sound : forall fd fn (h : hist),
  lin_check_vol fd fn h = true ->
  linearizable vol_nxt vol_acc init (fun st => vol_final fd fn st = true) h.
Proof. exact lin_check_vol_sound. Qed.
Print Assumptions c38_lin_check_vol_sound.

(* Linearizability does not depend on the order in which the calls of a history are listed. *)
Theorem c38_linearizable_perm : forall (Op Out St : Type) (nxt : St -> Op -> St) (acc : St -> Op -> Out -> bool)
    s0 (fin : St -> Prop) (h h' : list (orec Op Out)),
  Permutation h h' -> linearizable nxt acc s0 fin h -> linearizable nxt acc s0 fin h'.
Proof. exact @linearizable_perm. Qed.
Print Assumptions c38_linearizable_perm.

(* "admits": whatever the machine can produce from an empty volume -- the history, the final
   .dat size, the needle-map entries, reads made afterwards -- passes both checks. *)
Theorem c38_machine_admitted : forall stop sched m keys fn,
  mrun (minit init stop) sched = Some m -> complete m = true ->
  forallb (nm_entry_eqb (m_vol m)) fn = true ->
  lin_check_vol (dat_end (m_vol m)) fn (history m) = true /\
  (conc_ok (map o_op (history m)) = true ->
   lin_check_reg (map (read_after (m_vol m)) keys) (history m) = true).
Proof. exact machine_admitted. Qed.
Print Assumptions c38_machine_admitted.

(* No operation of the machine changes the read-only flags, so the test made before the lock
   (LEnter) is the one Volume.step repeats: on a writable volume the critical section of a write,
   immediate or in the worker, is doWriteRequest. *)
Theorem c38_write_section_is_do_write : forall st0 stop sched m n t,
  is_read_only st0 = false -> mrun (minit st0 stop) sched = Some m ->
  step (m_vol m) (t, Write n) =
  (fst (do_write (m_vol m) n t),
   OWrite (w_err (snd (do_write (m_vol m) n t))) (w_unchanged (snd (do_write (m_vol m) n t)))
          (w_size (snd (do_write (m_vol m) n t)))).
Proof. exact machine_write_is_do_write. Qed.
Print Assumptions c38_write_section_is_do_write.

(* non-vacuity: a schedule with both write paths, a batch of two applied in channel order (not
   invocation order), a read that overlaps the batch and sees the second applied write, a delete,
   a second key; complete, inside the hypotheses, accepted by both checkers *)
Example c38_example :
  let m := final_of true sched_example in
  mrun (minit init true) sched_example = Some m /\ complete m = true /\
  conc_ok (map o_op (history m)) = true /\
  map (fun a => (o_id a, o_inv a, o_res a)) (history m) =
    [(5, 39, 45); (6, 40, 46); (4, 14, 38); (3, 24, 27); (2, 2, 23); (0, 0, 22); (1, 1, 18)] /\
  map (fun a => match o_out a with ORead e _ v => Some (err_eqb e ENone, v_data v) | _ => None end) (history m) =
    [Some (false, []); Some (true, [67]); None; None; Some (true, [65]); None; None] /\
  lin_check_reg (map (read_after (m_vol m)) [(1, 5); (2, 7)]) (history m) = true /\
  lin_check_vol (dat_end (m_vol m)) [] (history m) = true.
Proof. exact example_ok. Qed.
