(* C38 — Concurrent volume operations are linearizable per file id.
   Only statements closed by [exact]; proofs live in proof/VolumeConcProofs.v.

   [mrun (minit st0 stop) sched = Some m]  the machine of model/VolumeConc.v (clients calling
        Store.Write/Read/DeleteVolumeNeedle, the immediate path under dataFileAccessLock, the
        batched path through asyncRequestsChan and the worker of startWorker, SetStopping) runs
        the schedule [sched] from the volume [st0]; a schedule names every step, so "for all
        sched" is: all programs, all interleavings, all clock readings
   [history m]   the calls of the run: stamps of Inv and Res, operation, result
   [linearizable nxt acc s0 fin h]   some total order of h respects real time (Res a before
        Inv b => a before b), the sequential specification (nxt, acc) from s0 accepts every
        result in that order, and the state it ends in satisfies fin *)
From Coq Require Import List NArith ZArith Bool Permutation.
From SW Require Import model.Volume model.VolumeConc proof.VolumeProofs proof.VolumeConcProofs proof.VolumeConcReg.
Import ListNotations.
Local Open Scope N_scope.

(* Every complete history of the machine, from any volume state, is linearizable w.r.t. the
   sequential volume model (Volume.step: exactly its results), and the volume at the end IS the
   state of that order.  No hypothesis on the operations. *)
Theorem c38_linearizable : forall st0 stop sched m,
  mrun (minit st0 stop) sched = Some m -> complete m = true ->
  linearizable vol_nxt vol_acc st0 (fun st => st = m_vol m) (history m).
Proof. exact machine_linearizable. Qed.
Print Assumptions c38_linearizable.

(* The linearization point: the critical section of every call lies between its Inv and its Res
   (in every reachable state, complete or not). *)
Theorem c38_apply_between_inv_res : forall st0 stop sched m a,
  mrun (minit st0 stop) sched = Some m -> In a (m_lin m) ->
  a_inv a <= a_at a /\ match a_stat a with ADone r => a_at a < r | _ => True end.
Proof. exact machine_apply_between. Qed.
Print Assumptions c38_apply_between_inv_res.

(* W.r.t. the per-key register specification of C01 WITH EVERY ANSWER FIELD (id -> cookie, last
   written needle; reg_acc = Volume.xmatch (xexpect ...): error class, the "unchanged"
   acknowledgement and n.Size of a write, the size a delete returns = Size of the needle that was
   live / 0, count and every field of a read): every complete history from an empty volume (either
   read-only flag set or not) is linearizable, and every read of the final volume (any key,
   cookie, time) answers what the register state of that order expects.  Inside the hypotheses of
   C01's refinement (c01_refines_partial), stated order-independently: needles representable and
   non-empty, no two writes with the same id+cookie+bytes but other metadata. *)
Theorem c38_linearizable_register_partial : forall a b stop sched m,
  mrun (minit (init_flags a b) stop) sched = Some m -> complete m = true ->
  conc_ok (map o_op (history m)) = true ->
  linearizable reg_nxt reg_acc (spec_flags a b) (agrees (m_vol m)) (history m).
Proof. exact machine_linearizable_reg. Qed.
Print Assumptions c38_linearizable_register_partial.

(* The specification above accepts no more than the one this theorem was stated with before
   (C01's first-round match_out: error classes only; reg_acc0). *)
Theorem c38_register_spec_stronger : forall sp0 (fin : spec -> Prop) (h : hist),
  linearizable reg_nxt reg_acc sp0 fin h -> linearizable reg_nxt reg_acc0 sp0 fin h.
Proof. exact reg_lin_weaken. Qed.
Print Assumptions c38_register_spec_stronger.

(* PER KEY, with no hypothesis beyond representable needles: the specification state also tracks
   the keys that a finding of C01 has touched so far in the order (Volume.dirty_step: an
   empty-payload write = finding 0, a metadata-only rewrite = finding 1, any later call on such a
   key); only the answers of calls on those keys are left open.  A finding on one key excuses
   nothing on any other key, neither during the run nor in the reads afterwards. *)
Theorem c38_linearizable_per_key_partial : forall a b stop sched m,
  mrun (minit (init_flags a b) stop) sched = Some m -> complete m = true ->
  wf_history (map o_op (history m)) = true ->
  linearizable pk_nxt pk_acc (pk_init (spec_flags a b)) (agrees_pk (m_vol m)) (history m).
Proof. exact machine_linearizable_pk. Qed.
Print Assumptions c38_linearizable_per_key_partial.

(* Without the non-empty hypothesis the all-keys statement is false already for a sequential
   schedule (C01's finding 0: a zero-byte needle is served to any cookie), for the first-round
   acceptance and a fortiori for the every-field one. *)
Theorem c38_linearizable_register_refuted :
  exists stop sched m,
    mrun (minit (init_flags false false) stop) sched = Some m /\ complete m = true /\
    wf_history (map o_op (history m)) = true /\ pairwise_nc (needles_of (map o_op (history m))) = true /\
    ~ linearizable reg_nxt reg_acc0 (spec_flags false false) (fun _ => True) (history m) /\
    ~ linearizable reg_nxt reg_acc (spec_flags false false) (fun _ => True) (history m) /\
    conc_finding (map o_op (history m)) = Some 0.
Proof. exact register_refuted. Qed.
Print Assumptions c38_linearizable_register_refuted.

(* The transfer is a fact about histories, not about the machine: the SAME order works. *)
Theorem c38_volume_order_is_register_order : forall a b (h : hist) V,
  conc_ok (map o_op h) = true ->
  linearizable vol_nxt vol_acc (init_flags a b) (fun st => st = V) h ->
  linearizable reg_nxt reg_acc (spec_flags a b) (agrees V) h.
Proof. exact vol_lin_to_reg. Qed.
Print Assumptions c38_volume_order_is_register_order.

Theorem c38_volume_order_is_per_key_order : forall a b (h : hist) V,
  wf_history (map o_op h) = true ->
  linearizable vol_nxt vol_acc (init_flags a b) (fun st => st = V) h ->
  linearizable pk_nxt pk_acc (pk_init (spec_flags a b)) (agrees_pk V) h.
Proof. exact vol_lin_to_pk. Qed.
Print Assumptions c38_volume_order_is_per_key_order.

(* The decision procedure (depth-first search over the orders that respect real time) is sound
   and complete, for every sequential specification and every history length. *)
Theorem c38_lin_check_sound : forall (Op Out St : Type) (nxt : St -> Op -> St) (acc : St -> Op -> Out -> bool)
    s0 (fin : St -> Prop) finb (h : list (orec Op Out)),
  (forall s, finb s = true -> fin s) ->
  lin_check nxt acc s0 finb h = true -> linearizable nxt acc s0 fin h.
Proof. exact @lin_check_sound. Qed.
Print Assumptions c38_lin_check_sound.

Theorem c38_lin_check_complete : forall (Op Out St : Type) (nxt : St -> Op -> St) (acc : St -> Op -> Out -> bool)
    s0 (fin : St -> Prop) finb (h : list (orec Op Out)),
  (forall s, fin s -> finb s = true) ->
  linearizable nxt acc s0 fin h -> lin_check nxt acc s0 finb h = true.
Proof. exact @lin_check_complete. Qed.
Print Assumptions c38_lin_check_complete.

(* the three instances evaluated by the correspondence check (a b = the read-only flags of the
   volume as loaded): sound and complete *)
Theorem c38_lin_check_reg_sound : forall a b fr (h : hist),
  lin_check_reg a b fr h = true ->
  linearizable reg_nxt reg_acc (spec_flags a b) (fun sp => agrees_on fr sp = true) h.
Proof. exact lin_check_reg_sound. Qed.
Print Assumptions c38_lin_check_reg_sound.

Theorem c38_lin_check_reg_complete : forall a b fr (h : hist),
  linearizable reg_nxt reg_acc (spec_flags a b) (fun sp => agrees_on fr sp = true) h ->
  lin_check_reg a b fr h = true.
Proof. exact lin_check_reg_complete. Qed.
Print Assumptions c38_lin_check_reg_complete.

Theorem c38_lin_check_vol_sound : forall a b f (h : hist),
  lin_check_vol a b f h = true ->
  linearizable vol_nxt vol_acc (init_flags a b) (fun st => vol_final f st = true) h.
Proof. exact lin_check_vol_sound. Qed.
Print Assumptions c38_lin_check_vol_sound.

Theorem c38_lin_check_vol_complete : forall a b f (h : hist),
  linearizable vol_nxt vol_acc (init_flags a b) (fun st => vol_final f st = true) h ->
  lin_check_vol a b f h = true.
Proof. exact lin_check_vol_complete. Qed.
Print Assumptions c38_lin_check_vol_complete.

Theorem c38_lin_check_pk_sound : forall a b fr (h : hist),
  lin_check_pk a b fr h = true ->
  linearizable pk_nxt pk_acc (pk_init (spec_flags a b)) (fun s => agrees_on_pk fr s = true) h.
Proof. exact lin_check_pk_sound. Qed.
Print Assumptions c38_lin_check_pk_sound.

Theorem c38_lin_check_pk_complete : forall a b fr (h : hist),
  linearizable pk_nxt pk_acc (pk_init (spec_flags a b)) (fun s => agrees_on_pk fr s = true) h ->
  lin_check_pk a b fr h = true.
Proof. exact lin_check_pk_complete. Qed.
Print Assumptions c38_lin_check_pk_complete.

(* Linearizability does not depend on the order in which the calls of a history are listed. *)
Theorem c38_linearizable_perm : forall (Op Out St : Type) (nxt : St -> Op -> St) (acc : St -> Op -> Out -> bool)
    s0 (fin : St -> Prop) (h h' : list (orec Op Out)),
  Permutation h h' -> linearizable nxt acc s0 fin h -> linearizable nxt acc s0 fin h'.
Proof. exact @linearizable_perm. Qed.
Print Assumptions c38_linearizable_perm.

(* "admits": whatever the machine can produce from an empty volume (flags as loaded) -- the
   history, the final .dat size, the sequence of .dat records, the needle-map entries, reads made
   afterwards with every field -- passes the volume check; inside C01's hypotheses the all-keys
   register check; with representable needles the per-key register check. *)
Theorem c38_machine_admitted : forall a b stop sched m keys fn,
  mrun (minit (init_flags a b) stop) sched = Some m -> complete m = true ->
  forallb (nm_entry_eqb (m_vol m)) fn = true ->
  lin_check_vol a b (obs_of (m_vol m) fn keys) (history m) = true /\
  (conc_ok (map o_op (history m)) = true ->
   lin_check_reg a b (map (read_after (m_vol m)) keys) (history m) = true) /\
  (wf_history (map o_op (history m)) = true ->
   lin_check_pk a b (map (read_after (m_vol m)) keys) (history m) = true).
Proof. exact machine_admitted. Qed.
Print Assumptions c38_machine_admitted.

(* No operation of the machine changes the read-only flags, so the test made before the lock
   (LEnter) is the one Volume.step repeats: on a writable volume the critical section of a write,
   immediate or in the worker, is doWriteRequest. *)
Theorem c38_write_section_is_do_write : forall st0 stop sched m n t,
  is_read_only st0 = false -> mrun (minit st0 stop) sched = Some m ->
  step (m_vol m) (t, Write n) =
  (fst (do_write (m_vol m) n t),
   OWrite (w_err (snd (do_write (m_vol m) n t))) (w_unchanged (snd (do_write (m_vol m) n t)))
          (w_size (snd (do_write (m_vol m) n t)))).
Proof. exact machine_write_is_do_write. Qed.
Print Assumptions c38_write_section_is_do_write.

(* The checkers do say no.  A read that returns the first of two completed writes is rejected
   when it starts after the second write returned and accepted when it overlaps it. *)
Example c38_stale_read_rejected :
  lin_check_reg false false [] (h_stale 6) = false /\
  lin_check vol_nxt vol_acc init (fun _ => true) (h_stale 6) = false /\
  lin_check_reg false false [] (h_stale 4) = true /\
  lin_check vol_nxt vol_acc init (fun _ => true) (h_stale 4) = true.
Proof. exact stale_read_rejected. Qed.
Print Assumptions c38_stale_read_rejected.

(* Two overlapping deletes of one live needle that both return its size (what seeded change C38-a,
   syncDelete under RLock, produces) are rejected by both checkers; the error-class-only
   acceptance used before the audit lets them pass; with the second returning 0: accepted. *)
Example c38_double_delete_rejected :
  lin_check_reg false false [] (h_double_delete 6%Z) = false /\
  lin_check vol_nxt vol_acc init (fun _ => true) (h_double_delete 6%Z) = false /\
  lin_check reg_nxt reg_acc0 spec_init (fun _ => true) (h_double_delete 6%Z) = true /\
  lin_check_reg false false [] (h_double_delete 0%Z) = true /\
  lin_check vol_nxt vol_acc init (fun _ => true) (h_double_delete 0%Z) = true.
Proof. exact double_delete_rejected. Qed.
Print Assumptions c38_double_delete_rejected.

Theorem c38_double_delete_not_linearizable :
  ~ linearizable reg_nxt reg_acc spec_init (fun _ => True) (h_double_delete 6%Z).
Proof. exact double_delete_not_linearizable. Qed.
Print Assumptions c38_double_delete_not_linearizable.

(* Per key: finding 0 on key 1 excuses the wrong-cookie read of key 1 (all-keys check fails,
   per-key check passes) but not a stale read of key 2 in the same history. *)
Example c38_per_key_not_excused :
  lin_check_reg false false [] (h_two_keys false) = false /\
  lin_check_pk false false [] (h_two_keys false) = true /\
  lin_check_pk false false [] (h_two_keys true) = false /\
  conc_finding (map o_op (h_two_keys true)) = Some 0.
Proof. exact per_key_not_excused. Qed.
Print Assumptions c38_per_key_not_excused.

(* non-vacuity: a schedule with both write paths, a batch of two applied in channel order (not
   invocation order), a read that overlaps the batch and sees the second applied write, a delete
   (returns the live size 6), a second key; complete, inside the hypotheses, accepted by the
   three checkers with the final observables *)
Example c38_example :
  let m := final_of false false true sched_example in
  mrun (minit (init_flags false false) true) sched_example = Some m /\ complete m = true /\
  conc_ok (map o_op (history m)) = true /\
  map (fun a => (o_id a, o_inv a, o_res a)) (history m) =
    [(5, 39, 45); (6, 40, 46); (4, 14, 38); (3, 24, 27); (2, 2, 23); (0, 0, 22); (1, 1, 18)] /\
  map (fun a => match o_out a with ORead e _ v => Some (err_eqb e ENone, v_data v) | _ => None end) (history m) =
    [Some (false, []); Some (true, [67]); None; None; Some (true, [65]); None; None] /\
  map (fun a => match o_out a with ODelete _ z => Some z | _ => None end) (history m) =
    [None; None; None; Some 6%Z; None; None; None] /\
  lin_check_reg false false (map (read_after (m_vol m)) [(1, 5); (2, 7)]) (history m) = true /\
  lin_check_pk false false (map (read_after (m_vol m)) [(1, 5); (2, 7)]) (history m) = true /\
  lin_check_vol false false (obs_of (m_vol m) [(1, Some (48, (-6)%Z)); (2, Some (120, 6%Z)); (3, None)] [(1, 5); (2, 7)]) (history m) = true.
Proof. exact example_ok. Qed.
Print Assumptions c38_example.

(* a volume loaded read-only (noWriteOrDelete): write and delete refused before any lock, the read
   finds nothing, calls overlap; accepted with the flag, rejected without it *)
Example c38_example_read_only :
  let m := final_of true false true sched_ro in
  mrun (minit (init_flags true false) true) sched_ro = Some m /\ complete m = true /\
  map o_out (history m) =
    [ORead ENotFound (-1)%Z (blank_view 5); OWrite EReadOnly false 0; ODelete EReadOnly 0%Z] /\
  lin_check_reg true false (map (read_after (m_vol m)) [(1, 5)]) (history m) = true /\
  lin_check_vol true false (obs_of (m_vol m) [(1, None)] [(1, 5)]) (history m) = true /\
  lin_check_vol false false (obs_of (m_vol m) [(1, None)] [(1, 5)]) (history m) = false.
Proof. exact example_ro_ok. Qed.
Print Assumptions c38_example_read_only.
