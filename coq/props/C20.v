(* C20 — Chunk garbage collection never deletes referenced data.
   Only statements closed by [exact]; proofs live in proof/FilerGC*.v (on top of proof/HardLink*.v).

   The model (model/HardLink.v) returns, for every operation, the chunk ids it hands to the two
   deletion sinks (the queue of DeleteChunks, the BatchDelete of DirectDeleteChunks); model/FilerGC.v
   defines the referenced set (what FindEntry shows for every name, manifests resolved) and the two
   halves of the property for one step.  The full statements ("after every history that respects the
   client assumptions") are REFUTED by five histories, one per known finding:
     k=0  a write through Filer.CreateEntry that wraps retained chunks into a manifest
     k=1  a chunk scheduled while still visible through a name that carries a hard link id
     k=2  recursive delete with data deletion over a child that carries a hard link id (leak)
     k=3  an UpdateEntry that drops a manifest whose chunks stay reachable
     k=4  chunks shared outside any link record after a rename / plain overwrite of a linked name
   Every one of them needs a manifest chunk or a hard link; the partial theorems hold for every
   history of operations that involve neither (c20_quiet: the assumptions of op_ok, no Link, no
   manifest chunk, a renamed entry is a file).  Outside c20_quiet the property rests on the
   correspondence check, whose triggers are per offending chunk (see c20_failures_complete ff.). *)
From Coq Require Import List NArith ZArith Bool String.
From SW Require Import model.Chunks model.HardLink model.FilerGC model.FilerGCWire
  proof.FilerGCBase proof.FilerGCMain proof.FilerGCWire.
Import ListNotations.

(* ---------- one step, from any link-free state with exclusive chunk ownership ---------- *)
Theorem c20_step_partial : forall ev s o, PS s -> Excl s -> c20_quiet ev s o = true ->
  let r := step ev s o in
  step_prop ev s o (refs ev s) (refs ev (st_of r)) (sched_of r) = true /\ PS (st_of r) /\ Excl (st_of r).
Proof. exact step_prop_quiet. Qed.
Print Assumptions c20_step_partial.

(* ---------- all histories ---------- *)
Theorem c20_history_partial : forall ev ops,
  c20_hist_quiet ev empty_st ops = true -> c20_run_ok ev empty_st ops = true.
Proof. exact c20_history_quiet. Qed.
Print Assumptions c20_history_partial.

Theorem c20_history_refuted :
  exists ev ops, assumptions_hold ev ops = true /\ c20_run_ok ev empty_st ops = false.
Proof. exact history_refuted. Qed.
Print Assumptions c20_history_refuted.

(* ---------- no chunk in the sink is referenced by the state after the op that scheduled it ---------- *)
Theorem c20_no_live_deleted_partial : forall ev ops o,
  c20_hist_quiet ev empty_st (ops ++ [o]) = true ->
  let s := final ev empty_st ops in
  forall c, In c (sched_of (step ev s o)) -> ~ In c (refs ev (st_of (step ev s o))).
Proof. exact no_live_deleted_history. Qed.
Print Assumptions c20_no_live_deleted_partial.

(* chunks 1 and 2 are scheduled and still referenced: through the new manifest (k=0, k=3), through
   the other link name (k=1), through the renamed copy (k=4) *)
Theorem c20_no_live_deleted_refuted :
  (assumptions_hold g_ev0 g_w0 = true /\ live_deleted g_ev0 g_w0 = [1; 2]%N) /\
  (assumptions_hold g_ev g_w1 = true /\ live_deleted g_ev g_w1 = [1; 2]%N) /\
  (assumptions_hold g_ev3 g_w3 = true /\ live_deleted g_ev3 g_w3 = [1; 2]%N) /\
  (assumptions_hold g_ev g_w4 = true /\ live_deleted g_ev g_w4 = [1; 2]%N).
Proof. exact no_live_deleted_refuted. Qed.
Print Assumptions c20_no_live_deleted_refuted.

(* ---------- every chunk that stopped being referenced by an op that requested data deletion is in the sink ---------- *)
Theorem c20_all_garbage_scheduled_partial : forall ev ops o,
  c20_hist_quiet ev empty_st (ops ++ [o]) = true ->
  let s := final ev empty_st ops in
  requests_deletion ev s o = true ->
  forall c, In c (refs ev s) -> In c (refs ev (st_of (step ev s o))) \/ In c (sched_of (step ev s o)).
Proof. exact all_garbage_scheduled_history. Qed.
Print Assumptions c20_all_garbage_scheduled_partial.

(* k=2: the recursive delete with data deletion leaves chunks 1 and 2 (referenced through both names before) unscheduled *)
Theorem c20_all_garbage_scheduled_refuted :
  assumptions_hold g_ev g_w2 = true /\
  requests_deletion g_ev (final g_ev empty_st (removelast g_w2)) (last g_w2 (Unlink [])) = true /\
  leaked g_ev g_w2 = [1; 2; 1; 2]%N.
Proof. exact all_garbage_scheduled_refuted. Qed.
Print Assumptions c20_all_garbage_scheduled_refuted.

(* ---------- the triggers of the known findings are PER OFFENDING CHUNK (model/FilerGC.v [explain]) ----------
   [failures] lists one entry per chunk id that is scheduled while still referenced, or leaked, at any
   step of the model's run; [first_failure] is Some (Some k) only if EVERY such chunk of EVERY failing
   step satisfies the syntactic condition of a known finding (evaluated on the state before the step and
   the operation's arguments; k=4 on a set of tainted chunk ids instead of a sticky flag). *)

(* the failure list is empty exactly when the property holds at every step: nothing is dropped *)
Theorem c20_failures_complete : forall ev ops taint s,
  failures ev taint s ops = [] <-> c20_run_ok ev s ops = true.
Proof. exact failures_complete. Qed.
Print Assumptions c20_failures_complete.

Theorem c20_first_failure_none : forall ev ops,
  first_failure ev ops = None <-> c20_run_ok ev empty_st ops = true.
Proof. exact first_failure_none. Qed.
Print Assumptions c20_first_failure_none.

(* inside the hypothesis of the partial theorems no chunk offends, so no trigger is consulted *)
Theorem c20_quiet_no_failures : forall ev ops,
  c20_hist_quiet ev empty_st ops = true -> first_failure ev ops = None.
Proof. exact quiet_no_failures. Qed.
Print Assumptions c20_quiet_no_failures.

(* each witness fails, and every offending chunk is explained by the finding it is the witness of *)
Theorem c20_witness_triggers :
  first_failure g_ev0 g_w0 = Some (Some 0%N) /\
  first_failure g_ev g_w1 = Some (Some 1%N) /\
  first_failure g_ev g_w2 = Some (Some 2%N) /\
  first_failure g_ev3 g_w3 = Some (Some 3%N) /\
  first_failure g_ev g_w4 = Some (Some 4%N).
Proof. exact witness_triggers. Qed.
Print Assumptions c20_witness_triggers.

(* a different violation does not hide behind a trigger: the k=1 witness plus an unrelated live delete
   (chunk 7, shared by two plain files) is unclassified *)
Theorem c20_unexplained_not_classified : first_failure g_ev g_w1x = Some None.
Proof. exact unexplained_not_classified. Qed.
Print Assumptions c20_unexplained_not_classified.

(* hard links and manifests as such trigger nothing: the mount's link / write-through / unlink sequence and
   an UpdateEntry that wraps chunks into a manifest satisfy the client assumptions, lie outside c20_quiet
   and hold the property at every step *)
Theorem c20_clean_outside_quiet :
  (assumptions_hold g_ev g_mount = true /\ c20_hist_quiet g_ev empty_st g_mount = false /\
   first_failure g_ev g_mount = None) /\
  (assumptions_hold g_ev0 g_wrapu = true /\ c20_hist_quiet g_ev0 empty_st g_wrapu = false /\
   first_failure g_ev0 g_wrapu = None).
Proof. exact clean_outside_quiet. Qed.
Print Assumptions c20_clean_outside_quiet.

(* non-vacuity: overwrites with retained, covered and fresh chunks, an append, a rename onto an
   existing file, deletes with and without data, a recursive delete — all inside the hypothesis of
   the partial theorems; the chunk ids scheduled at every step are listed *)
Example c20_example :
  c20_hist_quiet g_ev empty_st g_clean = true /\
  map sched_of (run g_ev empty_st g_clean) =
    [[]; []; [2]; [4; 5]; []; []; [1; 6]; []; []; [9]; [8]]%N /\
  final g_ev empty_st g_clean = empty_st.
Proof. exact clean_is_quiet. Qed.
Print Assumptions c20_example.

(* ---------- chunk references have two wire encodings (model/FilerGCWire.v) ----------
   A chunk id is the decoded (volume id, key, cookie); a request may name it by the file_id string, by the
   fid object, or by both.  The specification above never sees an encoding; these theorems say that the
   garbage decisions do not either. *)

(* DoMinusChunks / deleteChunksIfNotNew on wire chunks: the garbage list and the ids handed to the sink are
   functions of the DECODED lists - whatever the encodings of the old and the new list *)
Theorem c20_garbage_by_decoded_ids : forall a a' b b',
  map decode a = map decode a' -> map decode b = map decode b' ->
  map decode (do_minus_w a b) = map decode (do_minus_w a' b') /\
  sink_ids_w (do_minus_w a b) = sink_ids_w (do_minus_w a' b').
Proof. exact do_minus_w_by_ids. Qed.
Print Assumptions c20_garbage_by_decoded_ids.

Theorem c20_garbage_is_decoded_minus : forall a b,
  sink_ids_w (do_minus_w a b) = fids (do_minus (map decode a) (map decode b)).
Proof. exact sink_do_minus. Qed.
Print Assumptions c20_garbage_is_decoded_minus.

Theorem c20_garbage_reencode : forall (e1 e2 e3 e4 : N -> N) a b,
  sink_ids_w (do_minus_w (map (fun c => encode (e1 (c_fid c)) c) a) (map (fun c => encode (e2 (c_fid c)) c) b)) =
  sink_ids_w (do_minus_w (map (fun c => encode (e3 (c_fid c)) c) a) (map (fun c => encode (e4 (c_fid c)) c) b)).
Proof. exact do_minus_reencode. Qed.
Print Assumptions c20_garbage_reencode.

(* the statement has content: the same loop keyed by the raw string field reports a kept chunk as garbage
   as soon as it is sent with its fid object only *)
Theorem c20_raw_key_not_invariant :
  map decode wb0 = map decode wb1 /\
  sink_ids_w (do_minus_raw wa wb0) = [2%N] /\ sink_ids_w (do_minus_raw wa wb1) = [1%N; 2%N] /\
  sink_ids_w (do_minus_w wa wb0) = [2%N] /\ sink_ids_w (do_minus_w wa wb1) = [2%N].
Proof. exact raw_key_not_invariant. Qed.
Print Assumptions c20_raw_key_not_invariant.

(* the whole step with the encodings of the request as an input (step_w).  "The outcome depends on the decoded
   request only" is REFUTED by the code as it is: UpdateEntry's EqualEntry shortcut compares the chunk messages
   field by field, so an unchanged entry sent with string-only references is rewritten and the covered chunk 9
   of the request is scheduled, while the same request with fid objects schedules nothing.  (Both outcomes
   satisfy the property: the step is inside c20_quiet.) *)
Theorem c20_encoding_invariance_refuted :
  sent_matches w_o (w_sn 0) = true /\ sent_matches w_o (w_sn 2) = true /\
  c20_quiet w_ev w_s w_o = true /\
  sched_of (step_w w_ev w_s w_o (w_sn 0)) = [] /\ sched_of (step_w w_ev w_s w_o (w_sn 2)) = [9%N] /\
  enc_visible w_ev w_s w_o (w_sn 0) = false /\ enc_visible w_ev w_s w_o (w_sn 2) = true.
Proof. exact enc_invariance_refuted. Qed.
Print Assumptions c20_encoding_invariance_refuted.

(* outside that one decidable spot (an UpdateEntry whose entry equals the stored one and keeps a chunk sent
   without fid object) state, error class and scheduled ids are those of the decoded request *)
Theorem c20_encoding_invariance_partial : forall ev s o sn,
  enc_visible ev s o sn = false -> step_w ev s o sn = step ev s o.
Proof. exact step_w_eq. Qed.
Print Assumptions c20_encoding_invariance_partial.

Theorem c20_reencoding_partial : forall ev s o sn1 sn2,
  enc_visible ev s o sn1 = false -> enc_visible ev s o sn2 = false -> step_w ev s o sn1 = step_w ev s o sn2.
Proof. exact step_w_enc_invariant. Qed.
Print Assumptions c20_reencoding_partial.

(* requests whose chunk references all carry the fid object (entries from LookupDirectoryEntry / ListEntries
   sent back, metadata events) never reach the spot, for any operation and state *)
Theorem c20_fid_objects_decoded : forall ev ops sns s,
  forallb all_with_fid sns = true -> run_w ev s ops sns = run ev s ops.
Proof. exact run_w_eq. Qed.
Print Assumptions c20_fid_objects_decoded.

(* and the property itself holds for EVERY encoding, the visible spot included *)
Theorem c20_step_any_encoding_partial : forall ev s o sn, PS s -> Excl s -> c20_quiet ev s o = true ->
  let r := step_w ev s o sn in
  step_prop ev s o (refs ev s) (refs ev (st_of r)) (sched_of r) = true /\ PS (st_of r) /\ Excl (st_of r).
Proof. exact step_prop_quiet_w. Qed.
Print Assumptions c20_step_any_encoding_partial.

Theorem c20_history_any_encoding_partial : forall ev ops sns,
  c20_hist_quiet_w ev empty_st ops sns = true -> c20_run_ok_w ev empty_st ops sns = true.
Proof. exact c20_history_quiet_w. Qed.
Print Assumptions c20_history_any_encoding_partial.

(* non-vacuity: all three encodings inside the hypothesis, the encoding visible at the last step *)
Example c20_wire_example :
  c20_hist_quiet_w w_ev empty_st w_hist w_sns = true /\
  map sched_of (run_w w_ev empty_st w_hist w_sns) = [[]; []; [1]; [9]]%N /\
  map sched_of (run w_ev empty_st w_hist) = [[]; []; [1]; []]%N.
Proof. exact wire_example. Qed.
Print Assumptions c20_wire_example.
