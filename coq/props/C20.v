(* C20 — Chunk garbage collection never deletes referenced data.
   Only statements closed by [exact]; proofs live in proof/FilerGC*.v (on top of proof/HardLink*.v).

   The model (model/HardLink.v) returns, for every operation, the chunk ids it hands to the two
   deletion sinks (the queue of DeleteChunks, the BatchDelete of DirectDeleteChunks); model/FilerGC.v
   defines the referenced set (what FindEntry shows for every name, manifests resolved) and the two
   halves of the property for one step.  The full statements ("after every history that respects the
   client assumptions") are REFUTED by five histories, one per known finding:
     k=0  a write through Filer.CreateEntry that wraps retained chunks into a manifest
     k=1  a chunk scheduled while still visible through a name that carries a hard link id
     k=2  recursive delete with data deletion over a child that carries a hard link id (leak)
     k=3  an UpdateEntry that drops a manifest whose chunks stay reachable
     k=4  chunks shared outside any link record after a rename / plain overwrite of a linked name
   Every one of them needs a manifest chunk or a hard link; the partial theorems hold for every
   history of operations that involve neither (c20_quiet: the assumptions of op_ok, no Link, no
   manifest chunk, a renamed entry is a file).  Outside c20_quiet the property rests on the
   correspondence check, whose triggers are per offending chunk (see c20_failures_complete ff.). *)
From Coq Require Import List NArith ZArith Bool String.
From SW Require Import model.Chunks model.HardLink model.FilerGC
  proof.FilerGCBase proof.FilerGCMain.
Import ListNotations.

(* ---------- one step, from any link-free state with exclusive chunk ownership ---------- *)
Theorem c20_step_partial : forall ev s o, PS s -> Excl s -> c20_quiet ev s o = true ->
  let r := step ev s o in
  step_prop ev s o (refs ev s) (refs ev (st_of r)) (sched_of r) = true /\ PS (st_of r) /\ Excl (st_of r).
Proof. exact step_prop_quiet. Qed.
Print Assumptions c20_step_partial.

(* ---------- all histories ---------- *)
Theorem c20_history_partial : forall ev ops,
  c20_hist_quiet ev empty_st ops = true -> c20_run_ok ev empty_st ops = true.
Proof. exact c20_history_quiet. Qed.
Print Assumptions c20_history_partial.

Theorem c20_history_refuted :
  exists ev ops, assumptions_hold ev ops = true /\ c20_run_ok ev empty_st ops = false.
Proof. exact history_refuted. Qed.
Print Assumptions c20_history_refuted.

(* ---------- no chunk in the sink is referenced by the state after the op that scheduled it ---------- *)
Theorem c20_no_live_deleted_partial : forall ev ops o,
  c20_hist_quiet ev empty_st (ops ++ [o]) = true ->
  let s := final ev empty_st ops in
  forall c, In c (sched_of (step ev s o)) -> ~ In c (refs ev (st_of (step ev s o))).
Proof. exact no_live_deleted_history. Qed.
Print Assumptions c20_no_live_deleted_partial.

(* chunks 1 and 2 are scheduled and still referenced: through the new manifest (k=0, k=3), through
   the other link name (k=1), through the renamed copy (k=4) *)
Theorem c20_no_live_deleted_refuted :
  (assumptions_hold g_ev0 g_w0 = true /\ live_deleted g_ev0 g_w0 = [1; 2]%N) /\
  (assumptions_hold g_ev g_w1 = true /\ live_deleted g_ev g_w1 = [1; 2]%N) /\
  (assumptions_hold g_ev3 g_w3 = true /\ live_deleted g_ev3 g_w3 = [1; 2]%N) /\
  (assumptions_hold g_ev g_w4 = true /\ live_deleted g_ev g_w4 = [1; 2]%N).
Proof. exact no_live_deleted_refuted. Qed.
Print Assumptions c20_no_live_deleted_refuted.

(* ---------- every chunk that stopped being referenced by an op that requested data deletion is in the sink ---------- *)
Theorem c20_all_garbage_scheduled_partial : forall ev ops o,
  c20_hist_quiet ev empty_st (ops ++ [o]) = true ->
  let s := final ev empty_st ops in
  requests_deletion ev s o = true ->
  forall c, In c (refs ev s) -> In c (refs ev (st_of (step ev s o))) \/ In c (sched_of (step ev s o)).
Proof. exact all_garbage_scheduled_history. Qed.
Print Assumptions c20_all_garbage_scheduled_partial.

(* k=2: the recursive delete with data deletion leaves chunks 1 and 2 (referenced through both names before) unscheduled *)
Theorem c20_all_garbage_scheduled_refuted :
  assumptions_hold g_ev g_w2 = true /\
  requests_deletion g_ev (final g_ev empty_st (removelast g_w2)) (last g_w2 (Unlink [])) = true /\
  leaked g_ev g_w2 = [1; 2; 1; 2]%N.
Proof. exact all_garbage_scheduled_refuted. Qed.
Print Assumptions c20_all_garbage_scheduled_refuted.

(* ---------- the triggers of the known findings are PER OFFENDING CHUNK (model/FilerGC.v [explain]) ----------
   [failures] lists one entry per chunk id that is scheduled while still referenced, or leaked, at any
   step of the model's run; [first_failure] is Some (Some k) only if EVERY such chunk of EVERY failing
   step satisfies the syntactic condition of a known finding (evaluated on the state before the step and
   the operation's arguments; k=4 on a set of tainted chunk ids instead of a sticky flag). *)

(* the failure list is empty exactly when the property holds at every step: nothing is dropped *)
Theorem c20_failures_complete : forall ev ops taint s,
  failures ev taint s ops = [] <-> c20_run_ok ev s ops = true.
Proof. exact failures_complete. Qed.
Print Assumptions c20_failures_complete.

Theorem c20_first_failure_none : forall ev ops,
  first_failure ev ops = None <-> c20_run_ok ev empty_st ops = true.
Proof. exact first_failure_none. Qed.
Print Assumptions c20_first_failure_none.

(* inside the hypothesis of the partial theorems no chunk offends, so no trigger is consulted *)
Theorem c20_quiet_no_failures : forall ev ops,
  c20_hist_quiet ev empty_st ops = true -> first_failure ev ops = None.
Proof. exact quiet_no_failures. Qed.
Print Assumptions c20_quiet_no_failures.

(* each witness fails, and every offending chunk is explained by the finding it is the witness of *)
Theorem c20_witness_triggers :
  first_failure g_ev0 g_w0 = Some (Some 0%N) /\
  first_failure g_ev g_w1 = Some (Some 1%N) /\
  first_failure g_ev g_w2 = Some (Some 2%N) /\
  first_failure g_ev3 g_w3 = Some (Some 3%N) /\
  first_failure g_ev g_w4 = Some (Some 4%N).
Proof. exact witness_triggers. Qed.
Print Assumptions c20_witness_triggers.

(* a different violation does not hide behind a trigger: the k=1 witness plus an unrelated live delete
   (chunk 7, shared by two plain files) is unclassified *)
Theorem c20_unexplained_not_classified : first_failure g_ev g_w1x = Some None.
Proof. exact unexplained_not_classified. Qed.
Print Assumptions c20_unexplained_not_classified.

(* hard links and manifests as such trigger nothing: the mount's link / write-through / unlink sequence and
   an UpdateEntry that wraps chunks into a manifest satisfy the client assumptions, lie outside c20_quiet
   and hold the property at every step *)
Theorem c20_clean_outside_quiet :
  (assumptions_hold g_ev g_mount = true /\ c20_hist_quiet g_ev empty_st g_mount = false /\
   first_failure g_ev g_mount = None) /\
  (assumptions_hold g_ev0 g_wrapu = true /\ c20_hist_quiet g_ev0 empty_st g_wrapu = false /\
   first_failure g_ev0 g_wrapu = None).
Proof. exact clean_outside_quiet. Qed.
Print Assumptions c20_clean_outside_quiet.

(* non-vacuity: overwrites with retained, covered and fresh chunks, an append, a rename onto an
   existing file, deletes with and without data, a recursive delete — all inside the hypothesis of
   the partial theorems; the chunk ids scheduled at every step are listed *)
Example c20_example :
  c20_hist_quiet g_ev empty_st g_clean = true /\
  map sched_of (run g_ev empty_st g_clean) =
    [[]; []; [2]; [4; 5]; []; []; [1; 6]; []; []; [9]; [8]]%N /\
  final g_ev empty_st g_clean = empty_st.
Proof. exact clean_is_quiet. Qed.
Print Assumptions c20_example.
