(* C32 — Volume server range requests return exactly the requested bytes.
   Only statements closed by [exact]; proofs live in proof/HttpRangeProofs.v and
   proof/HttpRangeParseProofs.v.  The model (model/HttpRange.v) is the code as it is.

   FULL statement (c32_exact): for every stored blob, every Range header and every
   Accept-Encoding, the answer is 206 with exactly the requested bytes (the
   satisfiable specs, in order; multipart when several, completely framed and with
   a Content-Length equal to what is sent), 416 only when nothing is satisfiable
   (or a spec is invalid, RFC 7233 4.4), or 200 with the complete content; gzip
   only when accepted; a blob whose stored gzip stream is corrupt is not served
   as if it were content.
   The code violates it in eight ways (known findings k=0..7): each has a
   [_refuted] witness below, and the statement is proved under the decidable
   hypothesis that the input is outside the trigger sets ([_partial]).
   Header text: a [string] is a sequence of BYTES; white space is every
   unicode.IsSpace rune in UTF-8, as strings.TrimSpace sees it.  The statements
   about structured headers cover EVERY spelling parseRange accepts ([renders]);
   numbers are unbounded (those above int64 max are finding 6).
   Hypothesis [mp_fits]: the multipart framing arithmetic (sum of the range
   lengths + the size of the part headers) stays below 2^63. *)
From Coq Require Import List NArith ZArith Bool String.
From SW Require Import model.HttpRange proof.HttpRangeProofs proof.HttpRangeParseProofs.
Import ListNotations.
Local Open Scope Z_scope.

(* ---- the parser ---- *)

(* parseRange on ANY spelling of a list of specs (white space of every kind around the
   elements and the '-', '+', leading zeros, empty elements) equals the structured parser *)
Theorem c32_parser_agrees : forall sps hdr size, 0 <= size <= int64_max ->
  renders sps hdr -> parse_range hdr size = parse_specs sps size.
Proof. exact renders_parse. Qed.
Print Assumptions c32_parser_agrees.

Theorem c32_parser_agrees_items : forall its size, 0 <= size <= int64_max -> items_ok its = true ->
  parse_range (render_header its) size = parse_specs (specs_of its) size.
Proof. exact parse_range_render. Qed.
Print Assumptions c32_parser_agrees_items.

(* in particular on the canonical text, for numbers of any size *)
Theorem c32_parser_agrees_print : forall sps size, 0 <= size <= int64_max ->
  parse_range (print_header sps) size = parse_specs sps size.
Proof. exact parse_range_print. Qed.
Print Assumptions c32_parser_agrees_print.

(* "bytes=a-b", a <= b, a < size  ==>  [(a, min(b,size-1)-a+1)] *)
Theorem c32_parse_closed : forall a b size, 0 <= size <= int64_max -> Z.of_N b <= int64_max ->
  (a <= b)%N -> Z.of_N a < size ->
  parse_range (print_header [RClosed a b]) size = Some [(Z.of_N a, Z.min (Z.of_N b) (size - 1) - Z.of_N a + 1)].
Proof. exact parse_range_closed. Qed.
Print Assumptions c32_parse_closed.

(* "bytes=a-", a < size  ==>  [(a, size-a)] *)
Theorem c32_parse_from : forall a size, 0 <= size <= int64_max -> Z.of_N a < size ->
  parse_range (print_header [RFrom a]) size = Some [(Z.of_N a, size - Z.of_N a)].
Proof. exact parse_range_from. Qed.
Print Assumptions c32_parse_from.

(* "bytes=-n"  ==>  the last min(n,size) bytes *)
Theorem c32_parse_suffix : forall n size, 0 <= size <= int64_max -> Z.of_N n <= int64_max ->
  parse_range (print_header [RSuffix n]) size = Some [(size - Z.min (Z.of_N n) size, Z.min (Z.of_N n) size)].
Proof. exact parse_range_suffix. Qed.
Print Assumptions c32_parse_suffix.

(* "bytes=a-b" with a > size is an error (416), whatever b *)
Theorem c32_parse_beyond : forall a b size, 0 <= size <= int64_max -> size < Z.of_N a ->
  parse_range (print_header [RClosed a b]) size = None.
Proof. exact parse_range_beyond. Qed.
Print Assumptions c32_parse_beyond.

(* a number above int64 max anywhere is an error (416) *)
Theorem c32_parse_big : forall sp size, 0 <= size <= int64_max -> spec_big sp = true ->
  parse_range (print_header [sp]) size = None.
Proof. exact parse_range_big. Qed.
Print Assumptions c32_parse_big.

(* whenever the RFC says a spec selects bytes, the arithmetic of parseRange computes exactly those bytes ... *)
Theorem c32_parse_spec_is_reference : forall sp size r, ref_spec sp size = Some r -> parse_spec sp size = Some r.
Proof. exact parse_spec_ref. Qed.
Print Assumptions c32_parse_spec_is_reference.
(* ... and so does parseRange itself when the numbers fit int64 (k=6 otherwise) *)
Theorem c32_parse_spec64_partial : forall sp size r, spec_big sp = false ->
  ref_spec sp size = Some r -> parse_spec64 sp size = Some r.
Proof. exact parse_spec64_ref. Qed.
Print Assumptions c32_parse_spec64_partial.

(* the parser alone on every spelling: outside k=2,4,6 it returns exactly the RFC's ranges, or
   refuses only what may be refused *)
Theorem c32_parse_only_partial : forall its size, 0 <= size <= int64_max -> items_ok its = true ->
  trig_parse_specs (specs_of its) size = None ->
  parse_spec_ok (specs_of its) size (parse_range (render_header its) size) = true.
Proof. exact parse_only_partial. Qed.
Print Assumptions c32_parse_only_partial.

(* on any byte string: every returned range has a negative length (finding 3) or lies inside the blob *)
Theorem c32_parser_sound : forall hdr size rs, 0 <= size <= int64_max ->
  parse_range hdr size = Some rs -> forall r, In r rs ->
  snd r < 0 \/ (0 <= fst r /\ 0 <= snd r /\ fst r + snd r <= size).
Proof. exact parse_range_sound. Qed.
Print Assumptions c32_parser_sound.

Theorem c32_parse_raw_partial : forall hdr size, 0 <= size <= int64_max ->
  trig_parse_raw (parse_range hdr size) = None ->
  parse_raw_ok size (parse_range hdr size) = true.
Proof. exact parse_raw_partial. Qed.
Print Assumptions c32_parse_raw_partial.

(* ---- c32_exact on structured headers, every spelling (through the text parser) ---- *)

Theorem c32_exact_partial : forall d its enc ct, blen d <= int64_max -> items_ok its = true ->
  mp_fits (blen d) (slen ct) (ref_ranges (specs_of its) (blen d)) = true ->
  trig_specs (specs_of its) (blen d) = None ->
  spec_ok d (specs_of its) (process_range (render_header its) d enc ct) = true.
Proof. exact exact_partial. Qed.
Print Assumptions c32_exact_partial.

Theorem c32_exact_partial_print : forall d sps enc ct, blen d <= int64_max ->
  mp_fits (blen d) (slen ct) (ref_ranges sps (blen d)) = true ->
  trig_specs sps (blen d) = None ->
  spec_ok d sps (process_range (print_header sps) d enc ct) = true.
Proof. exact exact_partial_print. Qed.
Print Assumptions c32_exact_partial_print.

(* k=0 *)
Theorem c32_exact_refuted_empty_list :
  spec_ok abcdef [] (process_range (print_header []) abcdef false "") = false /\
  print_header [] = "bytes="%string /\
  process_range "bytes=" abcdef false "" = r_nothing.
Proof. exact refuted_empty_list. Qed.
Print Assumptions c32_exact_refuted_empty_list.

(* k=1 *)
Theorem c32_exact_refuted_oversize :
  spec_ok abcdef [RFrom 0; RFrom 0] (process_range (print_header [RFrom 0; RFrom 0]) abcdef false "") = false /\
  process_range "bytes=0-,0-" abcdef false "" = r_nothing.
Proof. exact refuted_oversize. Qed.
Print Assumptions c32_exact_refuted_oversize.

(* k=2 *)
Theorem c32_exact_refuted_zero_length :
  spec_ok abcdef [RFrom 6] (process_range (print_header [RFrom 6]) abcdef false "") = false /\
  process_range "bytes=6-" abcdef false "" =
    {| r_status := 206; r_ct := ""; r_cr := Some (6, 5, 6); r_cl := Some 0; r_body := Plain [] 0 |}.
Proof. exact refuted_zero_length. Qed.
Print Assumptions c32_exact_refuted_zero_length.

(* k=4 *)
Theorem c32_exact_refuted_mixed :
  spec_ok abcdef [RClosed 0 1; RClosed 9 10] (process_range (print_header [RClosed 0 1; RClosed 9 10]) abcdef false "") = false /\
  r_status (process_range "bytes=0-1,9-10" abcdef false "") = 416%N /\
  ref_ranges [RClosed 0 1; RClosed 9 10] (blen abcdef) = [(0, 2)].
Proof. exact refuted_mixed. Qed.
Print Assumptions c32_exact_refuted_mixed.

(* k=6 *)
Theorem c32_exact_refuted_big_number :
  spec_ok abcdef [RClosed 0 9223372036854775808]
    (process_range (print_header [RClosed 0 9223372036854775808]) abcdef false "") = false /\
  print_header [RClosed 0 9223372036854775808] = "bytes=0-9223372036854775808"%string /\
  process_range "bytes=0-9223372036854775808" abcdef false "" = resp_416 3 /\
  ref_ranges [RClosed 0 9223372036854775808] (blen abcdef) = [(0, 6)] /\
  ref_spec (RClosed 0 9223372036854775808) 6 = Some (0, 6) /\
  parse_spec64 (RClosed 0 9223372036854775808) 6 = None.
Proof. exact refuted_big_number. Qed.
Print Assumptions c32_exact_refuted_big_number.

(* ---- c32_exact on arbitrary header bytes: what is sent is what the response says ---- *)

Theorem c32_raw_consistent_partial : forall d hdr enc ct, blen d <= int64_max ->
  mp_fits_hdr hdr d ct = true ->
  trig_parsed (parse_range hdr (blen d)) (blen d) = None ->
  self_consistent d (process_range hdr d enc ct) = true.
Proof. exact raw_consistent_partial. Qed.
Print Assumptions c32_raw_consistent_partial.

(* k=3 *)
Theorem c32_raw_consistent_refuted_negative_suffix :
  self_consistent abcdef (process_range "bytes=--2" abcdef false "") = false /\
  process_range "bytes=--2" abcdef false "" =
    {| r_status := 206; r_ct := ""; r_cr := Some (8, 5, 6); r_cl := Some (-2); r_body := Plain [] 0 |}.
Proof. exact refuted_negative_suffix. Qed.
Print Assumptions c32_raw_consistent_refuted_negative_suffix.

(* k=3 inside a multi-range request (int64 wrap): negative Content-Length and nothing sent, or a
   part header followed by "Internal Error" *)
Theorem c32_raw_consistent_refuted_negative_suffix_multi :
  self_consistent abcdef (process_range "bytes=--9223372036854775808,0-0" abcdef false "") = false /\
  process_range "bytes=--9223372036854775808,0-0" abcdef false "" =
    {| r_status := 206; r_ct := "multipart/byteranges"; r_cr := None; r_cl := Some (-9223372036854775498);
       r_body := Multipart "" [] 0 0 |} /\
  process_range "bytes=--9223372036854775808,--9223372036854775808" abcdef false "" =
    {| r_status := 206; r_ct := "multipart/byteranges"; r_cr := None; r_cl := Some 328;
       r_body := Multipart "" [] 1 144 |}.
Proof. exact refuted_negative_suffix_multi. Qed.
Print Assumptions c32_raw_consistent_refuted_negative_suffix_multi.

(* trigger 3 is not wider than the finding *)
Theorem c32_trigger3_narrow :
  trig_parsed (parse_range "bytes=--2,0-1" 6) 6 = None /\
  r_status (process_range "bytes=--2,0-1" abcdef false "") = 416%N /\
  trig_parsed (parse_range "bytes=--2,0-,0-" 6) 6 = Some 1%N.
Proof. exact trigger3_narrow. Qed.
Print Assumptions c32_trigger3_narrow.

(* no Range header: 200 with the complete content; HEAD: 200, Content-Length, no body *)
Theorem c32_no_range_full : forall d enc ct, full_200 d (process_range "" d enc ct) = true.
Proof. exact no_range_full. Qed.
Print Assumptions c32_no_range_full.
Theorem c32_head_full : forall hdr d enc ct, head_ok d (write_response_content true hdr d enc ct) = true.
Proof. exact head_full. Qed.
Print Assumptions c32_head_full.

(* ---- gzip ---- *)

(* the bytes served are the stored gzip stream exactly when Content-Encoding: gzip is set,
   otherwise the decompressed content *)
Theorem c32_representation : forall s ae,
  fst (negotiate s ae) = representation s (snd (negotiate s ae)).
Proof. exact negotiate_representation. Qed.
Print Assumptions c32_representation.

Theorem c32_gzip_partial : forall s ae, trig_gzip s ae = false ->
  gzip_ok s ae (snd (negotiate s ae)) = true.
Proof. exact gzip_partial. Qed.
Print Assumptions c32_gzip_partial.

(* k=5 *)
Theorem c32_gzip_refuted :
  snd (negotiate gz_stub "gzip;q=0") = true /\ gzip_ok gz_stub "gzip;q=0" (snd (negotiate gz_stub "gzip;q=0")) = false.
Proof. exact refuted_gzip_q0. Qed.
Print Assumptions c32_gzip_refuted.

Theorem c32_gzip_needs_stored_gzip : forall s ae, snd (negotiate s ae) = true ->
  st_flag s = true /\ is_gzipped (st_data s) = true /\ accept_has_gzip ae = true.
Proof. exact gzip_needs_flag. Qed.
Print Assumptions c32_gzip_needs_stored_gzip.

(* a stored stream that has to be decompressed decompresses without error, unless k=7 *)
Theorem c32_corrupt_partial : forall s ae, trig_corrupt s ae = false ->
  rep_ok s (snd (negotiate s ae)) = true.
Proof. exact corrupt_partial. Qed.
Print Assumptions c32_corrupt_partial.

(* k=7 *)
Theorem c32_corrupt_refuted :
  rep_ok gz_corrupt (f_gzip (get_or_head false false gz_corrupt "" "")) = false /\
  f_resp (get_or_head false false gz_corrupt "" "") =
    {| r_status := 200; r_ct := ""; r_cr := None; r_cl := Some 0; r_body := Plain [] 0 |}.
Proof. exact refuted_corrupt. Qed.
Print Assumptions c32_corrupt_refuted.

(* ---- the whole GET ---- *)

Theorem c32_get_partial : forall s ae its dl,
  blen (st_data s) <= int64_max -> blen (st_plain s) <= int64_max -> items_ok its = true ->
  trig_gzip s ae = false -> trig_corrupt s ae = false ->
  let size := blen (fst (negotiate s ae)) in
  mp_fits size (slen (mime_of s)) (ref_ranges (specs_of its) size) = true ->
  trig_specs (specs_of its) size = None ->
  let fr := get_or_head false dl s ae (render_header its) in
  gzip_ok s ae (f_gzip fr) = true /\ rep_ok s (f_gzip fr) = true /\
  spec_ok (representation s (f_gzip fr)) (specs_of its) (f_resp fr) = true.
Proof. exact get_partial. Qed.
Print Assumptions c32_get_partial.

Theorem c32_get_raw_partial : forall s ae hdr dl,
  blen (st_data s) <= int64_max -> blen (st_plain s) <= int64_max ->
  trig_gzip s ae = false -> trig_corrupt s ae = false ->
  let d := fst (negotiate s ae) in
  mp_fits_hdr hdr d (mime_of s) = true ->
  trig_parsed (parse_range hdr (blen d)) (blen d) = None ->
  let fr := get_or_head false dl s ae hdr in
  gzip_ok s ae (f_gzip fr) = true /\ rep_ok s (f_gzip fr) = true /\
  self_consistent (representation s (f_gzip fr)) (f_resp fr) = true.
Proof. exact get_raw_partial. Qed.
Print Assumptions c32_get_raw_partial.

(* every answer carries Accept-Ranges: bytes and the Content-Disposition of the stored name *)
Theorem c32_common_headers : forall head dl s ae hdr,
  f_ar (get_or_head head dl s ae hdr) = true /\
  f_cdisp (get_or_head head dl s ae hdr) = content_disposition (st_name s) dl.
Proof. exact get_common_headers. Qed.
Print Assumptions c32_common_headers.

(* the witnesses are inside the trigger sets *)
Theorem c32_witnesses_triggered :
  trig_specs [] 6 = Some 0%N /\ trig_specs [RFrom 0; RFrom 0] 6 = Some 1%N /\
  trig_specs [RFrom 6] 6 = Some 2%N /\ trig_parsed (parse_range "bytes=--2" 6) 6 = Some 3%N /\
  trig_parsed (parse_range "bytes=--9223372036854775808,0-0" 6) 6 = Some 3%N /\
  trig_specs [RClosed 0 1; RClosed 9 10] 6 = Some 4%N /\
  trig_gzip gz_stub "gzip;q=0" = true /\
  trig_specs [RClosed 0 9223372036854775808] 6 = Some 6%N /\
  trig_parse_specs [RClosed 0 9223372036854775808] 6 = Some 6%N /\
  trig_corrupt gz_corrupt "" = true.
Proof. exact witnesses_triggered. Qed.
Print Assumptions c32_witnesses_triggered.

(* non-vacuity: inputs outside every trigger, with the responses they get *)
Example c32_example :
  let d := abcdef in
  let sps := [RClosed 0 1; RSuffix 2; RClosed 3 3] in
  specs_of example_items = sps /\ items_ok example_items = true /\
  trig_specs sps (blen d) = None /\ mp_fits (blen d) 0 (ref_ranges sps (blen d)) = true /\
  print_header sps = "bytes=0-1,-2,3-3"%string /\
  render_header example_items = append "bytes= +000" (append nbsp (append "-1, ,-02" (append nbsp " ,3-3"))) /\
  process_range (render_header example_items) d false "" =
    {| r_status := 206; r_ct := "multipart/byteranges"; r_cr := None; r_cl := Some 407;
       r_body := Multipart "" [((0, 1, 6), [97; 98]%N); ((4, 5, 6), [101; 102]%N); ((3, 3, 6), [100]%N)] 0 407 |}.
Proof. exact exact_example. Qed.
Print Assumptions c32_example.
Example c32_raw_example :
  let s := {| st_flag := false; st_data := abcdef; st_plain := abcdef; st_gzok := true;
              st_name := "a.txt"; st_mime := "text/x-test"; st_extmime := "text/plain; charset=utf-8" |} in
  let hdr := append "bytes=" (append nbsp " 1 - +02 ,,") in
  trig_gzip s "" = false /\ trig_corrupt s "" = false /\
  mp_fits_hdr hdr abcdef (mime_of s) = true /\
  trig_parsed (parse_range hdr 6) 6 = None /\
  get_or_head false true s "" hdr =
    {| f_resp := {| r_status := 206; r_ct := "text/x-test"; r_cr := Some (1, 2, 6); r_cl := Some 2;
                    r_body := Plain [98; 99]%N 0 |};
       f_gzip := false; f_cdisp := "attachment; filename=""a.txt"""; f_ar := true |} /\
  trig_parsed (parse_range "bytes=0-1,2--3" 6) 6 = None /\
  process_range "bytes=0-1,2--3" abcdef false "" = resp_416 3.
Proof. exact raw_example. Qed.
Print Assumptions c32_raw_example.
Example c32_gzip_example :
  let s := {| st_flag := true; st_data := [31; 139; 8; 0; 9]%N; st_plain := [104; 105]%N; st_gzok := true;
              st_name := ""; st_mime := ""; st_extmime := "" |} in
  trig_gzip s "deflate, gzip;q=0.5" = false /\
  f_resp (get_or_head false false s "deflate, gzip;q=0.5" "bytes=1-2") =
    {| r_status := 206; r_ct := ""; r_cr := Some (1, 2, 5); r_cl := Some 2; r_body := Plain [139; 8]%N 0 |} /\
  f_gzip (get_or_head false false s "deflate, gzip;q=0.5" "bytes=1-2") = true /\
  f_resp (get_or_head false false s "identity" "bytes=1-2") =
    {| r_status := 206; r_ct := ""; r_cr := Some (1, 1, 2); r_cl := Some 1; r_body := Plain [105]%N 0 |} /\
  f_gzip (get_or_head false false s "identity" "bytes=1-2") = false.
Proof. exact gzip_example. Qed.
Print Assumptions c32_gzip_example.
