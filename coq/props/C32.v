(* C32 — Volume server range requests return exactly the requested bytes.
   Only statements closed by [exact]; proofs live in proof/HttpRangeProofs.v and
   proof/HttpRangeParseProofs.v.  The model (model/HttpRange.v) is the code as it is.

   FULL statement (c32_exact): for every blob, every Range header and every
   Accept-Encoding, the answer is 206 with exactly the requested bytes (the
   satisfiable specs, in order; multipart when several), 416 only when nothing
   is satisfiable, or 200 with the complete content; gzip only when accepted.
   The code violates it in six ways (known findings k=0..5): each has a
   [_refuted] witness below, and the statement is proved under the decidable
   hypothesis that the input is outside the trigger sets ([_partial]). *)
From Coq Require Import List NArith ZArith Bool String.
From SW Require Import model.HttpRange proof.HttpRangeProofs proof.HttpRangeParseProofs.
Import ListNotations.
Local Open Scope Z_scope.

(* ---- the parser ---- *)

(* parseRange on the text of a header equals the structured parser on its specs *)
Theorem c32_parser_agrees : forall sps size, 0 <= size <= int64_max ->
  (forall sp, In sp sps -> spec_small sp) ->
  parse_range (print_header sps) size = parse_specs sps size.
Proof. exact parse_range_print. Qed.
Print Assumptions c32_parser_agrees.

(* "bytes=a-b", a <= b, a < size  ==>  [(a, min(b,size-1)-a+1)] *)
Theorem c32_parse_closed : forall a b size, 0 <= size <= int64_max -> Z.of_N b <= int64_max ->
  (a <= b)%N -> Z.of_N a < size ->
  parse_range (print_header [RClosed a b]) size = Some [(Z.of_N a, Z.min (Z.of_N b) (size - 1) - Z.of_N a + 1)].
Proof. exact parse_range_closed. Qed.
Print Assumptions c32_parse_closed.

(* "bytes=a-", a < size  ==>  [(a, size-a)] *)
Theorem c32_parse_from : forall a size, 0 <= size <= int64_max -> Z.of_N a < size ->
  parse_range (print_header [RFrom a]) size = Some [(Z.of_N a, size - Z.of_N a)].
Proof. exact parse_range_from. Qed.
Print Assumptions c32_parse_from.

(* "bytes=-n"  ==>  the last min(n,size) bytes *)
Theorem c32_parse_suffix : forall n size, 0 <= size <= int64_max -> Z.of_N n <= int64_max ->
  parse_range (print_header [RSuffix n]) size = Some [(size - Z.min (Z.of_N n) size, Z.min (Z.of_N n) size)].
Proof. exact parse_range_suffix. Qed.
Print Assumptions c32_parse_suffix.

(* "bytes=a-b" with a > size is an error (416) *)
Theorem c32_parse_beyond : forall a b size, 0 <= size <= int64_max ->
  Z.of_N a <= int64_max -> Z.of_N b <= int64_max -> size < Z.of_N a ->
  parse_range (print_header [RClosed a b]) size = None.
Proof. exact parse_range_beyond. Qed.
Print Assumptions c32_parse_beyond.

(* whenever the RFC says a spec selects bytes, parseRange computes exactly those bytes *)
Theorem c32_parse_spec_is_reference : forall sp size r, ref_spec sp size = Some r -> parse_spec sp size = Some r.
Proof. exact parse_spec_ref. Qed.
Print Assumptions c32_parse_spec_is_reference.

(* on ANY header text: every returned range has a negative length (finding 3) or lies inside the blob *)
Theorem c32_parser_sound : forall hdr size rs, 0 <= size <= int64_max ->
  parse_range hdr size = Some rs -> forall r, In r rs ->
  snd r < 0 \/ (0 <= fst r /\ 0 <= snd r /\ fst r + snd r <= size).
Proof. exact parse_range_sound. Qed.
Print Assumptions c32_parser_sound.

(* ---- c32_exact on structured headers (through the text parser) ---- *)

Theorem c32_exact_partial : forall d sps enc, blen d <= int64_max ->
  (forall sp, In sp sps -> spec_small sp) ->
  trig_specs sps (blen d) = None ->
  spec_ok d sps (process_range (print_header sps) d enc) = true.
Proof. exact exact_partial. Qed.
Print Assumptions c32_exact_partial.

(* k=0 *)
Theorem c32_exact_refuted_empty_list :
  spec_ok abcdef [] (process_range (print_header []) abcdef false) = false /\
  print_header [] = "bytes="%string /\
  process_range "bytes=" abcdef false = {| r_status := 200; r_cr := None; r_cl := None; r_body := Plain [] 0 |}.
Proof. exact refuted_empty_list. Qed.
Print Assumptions c32_exact_refuted_empty_list.

(* k=1 *)
Theorem c32_exact_refuted_oversize :
  spec_ok abcdef [RFrom 0; RFrom 0] (process_range (print_header [RFrom 0; RFrom 0]) abcdef false) = false /\
  process_range "bytes=0-,0-" abcdef false = {| r_status := 200; r_cr := None; r_cl := None; r_body := Plain [] 0 |}.
Proof. exact refuted_oversize. Qed.
Print Assumptions c32_exact_refuted_oversize.

(* k=2 *)
Theorem c32_exact_refuted_zero_length :
  spec_ok abcdef [RFrom 6] (process_range (print_header [RFrom 6]) abcdef false) = false /\
  process_range "bytes=6-" abcdef false =
    {| r_status := 206; r_cr := Some (6, 5, 6); r_cl := Some 0; r_body := Plain [] 0 |}.
Proof. exact refuted_zero_length. Qed.
Print Assumptions c32_exact_refuted_zero_length.

(* k=4 *)
Theorem c32_exact_refuted_mixed :
  spec_ok abcdef [RClosed 0 1; RClosed 9 10] (process_range (print_header [RClosed 0 1; RClosed 9 10]) abcdef false) = false /\
  r_status (process_range "bytes=0-1,9-10" abcdef false) = 416%N /\
  ref_ranges [RClosed 0 1; RClosed 9 10] (blen abcdef) = [(0, 2)].
Proof. exact refuted_mixed. Qed.
Print Assumptions c32_exact_refuted_mixed.

(* ---- c32_exact on arbitrary header text: what is sent is what the response says ---- *)

Theorem c32_raw_consistent_partial : forall d hdr enc, blen d <= int64_max ->
  trig_parsed (parse_range hdr (blen d)) (blen d) = None ->
  self_consistent d (process_range hdr d enc) = true.
Proof. exact raw_consistent_partial. Qed.
Print Assumptions c32_raw_consistent_partial.

(* k=3 *)
Theorem c32_raw_consistent_refuted_negative_suffix :
  self_consistent abcdef (process_range "bytes=--2" abcdef false) = false /\
  process_range "bytes=--2" abcdef false =
    {| r_status := 206; r_cr := Some (8, 5, 6); r_cl := Some (-2); r_body := Plain [] 0 |}.
Proof. exact refuted_negative_suffix. Qed.
Print Assumptions c32_raw_consistent_refuted_negative_suffix.

(* no Range header: 200 with the complete content; HEAD: 200, Content-Length, no body *)
Theorem c32_no_range_full : forall d enc, full_200 d (process_range "" d enc) = true.
Proof. exact no_range_full. Qed.
Print Assumptions c32_no_range_full.
Theorem c32_head_full : forall hdr d enc, head_ok d (write_response_content true hdr d enc) = true.
Proof. exact head_full. Qed.
Print Assumptions c32_head_full.

(* ---- gzip ---- *)

(* the bytes served are the stored gzip stream exactly when Content-Encoding: gzip is set,
   otherwise the decompressed content *)
Theorem c32_representation : forall s ae,
  fst (negotiate s ae) = representation s (snd (negotiate s ae)).
Proof. exact negotiate_representation. Qed.
Print Assumptions c32_representation.

Theorem c32_gzip_partial : forall s ae, trig_gzip s ae = false ->
  gzip_ok s ae (snd (negotiate s ae)) = true.
Proof. exact gzip_partial. Qed.
Print Assumptions c32_gzip_partial.

(* k=5 *)
Theorem c32_gzip_refuted :
  let s := {| st_flag := true; st_data := [31; 139; 8; 0]%N; st_plain := [] |} in
  snd (negotiate s "gzip;q=0") = true /\ gzip_ok s "gzip;q=0" (snd (negotiate s "gzip;q=0")) = false.
Proof. exact refuted_gzip_q0. Qed.
Print Assumptions c32_gzip_refuted.

Theorem c32_gzip_needs_stored_gzip : forall s ae, snd (negotiate s ae) = true ->
  st_flag s = true /\ is_gzipped (st_data s) = true /\ accept_has_gzip ae = true.
Proof. exact gzip_needs_flag. Qed.
Print Assumptions c32_gzip_needs_stored_gzip.

(* ---- the whole GET ---- *)

Theorem c32_get_partial : forall s ae sps,
  blen (st_data s) <= int64_max -> blen (st_plain s) <= int64_max ->
  (forall sp, In sp sps -> spec_small sp) ->
  trig_gzip s ae = false ->
  trig_specs sps (blen (fst (negotiate s ae))) = None ->
  let fr := get_or_head false s ae (print_header sps) in
  gzip_ok s ae (f_gzip fr) = true /\
  spec_ok (representation s (f_gzip fr)) sps (f_resp fr) = true.
Proof. exact get_partial. Qed.
Print Assumptions c32_get_partial.

Theorem c32_get_raw_partial : forall s ae hdr,
  blen (st_data s) <= int64_max -> blen (st_plain s) <= int64_max ->
  trig_gzip s ae = false ->
  trig_parsed (parse_range hdr (blen (fst (negotiate s ae)))) (blen (fst (negotiate s ae))) = None ->
  let fr := get_or_head false s ae hdr in
  gzip_ok s ae (f_gzip fr) = true /\
  self_consistent (representation s (f_gzip fr)) (f_resp fr) = true.
Proof. exact get_raw_partial. Qed.
Print Assumptions c32_get_raw_partial.

(* the witnesses are inside the trigger sets *)
Theorem c32_witnesses_triggered :
  trig_specs [] 6 = Some 0%N /\ trig_specs [RFrom 0; RFrom 0] 6 = Some 1%N /\
  trig_specs [RFrom 6] 6 = Some 2%N /\ trig_parsed (parse_range "bytes=--2" 6) 6 = Some 3%N /\
  trig_specs [RClosed 0 1; RClosed 9 10] 6 = Some 4%N /\
  trig_gzip {| st_flag := true; st_data := [31; 139; 8; 0]%N; st_plain := [] |} "gzip;q=0" = true.
Proof. exact witnesses_triggered. Qed.
Print Assumptions c32_witnesses_triggered.

(* non-vacuity: inputs outside every trigger, with the responses they get *)
Example c32_example :
  let d := abcdef in
  let sps := [RClosed 0 1; RSuffix 2; RClosed 3 3] in
  trig_specs sps (blen d) = None /\ print_header sps = "bytes=0-1,-2,3-3"%string /\
  process_range (print_header sps) d false =
    {| r_status := 206; r_cr := None; r_cl := Some 0;
       r_body := Multipart [((0, 1, 6), [97; 98]%N); ((4, 5, 6), [101; 102]%N); ((3, 3, 6), [100]%N)] |}.
Proof. exact exact_example. Qed.
Example c32_gzip_example :
  let s := {| st_flag := true; st_data := [31; 139; 8; 0; 9]%N; st_plain := [104; 105]%N |} in
  trig_gzip s "deflate, gzip;q=0.5" = false /\
  get_or_head false s "deflate, gzip;q=0.5" "bytes=1-2" =
    {| f_resp := {| r_status := 206; r_cr := Some (1, 2, 5); r_cl := Some 2; r_body := Plain [139; 8]%N 0 |}; f_gzip := true |} /\
  get_or_head false s "identity" "bytes=1-2" =
    {| f_resp := {| r_status := 206; r_cr := Some (1, 1, 2); r_cl := Some 1; r_body := Plain [105]%N 0 |}; f_gzip := false |}.
Proof. exact gzip_example. Qed.
