(* C14 — Vacuum rounds keep replicas consistent and writable.
   Only statements closed by [exact]; proofs live in proof/VacuumProofs.v.

   A round ([vacuum_round], the loop body of Topology.vacuumOneVolumeLayout) is
   driven by [scripts]: what every replica's VacuumVolumeCheck / Compact / Commit
   RPC does (answer over/under the threshold, error, no answer before the master's
   timer; commit: ok, ok+IsReadOnly, error).  The master state is any state
   reachable by heartbeats / collector sweeps / disconnects ([run], model of C11). *)
From Coq Require Import List NArith Bool.
From SW Require Import model.TopoLayout model.Vacuum proof.TopoLayoutProofs proof.VacuumProofs.
Import ListNotations.
Local Open Scope N_scope.

(* Clause 2: no commit RPC reaches a replica unless EVERY compaction of the round
   (its own included) succeeded; such a replica has received the compact RPC and
   never receives a cleanup.  For every layout, script and outcome combination. *)
Theorem c14_commit_only_after_compact : forall c ns scs v locs l n,
  let r := vacuum_round c ns scs v locs l in
  got (r_log r) v n RCommit = true ->
  let vac := fst (check_phase scs v locs) in
  In n vac /\ compact_ok scs v vac = true /\ is_cp_ok (sget scs v n) = true /\
  got (r_log r) v n RCompact = true /\ got (r_log r) v n RCleanup = false.
Proof. exact commit_only_after_compact. Qed.
Print Assumptions c14_commit_only_after_compact.

(* ... and the same for a whole pass over a layout (one round per volume id). *)
Theorem c14_layout_commit_only_after_compact : forall c ns scs l v n,
  got (r_log (vacuum_layout c ns scs l)) v n RCommit = true ->
  exists locs l', In (v, locs) (l_loc l) /\
    let r := vacuum_round c ns scs v locs l' in
    let vac := fst (check_phase scs v locs) in
    In n vac /\ compact_ok scs v vac = true /\ is_cp_ok (sget scs v n) = true /\
    got (r_log r) v n RCompact = true /\ got (r_log r) v n RCleanup = false.
Proof. exact layout_commit_only_after_compact. Qed.
Print Assumptions c14_layout_commit_only_after_compact.

(* Clause 1: replicas with the same live content keep the same live content,
   whatever subset of them commits — GIVEN that compaction preserves the live
   content (property C04; an explicit hypothesis here, not an axiom).  The commit
   loop is sequential and not atomic (see c14_commit_not_atomic): replicas may end
   with different files (compact revisions), never with different live content. *)
Theorem c14_same_content : forall (content live_t : Type) (live : content -> live_t)
  (compacted : content -> content),
  (forall x, live (compacted x) = live x) ->
  forall log scs v (before : N -> content) n m,
    live (before n) = live (before m) ->
    live (content_after content compacted log scs v before n) =
    live (content_after content compacted log scs v before m).
Proof. exact same_content. Qed.
Print Assumptions c14_same_content.

Theorem c14_commit_not_atomic :
  let s := run cfg001 init [EFull 1 [vi 1 10 false]; EFull 2 [vi 1 10 false]] in
  let scs := [(1, [(1, ok_script); (2, {| sc_ck := CkOver; sc_cp := CpOk; sc_cm := CmErr |})])] in
  let r := round_of cfg001 s scs 1 in
  committed (r_log r) scs 1 1 = true /\ committed (r_log r) scs 1 2 = false /\
  log_of (r_log r) 1 2 = [RCheck; RCompact; RCommit] /\ writable_after cfg001 s scs 1 = false.
Proof. exact commit_not_atomic_witness. Qed.
Print Assumptions c14_commit_not_atomic.

(* Clause 3 at full strength ([writable_iff c]: on every reachable master state
   whose writable set agrees with the criterion for v, it still agrees after a
   round on v) does NOT hold for the code.
   Finding 0: a round that reached the compact phase and did not end in a clean
   commit leaves a healthy volume out of writables. *)
Theorem c14_writable_iff_refuted_stuck : exists c, 1 <= c_copy c /\ ~ writable_iff c.
Proof. exact (ex_intro _ cfg000 (conj (N.le_refl 1) writable_iff_refuted_stuck)). Qed.
Print Assumptions c14_writable_iff_refuted_stuck.

(* Finding 1: a clean commit re-admits the volume although a replica is
   read-only (or over the size limit, c14_readmit_oversized). *)
Theorem c14_writable_iff_refuted_readmit : exists c, 1 <= c_copy c /\ ~ writable_iff c.
Proof. exact (ex_intro _ cfg001 (conj (N.lt_le_incl 1 2 eq_refl) writable_iff_refuted_readmit)). Qed.
Print Assumptions c14_writable_iff_refuted_readmit.

Theorem c14_readmit_oversized :
  let s := run cfg000 init [EFull 1 [vi 1 10 false]; EFull 1 [vi 1 150 false]; ECollect] in
  writable s 1 = false /\ crit cfg000 (s_nodes s) 1 = false /\
  writable_after cfg000 s [(1, [(1, ok_script)])] 1 = true.
Proof. exact readmit_oversized_witness. Qed.
Print Assumptions c14_readmit_oversized.

(* Outside both triggers the clause holds: the round leaves the volume writable
   exactly when the criterion holds. *)
Theorem c14_writable_iff_partial : forall c, 1 <= c_copy c ->
  forall es, wf_history es -> forall scs v,
    let s := run c init es in
    trigger_stuck scs (s_lay s) v = false ->
    trigger_readmit c (s_nodes s) scs (s_lay s) v = false ->
    writable s v = crit c (s_nodes s) v -> writable_after c s scs v = crit c (s_nodes s) v.
Proof. exact writable_iff_partial. Qed.
Print Assumptions c14_writable_iff_partial.

(* non-vacuity: a clean round on a healthy two-replica volume is outside both
   triggers, keeps the volume writable and commits on both replicas *)
Example c14_example :
  let es := [EFull 1 [vi 1 10 false]; EFull 2 [vi 1 10 false]] in
  let s := run cfg001 init es in
  let scs := [(1, [(1, ok_script); (2, ok_script)])] in
  wf_history es /\ trigger_stuck scs (s_lay s) 1 = false /\
  trigger_readmit cfg001 (s_nodes s) scs (s_lay s) 1 = false /\
  writable s 1 = true /\ crit cfg001 (s_nodes s) 1 = true /\ writable_after cfg001 s scs 1 = true /\
  log_of (r_log (round_of cfg001 s scs 1)) 1 2 = [RCheck; RCompact; RCommit].
Proof. exact clean_round_example. Qed.
