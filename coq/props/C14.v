(* C14 — Vacuum rounds keep replicas consistent and writable.
   Only statements closed by [exact]; proofs live in proof/VacuumProofs.v.

   A round ([vacuum_round], the loop body of Topology.vacuumOneVolumeLayout) is
   driven by [scripts]: what every replica's VacuumVolumeCheck / Compact / Commit
   RPC does (answer over/under the threshold, error, no answer before the master's
   timer, nobody listening; commit: ok, ok+IsReadOnly, error, never answers) and by
   the events the master processes while the replicas compact ([mid]).  The master
   state is any state reachable by heartbeats / collector sweeps / disconnects
   ([run], model of C11).  [round_of] is a round without master-side events. *)
From Coq Require Import List NArith Bool.
From SW Require Import model.TopoLayout model.Vacuum proof.TopoLayoutProofs proof.VacuumProofs.
Import ListNotations.
Local Open Scope N_scope.

(* Clause 2: no commit RPC reaches a replica unless EVERY compaction of the round
   (its own included) succeeded; such a replica has received the compact RPC and
   never receives a cleanup.  For every master state, script, outcome combination
   and every sequence of master-side events during the round. *)
Theorem c14_commit_only_after_compact : forall c s scs mid v locs n,
  let r := vacuum_round c s scs mid v locs in
  got (r_log r) v n RCommit = true ->
  let vac := fst (check_phase scs v locs) in
  In n vac /\ compact_ok scs v vac = true /\ is_cp_ok (sget scs v n) = true /\
  got (r_log r) v n RCompact = true /\ got (r_log r) v n RCleanup = false.
Proof. exact commit_only_after_compact. Qed.
Print Assumptions c14_commit_only_after_compact.

(* ... and the same for a whole pass over a layout (one round per volume id). *)
Theorem c14_layout_commit_only_after_compact : forall c scs mids s v n,
  got (q_log (vacuum_layout c scs mids s)) v n RCommit = true ->
  exists locs s', In (v, locs) (l_loc (s_lay s)) /\
    let r := vacuum_round c s' scs (mids v) v locs in
    let vac := fst (check_phase scs v locs) in
    In n vac /\ compact_ok scs v vac = true /\ is_cp_ok (sget scs v n) = true /\
    got (r_log r) v n RCompact = true /\ got (r_log r) v n RCleanup = false.
Proof. exact layout_commit_only_after_compact. Qed.
Print Assumptions c14_layout_commit_only_after_compact.

(* Clause 1: after a round (any state, scripts, events) replicas with the same
   live content keep the same live content, whatever subset of them commits, and a
   replica whose files were swapped had a successful compaction and no cleanup —
   GIVEN that compaction preserves the live content (property C04; an explicit
   hypothesis here, not an axiom).  The commit loop is sequential and not atomic
   (c14_commit_not_atomic): replicas may end with different files (compact
   revisions), never with different live content. *)
Theorem c14_same_content : forall (content live_t : Type) (live : content -> live_t)
  (compacted : content -> content),
  (forall x, live (compacted x) = live x) ->
  forall c s scs mid v locs (before : N -> content) n m,
    let log := r_log (vacuum_round c s scs mid v locs) in
    live (before n) = live (before m) ->
    live (content_after content compacted log scs v before n) =
    live (content_after content compacted log scs v before m) /\
    (committed log scs v n = true -> is_cp_ok (sget scs v n) = true /\ got log v n RCleanup = false).
Proof. exact same_content_round. Qed.
Print Assumptions c14_same_content.

Theorem c14_commit_not_atomic :
  let s := run cfg001 init [EFull 1 [vi 1 10 false]; EFull 2 [vi 1 10 false]] in
  let scs := [(1, [(1, ok_script); (2, sc CkOver CpOk CmErr)])] in
  let r := round_of cfg001 s scs 1 in
  committed (r_log r) scs 1 1 = true /\ committed (r_log r) scs 1 2 = false /\
  log_of (r_log r) 1 2 = [RCheck; RCompact; RCommit] /\ writable_after cfg001 s scs 1 = false.
Proof. exact commit_not_atomic_witness. Qed.
Print Assumptions c14_commit_not_atomic.

(* Clause 3.  A round that does not reach the compact phase (read-only volume,
   check error / timeout / dial failure, nobody over the threshold) changes nothing
   at all and sends nothing but check RPCs — on every state, with any events. *)
Theorem c14_no_compact_no_change : forall c s scs mid v,
  reaches_compact scs (s_lay s) v = false ->
  let r := vacuum_round c s scs mid v (loc (s_lay s) v) in
  r_st r = s /\ r_hung r = false /\ r_panic r = false /\
  (r_log r = [] \/ r_log r = check_log scs v (loc (s_lay s) v)).
Proof. exact no_compact_no_change. Qed.
Print Assumptions c14_no_compact_no_change.

(* A round touches only the writables: location list, readonlyVolumes and
   oversizedVolumes are as before (rounds without master-side events). *)
Theorem c14_round_frame : forall c s scs v,
  let r := round_of c s scs v in
  loc (r_lay r) v = loc (s_lay s) v /\ l_ro (r_lay r) = l_ro (s_lay s) /\ l_os (r_lay r) = l_os (s_lay s).
Proof. exact round_of_frame. Qed.
Print Assumptions c14_round_frame.

(* Clause 3 at full strength — on every reachable master state a round leaves the
   volume writable exactly when it was ([writable_unchanged]: the master that never
   vacuums keeps its writable set), or, in terms of the C11 criterion,
   [writable_iff] — does NOT hold for the code.
   Finding 0: a round that removed a writable volume from writables and did not end
   in a clean commit leaves it out.  On the witness the other triggers are false
   and the volume is healthy (writable = criterion = true before). *)
Theorem c14_writable_refuted_stuck :
  let s := run cfg000 init stuck_history in
  wf_history stuck_history /\
  trigger_stuck stuck_scripts (s_lay s) 1 = true /\
  trigger_readmit cfg000 (s_nodes s) stuck_scripts (s_lay s) 1 = false /\
  trigger_hang stuck_scripts (s_lay s) 1 = false /\
  writable s 1 = true /\ crit cfg000 (s_nodes s) 1 = true /\
  writable_after cfg000 s stuck_scripts 1 = false.
Proof. exact refuted_stuck_witness. Qed.
Print Assumptions c14_writable_refuted_stuck.

(* Finding 1: a clean commit makes a volume writable that was not and must not be
   (a replica is read-only; or over the size limit, c14_readmit_oversized); the
   other triggers are false on the witness. *)
Theorem c14_writable_refuted_readmit :
  let s := run cfg001 init readmit_history in
  wf_history readmit_history /\
  trigger_readmit cfg001 (s_nodes s) readmit_scripts (s_lay s) 1 = true /\
  trigger_stuck readmit_scripts (s_lay s) 1 = false /\
  trigger_hang readmit_scripts (s_lay s) 1 = false /\
  writable s 1 = false /\ crit cfg001 (s_nodes s) 1 = false /\
  writable_after cfg001 s readmit_scripts 1 = true.
Proof. exact refuted_readmit_witness. Qed.
Print Assumptions c14_writable_refuted_readmit.

Theorem c14_writable_iff_refuted_stuck : exists c, 1 <= c_copy c /\ ~ writable_iff c.
Proof. exact (ex_intro _ cfg000 (conj (N.le_refl 1) writable_iff_refuted_stuck)). Qed.
Print Assumptions c14_writable_iff_refuted_stuck.

Theorem c14_writable_iff_refuted_readmit : exists c, 1 <= c_copy c /\ ~ writable_iff c.
Proof. exact (ex_intro _ cfg001 (conj (N.lt_le_incl 1 2 eq_refl) writable_iff_refuted_readmit)). Qed.
Print Assumptions c14_writable_iff_refuted_readmit.

Theorem c14_writable_unchanged_refuted : ~ writable_unchanged cfg000 /\ ~ writable_unchanged cfg001.
Proof. exact writable_unchanged_refuted. Qed.
Print Assumptions c14_writable_unchanged_refuted.

Theorem c14_readmit_oversized :
  let s := run cfg000 init [EFull 1 [vi 1 10 false]; EFull 1 [vi 1 150 false]; ECollect] in
  writable s 1 = false /\ crit cfg000 (s_nodes s) 1 = false /\
  trigger_readmit cfg000 (s_nodes s) [(1, [(1, ok_script)])] (s_lay s) 1 = true /\
  writable_after cfg000 s [(1, [(1, ok_script)])] 1 = true.
Proof. exact readmit_oversized_witness. Qed.
Print Assumptions c14_readmit_oversized.

(* Outside the three triggers (each a decidable function of the scripts and the
   state before the round, per volume) the clause holds on every reachable state,
   WITHOUT any assumption about the state before: the volume is writable after the
   round exactly when it was before. *)
Theorem c14_writable_unchanged_partial : forall c, 1 <= c_copy c ->
  forall es, wf_history es -> forall scs v,
    let s := run c init es in
    trigger_stuck scs (s_lay s) v = false ->
    trigger_readmit c (s_nodes s) scs (s_lay s) v = false ->
    trigger_hang scs (s_lay s) v = false ->
    writable_after c s scs v = writable s v.
Proof. exact writable_unchanged_partial. Qed.
Print Assumptions c14_writable_unchanged_partial.

(* ... hence: exactly when the criterion holds, if it was so before. *)
Theorem c14_writable_iff_partial : forall c, 1 <= c_copy c ->
  forall es, wf_history es -> forall scs v,
    let s := run c init es in
    trigger_stuck scs (s_lay s) v = false ->
    trigger_readmit c (s_nodes s) scs (s_lay s) v = false ->
    trigger_hang scs (s_lay s) v = false ->
    writable s v = crit c (s_nodes s) v -> writable_after c s scs v = crit c (s_nodes s) v.
Proof. exact writable_iff_partial. Qed.
Print Assumptions c14_writable_iff_partial.

(* The triggers are exact: EVERY input inside one is a violation, so no other
   behaviour can hide in a trigger set. *)
Theorem c14_stuck_exact : forall c, 1 <= c_copy c -> forall es, wf_history es -> forall scs v,
  let s := run c init es in
  trigger_stuck scs (s_lay s) v = true ->
  writable s v = true /\ writable_after c s scs v = false /\ r_hung (round_of c s scs v) = false.
Proof. exact stuck_exact. Qed.
Print Assumptions c14_stuck_exact.

Theorem c14_readmit_exact : forall c, 1 <= c_copy c -> forall es, wf_history es -> forall scs v,
  let s := run c init es in
  trigger_readmit c (s_nodes s) scs (s_lay s) v = true ->
  writable s v = false /\ writable_after c s scs v = true.
Proof. exact readmit_exact. Qed.
Print Assumptions c14_readmit_exact.

(* Finding 2: the commit RPC has no timer.  A replica that never answers it blocks
   the round for ever with the volume out of writables, and every later call of
   Topology.Vacuum returns at once (the guard is never released). *)
Theorem c14_hang_exact : forall c, 1 <= c_copy c -> forall es, wf_history es -> forall scs v,
  let s := run c init es in
  trigger_hang scs (s_lay s) v = true ->
  r_hung (round_of c s scs v) = true /\ writable_after c s scs v = false.
Proof. exact hang_exact. Qed.
Print Assumptions c14_hang_exact.

Theorem c14_hung_blocks_later_passes : forall c q p, q_hung q = true -> q_panic q = false ->
  let q' := pass_step c q p in
  q_log q' = [] /\ q_hung q' = true /\ q_st q' = run c (q_st q) (p_pre p).
Proof. exact hung_blocks_later_passes. Qed.
Print Assumptions c14_hung_blocks_later_passes.

Theorem c14_hang_witness :
  let s := run cfg000 init stuck_history in
  let q1 := pass_step cfg000 (pstart s) {| p_pre := []; p_scs := hang_scripts; p_mid := [] |} in
  let q2 := pass_step cfg000 q1 {| p_pre := []; p_scs := [(1, [(1, ok_script)])]; p_mid := [] |} in
  trigger_hang hang_scripts (s_lay s) 1 = true /\
  q_hung q1 = true /\ log_of (q_log q1) 1 1 = [RCheck; RCompact; RCommit] /\ writable (q_st q1) 1 = false /\
  q_log q2 = [] /\ writable (q_st q2) 1 = false /\ crit cfg000 (s_nodes (q_st q2)) 1 = true.
Proof. exact hang_witness. Qed.
Print Assumptions c14_hang_witness.

(* Several rounds: whatever a first round did (finding 0 included), a later round
   on the same registered state that ends in a clean commit leaves a volume that
   meets the criterion writable — on any state. *)
Theorem c14_recovers_on_next_clean_round : forall c s scs1 scs2 v,
  crit_loc c (s_nodes s) (s_lay s) v = true ->
  full_success scs2 (s_lay s) v = true ->
  let r1 := round_of c s scs1 v in
  writable_after c (r_st r1) scs2 v = true.
Proof. exact recovers_on_next_clean_round. Qed.
Print Assumptions c14_recovers_on_next_clean_round.

(* Rounds are NOT atomic with respect to the master's state (no lock is held
   between removeFromWritable and the commit).
   Finding 3: the layout loses the volume's entry while a replica compacts ->
   SetVolumeAvailable dereferences nil: the master panics. *)
Theorem c14_panic_witness :
  let s := run cfg001 init [EFull 1 [vi 1 10 false]; EFull 2 [vi 1 10 false]] in
  let scs := [(1, [(1, ok_script); (2, sc CkUnder CpOk CmOk)])] in
  let r := vacuum_round cfg001 s scs panic_mid 1 (lookup s 1) in
  r_panic r = true /\ log_of (r_log r) 1 1 = [RCheck; RCompact; RCommit] /\ log_of (r_log r) 1 2 = [RCheck].
Proof. exact panic_witness. Qed.
Print Assumptions c14_panic_witness.

(* Finding 4: a replica disconnects while it compacts; the clean commit puts the
   unlinked DataNode back into the location list and makes the volume writable,
   while the master that never vacuumed ([u]) lists nobody. *)
Theorem c14_readd_unlinked_witness :
  let s := run cfg000 init stuck_history in
  let mid := [EDisconnect 1] in
  let r := vacuum_round cfg000 s [(1, [(1, ok_script)])] mid 1 (lookup s 1) in
  let u := run cfg000 s mid in
  r_panic r = false /\ lookup (r_st r) 1 = [1] /\ writable (r_st r) 1 = true /\ s_nodes (r_st r) = [] /\
  lookup u 1 = [] /\ writable u 1 = false.
Proof. exact readd_unlinked_witness. Qed.
Print Assumptions c14_readd_unlinked_witness.

(* non-vacuity: a clean round on a healthy two-replica volume is outside all
   triggers, keeps the volume writable and commits on both replicas *)
Example c14_example :
  let es := [EFull 1 [vi 1 10 false]; EFull 2 [vi 1 10 false]] in
  let s := run cfg001 init es in
  let scs := [(1, [(1, ok_script); (2, ok_script)])] in
  wf_history es /\ trigger_stuck scs (s_lay s) 1 = false /\
  trigger_readmit cfg001 (s_nodes s) scs (s_lay s) 1 = false /\ trigger_hang scs (s_lay s) 1 = false /\
  writable s 1 = true /\ crit cfg001 (s_nodes s) 1 = true /\ writable_after cfg001 s scs 1 = true /\
  log_of (r_log (round_of cfg001 s scs 1)) 1 2 = [RCheck; RCompact; RCommit].
Proof. exact clean_round_example. Qed.
Print Assumptions c14_example.

(* non-vacuity of c14_recovers_on_next_clean_round: finding 0, then a clean round *)
Example c14_recovers_example :
  let s := run cfg000 init stuck_history in
  let r1 := round_of cfg000 s stuck_scripts 1 in
  crit_loc cfg000 (s_nodes s) (s_lay s) 1 = true /\ full_success [(1, [(1, ok_script)])] (s_lay s) 1 = true /\
  writable s 1 = true /\ writable (r_st r1) 1 = false /\
  writable_after cfg000 (r_st r1) [(1, [(1, ok_script)])] 1 = true.
Proof. exact recovers_example. Qed.
Print Assumptions c14_recovers_example.
